#!/bin/bash
# Runs the repository's pinned test suite (same 13 modules and flags as /root/.vp/BASELINE.json)
# with the verif build tag OFF. Prints a PASS/FAIL summary; exit 0 iff every package passes.
set -u
export GOPROXY=off GOSUMDB=off GOTOOLCHAIN=local
mods="./api ./e2e ./modules/coinswap ./modules/farm ./modules/htlc ./modules/mt ./modules/nft ./modules/oracle ./modules/random ./modules/record ./modules/service ./modules/token ./simapp"
only="${1:-}"
fail=0
for m in $mods; do
  if [ -n "$only" ] && [ "$m" != "$only" ]; then continue; fi
  out=$(cd /repo/$m && go test -mod=mod -vet=off -count=1 -timeout 25m ./... 2>&1)
  rc=$?
  echo "$out" | grep -E "^(ok|FAIL|---|panic)" | sed "s#^#[$m] #"
  if [ $rc -ne 0 ]; then fail=1; echo "[$m] exit $rc"; echo "$out" | tail -30; fi
done
if [ $fail -eq 0 ]; then echo "BASELINE-OFF: all packages pass"; else echo "BASELINE-OFF: FAILURES"; fi
exit $fail
