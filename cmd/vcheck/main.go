// vcheck decides one property: parent mode fans out one child process per case, collects the
// children's result files, writes the evidence file and prints VIOLATION / KNOWN-FINDING lines.
package main

import (
	"encoding/json"
	"flag"
	"fmt"
	"os"
	"os/exec"
	"path/filepath"
	"runtime"
	"strconv"
	"sync"
	"time"

	"verif/internal/ev"
	"verif/internal/prop"
)

func main() {
	if len(os.Args) < 2 {
		fmt.Fprintln(os.Stderr, "usage: vcheck <Cxx> [--tier quick|thorough] [--seed n] [--replay file] | vcheck list")
		os.Exit(3)
	}
	id := os.Args[1]
	if id == "__replica" {
		prop.ReplicaMain(os.Args[2:])
		return
	}
	if id == "__c19prefix" {
		prop.RecordPrefixMain(os.Args[2:])
		return
	}
	if id == "list" {
		for _, i := range prop.IDs() {
			fmt.Println(i)
		}
		return
	}
	fs := flag.NewFlagSet("vcheck", flag.ExitOnError)
	tier := fs.String("tier", envOr("VERIF_TIER", "quick"), "quick|thorough")
	seed := fs.Int64("seed", envInt("VERIF_SEED", 1), "seed")
	child := fs.Int("case", -1, "child mode: run this case")
	out := fs.String("out", "", "child mode: result file")
	replay := fs.String("replay", "", "replay a witness file")
	only := fs.String("only", "", "parent: comma list of cases to run (debug)")
	par := fs.Int("par", runtime.NumCPU(), "parallel children")
	raceBin := fs.String("race-bin", "", "path of the -race build of this binary (thorough tiers that use it)")
	fs.Parse(os.Args[2:])
	spec := prop.Get(id)
	if spec == nil {
		fmt.Fprintf(os.Stderr, "unknown property %s\n", id)
		os.Exit(3)
	}
	if *tier != "quick" && *tier != "thorough" {
		*tier = "quick"
	}
	if *child >= 0 {
		run := ev.NewRun(id, *tier, *seed, *child)
		func() {
			defer func() {
				if rec := recover(); rec != nil {
					// a panic of the harness itself is never a verdict
					run.Inconc("harness panic in case %d: %v", *child, rec)
					fmt.Fprintf(os.Stderr, "harness panic: %v\n%s\n", rec, stack())
				}
			}()
			spec.Run(run, *child)
		}()
		run.Finish(*out)
		return
	}
	var cases []int
	if *replay != "" {
		bz, err := os.ReadFile(*replay)
		if err != nil {
			fmt.Fprintln(os.Stderr, err)
			os.Exit(3)
		}
		var w struct {
			Tier string `json:"tier"`
			Seed int64  `json:"seed"`
			Case int    `json:"case"`
		}
		if err := json.Unmarshal(bz, &w); err != nil {
			fmt.Fprintln(os.Stderr, err)
			os.Exit(3)
		}
		*tier, *seed = w.Tier, w.Seed
		cases = []int{w.Case}
	} else if *only != "" {
		for _, s := range splitComma(*only) {
			n, _ := strconv.Atoi(s)
			cases = append(cases, n)
		}
	} else {
		n := spec.Cases(*tier)
		for i := 0; i < n; i++ {
			cases = append(cases, i)
		}
	}
	raceSet := map[int]bool{}
	if spec.RaceCases != nil && *raceBin != "" {
		for _, c := range spec.RaceCases(*tier) {
			raceSet[c] = true
		}
	}
	agg := &ev.Aggregate{Property: id, Tier: *tier, Seed: *seed, Level: spec.Level, Rule: spec.Rule, Assume: spec.Assume, Start: time.Now(), RequireTotals: spec.RequireTotals}
	if *replay != "" || *only != "" {
		agg.RequireTotals = nil // a subset of the cases cannot be asked for the whole run's scenario coverage
	}
	tmp, err := os.MkdirTemp("", "vcheck-"+id+"-")
	if err != nil {
		fmt.Fprintln(os.Stderr, err)
		os.Exit(3)
	}
	defer os.RemoveAll(tmp)
	self, _ := os.Executable()
	var mu sync.Mutex
	var wg sync.WaitGroup
	sem := make(chan struct{}, *par)
	wd := 40 * time.Minute
	if *tier == "thorough" {
		wd = 3 * time.Hour
	}
	for _, c := range cases {
		wg.Add(1)
		sem <- struct{}{}
		go func(c int) {
			defer wg.Done()
			defer func() { <-sem }()
			bin := self
			if raceSet[c] {
				bin = *raceBin
			}
			of := filepath.Join(tmp, fmt.Sprintf("case-%d.json", c))
			lf := filepath.Join(tmp, fmt.Sprintf("case-%d.log", c))
			cmd := exec.Command(bin, id, "--tier", *tier, "--seed", fmt.Sprint(*seed), "--case", fmt.Sprint(c), "--out", of)
			cmd.Env = append(os.Environ(), "VERIF_CHILD_TMP="+tmp)
			if raceSet[c] {
				rl := filepath.Join(tmp, fmt.Sprintf("race-%d", c))
				cmd.Env = append(cmd.Env, "GORACE=halt_on_error=0 log_path="+rl, "VERIF_RACE_LOG="+rl)
			}
			lfh, _ := os.Create(lf)
			cmd.Stdout, cmd.Stderr = lfh, lfh
			done := make(chan error, 1)
			if err := cmd.Start(); err != nil {
				mu.Lock()
				agg.Dead = append(agg.Dead, fmt.Sprintf("case %d: cannot start: %v", c, err))
				mu.Unlock()
				return
			}
			go func() { done <- cmd.Wait() }()
			var werr error
			select {
			case werr = <-done:
			case <-time.After(wd):
				cmd.Process.Kill()
				werr = fmt.Errorf("watchdog (%s) fired", wd)
			}
			lfh.Close()
			bz, rerr := os.ReadFile(of)
			mu.Lock()
			defer mu.Unlock()
			if rerr != nil {
				tail := tailFile(lf, 3000)
				if spec.DeathKey != nil {
					if key, ok := spec.DeathKey(tail); ok {
						run := ev.NewRun(id, *tier, *seed, c)
						run.Violation(key, map[string]any{"log_tail": tail}, "child process of case %d died: %s", c, firstLine(tail))
						agg.Runs = append(agg.Runs, run)
						return
					}
				}
				agg.Dead = append(agg.Dead, fmt.Sprintf("case %d: child died without a result (%v): %s", c, werr, tail))
				return
			}
			var run ev.Run
			if err := json.Unmarshal(bz, &run); err != nil {
				agg.Dead = append(agg.Dead, fmt.Sprintf("case %d: unreadable result: %v", c, err))
				return
			}
			agg.Runs = append(agg.Runs, &run)
		}(c)
	}
	wg.Wait()
	os.Exit(agg.Emit())
}

func envOr(k, d string) string {
	if v := os.Getenv(k); v != "" {
		return v
	}
	return d
}

func envInt(k string, d int64) int64 {
	if v := os.Getenv(k); v != "" {
		if n, err := strconv.ParseInt(v, 10, 64); err == nil {
			return n
		}
	}
	return d
}

func splitComma(s string) []string {
	var out []string
	cur := ""
	for _, r := range s {
		if r == ',' {
			out = append(out, cur)
			cur = ""
		} else {
			cur += string(r)
		}
	}
	if cur != "" {
		out = append(out, cur)
	}
	return out
}

func tailFile(p string, n int) string {
	bz, err := os.ReadFile(p)
	if err != nil {
		return ""
	}
	if len(bz) > n {
		bz = bz[len(bz)-n:]
	}
	return string(bz)
}

func firstLine(s string) string {
	for i := 0; i < len(s); i++ {
		if s[i] == '\n' {
			return s[:i]
		}
	}
	return s
}

func stack() string {
	buf := make([]byte, 1<<16)
	return string(buf[:runtime.Stack(buf, false)])
}
