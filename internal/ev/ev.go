// Package ev carries verdicts and evidence from monitors to the check's exit code and
// to /verif/evidence/<id>.json.
package ev

import (
	"encoding/json"
	"fmt"
	"math/rand"
	"os"
	"path/filepath"
	"sort"
	"strings"
	"sync"
	"time"
)

// Violation is one observed breach of a property.
type Violation struct {
	Key    string `json:"key"`    // signature of the failing relation: <Cxx>:<module>:<relation>[:<call site>]
	Msg    string `json:"msg"`    // human readable, with the concrete numbers
	Detail any    `json:"detail"` // witness (ops, state)
	Case   int    `json:"case"`
	Seed   int64  `json:"seed"`
}

// Run collects what one child process (one case) observed.
type Run struct {
	// KeyMap, if set, renames or drops (keep == false) every violation key before it is recorded: a check that
	// borrows another property's director keeps only the relations that belong to its own statement.
	KeyMap func(key string) (newKey string, keep bool) `json:"-"`

	mu           sync.Mutex
	Property     string           `json:"property"`
	Tier         string           `json:"tier"`
	Seed         int64            `json:"seed"`
	Case         int              `json:"case"`
	Evaluations  int64            `json:"evaluations"`
	Classes      map[string]int64 `json:"classes"`
	Counters     map[string]int64 `json:"counters"`
	Samples      []any            `json:"samples"`
	sampleKinds  map[string]int
	Violations   []Violation `json:"violations"`
	Known        []Violation `json:"known"`
	Inconclusive []string    `json:"inconclusive"`
	WallS        float64     `json:"wall_s"`
	Notes        []string    `json:"notes"`
	Rng          *rand.Rand  `json:"-"`
	known        []KnownFinding
	start        time.Time
	seenViol     map[string]int
	Trail        []string `json:"trail,omitempty"` // last operations, for witnesses
}

// KnownFinding is an entry of /verif/known_findings.json.
type KnownFinding struct {
	Property  string `json:"property"`
	Key       string `json:"key"`
	Module    string `json:"module"`
	CallSite  string `json:"call_site"`
	WhatFails string `json:"what_fails"`
	Witness   any    `json:"witness,omitempty"`
}

type KnownFile struct {
	Findings []KnownFinding `json:"findings"`
	Fixed    []string       `json:"fixed"`
}

var VerifDir = func() string {
	if d := os.Getenv("VERIF_DIR"); d != "" {
		return d
	}
	return "/verif"
}()

func LoadKnown() []KnownFinding {
	bz, err := os.ReadFile(filepath.Join(VerifDir, "known_findings.json"))
	if err != nil {
		return nil
	}
	var kf KnownFile
	if err := json.Unmarshal(bz, &kf); err != nil {
		fmt.Fprintf(os.Stderr, "HARNESS-ERROR: known_findings.json: %v\n", err)
		os.Exit(3)
	}
	return kf.Findings
}

func caseSeed(seed int64, prop string, c int) int64 {
	h := int64(1469598103934665603)
	for _, b := range []byte(fmt.Sprintf("%d/%s/%d", seed, prop, c)) {
		h ^= int64(b)
		h *= 1099511628211
	}
	return h
}

func NewRun(prop, tier string, seed int64, c int) *Run {
	return &Run{
		Property: prop, Tier: tier, Seed: seed, Case: c,
		Classes: map[string]int64{}, Counters: map[string]int64{}, sampleKinds: map[string]int{},
		Rng: rand.New(rand.NewSource(caseSeed(seed, prop, c))), known: LoadKnown(), start: time.Now(),
		seenViol: map[string]int{},
	}
}

func (r *Run) Thorough() bool { return r.Tier == "thorough" }

// Eval counts n evaluations of a monitor relation.
func (r *Run) Eval(n int) { r.mu.Lock(); r.Evaluations += int64(n); r.mu.Unlock() }

// Class records one non-trivial case in the given class (scenario/magnitude/residue/outcome).
func (r *Run) Class(parts ...any) {
	k := fmt.Sprint(parts[0])
	for _, p := range parts[1:] {
		k += "|" + fmt.Sprint(p)
	}
	r.mu.Lock()
	r.Classes[k]++
	r.mu.Unlock()
}

func (r *Run) Count(name string, n int64) { r.mu.Lock(); r.Counters[name] += n; r.mu.Unlock() }

// Sample keeps up to 2 samples per kind.
func (r *Run) Sample(kind string, v any) {
	r.mu.Lock()
	defer r.mu.Unlock()
	if r.sampleKinds[kind] >= 2 {
		return
	}
	r.sampleKinds[kind]++
	r.Samples = append(r.Samples, map[string]any{"kind": kind, "case": v})
}

// Op appends to the trail of recent operations (kept short; included in witnesses).
func (r *Run) Op(f string, a ...any) {
	r.mu.Lock()
	r.Trail = append(r.Trail, fmt.Sprintf(f, a...))
	if len(r.Trail) > 60 {
		r.Trail = r.Trail[len(r.Trail)-60:]
	}
	r.mu.Unlock()
}

// Violation records a breach. If key matches a known finding it is recorded as known instead.
func (r *Run) Violation(key string, detail any, f string, a ...any) {
	if r.KeyMap != nil {
		nk, keep := r.KeyMap(key)
		if !keep {
			return
		}
		key = nk
	}
	r.mu.Lock()
	defer r.mu.Unlock()
	r.seenViol[key]++
	if r.seenViol[key] > 3 { // keep the first few witnesses per signature
		return
	}
	v := Violation{Key: key, Msg: fmt.Sprintf(f, a...), Detail: map[string]any{"detail": detail, "trail": append([]string{}, r.Trail...)}, Case: r.Case, Seed: r.Seed}
	for _, k := range r.known {
		if k.Property == r.Property && k.Key == key {
			r.Known = append(r.Known, v)
			return
		}
	}
	r.Violations = append(r.Violations, v)
}

func (r *Run) Inconc(f string, a ...any) {
	r.mu.Lock()
	r.Inconclusive = append(r.Inconclusive, fmt.Sprintf(f, a...))
	r.mu.Unlock()
}

func (r *Run) Note(f string, a ...any) {
	r.mu.Lock()
	if len(r.Notes) < 50 {
		r.Notes = append(r.Notes, fmt.Sprintf(f, a...))
	}
	r.mu.Unlock()
}

// Require marks the run inconclusive unless counter name reached min.
func (r *Run) Require(name string, min int64) {
	if r.Counters[name] < min {
		r.Inconc("required scenario class %q observed %d < %d times", name, r.Counters[name], min)
	}
}

func (r *Run) Finish(path string) {
	r.WallS = time.Since(r.start).Seconds()
	bz, err := json.Marshal(r)
	if err != nil {
		fmt.Fprintf(os.Stderr, "HARNESS-ERROR: marshal result: %v\n", err)
		os.Exit(3)
	}
	if err := os.WriteFile(path, bz, 0o644); err != nil {
		fmt.Fprintf(os.Stderr, "HARNESS-ERROR: %v\n", err)
		os.Exit(3)
	}
}

// Aggregate merges child results into the evidence file and decides the exit code.
type Aggregate struct {
	Property string
	Tier     string
	Seed     int64
	Level    string
	Rule     string
	Assume   []string
	Runs     []*Run
	Dead     []string // children that died / timed out: inconclusive
	Start    time.Time
	// RequireTotals: scenario classes that must have been observed at least this often over all cases together.
	RequireTotals map[string]int64
}

func (a *Aggregate) Emit() int {
	evals := int64(0)
	classes := map[string]int64{}
	counters := map[string]int64{}
	var samples []any
	var viol, known []Violation
	var inconc []string
	for _, r := range a.Runs {
		evals += r.Evaluations
		for k, v := range r.Classes {
			classes[k] += v
		}
		for k, v := range r.Counters {
			counters[k] += v
		}
		if len(samples) < 12 {
			for _, s := range r.Samples {
				if len(samples) < 12 {
					samples = append(samples, s)
				}
			}
		}
		viol = append(viol, r.Violations...)
		known = append(known, r.Known...)
		for _, s := range r.Inconclusive {
			inconc = append(inconc, fmt.Sprintf("case %d: %s", r.Case, s))
		}
	}
	inconc = append(inconc, a.Dead...)
	for name, min := range a.RequireTotals {
		if counters[name] < min {
			inconc = append(inconc, fmt.Sprintf("required scenario class %q observed %d < %d times over all cases", name, counters[name], min))
		}
	}
	ck := make([]string, 0, len(classes))
	for k := range classes {
		ck = append(ck, k)
	}
	sort.Strings(ck)
	if len(samples) == 0 {
		samples = append(samples, "none recorded")
	}
	cov := map[string]any{
		"evaluations":         evals,
		"distinct_nontrivial": len(classes),
		"rule":                a.Rule,
		"samples":             samples,
		"counters":            counters,
		"classes_observed":    ck,
		"cases":               len(a.Runs),
		"known_findings_hit":  dedupKeys(known),
		"inconclusive":        inconc,
	}
	out := map[string]any{
		"property_id": a.Property,
		"tier":        a.Tier,
		"seed":        a.Seed,
		"level":       a.Level,
		"coverage":    cov,
		"assumptions": a.Assume,
		"wall_s":      time.Since(a.Start).Seconds(),
		"violations":  len(viol),
	}
	bz, _ := json.MarshalIndent(out, "", " ")
	os.MkdirAll(filepath.Join(VerifDir, "evidence"), 0o755)
	if err := os.WriteFile(filepath.Join(VerifDir, "evidence", a.Property+".json"), bz, 0o644); err != nil {
		fmt.Fprintf(os.Stderr, "HARNESS-ERROR: %v\n", err)
		return 3
	}
	// known findings: one line per distinct key
	printed := map[string]bool{}
	kf := LoadKnown()
	for _, v := range known {
		if printed[v.Key] {
			continue
		}
		printed[v.Key] = true
		what := v.Msg
		for _, k := range kf {
			if k.Key == v.Key {
				what = k.WhatFails
			}
		}
		fmt.Printf("KNOWN-FINDING: property=%s %s [%s]\n", a.Property, what, v.Key)
	}
	code := 0
	if len(viol) > 0 {
		dir := filepath.Join(VerifDir, "replays", a.Property)
		os.MkdirAll(dir, 0o755)
		seen := map[string]bool{}
		for _, v := range viol {
			id := fmt.Sprintf("%d-%d-%s", v.Seed, v.Case, sanitize(v.Key))
			if seen[id] {
				continue
			}
			seen[id] = true
			p := filepath.Join(dir, id+".json")
			wb, _ := json.MarshalIndent(map[string]any{"property": a.Property, "tier": a.Tier, "seed": v.Seed, "case": v.Case, "key": v.Key, "msg": v.Msg, "detail": v.Detail}, "", " ")
			os.WriteFile(p, wb, 0o644)
			fmt.Printf("VIOLATION property=%s replay=%s\n", a.Property, p)
			fmt.Printf("  %s: %s\n", v.Key, v.Msg)
		}
		code = 1
	} else if len(inconc) > 0 {
		for _, s := range inconc {
			fmt.Printf("INCONCLUSIVE property=%s reason=%s\n", a.Property, s)
		}
		code = 2
	}
	fmt.Printf("%s tier=%s seed=%d cases=%d evaluations=%d distinct_nontrivial=%d violations=%d known=%d wall=%.1fs\n",
		a.Property, a.Tier, a.Seed, len(a.Runs), evals, len(classes), len(viol), len(dedupKeys(known)), time.Since(a.Start).Seconds())
	return code
}

func dedupKeys(vs []Violation) []string {
	m := map[string]bool{}
	for _, v := range vs {
		m[v.Key] = true
	}
	out := make([]string, 0, len(m))
	for k := range m {
		out = append(out, k)
	}
	sort.Strings(out)
	return out
}

func sanitize(s string) string {
	return strings.Map(func(r rune) rune {
		if (r >= 'a' && r <= 'z') || (r >= 'A' && r <= 'Z') || (r >= '0' && r <= '9') || r == '-' {
			return r
		}
		return '_'
	}, s)
}
