package prop

import (
	"encoding/hex"
	"fmt"
	"sort"
	"strings"

	sdkmath "cosmossdk.io/math"
	sdk "github.com/cosmos/cosmos-sdk/types"
	"github.com/cosmos/gogoproto/proto"

	cstypes "mods.irisnet.org/modules/coinswap/types"
	farmtypes "mods.irisnet.org/modules/farm/types"
	mttypes "mods.irisnet.org/modules/mt/types"
	nfttypes "mods.irisnet.org/modules/nft/types"
	tokenv1 "mods.irisnet.org/modules/token/types/v1"

	"verif/internal/ev"
	"verif/internal/rig"
)

// C12, behavioural half of "the re-imported chain answers identically": a fixed battery of ordinary messages, derived
// from the exported state, is carried out on a branch of the source state and on a branch of the imported state (same
// height, same time, nothing committed), message by message in the same order; every outcome (response bytes or error
// text) and every query answer afterwards must be identical. This reaches what no query shows: id counters, secondary
// indexes and tallies that only the next operation reads. Modules whose export documents dropped in-flight items
// (htlc, service, oracle, random) and record (listed finding: ids) are not probed.

var c12Probe = map[string]func(c *allChain, ctx sdk.Context) []sdk.Msg{}

func init() {
	c12Probe["mt"] = func(c *allChain, ctx sdk.Context) []sdk.Msg {
		k := c.r.K.MT
		var out []sdk.Msg
		stranger := c.r.Acc(9).Addr.String()
		for _, d := range k.GetDenoms(ctx) {
			// a new token (generated id), more of an existing one, a transfer and a burn by a holder
			out = append(out, &mttypes.MsgMintMT{DenomId: d.Id, Amount: 3, Data: []byte("probe"), Sender: d.Owner, Recipient: d.Owner})
			mts := k.GetMTs(ctx, d.Id)
			if len(mts) > 0 {
				m := mts[0]
				out = append(out, &mttypes.MsgMintMT{Id: m.GetID(), DenomId: d.Id, Amount: 1, Sender: d.Owner, Recipient: stranger},
					&mttypes.MsgTransferMT{Id: m.GetID(), DenomId: d.Id, Amount: 1, Sender: stranger, Recipient: d.Owner},
					&mttypes.MsgBurnMT{Id: m.GetID(), DenomId: d.Id, Amount: 1, Sender: d.Owner},
					&mttypes.MsgEditMT{Id: m.GetID(), DenomId: d.Id, Data: []byte("probe-edit"), Sender: d.Owner})
			}
			out = append(out, &mttypes.MsgMintMT{DenomId: d.Id, Amount: 1, Sender: d.Owner, Recipient: stranger})
		}
		out = append(out, &mttypes.MsgIssueDenom{Name: "probe-class", Data: []byte("p"), Sender: stranger},
			&mttypes.MsgIssueDenom{Name: "probe-class-2", Sender: stranger})
		return out
	}
	c12Probe["nft"] = func(c *allChain, ctx sdk.Context) []sdk.Msg {
		var out []sdk.Msg
		stranger := c.r.Acc(9).Addr.String()
		cols, _ := c.r.K.NFT.GetCollections(ctx)
		for _, col := range cols {
			d := col.Denom
			out = append(out, &nfttypes.MsgMintNFT{Id: "probetok", DenomId: d.Id, Name: "p", URI: "ipfs://p", Data: "{}", Sender: d.Creator, Recipient: d.Creator},
				&nfttypes.MsgMintNFT{Id: "probetok2", DenomId: d.Id, Name: "p", Sender: stranger, Recipient: stranger},
				&nfttypes.MsgEditNFT{Id: "probetok", DenomId: d.Id, Name: "q", URI: nfttypes.DoNotModify, Data: nfttypes.DoNotModify, UriHash: nfttypes.DoNotModify, Sender: d.Creator},
				&nfttypes.MsgTransferNFT{Id: "probetok", DenomId: d.Id, Name: nfttypes.DoNotModify, URI: nfttypes.DoNotModify, Data: nfttypes.DoNotModify, UriHash: nfttypes.DoNotModify, Sender: d.Creator, Recipient: stranger})
			if len(col.NFTs) > 0 {
				n := col.NFTs[0]
				out = append(out, &nfttypes.MsgTransferNFT{Id: n.Id, DenomId: d.Id, Name: nfttypes.DoNotModify, URI: nfttypes.DoNotModify, Data: nfttypes.DoNotModify, UriHash: nfttypes.DoNotModify, Sender: n.Owner, Recipient: stranger},
					&nfttypes.MsgBurnNFT{Id: n.Id, DenomId: d.Id, Sender: stranger})
			}
			out = append(out, &nfttypes.MsgTransferDenom{Id: d.Id, Sender: d.Creator, Recipient: stranger})
		}
		out = append(out, &nfttypes.MsgIssueDenom{Id: "probeclass", Name: "probe", Sender: stranger, Symbol: "prb", MintRestricted: true, UpdateRestricted: true})
		return out
	}
	c12Probe["token"] = func(c *allChain, ctx sdk.Context) []sdk.Msg {
		var out []sdk.Msg
		stranger := c.r.Acc(9).Addr.String()
		for _, ti := range c.r.K.Token.GetTokens(ctx, nil) {
			t, ok := ti.(*tokenv1.Token)
			if !ok {
				continue
			}
			one := sdk.NewCoin(t.MinUnit, sdkmath.OneInt())
			out = append(out, &tokenv1.MsgMintToken{Coin: one, Receiver: stranger, Owner: t.Owner},
				&tokenv1.MsgMintToken{Coin: sdk.NewCoin(t.Symbol, sdkmath.OneInt()), Receiver: stranger, Owner: t.Owner},
				&tokenv1.MsgBurnToken{Coin: one, Sender: stranger},
				&tokenv1.MsgEditToken{Symbol: t.Symbol, Name: "probe name", MaxSupply: t.MaxSupply, Mintable: "nil", Owner: t.Owner},
				&tokenv1.MsgTransferTokenOwner{SrcOwner: t.Owner, DstOwner: stranger, Symbol: t.Symbol})
		}
		out = append(out, &tokenv1.MsgIssueToken{Symbol: "probetoken", Name: "probe", Scale: 6, MinUnit: "uprobetoken", InitialSupply: 10, MaxSupply: 100, Mintable: true, Owner: stranger})
		return out
	}
	c12Probe["coinswap"] = func(c *allChain, ctx sdk.Context) []sdk.Msg {
		var out []sdk.Msg
		k := c.r.K.Coinswap
		std := k.GetStandardDenom(ctx)
		dl := ctx.BlockTime().Unix() + 1000
		a := c.r.Acc(8).Addr.String()
		for _, p := range k.GetAllPools(ctx) {
			bal := c.r.App.BankKeeper.GetAllBalances(ctx, sdk.MustAccAddressFromBech32(p.EscrowAddress))
			x, y := bal.AmountOf(std), bal.AmountOf(p.CounterpartyDenom)
			if !x.IsPositive() || !y.IsPositive() {
				out = append(out, &cstypes.MsgAddLiquidity{MaxToken: sdk.NewInt64Coin(p.CounterpartyDenom, 1000), ExactStandardAmt: sdkmath.NewInt(1000), MinLiquidity: sdkmath.OneInt(), Deadline: dl, Sender: a})
				continue
			}
			sell := x.QuoRaw(50).AddRaw(1)
			out = append(out,
				&cstypes.MsgSwapOrder{Input: cstypes.Input{Address: a, Coin: sdk.NewCoin(std, sell)}, Output: cstypes.Output{Address: a, Coin: sdk.NewCoin(p.CounterpartyDenom, sdkmath.OneInt())}, Deadline: dl},
				&cstypes.MsgSwapOrder{Input: cstypes.Input{Address: a, Coin: sdk.NewCoin(p.CounterpartyDenom, y)}, Output: cstypes.Output{Address: a, Coin: sdk.NewCoin(std, x.QuoRaw(100).AddRaw(1))}, Deadline: dl, IsBuyOrder: true},
				&cstypes.MsgAddLiquidity{MaxToken: sdk.NewCoin(p.CounterpartyDenom, y.MulRaw(2).AddRaw(2)), ExactStandardAmt: x.QuoRaw(10).AddRaw(1), MinLiquidity: sdkmath.OneInt(), Deadline: dl, Sender: a},
				&cstypes.MsgAddUnilateralLiquidity{CounterpartyDenom: p.CounterpartyDenom, ExactToken: sdk.NewCoin(std, x.QuoRaw(20).AddRaw(1)), MinLiquidity: sdkmath.ZeroInt(), Deadline: dl, Sender: a},
				&cstypes.MsgRemoveLiquidity{WithdrawLiquidity: sdk.NewCoin(p.LptDenom, sdkmath.NewInt(1)), MinToken: sdkmath.ZeroInt(), MinStandardAmt: sdkmath.ZeroInt(), Deadline: dl, Sender: a})
		}
		return out
	}
	c12Probe["farm"] = func(c *allChain, ctx sdk.Context) []sdk.Msg {
		var out []sdk.Msg
		k := c.r.K.Farm
		k.IteratorAllFarmInfo(ctx, func(f farmtypes.FarmInfo) {
			out = append(out, &farmtypes.MsgHarvest{PoolId: f.PoolId, Sender: f.Address},
				&farmtypes.MsgUnstake{PoolId: f.PoolId, Amount: sdk.NewCoin(lptOfPool(k.GetPool, ctx, f.PoolId), sdkmath.OneInt()), Sender: f.Address})
		})
		k.IteratorAllPools(ctx, func(p farmtypes.FarmPool) {
			for i := 5; i < 9; i++ {
				out = append(out, &farmtypes.MsgStake{PoolId: p.Id, Amount: sdk.NewCoin(p.TotalLptLocked.Denom, sdkmath.NewInt(7)), Sender: c.r.Acc(i).Addr.String()})
			}
			out = append(out, &farmtypes.MsgDestroyPool{PoolId: p.Id, Creator: p.Creator})
		})
		return out
	}
}

func lptOfPool(get func(sdk.Context, string) (farmtypes.FarmPool, bool), ctx sdk.Context, id string) string {
	if p, ok := get(ctx, id); ok {
		return p.TotalLptLocked.Denom
	}
	return "lpt-0"
}

func probeOutcome(rr rig.RouteResult) string {
	switch {
	// rejections are compared by class: some of the modules' error texts print Go pointers (token: "expected (0, {824687330496}]")
	case rr.Panicked:
		return "panic: " + errClass(fmt.Errorf("%s", rr.PanicVal))
	case rr.Err != nil:
		return "err: " + errClass(rr.Err)
	case rr.Resp == nil:
		return "ok"
	}
	var parts []string
	for _, a := range rr.Resp.MsgResponses {
		parts = append(parts, a.TypeUrl+"="+hex.EncodeToString(a.Value))
	}
	return "ok: " + hex.EncodeToString(rr.Resp.Data) + " " + strings.Join(parts, ",")
}

// c12Probes runs the battery of module m on branches of both states and compares outcomes and the queries afterwards.
func c12Probes(run *ev.Run, chain *allChain, b *rig.Rig, mode importMode, m string, ctxA, ctxB sdk.Context) {
	mk := c12Probe[m]
	if mk == nil {
		return
	}
	if mode.ZeroHeight && m == "farm" {
		return // listed finding: farm keeps absolute heights across a zero-height export
	}
	a := chain.r
	brA, _ := ctxA.CacheContext()
	brB, _ := ctxB.CacheContext()
	brA, brB = brA.WithEventManager(sdk.NewEventManager()), brB.WithEventManager(sdk.NewEventManager())
	msgs := mk(chain, ctxA)
	if len(msgs) == 0 {
		return
	}
	okN, diffs := 0, 0
	for i, msg := range msgs {
		oa := probeOutcome(a.Route(brA, msg))
		ob := probeOutcome(b.Route(brB, msg))
		run.Eval(1)
		kind := shortMsg(sdk.MsgTypeURL(msg))
		if strings.HasPrefix(oa, "ok") {
			okN++
			run.Class("probe", mode.Name, m, kind, "ok")
		} else {
			run.Class("probe", mode.Name, m, kind, "rejected")
		}
		if oa != ob {
			diffs++
			if diffs <= 2 {
				d := map[string]any{"mode": mode.Name, "module": m, "probe_index": i, "message": trunc(proto.CompactTextString(msg.(proto.Message)), 500), "source": trunc(oa, 500), "imported": trunc(ob, 500), "source_height": a.Height}
				run.Violation(fmt.Sprintf("C12:probe-outcome-differs:%s:%s:%s", mode.Name, m, kind), d, "%s: %s #%d of the %s battery ends differently on the imported state: source %s, imported %s", mode.Name, kind, i, m, trunc(oa, 160), trunc(ob, 160))
			}
		}
	}
	run.Count("probes-run:"+m, int64(len(msgs)))
	run.Count("probes-ok-on-source:"+m, int64(okN))
	// the queries of the module, discovered on the source branch after the battery
	calls := c12Discover[m](chain, brA)
	sort.SliceStable(calls, func(i, j int) bool { return calls[i].Path+string(calls[i].Req) < calls[j].Path+string(calls[j].Req) })
	qd := 0
	for _, qc := range calls {
		ra, rb := runQuery(a, brA, qc), runQuery(b, brB, qc)
		run.Eval(1)
		if ra != rb {
			qd++
			if qd <= 2 {
				d := map[string]any{"mode": mode.Name, "module": m, "query": qc.Path, "label": qc.Label, "source": trunc(ra, 400), "imported": trunc(rb, 400), "source_height": a.Height}
				run.Violation(fmt.Sprintf("C12:query-differs-after-probes:%s:%s:%s", mode.Name, m, qc.Label), d, "%s: after the same %d messages query %s (%s) answers differently on the imported state", mode.Name, len(msgs), qc.Path, qc.Label)
			}
		} else {
			run.Class("query-after-probes", mode.Name, m, qc.Label)
		}
	}
}
