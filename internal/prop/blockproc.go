package prop

import (
	"crypto/sha256"
	"encoding/binary"
	"encoding/hex"
	"fmt"
	"strings"
	"time"

	sdk "github.com/cosmos/cosmos-sdk/types"

	farmtypes "mods.irisnet.org/modules/farm/types"
	htlctypes "mods.irisnet.org/modules/htlc/types"
	randomtypes "mods.irisnet.org/modules/random/types"

	"verif/internal/ev"
	"verif/internal/rig"
)

func init() {
	Register(&Spec{
		ID: "C13", Level: "exploration",
		Rule:          "cases = chains of the all-modules director (all ten workloads incl. their parameter changes, same-block create/claim/adjust/destroy/pause/kill coincidences, farm pools destroyed in the block they fall due and then staked into and adjusted, the farm queue read after every transaction); the last four cases of each tier run the dedicated service / htlc / farm / random directors and keep only their queue-against-object and due-height relations with block times advancing by arbitrary positive steps (1 s .. days) plus bursts that put many hash-locked contracts and random requests due at one height; the application's own begin/end blockers run inside recover() wrappers; after every block the raw time-queue families (htlc expiry queue, farm active-pool queue, service new-batch/expired-batch queues with their height markers and active-request markers, random request queue) are walked against the object stores. non-trivial = a block whose blockers ran and whose queues were walked with due items present; distinct = distinct (queue family, #items due class, coincidence kinds in the block, time-step class); since round 12: aborts judged before transaction results are read, aborts on borrowed directors' chains through rig.AbortHook",
		Assume:        []string{"exactly-once processing at the due height is judged item by item by the module properties' own models (C03, C06, C08, C18); C13 adds the cross-module chain, the abort recorder and the queue-object bijection", "third-party coin transfers into module escrow accounts are not generated on shared chains"},
		Cases:         func(t string) int { return tierN(t, 12, 48) + bpDedicated },
		Run:           runBlockProc,
		RequireTotals: aliveTotals(map[string]int64{"farm-pool-destroyed-in-the-block-it-falls-due": 1}),
	})
}

// randomQueueCheck: after block H no request may be queued for a height < H, and every queued request is queued once.
func randomQueueCheck(r *rig.Rig, ctx sdk.Context) []string {
	var out []string
	H := ctx.BlockHeight()
	seen := map[string]int64{}
	r.K.Random.IterateRandomRequestQueue(ctx, func(h int64, reqID []byte, rq randomtypes.Request) bool {
		id := hex.EncodeToString(reqID)
		if h < H {
			out = append(out, fmt.Sprintf("queue-entry-overdue: request %s queued for height %d after block %d", id, h, H))
		}
		// the same id at two heights is not an inconsistency: ids are hash(request height, consumer), so two requests of one
		// consumer made in one block with different intervals share their id by design and are two queue items
		seen[id] = h
		if want := hex.EncodeToString(randomtypes.GenerateRequestID(rq)); want != id {
			out = append(out, fmt.Sprintf("queue-key-differs-from-request: key %s holds request with id %s", id, want))
		}
		if h < rq.Height {
			out = append(out, fmt.Sprintf("queue-entry-before-request-height: request made at %d queued for %d", rq.Height, h))
		}
		return false
	})
	return out
}

type bpTag struct{ Kind string }

// bpDedicated: the last four cases of every tier run the dedicated directors of the service, htlc, farm and random
// modules (their scripted histories - kills, pauses and restarts at chosen batch phases, coincident expiries, re-scheduled
// pools - do not occur on the all-modules chain) and keep, of everything those directors judge, only the relations of
// this property: queues against objects, and objects handled at their due height exactly once.
const bpDedicated = 4

func bpKeep(prefixes map[string]string) func(string) (string, bool) {
	return func(key string) (string, bool) {
		for p, to := range prefixes {
			if strings.HasPrefix(key, p) {
				return to + strings.TrimPrefix(key, p), true
			}
		}
		return "", false
	}
}

func runBlockProcDedicated(run *ev.Run, c, k int) {
	run.Count("dedicated-director-cases", 1)
	// the borrowed directors stop at a block that did not complete ("cannot continue"); for this property that abort is
	// the verdict
	rig.AbortHook = func(br *rig.BlockRecord) {
		km := run.KeyMap
		run.KeyMap = nil
		bpAbort(run, br)
		run.KeyMap = km
	}
	switch k {
	case 0:
		run.KeyMap = bpKeep(map[string]string{
			"C08:service:queue:": "C13:service:queue:",
			"C08:service:request-without-outcome-past-expiration":  "C13:service:request-without-outcome-past-expiration",
			"C08:service:request-not-expired-at-expiration-height": "C13:service:request-not-expired-at-expiration-height",
			"C08:service:batch-issued-while-not-running":           "C13:service:batch-issued-while-not-running",
		})
		run.Class("dedicated-director", "service")
		runService(run, c, "C08")
	case 1:
		run.KeyMap = bpKeep(map[string]string{
			"C03:htlc:expiry-queue:":                         "C13:htlc:expiry-queue:",
			"C03:htlc:open-past-expiry":                      "C13:htlc:open-past-expiry",
			"C03:htlc:block-begin:due-contract-not-refunded": "C13:htlc:due-contract-not-refunded",
		})
		run.Class("dedicated-director", "htlc")
		runHTLC(run, c, "C03")
	case 2:
		run.KeyMap = bpKeep(map[string]string{
			"C06:farm:expiry-queue-inconsistent":                "C13:farm:expiry-queue-inconsistent",
			"C06:farm:pool-over-without-refund":                 "C13:farm:pool-over-without-refund",
			"C06:farm:destroyed-pool-still-in-the-expiry-queue": "C13:farm:destroyed-pool-keeps-its-queue-entry",
			"C06:farm:refund-more-than-once":                    "C13:farm:refund-more-than-once",
		})
		run.Class("dedicated-director", "farm")
		runFarm(run, c, "C06")
	default:
		run.KeyMap = bpKeep(map[string]string{
			"C18:random:fulfilled-request-still-queued":           "C13:random:fulfilled-request-still-queued",
			"C18:random:not-fulfilled-in-begin-block":             "C13:random:not-fulfilled-in-begin-block",
			"C18:random:not-fulfilled-in-block-after-due-height":  "C13:random:not-fulfilled-in-block-after-due-height",
			"C18:random:pending-request-not-queued-at-due-height": "C13:random:pending-request-not-queued-at-due-height",
			"C18:random:stale-queue-entry":                        "C13:random:stale-queue-entry",
			"C18:random:oracle-request-still-queued-after-due":    "C13:random:oracle-request-still-queued-after-due",
			"C18:random:oracle-request-record-not-removed":        "C13:random:oracle-request-record-not-removed",
			"C18:random:fulfilled-at-wrong-height":                "C13:random:fulfilled-at-wrong-height",
			"C18:random:fulfilled-early":                          "C13:random:fulfilled-early",
		})
		run.Class("dedicated-director", "random")
		runRandom(run, c)
	}
}

// bpAbort reports an abort of begin/end block processing.
func bpAbort(run *ev.Run, br *rig.BlockRecord) {
	pi := br.BeginPanic
	phase := "begin-block"
	if pi == nil {
		pi, phase = br.EndPanic, "end-block"
	}
	mod, val, stack := "unknown", fmt.Sprint(br.FinalErr), ""
	if pi != nil {
		mod, val, stack = pi.Module, pi.Value, trunc(pi.Stack, 4000)
		if mod == "" {
			mod = "non-irismod"
		}
	} else {
		phase = "finalize-block"
	}
	run.Violation(fmt.Sprintf("C13:%s-aborted:%s:%s", phase, mod, errClass(fmt.Errorf("%s", val))), map[string]any{"height": br.Height, "panic": val, "stack": stack},
		"%s of height %d aborted in module %s: %s", phase, br.Height, mod, trunc(val, 300))
}

func runBlockProc(run *ev.Run, c int) {
	if n := tierN(run.Tier, 12, 48); c >= n {
		runBlockProcDedicated(run, c, c-n)
		return
	}
	seed := fmt.Sprintf("bp-%d-%d", run.Seed, c)
	chain := newAllChainAt(run, seed, nil, time.Time{}, boundaryHeight(c))
	run.Class("initial-height", fmt.Sprint(boundaryHeight(c)))
	r := chain.r
	rng := run.Rng
	// observation point after every transaction: the farm pools that have an expiry-queue entry (a pool destroyed in
	// the block it falls due must leave the queue with that transaction, not with the end of the block)
	r.Snapshot = func(ctx sdk.Context) any {
		q := map[string]int64{}
		r.WalkStore(ctx, farmtypes.StoreKey, farmtypes.ActiveFarmPoolKey, func(key, _ []byte) bool {
			if len(key) > 9 {
				q[string(key[9:])] = int64(binary.BigEndian.Uint64(key[1:9]))
			}
			return false
		})
		return q
	}
	blocks := tierN(run.Tier, 160, 450)
	burstAt := int64(0)
	for b := 1; b <= blocks; b++ {
		// time steps: seconds, minutes, hours, days
		var dt time.Duration
		cls := "seconds"
		switch rng.Intn(12) {
		case 0:
			dt, cls = time.Duration(1+rng.Intn(72))*time.Hour, "hours-days"
		case 1, 2:
			dt, cls = time.Duration(1+rng.Intn(90))*time.Minute, "minutes"
		case 3:
			dt, cls = time.Second, "1s"
		default:
			dt = time.Duration(1+rng.Intn(30)) * time.Second
		}
		// burst: many contracts and random requests made over several blocks all fall due at one height
		var extra []rig.Tx
		if burstAt == 0 && b%40 == 5 {
			burstAt = r.Height + 1 + 60
		}
		if burstAt > 0 {
			h := r.Height + 1
			lock := burstAt - h
			if lock >= 50 && lock <= 60 { // htlc time lock range of the harness genesis starts at 50
				for i := 0; i < len(r.Accounts); i++ {
					a := r.Acc(i)
					secret := sha256.Sum256([]byte(fmt.Sprintf("bp-%d-%d-%d", c, h, i)))
					hl := sha256.Sum256(secret[:])
					extra = append(extra, r.Mk(a, &bpTag{Kind: "burst-htlc"}, &htlctypes.MsgCreateHTLC{Sender: a.Addr.String(), To: r.Acc(i + 1).Addr.String(), Amount: sdk.NewCoins(sdk.NewInt64Coin("tkc", int64(1+i))), HashLock: hex.EncodeToString(hl[:]), Timestamp: 0, TimeLock: uint64(lock), Transfer: false}))
				}
			}
			if iv := burstAt - h; iv >= 0 && iv <= 12 {
				for i := 2; i < len(r.Accounts); i++ {
					a := r.Acc(i)
					extra = append(extra, r.Mk(a, &bpTag{Kind: "burst-random"}, &randomtypes.MsgRequestRandom{BlockInterval: uint64(iv), Consumer: a.Addr.String()}))
				}
				// one consumer, one block, two requests with different intervals (same request id, two due heights)
				tw := r.Acc(2)
				extra = append(extra, r.Mk(tw, &bpTag{Kind: "twin-random"}, &randomtypes.MsgRequestRandom{BlockInterval: uint64(iv) + 2, Consumer: tw.Addr.String()}))
			}
			if h > burstAt+1 {
				burstAt = 0
			}
		}
		var txs []rig.Tx
		for _, w := range chain.ws {
			txs = append(txs, w.Next(chain.n)...)
		}
		chain.n++
		txs = append(txs, extra...)
		br := r.DeliverBlock(dt, txs)
		for _, w := range chain.ws {
			w.Observe(br)
		}
		chain.countTxs(br)
		run.Eval(1)
		kinds := map[string]bool{}
		for _, tx := range br.Txs {
			for _, m := range tx.Msgs {
				if tx.OK() {
					kinds[shortMsg(sdk.MsgTypeURL(m))] = true
				}
				if dm, ok := m.(*farmtypes.MsgDestroyPool); ok && tx.OK() {
					if _, poisoned := tx.Tag.(*rig.PoisonedTag); poisoned {
						continue
					}
					run.Eval(1)
					run.Count("farm-pool-destroyed", 1)
					if pre, ok := tx.Pre.(map[string]int64); ok && pre[dm.PoolId] == br.Height {
						run.Count("farm-pool-destroyed-in-the-block-it-falls-due", 1)
					}
					if post, ok := tx.Post.(map[string]int64); ok && post[dm.PoolId] != 0 {
						run.Violation("C13:farm:destroyed-pool-keeps-its-queue-entry", map[string]any{"height": br.Height, "pool": dm.PoolId}, "farm pool %s was destroyed at height %d and still has an expiry-queue entry right after the transaction", dm.PoolId, br.Height)
					}
				}
			}
			if t, ok := tx.Tag.(*bpTag); ok {
				run.Count(t.Kind+okSuffix(tx), 1)
			}
		}
		// 1. aborts
		if br.BeginPanic != nil || br.EndPanic != nil || br.FinalErr != nil {
			bpAbort(run, br)
			return
		}
		// 2. queues against objects, on the committed state
		ctx := r.Ctx()
		fam := map[string][]string{"htlc": htlcQueueCheck(r, ctx), "farm": farmQueueCheck(r, ctx), "service": serviceQueueCheck(r, ctx), "random": randomQueueCheck(r, ctx), "oracle": oracleIndexCheck(r, ctx)}
		for name, lines := range fam {
			run.Eval(1)
			for _, l := range lines {
				slug := l
				if i := strings.IndexAny(l, ": "); i > 0 {
					slug = l[:i]
				}
				run.Violation("C13:queue:"+name+":"+slug, map[string]any{"height": br.Height, "line": l}, "%s queue after block %d: %s", name, br.Height, l)
			}
		}
		// what fell due in this block (from the module events), for the evidence classes
		due := map[string]int{}
		for _, e := range br.BeginEvents {
			switch e.Type {
			case "refund_htlc":
				due["htlc"]++
			case "generate_random":
				due["random"]++
			}
		}
		for _, e := range br.EndEvents {
			switch e.Type {
			case "complete_batch", "new_batch", "new_batch_request_provider":
				due["service"]++
			}
		}
		for name, n := range due {
			run.Class("due", name, dueClass(n), cls)
			run.Count("due-items:"+name, int64(n))
			if n >= 10 {
				run.Count("many-due-at-one-height:"+name, 1)
			}
		}
		if len(kinds) > 0 {
			run.Class("block-kinds", fmt.Sprint(len(kinds)/5*5, "+ message types"), cls)
		}
		if b%50 == 0 {
			run.Sample("block", map[string]any{"height": br.Height, "time_step": dt.String(), "txs": len(br.Txs), "due": due, "message_types": len(kinds)})
		}
	}
	run.Count("blocks", int64(blocks))
	run.Require("due-items:htlc", 5)
	run.Require("due-items:random", 5)
	run.Require("due-items:service", 5)
	run.Require("many-due-at-one-height:htlc", 1)
	run.Require("many-due-at-one-height:random", 1)
}

func dueClass(n int) string {
	switch {
	case n == 1:
		return "1"
	case n < 10:
		return "2-9"
	case n < 100:
		return "10-99"
	default:
		return "100+"
	}
}

func shortMsg(url string) string {
	if i := strings.LastIndex(url, "."); i >= 0 {
		return url[i+1:]
	}
	return url
}
