package prop

import (
	tokenv1 "mods.irisnet.org/modules/token/types/v1"
	tokentypes "mods.irisnet.org/modules/token/types"
	cstypes "mods.irisnet.org/modules/coinswap/types"
	sdkmath "cosmossdk.io/math"
	"github.com/cosmos/cosmos-sdk/codec"
	"math/big"
	"bytes"
	"encoding/hex"
	"encoding/json"
	"fmt"
	"regexp"
	"sort"
	"strings"
	"time"

	abci "github.com/cometbft/cometbft/abci/types"
	tmbytes "github.com/cometbft/cometbft/libs/bytes"
	cmtproto "github.com/cometbft/cometbft/proto/tendermint/types"
	storetypes "cosmossdk.io/store/types"
	sdk "github.com/cosmos/cosmos-sdk/types"
	banktypes "github.com/cosmos/cosmos-sdk/x/bank/types"
	"google.golang.org/protobuf/proto"
	"google.golang.org/protobuf/reflect/protoreflect"
	"google.golang.org/protobuf/reflect/protoregistry"
	"google.golang.org/protobuf/types/dynamicpb"

	farmtypes "mods.irisnet.org/modules/farm/types"
	htlcmod "mods.irisnet.org/modules/htlc"
	htlctypes "mods.irisnet.org/modules/htlc/types"
	oraclemod "mods.irisnet.org/modules/oracle"
	oracletypes "mods.irisnet.org/modules/oracle/types"
	randommod "mods.irisnet.org/modules/random"
	randomtypes "mods.irisnet.org/modules/random/types"
	servicemod "mods.irisnet.org/modules/service"
	servicetypes "mods.irisnet.org/modules/service/types"

	"verif/internal/ev"
	"verif/internal/rig"
)

func init() {
	Register(&Spec{
		ID: "C12", Level: "exploration",
		Rule: "checkpoints of the all-modules director (every ~25 blocks and at the end) are exported with the application's own export; each export G is (1) imported as a whole into a fresh application with the repository's wiring and default options at the exported height, (2) imported once per irismod module with only that module's section (plus the sections it depends on) as exported, (3) exported again after the modules' PrepForZeroHeightGenesis steps and imported at height 1. Each import must be accepted; export(import(G)) must equal G on every irismod section (canonical JSON); and every query of a fixed list about durable objects must answer byte-identically on both applications at the same height and time; then a battery of ordinary messages derived from the exported state (mt/nft/token/coinswap/farm) is carried out on a dropped branch of each state, message by message, and every outcome and every query afterwards must agree; then a battery of ordinary messages derived from the exported state (mt/nft/token/coinswap/farm) is carried out on a dropped branch of each state, message by message, and every outcome and every query afterwards must agree. non-trivial = an import/fixpoint/query comparison actually evaluated on a state with objects of that module; distinct = distinct (mode, module, relation, object kinds present); since rounds 11-12: the random section imported on its own as well",
		Assume: []string{"dropped by the modules' own export code and therefore not compared: closed HTLCs, service requests/responses/earned fees, random results", "queries run on contexts with identical height and time (pending farm rewards depend on it)", "isolated imports skip crisis' genesis invariants because the defaulted modules' escrow balances no longer match by construction; the full import does not"},
		Cases:  func(t string) int { return tierN(t, 8, 32) },
		Run:    runExportImport,
		RequireTotals: aliveTotals(map[string]int64{"probes-ok-on-source:mt": 1, "probes-ok-on-source:nft": 1, "probes-ok-on-source:token": 1, "probes-ok-on-source:coinswap": 1, "probes-ok-on-source:farm": 1, "checkpoints-with-ten-or-more-coinswap-pools": 1, "checkpoints-with-the-erc20-bridge-off-and-no-beacon": 1}),
	})
}

var irismodModules = rig.IrismodStores

// isolation groups: module -> sections imported together
var c12Deps = map[string][]string{
	"oracle": {"service"}, "random": {"service"}, "farm": {"coinswap"},
}

type qcall struct {
	Module string
	Path   string
	Req    []byte
	Label  string
}

// c12Discover functions list the queries about a module's durable objects, discovered on the source chain.
var c12Discover = map[string]func(c *allChain, ctx sdk.Context) []qcall{}

func mkReq(fullName string, fields map[string]any) []byte {
	d, err := protoregistry.GlobalFiles.FindDescriptorByName(protoreflect.FullName(fullName))
	if err != nil {
		panic("no descriptor " + fullName)
	}
	md := d.(protoreflect.MessageDescriptor)
	m := dynamicpb.NewMessage(md)
	for k, v := range fields {
		f := md.Fields().ByName(protoreflect.Name(k))
		if f == nil {
			panic("no field " + k + " in " + fullName)
		}
		switch x := v.(type) {
		case string:
			m.Set(f, protoreflect.ValueOfString(x))
		case uint64:
			m.Set(f, protoreflect.ValueOfUint64(x))
		case int64:
			m.Set(f, protoreflect.ValueOfInt64(x))
		case []byte:
			m.Set(f, protoreflect.ValueOfBytes(x))
		}
	}
	if pf := md.Fields().ByName("pagination"); pf != nil {
		pm := m.Mutable(pf).Message()
		pm.Set(pf.Message().Fields().ByName("limit"), protoreflect.ValueOfUint64(1_000_000))
	}
	bz, _ := proto.MarshalOptions{Deterministic: true}.Marshal(m)
	return bz
}

func q(module, svc, method, reqType string, fields map[string]any, label string) qcall {
	return qcall{Module: module, Path: "/" + svc + "/" + method, Req: mkReq(reqType, fields), Label: label}
}

func init() {
	c12Discover["coinswap"] = func(c *allChain, ctx sdk.Context) []qcall {
		out := []qcall{q("coinswap", "irismod.coinswap.Query", "LiquidityPools", "irismod.coinswap.QueryLiquidityPoolsRequest", nil, "pools"), q("coinswap", "irismod.coinswap.Query", "Params", "irismod.coinswap.QueryParamsRequest", nil, "params")}
		for _, p := range c.r.K.Coinswap.GetAllPools(ctx) {
			out = append(out, q("coinswap", "irismod.coinswap.Query", "LiquidityPool", "irismod.coinswap.QueryLiquidityPoolRequest", map[string]any{"lpt_denom": p.LptDenom}, "pool"))
		}
		return out
	}
	c12Discover["nft"] = func(c *allChain, ctx sdk.Context) []qcall {
		out := []qcall{q("nft", "irismod.nft.Query", "Denoms", "irismod.nft.QueryDenomsRequest", nil, "classes")}
		cols, _ := c.r.K.NFT.GetCollections(ctx)
		for _, col := range cols {
			out = append(out, q("nft", "irismod.nft.Query", "Collection", "irismod.nft.QueryCollectionRequest", map[string]any{"denom_id": col.Denom.Id}, "collection"),
				q("nft", "irismod.nft.Query", "Supply", "irismod.nft.QuerySupplyRequest", map[string]any{"denom_id": col.Denom.Id}, "supply"))
			for _, a := range c.r.Accounts {
				out = append(out, q("nft", "irismod.nft.Query", "Supply", "irismod.nft.QuerySupplyRequest", map[string]any{"denom_id": col.Denom.Id, "owner": a.Addr.String()}, "owner-balance"))
			}
		}
		for _, a := range c.r.Accounts {
			out = append(out, q("nft", "irismod.nft.Query", "NFTsOfOwner", "irismod.nft.QueryNFTsOfOwnerRequest", map[string]any{"owner": a.Addr.String()}, "owner-holdings"))
		}
		return out
	}
	c12Discover["mt"] = func(c *allChain, ctx sdk.Context) []qcall {
		out := []qcall{q("mt", "irismod.mt.Query", "Denoms", "irismod.mt.QueryDenomsRequest", nil, "classes")}
		for _, d := range c.r.K.MT.GetDenoms(ctx) {
			out = append(out, q("mt", "irismod.mt.Query", "MTs", "irismod.mt.QueryMTsRequest", map[string]any{"denom_id": d.Id}, "tokens"),
				q("mt", "irismod.mt.Query", "Supply", "irismod.mt.QuerySupplyRequest", map[string]any{"denom_id": d.Id}, "class-supply"))
			for _, m := range c.r.K.MT.GetMTs(ctx, d.Id) {
				out = append(out, q("mt", "irismod.mt.Query", "MTSupply", "irismod.mt.QueryMTSupplyRequest", map[string]any{"denom_id": d.Id, "mt_id": m.GetID()}, "token-supply"))
			}
			for _, a := range c.r.Accounts {
				out = append(out, q("mt", "irismod.mt.Query", "Balances", "irismod.mt.QueryBalancesRequest", map[string]any{"owner": a.Addr.String(), "denom_id": d.Id}, "balances"))
			}
		}
		return out
	}
	c12Discover["record"] = func(c *allChain, ctx sdk.Context) []qcall {
		var out []qcall
		for _, w := range c.ws {
			if rw, ok := w.(*recordWorkload); ok {
				for _, id := range rw.order {
					out = append(out, q("record", "irismod.record.Query", "Record", "irismod.record.QueryRecordRequest", map[string]any{"record_id": id}, "record-by-id"))
				}
			}
		}
		return out
	}
	c12Discover["random"] = func(c *allChain, ctx sdk.Context) []qcall {
		out := []qcall{}
		heights := map[int64]bool{}
		c.r.K.Random.IterateRandomRequestQueue(ctx, func(h int64, _ []byte, _ randomtypes.Request) bool { heights[h] = true; return false })
		for h := range heights {
			out = append(out, q("random", "irismod.random.Query", "RandomRequestQueue", "irismod.random.QueryRandomRequestQueueRequest", map[string]any{"height": h}, "pending-requests"))
		}
		sort.Slice(out, func(i, j int) bool { return bytes.Compare(out[i].Req, out[j].Req) < 0 })
		return out
	}
	c12Discover["oracle"] = func(c *allChain, ctx sdk.Context) []qcall {
		out := []qcall{q("oracle", "irismod.oracle.Query", "Feeds", "irismod.oracle.QueryFeedsRequest", nil, "feeds"),
			q("oracle", "irismod.oracle.Query", "Feeds", "irismod.oracle.QueryFeedsRequest", map[string]any{"state": "running"}, "feeds-running"),
			q("oracle", "irismod.oracle.Query", "Feeds", "irismod.oracle.QueryFeedsRequest", map[string]any{"state": "paused"}, "feeds-paused")}
		c.r.K.Oracle.IteratorFeeds(ctx, func(f oracletypes.Feed) {
			out = append(out, q("oracle", "irismod.oracle.Query", "Feed", "irismod.oracle.QueryFeedRequest", map[string]any{"feed_name": f.FeedName}, "feed"),
				q("oracle", "irismod.oracle.Query", "FeedValue", "irismod.oracle.QueryFeedValueRequest", map[string]any{"feed_name": f.FeedName}, "feed-value-history"))
		})
		return out
	}
	c12Discover["htlc"] = func(c *allChain, ctx sdk.Context) []qcall {
		out := []qcall{q("htlc", "irismod.htlc.Query", "Params", "irismod.htlc.QueryParamsRequest", nil, "params"),
			q("htlc", "irismod.htlc.Query", "AssetSupplies", "irismod.htlc.QueryAssetSuppliesRequest", nil, "asset-supplies")}
		c.r.K.HTLC.IterateHTLCs(ctx, func(id tmbytes.HexBytes, h htlctypes.HTLC) bool {
			if h.State == htlctypes.Open { // closed contracts are documented as dropped on export
				out = append(out, q("htlc", "irismod.htlc.Query", "HTLC", "irismod.htlc.QueryHTLCRequest", map[string]any{"id": id.String()}, "open-htlc"))
			}
			return false
		})
		return out
	}
	c12Discover["farm"] = func(c *allChain, ctx sdk.Context) []qcall {
		out := []qcall{q("farm", "irismod.farm.Query", "FarmPools", "irismod.farm.QueryFarmPoolsRequest", nil, "pools"), q("farm", "irismod.farm.Query", "Params", "irismod.farm.QueryParamsRequest", nil, "params")}
		c.r.K.Farm.IteratorAllPools(ctx, func(p farmtypes.FarmPool) {
			out = append(out, q("farm", "irismod.farm.Query", "FarmPool", "irismod.farm.QueryFarmPoolRequest", map[string]any{"id": p.Id}, "pool"))
		})
		c.r.K.Farm.IteratorAllFarmInfo(ctx, func(f farmtypes.FarmInfo) {
			out = append(out, q("farm", "irismod.farm.Query", "Farmer", "irismod.farm.QueryFarmerRequest", map[string]any{"farmer": f.Address, "pool_id": f.PoolId}, "farmer-stake-and-pending-rewards"))
		})
		return out
	}
	c12Discover["token"] = func(c *allChain, ctx sdk.Context) []qcall {
		out := []qcall{q("token", "irismod.token.v1.Query", "Tokens", "irismod.token.v1.QueryTokensRequest", nil, "tokens"),
			q("token", "irismod.token.v1.Query", "TotalBurn", "irismod.token.v1.QueryTotalBurnRequest", nil, "burn-totals"),
			q("token", "irismod.token.v1.Query", "Params", "irismod.token.v1.QueryParamsRequest", nil, "params")}
		for _, t := range c.r.K.Token.GetTokens(ctx, nil) {
			out = append(out, q("token", "irismod.token.v1.Query", "Token", "irismod.token.v1.QueryTokenRequest", map[string]any{"denom": t.GetSymbol()}, "token-by-symbol"),
				q("token", "irismod.token.v1.Query", "Token", "irismod.token.v1.QueryTokenRequest", map[string]any{"denom": t.GetMinUnit()}, "token-by-min-unit"))
		}
		for _, a := range c.r.Accounts {
			out = append(out, q("token", "irismod.token.v1.Query", "Tokens", "irismod.token.v1.QueryTokensRequest", map[string]any{"owner": a.Addr.String()}, "tokens-by-owner"))
		}
		return out
	}
	c12Discover["service"] = func(c *allChain, ctx sdk.Context) []qcall {
		out := []qcall{q("service", "irismod.service.Query", "Params", "irismod.service.QueryParamsRequest", nil, "params")}
		c.r.K.Service.IterateServiceDefinitions(ctx, func(d servicetypes.ServiceDefinition) bool {
			out = append(out, q("service", "irismod.service.Query", "Definition", "irismod.service.QueryDefinitionRequest", map[string]any{"service_name": d.Name}, "definition"),
				q("service", "irismod.service.Query", "Bindings", "irismod.service.QueryBindingsRequest", map[string]any{"service_name": d.Name}, "bindings"))
			return false
		})
		for _, a := range c.r.Accounts {
			out = append(out, q("service", "irismod.service.Query", "WithdrawAddress", "irismod.service.QueryWithdrawAddressRequest", map[string]any{"owner": a.Addr.String()}, "withdraw-address"))
		}
		c.r.K.Service.IterateRequestContexts(ctx, func(id tmbytes.HexBytes, _ servicetypes.RequestContext) bool {
			out = append(out, q("service", "irismod.service.Query", "RequestContext", "irismod.service.QueryRequestContextRequest", map[string]any{"request_context_id": id.String()}, "request-context"))
			return false
		})
		return out
	}
}

// runQuery routes a gRPC query on the given context.
func runQuery(r *rig.Rig, ctx sdk.Context, qc qcall) (out string) {
	defer func() {
		if rec := recover(); rec != nil {
			out = fmt.Sprintf("PANIC: %v", rec)
		}
	}()
	h := r.App.GRPCQueryRouter().Route(qc.Path)
	if h == nil {
		return "NO-ROUTE " + qc.Path
	}
	res, err := h(ctx, &abci.RequestQuery{Path: qc.Path, Data: qc.Req})
	if err != nil {
		return "ERR: " + err.Error()
	}
	return hex.EncodeToString(res.Value)
}

var reAsset = regexp.MustCompile(`[a-z0-9/]+: asset `)
var reCoin = regexp.MustCompile(`#[a-z][a-z0-9/-]*(,#[a-z][a-z0-9/-]*)*`)
var reNoise = regexp.MustCompile(`[0-9A-Fa-f]{16,}|cosmos1[0-9a-z]+|[0-9]+`)

func errClass(err error) string {
	s := err.Error()
	if i := strings.Index(s, "\n"); i >= 0 { // drop the stack
		s = s[:i]
	}
	if i := strings.Index(s, " [/"); i >= 0 { // drop source positions
		s = s[:i]
	}
	s = strings.ToLower(s)
	s = reNoise.ReplaceAllString(s, "#")
	s = reCoin.ReplaceAllString(s, "#coin")
	s = reAsset.ReplaceAllString(s, "#asset: asset ")
	s = strings.Join(strings.Fields(s), " ")
	if len(s) > 90 {
		s = s[:90]
	}
	return s
}

func compactJSON(raw json.RawMessage) string {
	var b bytes.Buffer
	if err := json.Compact(&b, raw); err != nil {
		return string(raw)
	}
	return b.String()
}

type importMode struct {
	Name       string
	ZeroHeight bool
	Only       string // isolated module, "" = full
}

// importInto builds a fresh application and runs InitChain with the given app state.
func importInto(seed string, appState []byte, height int64, t time.Time, skipCrisis bool) (*rig.Rig, error) {
	ws := allWorkloads()
	opts := allOptions(seed, ws, nil, t)
	opts.NoInit = true
	if skipCrisis {
		opts.AppOpts = map[string]interface{}{"x-crisis-skip-assert-invariants": true}
	}
	b := rig.New(opts)
	dummy := ev.NewRun("C12", "quick", 0, 0)
	for _, w := range ws {
		w.Attach(dummy, b)
	}
	err := b.TryInitChain(appState, height, t)
	return b, err
}

func runExportImport(run *ev.Run, c int) {
	seed := fmt.Sprintf("exp-%d-%d", run.Seed, c)
	chain := newAllChain(run, seed, nil, time.Time{})
	// odd cases: the accounts are born with twelve more denominations, and one of them opens a coinswap pool for each
	// after the set-up blocks: the exported state then holds more than ten pools (two-digit liquidity-token sequence)
	var manyDenoms []string
	if c%2 == 1 {
		for i := 0; i < 12; i++ {
			manyDenoms = append(manyDenoms, fmt.Sprintf("cx%c", 'a'+rune(i)))
		}
		chain = newAllChainWith(run, seed, nil, time.Time{}, func(cdc codec.Codec, gs map[string]json.RawMessage) {
			var bg banktypes.GenesisState
			cdc.MustUnmarshalJSON(gs[banktypes.ModuleName], &bg)
			for i := range bg.Balances {
				if bg.Balances[i].Coins.AmountOf("tka").IsPositive() {
					for _, d := range manyDenoms {
						cn := sdk.NewCoins(sdk.NewInt64Coin(d, 1_000_000_000_000))
						bg.Balances[i].Coins = bg.Balances[i].Coins.Add(cn...)
						bg.Supply = bg.Supply.Add(cn...)
					}
				}
			}
			gs[banktypes.ModuleName] = cdc.MustMarshalJSON(&bg)
		})
	}
	// every fourth case: a chain that never uses the ERC20 bridge - no beacon in genesis, no deployment ever, and the
	// authority switches the bridge off after the set-up blocks (a switch left at its zero value must survive the import)
	noBridge := c%4 == 2
	if noBridge {
		chain = newAllChainWith(run, seed, nil, time.Time{}, func(cdc codec.Codec, gs map[string]json.RawMessage) {
			var st tokenv1.GenesisState
			cdc.MustUnmarshalJSON(gs[tokentypes.ModuleName], &st)
			st.Params.Beacon = ""
			gs[tokentypes.ModuleName] = cdc.MustMarshalJSON(&st)
		})
		for _, w := range chain.ws {
			if tw, ok := w.(*tokenWorkload); ok {
				tw.NoERC20 = true
			}
		}
	}
	blocks := tierN(run.Tier, 125, 250)
	extraCheckpoints := 0
	for b := 1; b <= blocks; b++ {
		if noBridge && b%20 == 18 {
			if p := chain.r.K.Token.GetParams(chain.r.Ctx()); p.EnableErc20 {
				p.EnableErc20 = false
				chain.Extra = append(chain.Extra, chain.r.InjectRoute(chain.r.Acc(2), "c12-bridge-off", &tokenv1.MsgUpdateParams{Authority: chain.r.GovAddr.String(), Params: p}))
			}
		}
		if len(manyDenoms) > 0 && b == 30 {
			a := chain.r.Acc(3)
			for _, d := range manyDenoms {
				chain.Extra = append(chain.Extra, chain.r.Mk(a, "c12-open-pool", &cstypes.MsgAddLiquidity{MaxToken: sdk.NewInt64Coin(d, 500_000), ExactStandardAmt: sdkmath.NewInt(400_000), MinLiquidity: sdkmath.OneInt(), Deadline: chain.r.Time.Add(24 * time.Hour).Unix(), Sender: a.Addr.String()}))
			}
		}
		dt := time.Duration(1+run.Rng.Intn(30)) * time.Second
		br := chain.Step(dt)
		if br.FinalErr != nil {
			run.Note("block %d aborted: %v", br.Height, br.FinalErr)
		}
		// besides the periodic checkpoints, up to four right after a block in which a cross-chain transfer was claimed
		// (the asset's supply counters have just moved, its limit period is still running)
		claimed := false
		for _, tx := range br.Txs {
			if tx.OK() && len(tx.Msgs) == 1 {
				if _, ok := tx.Msgs[0].(*htlctypes.MsgClaimHTLC); ok {
					claimed = true
				}
			}
		}
		extra := claimed && extraCheckpoints < 4 && b > 30 && b%25 != 0
		if extra {
			extraCheckpoints++
			run.Count("checkpoints-right-after-a-claim", 1)
		}
		if b%25 == 0 || b == blocks || extra {
			if p := chain.r.K.Token.GetParams(chain.r.Ctx()); !p.EnableErc20 && p.Beacon == "" {
				run.Count("checkpoints-with-the-erc20-bridge-off-and-no-beacon", 1)
			}
			if n := len(chain.r.K.Coinswap.GetAllPools(chain.r.Ctx())); n >= 10 {
				run.Count("checkpoints-with-ten-or-more-coinswap-pools", 1)
			}
			c12Checkpoint(run, chain, seed)
			run.Count("checkpoints", 1)
		}
	}
	run.Require("checkpoints", 2)
}

func c12Checkpoint(run *ev.Run, chain *allChain, seed string) {
	a := chain.r
	// (1) + (2): as-is export
	exp, err := a.Export(false)
	if err != nil {
		run.Violation("C12:export-failed:as-is:"+errClass(err), map[string]any{"height": a.Height}, "export at height %d failed: %v", a.Height, err)
		return
	}
	var secs map[string]json.RawMessage
	if err := json.Unmarshal(exp.AppState, &secs); err != nil {
		run.Inconc("exported app state is not a JSON object: %v", err)
		return
	}
	hdr := cmtproto.Header{ChainID: rig.ChainID, Height: exp.Height, Time: a.Time}
	ctxA := a.App.NewUncachedContext(false, hdr).WithGasMeter(storetypes.NewInfiniteGasMeter())
	c12Import(run, chain, seed, importMode{Name: "as-is-full"}, secs, secs, exp.Height, ctxA)
	for _, m := range irismodModules {
		iso := map[string]json.RawMessage{}
		for k, v := range secs {
			iso[k] = v
		}
		keep := map[string]bool{m: true}
		for _, d := range c12Deps[m] {
			keep[d] = true
		}
		def := a.App.DefaultGenesis()
		for _, im := range irismodModules {
			if !keep[im] {
				iso[im] = def[im]
			}
		}
		iso["bank"] = isolateBank(a, secs, keep)
		c12Import(run, chain, seed, importMode{Name: "as-is-isolated", Only: m}, iso, secs, exp.Height, ctxA)
		if m == "random" {
			// the random section on its own as well: its import does not consult the service module, and the service
			// section it otherwise travels with is refused as-is whenever a request context is in flight (listed finding),
			// which would leave the as-is import of pending random requests unjudged
			alone := map[string]json.RawMessage{}
			for k, v := range iso {
				alone[k] = v
			}
			alone["service"] = def["service"]
			alone["bank"] = isolateBank(a, secs, map[string]bool{m: true})
			c12Import(run, chain, seed, importMode{Name: "as-is-alone", Only: m}, alone, secs, exp.Height, ctxA)
		}
	}
	// (3) zero-height: the modules' own preparation steps, then the application's zero-height export.
	// They run on the check-state branch (reset at the next Commit), exactly where the application's export runs.
	func() {
		defer func() {
			if rec := recover(); rec != nil {
				run.Violation("C12:zero-height-preparation-panicked:"+errClass(fmt.Errorf("%v", rec)), map[string]any{"height": a.Height}, "PrepForZeroHeightGenesis/export panicked at height %d: %v", a.Height, rec)
			}
		}()
		ctxZ := a.App.NewContextLegacy(true, cmtproto.Header{ChainID: rig.ChainID, Height: a.Height, Time: a.Time}).WithGasMeter(storetypes.NewInfiniteGasMeter())
		htlcmod.PrepForZeroHeightGenesis(ctxZ, a.K.HTLC)
		randommod.PrepForZeroHeightGenesis(ctxZ, a.K.Random)
		oraclemod.PrepForZeroHeightGenesis(ctxZ, a.K.Oracle)
		servicemod.PrepForZeroHeightGenesis(ctxZ, a.K.Service)
		expZ, err := a.Export(true)
		if err != nil {
			run.Violation("C12:export-failed:zero-height:"+errClass(err), map[string]any{"height": a.Height}, "zero-height export at height %d failed: %v", a.Height, err)
			return
		}
		var zsecs map[string]json.RawMessage
		if err := json.Unmarshal(expZ.AppState, &zsecs); err != nil {
			return
		}
		// the source answers after preparation, at the height the preparation maps to height 1
		ctxA2 := a.App.NewContextLegacy(true, cmtproto.Header{ChainID: rig.ChainID, Height: a.Height, Time: a.Time}).WithGasMeter(storetypes.NewInfiniteGasMeter())
		c12Import(run, chain, seed, importMode{Name: "zero-height", ZeroHeight: true}, zsecs, zsecs, 1, ctxA2)
	}()
}

func c12Import(run *ev.Run, chain *allChain, seed string, mode importMode, state, reference map[string]json.RawMessage, height int64, ctxA sdk.Context) {
	a := chain.r
	bz, _ := json.Marshal(state)
	scope := irismodModules
	if mode.Only != "" {
		scope = []string{mode.Only}
	}
	tag := mode.Name
	det := map[string]any{"mode": mode.Name, "isolated_module": mode.Only, "source_height": a.Height}
	b, err := importInto(seed, bz, height, a.Time, mode.Only != "")
	run.Eval(1)
	if err != nil {
		mod := mode.Only
		if mod == "" {
			mod = moduleOfErr(err)
		}
		if sec, ok := state[mod]; ok {
			det["rejected_section"] = trunc(compactJSON(sec), 6000)
		}
		cls := errClass(err)
		// "X is over the supply limit Y" with X <= Y is a different rejection from the listed one (limit lowered below what exists)
		if m := reOverLimit.FindStringSubmatch(err.Error()); m != nil {
			x, _ := new(big.Int).SetString(m[1], 10)
			y, _ := new(big.Int).SetString(m[2], 10)
			if x != nil && y != nil && x.Cmp(y) <= 0 {
				cls += " (although it is not over)"
			}
		}
		run.Violation(fmt.Sprintf("C12:import-rejected:%s:%s:%s", tag, mod, cls), det, "%s import of the genesis exported at height %d was rejected (%s): %v", tag, a.Height, mod, trunc(err.Error(), 600))
		run.Class("import", tag, mode.Only, "rejected")
		return
	}
	run.Class("import", tag, mode.Only, "accepted")
	run.Count("imports-accepted:"+tag, 1)
	bh := height
	hdrB := cmtproto.Header{ChainID: rig.ChainID, Height: bh, Time: a.Time}
	ctxB := b.App.NewContextLegacy(false, hdrB).WithGasMeter(storetypes.NewInfiniteGasMeter())
	// fixpoint: export(import(G)) == G per irismod section
	func() {
		defer func() {
			if rec := recover(); rec != nil {
				run.Violation(fmt.Sprintf("C12:re-export-panicked:%s:%s", tag, errClass(fmt.Errorf("%v", rec))), det, "exporting the imported state panicked: %v", rec)
			}
		}()
		g2, err := b.App.ModuleManager.ExportGenesisForModules(ctxB, b.Cdc, scope)
		if err != nil {
			run.Violation(fmt.Sprintf("C12:re-export-failed:%s:%s", tag, errClass(err)), det, "exporting the imported state failed: %v", err)
			return
		}
		for _, m := range scope {
			run.Eval(1)
			x, y := compactJSON(reference[m]), compactJSON(g2[m])
			if x != y {
				d := map[string]any{"mode": mode.Name, "module": m, "source_height": a.Height, "diff": jsonDiff(x, y)}
				run.Violation(fmt.Sprintf("C12:not-a-fixpoint:%s:%s", tag, m), d, "%s: exporting the imported %s state gives a different genesis: %s", tag, m, jsonDiff(x, y))
			} else if len(x) > 60 {
				run.Class("fixpoint", tag, m, "equal")
			}
		}
	}()
	// derived time-queues restored by the import must be consistent with the imported objects (they decide whether
	// the re-imported chain will process its due items); judged as the state after the block before the import height
	func() {
		defer func() {
			if rec := recover(); rec != nil {
				run.Violation(fmt.Sprintf("C12:imported-queue-check-panicked:%s", tag), det, "walking the imported queues panicked: %v", rec)
			}
		}()
		qctx := ctxB.WithBlockHeight(height - 1)
		fams := map[string]func(*rig.Rig, sdk.Context) []string{"htlc": htlcQueueCheck, "service": serviceQueueCheck, "random": randomQueueCheck, "oracle": oracleIndexCheck}
		if !mode.ZeroHeight { // farm keeps absolute heights across a zero-height export (listed finding)
			fams["farm"] = farmQueueCheck
		}
		for _, m := range scope {
			chk := fams[m]
			if chk == nil {
				continue
			}
			run.Eval(1)
			for _, l := range chk(b, qctx) {
				slug := l
				if i := strings.IndexAny(l, ": "); i > 0 {
					slug = l[:i]
				}
				if mode.ZeroHeight && slug == "queue-entry-before-request-height" {
					continue // the preparation step shifts queue heights to the new chain; the request keeps the old chain's height, which only feeds its id
				}
				d := map[string]any{"mode": mode.Name, "module": m, "line": l, "source_height": a.Height}
				run.Violation(fmt.Sprintf("C12:imported-queue-inconsistent:%s:%s:%s", tag, m, slug), d, "%s: after import the %s time queue disagrees with the imported objects: %s", tag, m, l)
			}
			run.Class("imported-queue", tag, m)
		}
	}()
	// queries
	for _, m := range scope {
		disc := c12Discover[m]
		if disc == nil {
			continue
		}
		calls := disc(chain, ctxA)
		diffs := 0
		for _, qc := range calls {
			ra := runQuery(a, ctxA, qc)
			rb := runQuery(b, ctxB, qc)
			run.Eval(1)
			if ra != rb {
				diffs++
				if diffs <= 2 {
					d := map[string]any{"mode": mode.Name, "module": m, "query": qc.Path, "label": qc.Label, "source": trunc(ra, 400), "imported": trunc(rb, 400), "source_height": a.Height}
					run.Violation(fmt.Sprintf("C12:query-differs:%s:%s:%s", tag, m, qc.Label), d, "%s: query %s (%s) answers differently after import", tag, qc.Path, qc.Label)
				}
			} else {
				run.Class("query", tag, m, qc.Label)
			}
		}
		run.Count("queries-compared", int64(len(calls)))
		if diffs == 0 {
			c12Probes(run, chain, b, mode, m, ctxA, ctxB)
		}
	}
	run.Sample("import:"+tag+":"+mode.Only, map[string]any{"mode": mode.Name, "isolated_module": mode.Only, "source_height": a.Height, "imported_at_height": height})
}

var reOverLimit = regexp.MustCompile(`supply (\d+)[a-z][a-z0-9/]* is over the supply limit (\d+)`)

var reModPath = regexp.MustCompile(`mods\.irisnet\.org/modules/(\w+)`)

func moduleOfErr(err error) string {
	if m := reModPath.FindStringSubmatch(err.Error()); m != nil {
		return m[1]
	}
	return "unknown"
}

// jsonDiff names the first top-level keys (and array lengths) that differ between two compact JSON objects.
func jsonDiff(x, y string) string {
	var a, b map[string]json.RawMessage
	if json.Unmarshal([]byte(x), &a) != nil || json.Unmarshal([]byte(y), &b) != nil {
		return "not comparable"
	}
	var out []string
	keys := map[string]bool{}
	for k := range a {
		keys[k] = true
	}
	for k := range b {
		keys[k] = true
	}
	var ks []string
	for k := range keys {
		ks = append(ks, k)
	}
	sort.Strings(ks)
	for _, k := range ks {
		if string(a[k]) == string(b[k]) {
			continue
		}
		var la, lb []json.RawMessage
		if json.Unmarshal(a[k], &la) == nil && json.Unmarshal(b[k], &lb) == nil {
			first := -1
			for i := 0; i < len(la) && i < len(lb); i++ {
				if string(la[i]) != string(lb[i]) {
					first = i
					break
				}
			}
			s := fmt.Sprintf("%s: %d vs %d entries", k, len(la), len(lb))
			if first >= 0 {
				s += fmt.Sprintf(", first difference at #%d: %s vs %s", first, trunc(string(la[first]), 200), trunc(string(lb[first]), 200))
			}
			out = append(out, s)
		} else {
			out = append(out, fmt.Sprintf("%s: %s vs %s", k, trunc(string(a[k]), 200), trunc(string(b[k]), 200)))
		}
	}
	return strings.Join(out, "; ")
}


// escrowAccounts lists, per irismod module, the accounts whose balances the module keeps books on.
func escrowAccounts(secs map[string]json.RawMessage) map[string][]string {
	m := map[string][]string{
		"coinswap": {rig.ModuleAddr("coinswap").String()},
		"farm":     {rig.ModuleAddr("farm").String(), rig.ModuleAddr(farmtypes.RewardCollector).String()},
		"htlc":     {rig.ModuleAddr("htlc").String()},
		"service":  {rig.ModuleAddr(servicetypes.DepositAccName).String(), rig.ModuleAddr(servicetypes.RequestAccName).String(), rig.ModuleAddr(servicetypes.FeeCollectorName).String()},
		"token":    {rig.ModuleAddr("token").String()},
	}
	var cs struct {
		Pool []struct {
			EscrowAddress string `json:"escrow_address"`
		} `json:"pool"`
	}
	if json.Unmarshal(secs["coinswap"], &cs) == nil {
		for _, p := range cs.Pool {
			m["coinswap"] = append(m["coinswap"], p.EscrowAddress)
		}
	}
	return m
}

// isolateBank removes the balances of the escrow accounts of the modules whose sections are defaulted (and lowers
// the supply accordingly), so that an isolated import is a consistent genesis for the module under test.
func isolateBank(a *rig.Rig, secs map[string]json.RawMessage, keep map[string]bool) json.RawMessage {
	var bg banktypes.GenesisState
	if err := a.Cdc.UnmarshalJSON(secs["bank"], &bg); err != nil {
		return secs["bank"]
	}
	drop := map[string]bool{}
	for mod, addrs := range escrowAccounts(secs) {
		if !keep[mod] {
			for _, ad := range addrs {
				drop[ad] = true
			}
		}
	}
	// the coins move to a neutral holder so that no total supply changes (LPT supplies are part of pool state)
	var kept []banktypes.Balance
	moved := sdk.NewCoins()
	for _, b := range bg.Balances {
		if drop[b.Address] {
			moved = moved.Add(b.Coins...)
			continue
		}
		kept = append(kept, b)
	}
	if !moved.IsZero() {
		kept = append(kept, banktypes.Balance{Address: sdk.AccAddress([]byte("c12-isolation-sink---")).String(), Coins: moved})
	}
	bg.Balances = banktypes.SanitizeGenesisBalances(kept)
	return a.Cdc.MustMarshalJSON(&bg)
}
