package prop

import (
	"fmt"
	"os"
	"path/filepath"
	"sort"
	"strings"
	"sync"
	"sync/atomic"
	"time"

	abci "github.com/cometbft/cometbft/abci/types"
	"google.golang.org/protobuf/reflect/protoreflect"
	"google.golang.org/protobuf/reflect/protoregistry"

	"verif/internal/ev"
	"verif/internal/rig"
)

// raceStress runs block production concurrently with a storm of gRPC queries, Simulate and CheckTx calls
// against the same application, under the Go race detector (the binary must be built with -race and started
// with GORACE="halt_on_error=0 log_path=..."). Only reports whose racing access lies in mods.irisnet.org count.
func raceStress(run *ev.Run, c int, tmp string) {
	logBase := os.Getenv("VERIF_RACE_LOG")
	chain := newAllChain(run, fmt.Sprintf("race-%d-%d", run.Seed, c), nil, time.Time{})
	r := chain.r
	// every irismod Query method with an empty request
	var paths []string
	protoregistry.GlobalFiles.RangeFiles(func(fd protoreflect.FileDescriptor) bool {
		if !strings.HasPrefix(fd.Path(), "irismod/") {
			return true
		}
		for i := 0; i < fd.Services().Len(); i++ {
			svc := fd.Services().Get(i)
			if svc.Name() != "Query" {
				continue
			}
			for j := 0; j < svc.Methods().Len(); j++ {
				paths = append(paths, fmt.Sprintf("/%s/%s", svc.FullName(), svc.Methods().Get(j).Name()))
			}
		}
		return true
	})
	sort.Strings(paths)
	var next atomic.Value // [][]byte: txs of the block being produced
	next.Store([][]byte{})
	var stop atomic.Bool
	var queries, sims, checks atomic.Int64
	var wg sync.WaitGroup
	for g := 0; g < 8; g++ {
		wg.Add(1)
		go func(g int) {
			defer wg.Done()
			i := g
			for !stop.Load() {
				i++
				func() {
					defer func() { recover() }() // query handlers may panic on empty requests; not the subject here
					r.CommitMu.RLock()
					defer r.CommitMu.RUnlock()
					switch i % 3 {
					case 0:
						p := paths[i%len(paths)]
						r.App.Query(r.Ctx(), &abci.RequestQuery{Path: p})
						queries.Add(1)
					case 1:
						txs := next.Load().([][]byte)
						if len(txs) > 0 {
							r.App.Simulate(txs[i%len(txs)])
							sims.Add(1)
						}
					case 2:
						txs := next.Load().([][]byte)
						if len(txs) > 0 {
							r.App.CheckTx(&abci.RequestCheckTx{Tx: txs[i%len(txs)], Type: abci.CheckTxType_New})
							checks.Add(1)
						}
					}
				}()
			}
		}(g)
	}
	blocks := 120
	for b := 0; b < blocks; b++ {
		var txs []rig.Tx
		for _, w := range chain.ws {
			txs = append(txs, w.Next(chain.n)...)
		}
		chain.n++
		raw := make([][]byte, len(txs))
		for i, t := range txs {
			raw[i] = t.Bytes
		}
		next.Store(raw)
		br := r.DeliverBlock(time.Duration(1+run.Rng.Intn(30))*time.Second, txs)
		for _, w := range chain.ws {
			w.Observe(br)
		}
	}
	stop.Store(true)
	wg.Wait()
	run.Count("race-blocks", int64(blocks))
	run.Count("race-queries", queries.Load())
	run.Count("race-simulations", sims.Load())
	run.Count("race-checktx", checks.Load())
	run.Eval(int(queries.Load() + sims.Load() + checks.Load()))
	// collect the reports written so far
	time.Sleep(200 * time.Millisecond)
	total, ours := 0, map[string]string{}
	if logBase != "" {
		files, _ := filepath.Glob(logBase + "*")
		for _, f := range files {
			bz, _ := os.ReadFile(f)
			for _, rep := range strings.Split(string(bz), "WARNING: DATA RACE")[1:] {
				total++
				tops := raceTopFrames(rep)
				mine := false
				for _, t := range tops {
					if strings.Contains(t, "mods.irisnet.org/") {
						mine = true
					}
				}
				if mine {
					sort.Strings(tops)
					ours[strings.Join(tops, " <-> ")] = trunc(rep, 3000)
				}
			}
		}
	} else {
		run.Note("race stress ran without a race log (not the -race build); it only exercised the concurrent paths")
	}
	run.Count("race-reports-total", int64(total))
	run.Count("race-reports-in-irismod", int64(len(ours)))
	for k, rep := range ours {
		run.Violation("C11:data-race:"+k, map[string]any{"report": rep}, "data race whose racing access lies in irismod code: %s", k)
	}
	run.Class("race-stress", fmt.Sprint("paths=", len(paths)))
	run.Class("race-stress", "storm", fmt.Sprint(queries.Load() > 0, sims.Load() > 0, checks.Load() > 0))
	run.Sample("race-stress", map[string]any{"blocks": blocks, "queries": queries.Load(), "simulations": sims.Load(), "checktx": checks.Load(), "query_paths": len(paths), "reports_total": total, "reports_in_irismod": len(ours)})
}

// raceTopFrames returns the first non-runtime function of each access stack of a race report.
func raceTopFrames(rep string) []string {
	var tops []string
	lines := strings.Split(rep, "\n")
	for i := 0; i < len(lines); i++ {
		l := strings.TrimSpace(lines[i])
		if !(strings.HasPrefix(l, "Write at") || strings.HasPrefix(l, "Read at") || strings.HasPrefix(l, "Previous write at") || strings.HasPrefix(l, "Previous read at") || strings.HasPrefix(l, "Atomic")) {
			continue
		}
		for j := i + 1; j < len(lines); j++ {
			f := strings.TrimSpace(lines[j])
			if f == "" {
				break
			}
			if strings.HasPrefix(f, "/") || strings.HasPrefix(f, "runtime.") || strings.HasPrefix(f, "sync.") || strings.HasPrefix(f, "sync/atomic.") {
				continue
			}
			if k := strings.Index(f, "("); k > 0 {
				f = f[:k]
			}
			tops = append(tops, f)
			break
		}
	}
	return tops
}
