package prop

import (
	"bytes"
	"math/rand"
	"os"
	"os/exec"

	abci "github.com/cometbft/cometbft/abci/types"
	storetypes "cosmossdk.io/store/types"
	"crypto/sha256"
	"encoding/hex"
	"encoding/json"
	"fmt"
	codectypes "github.com/cosmos/cosmos-sdk/codec/types"
	sdktestutil "github.com/cosmos/cosmos-sdk/testutil"
	recordmod "mods.irisnet.org/modules/record"
	recordkeeper "mods.irisnet.org/modules/record/keeper"
	"sort"
	"strings"
	"time"

	"github.com/cosmos/cosmos-sdk/codec"
	sdk "github.com/cosmos/cosmos-sdk/types"

	authtypes "github.com/cosmos/cosmos-sdk/x/auth/types"
	govtypes "github.com/cosmos/cosmos-sdk/x/gov/types"
	govv1 "github.com/cosmos/cosmos-sdk/x/gov/types/v1"
	recordtypes "mods.irisnet.org/modules/record/types"

	"verif/internal/ev"
	"verif/internal/rig"
)

func init() {
	Register(&Spec{
		ID: "C19", Level: "exploration",
		Rule:   "cases = chains of record creations (odd cases are born with records in genesis, the last of them byte-identical to the first record created afterwards, by governance; 1..N records per tx, 1..M txs per block, byte-identical contents by the same creator in one tx / one block / different blocks, several creators); monitors: every id returned by a message response must be new; every id is re-read through the query after its block, and all ids periodically and at the end, against the submitted contents, creator and sha256(tx bytes); the raw record store is diffed block to block (only additions, no value ever changes or disappears); non-trivial = a created record whose id/readback relation was evaluated; distinct = distinct (records per tx, duplicate kind, creator, read-back age class); since rounds 11-14: reads through the application's query service, ids of simulated transactions looked up before creation, padded / upper-case / non-ASCII digest fields",
		Assume: []string{"record ids are the hex strings returned in MsgCreateRecordResponse", "tx hash is the upper-case hex sha256 of the tx bytes as the module reports it"},
		Cases:  func(t string) int { return tierN(t, 16, 32) },
		Run:    runRecord,
	})
}

type recExpect struct {
	TxHash, Creator string
	Contents        []recordtypes.Content
	Height          int64
}

type recordWorkload struct {
	early map[string]bool // ids a simulation reported and that were looked up before their creation
	run        *ev.Run
	r          *rig.Rig
	ids        map[string]*recExpect
	order      []string
	quiet      bool
	prevRaw    map[string]string
	canon      []recordtypes.Content
	govCreated int // records created by governance since the last store diff
}

func newRecordWorkload() *recordWorkload {
	return &recordWorkload{ids: map[string]*recExpect{}}
}

func (w *recordWorkload) Name() string                                    { return "record" }
func (w *recordWorkload) Genesis(codec.Codec, map[string]json.RawMessage) {}
func (w *recordWorkload) Attach(run *ev.Run, r *rig.Rig) {
	w.run, w.r = run, r
	w.canon = []recordtypes.Content{{Digest: "abc", DigestAlgo: "sha256", URI: "u", Meta: "m"}}
}

type recTag struct{ Kind string }

func (w *recordWorkload) contents() ([]recordtypes.Content, string) {
	rng := w.run.Rng
	if rng.Intn(3) == 0 {
		return w.canon, "identical"
	}
	n := 1 + rng.Intn(3)
	var cs []recordtypes.Content
	for i := 0; i < n; i++ {
		cs = append(cs, recordtypes.Content{Digest: fmt.Sprintf("%x", rng.Int63()), DigestAlgo: pick(rng, "sha256", "md5"),
			URI:  pick(rng, "", "ipfs://x", "ipfs://x", "HTTPS://Example.ORG/Annual Report 2024.pdf", "http://ex\u00e4mple.org/\u00fc?q=a b&r=%zz", " leading and trailing ", "a\tb", "file:///tmp/../x/./y", "urn:uuid:6E8BC430-9C3A-11D9-9669-0800200C9A66", "%41%42%43"),
			Meta: pick(rng, strings.Repeat("m", rng.Intn(40)), "caf\u00e9 \u2603 \U0001F600", "{\"k\": [1, 2,  3]}", "line1\nline2", " ")})
	}
	if rng.Intn(5) == 0 {
		// digest and algorithm with white space at their ends, upper case, or non-ASCII text: "exactly the submitted contents"
		i := rng.Intn(len(cs))
		cs[i].Digest = pick(rng, " "+cs[i].Digest, cs[i].Digest+" ", "\t"+cs[i].Digest+"\n", strings.ToUpper(cs[i].Digest), "d\u00e9j\u00e0-"+cs[i].Digest)
		cs[i].DigestAlgo = pick(rng, cs[i].DigestAlgo, " "+cs[i].DigestAlgo, cs[i].DigestAlgo+" ", "SHA-256 ")
		w.run.Count("contents-with-padded-or-unusual-digest-fields", 1)
	}
	switch rng.Intn(8) {
	case 0: // the same file listed twice (same digest and algorithm, another location)
		c := cs[rng.Intn(len(cs))]
		c.URI, c.Meta = "ipfs://mirror/"+c.Digest, "mirror"
		cs = append(cs, c)
		return cs, "same-digest-twice"
	case 1: // an exact duplicate entry, and contents in descending digest order
		cs = append(cs, cs[0])
		sort.SliceStable(cs, func(i, j int) bool { return cs[i].Digest > cs[j].Digest })
		return cs, "duplicate-entry"
	}
	return cs, "fresh"
}

func (w *recordWorkload) Next(block int) []rig.Tx {
	rng := w.run.Rng
	r := w.r
	var out []rig.Tx
	ntx := 1 + rng.Intn(5)
	if w.quiet {
		ntx = rng.Intn(3)
	}
	for i := 0; i < ntx; i++ {
		a := r.Acc(rng.Intn(3)) // few creators so that identical (creator, contents) pairs recur
		nmsg := 1
		if rng.Intn(3) == 0 {
			nmsg = 2 + rng.Intn(6)
		}
		huge := !w.quiet && block%23 == 9 && i == 0
		if huge {
			// several hundred messages in one transaction, most of them byte-identical: per-transaction counters cross the
			// one-byte boundary several times
			nmsg = pick(rng, 258, 300, 520, 700, 1100)
		}
		var msgs []sdk.Msg
		kind := ""
		for j := 0; j < nmsg; j++ {
			cs, k := w.contents()
			if j > 0 && (rng.Intn(2) == 0 || (huge && rng.Intn(40) != 0)) { // byte-identical message inside one tx
				msgs = append(msgs, msgs[j-1])
				kind += "dup-in-tx,"
				continue
			}
			kind += k + ","
			msgs = append(msgs, &recordtypes.MsgCreateRecord{Contents: cs, Creator: a.Addr.String()})
		}
		nk := fmt.Sprintf("n=%d", nmsg)
		if nmsg > 8 {
			nk = "n>256"
		}
		out = append(out, r.Mk(a, &recTag{Kind: nk}, msgs...))
	}
	return out
}

func (w *recordWorkload) rawStore(ctx sdk.Context) map[string]string {
	m := map[string]string{}
	w.r.WalkStore(ctx, "record", recordtypes.RecordKey, func(k, v []byte) bool {
		m[string(k)] = string(v)
		return false
	})
	return m
}

// query asks the running application's own query service (the handler a node's gRPC and REST endpoints reach) for a record.
func (w *recordWorkload) query(ctx sdk.Context, id string) (res *recordtypes.QueryRecordResponse, err error) {
	defer func() {
		if rec := recover(); rec != nil {
			err = fmt.Errorf("query panicked: %v", rec)
		}
	}()
	const path = "/irismod.record.Query/Record"
	h := w.r.App.GRPCQueryRouter().Route(path)
	if h == nil {
		return nil, fmt.Errorf("no query route %s", path)
	}
	bz, _ := (&recordtypes.QueryRecordRequest{RecordId: id}).Marshal()
	out, err := h(ctx, &abci.RequestQuery{Path: path, Data: bz})
	if err != nil {
		return nil, err
	}
	res = &recordtypes.QueryRecordResponse{}
	if err := res.Unmarshal(out.Value); err != nil {
		return nil, err
	}
	return res, nil
}

// lookAhead: every third block the transactions about to be delivered are simulated first (as a client does to learn
// gas - and the ids - in advance) and the ids the simulation reports are looked up before the records exist. Whatever
// the answer to that early question is, it must not change what is read back once the record has been created.
func (w *recordWorkload) lookAhead(txs []rig.Tx) {
	ctx := w.r.Ctx()
	for _, tx := range txs {
		if _, ok := tx.Tag.(*recTag); !ok {
			continue
		}
		func() {
			defer func() { _ = recover() }()
			_, res, err := w.r.App.Simulate(tx.Bytes)
			if err != nil || res == nil {
				return
			}
			for _, mr := range res.MsgResponses {
				var resp recordtypes.MsgCreateRecordResponse
				if mr.TypeUrl != "/irismod.record.MsgCreateRecordResponse" || w.r.Cdc.Unmarshal(mr.Value, &resp) != nil || resp.Id == "" {
					continue
				}
				if _, exists := w.ids[resp.Id]; exists {
					continue
				}
				w.run.Eval(1)
				if q, err := w.query(ctx, resp.Id); err == nil && q.Record != nil && (q.Record.Creator != "" || len(q.Record.Contents) > 0) {
					w.run.Violation("C19:record:read-before-creation-returns-a-record", map[string]any{"id": resp.Id}, "record id %s (reported by a simulation) already reads back as a record of %s before any creation returned it", resp.Id, q.Record.Creator)
				}
				if w.early == nil {
					w.early = map[string]bool{}
				}
				w.early[resp.Id] = true
				w.run.Count("ids-looked-up-before-their-creation", 1)
			}
		}()
	}
}

func (w *recordWorkload) readBack(ctx sdk.Context, id string, age string) {
	run := w.run
	exp := w.ids[id]
	res, err := w.query(ctx, id)
	run.Eval(1)
	det := map[string]any{"id": id, "created_at": exp.Height}
	if err != nil || res.Record == nil {
		run.Violation("C19:record:read-back-failed", det, "record %s cannot be read back: %v", id, err)
		return
	}
	got := res.Record
	if got.Creator != exp.Creator {
		run.Violation("C19:record:creator-differs", det, "record %s creator %q, submitted by %q", id, got.Creator, exp.Creator)
	}
	if got.TxHash != exp.TxHash {
		run.Violation("C19:record:tx-hash-differs", det, "record %s tx hash %q, creating tx hash %q", id, got.TxHash, exp.TxHash)
	}
	if len(got.Contents) != len(exp.Contents) {
		run.Violation("C19:record:contents-differ", det, "record %s has %d contents, %d submitted", id, len(got.Contents), len(exp.Contents))
		return
	}
	for i := range got.Contents {
		if got.Contents[i] != exp.Contents[i] {
			run.Violation("C19:record:contents-differ", det, "record %s content %d is %+v, submitted %+v", id, i, got.Contents[i], exp.Contents[i])
		}
	}
	run.Class("readback", age, fmt.Sprint("contents=", len(exp.Contents)))
}

func (w *recordWorkload) Observe(br *rig.BlockRecord) {
	run := w.run
	ctx := w.r.Ctx()
	var newIDs []string
	for _, tx := range br.Txs {
		if _, ok := tx.Tag.(*recTag); !ok || !tx.OK() {
			continue
		}
		h := sha256.Sum256(tx.Bytes)
		txHash := strings.ToUpper(hex.EncodeToString(h[:]))
		nrec := 0
		seenInTx := map[string]int{}
		for i, m := range tx.Msgs {
			cm, ok := m.(*recordtypes.MsgCreateRecord)
			if !ok || i >= len(tx.Responses) {
				continue
			}
			var resp recordtypes.MsgCreateRecordResponse
			if err := w.r.Cdc.Unmarshal(tx.Responses[i].Value, &resp); err != nil {
				continue
			}
			nrec++
			key := fmt.Sprintf("%v", cm.Contents)
			seenInTx[key]++
			run.Eval(1)
			dupKind := "fresh"
			if seenInTx[key] > 1 {
				dupKind = "dup-in-tx"
			}
			if prev, dup := w.ids[resp.Id]; dup {
				if !w.quiet {
					run.Violation("C19:record:id-returned-twice", map[string]any{"id": resp.Id, "first_height": prev.Height, "height": br.Height, "msg_index": i}, "record id %s returned at height %d was already returned at height %d", resp.Id, br.Height, prev.Height)
				}
				continue
			}
			if w.early[resp.Id] {
				run.Count("ids-looked-up-before-their-creation-then-created", 1)
			}
			w.ids[resp.Id] = &recExpect{TxHash: txHash, Creator: cm.Creator, Contents: cm.Contents, Height: br.Height}
			w.order = append(w.order, resp.Id)
			newIDs = append(newIDs, resp.Id)
			run.Class("create", fmt.Sprint("per-tx=", len(tx.Msgs)), dupKind)
			run.Sample("record", map[string]any{"height": br.Height, "id": resp.Id, "tx_hash": txHash, "creator": cm.Creator, "contents": cm.Contents})
		}
		run.Count("records-created", int64(nrec))
		if len(tx.Msgs) > 1 {
			run.Count("multi-record-tx", 1)
		}
		for _, n := range seenInTx {
			if n > 1 {
				run.Count("identical-in-one-tx", 1)
			}
		}
	}
	if w.quiet {
		return
	}
	for _, id := range newIDs {
		w.readBack(ctx, id, "same-block")
	}
	// raw store: only additions
	cur := w.rawStore(ctx)
	if w.prevRaw != nil {
		run.Eval(1)
		for k, v := range w.prevRaw {
			nv, ok := cur[k]
			if !ok {
				run.Violation("C19:record:stored-record-deleted", map[string]any{"key": hex.EncodeToString([]byte(k)), "height": br.Height}, "record key %x disappeared at height %d", k, br.Height)
			} else if nv != v {
				run.Violation("C19:record:stored-record-changed", map[string]any{"key": hex.EncodeToString([]byte(k)), "height": br.Height}, "record key %x changed value at height %d", k, br.Height)
			}
		}
		if len(cur)-len(w.prevRaw) != len(newIDs)+w.govCreated {
			run.Violation("C19:record:store-additions-differ-from-returned-ids", map[string]any{"height": br.Height}, "%d records returned ids at height %d but the store grew by %d keys", len(newIDs), br.Height, len(cur)-len(w.prevRaw))
		}
	}
	w.prevRaw = cur
	w.govCreated = 0
	// periodic full re-read
	if br.Height%25 == 0 {
		w.rereadAll("periodic")
	}
}

func (w *recordWorkload) rereadAll(age string) {
	ctx := w.r.Ctx()
	for _, id := range w.order {
		a := age
		if w.r.Height-w.ids[id].Height > 100 {
			a += "-old"
		}
		w.readBack(ctx, id, a)
	}
}

// RecordPrefixMain is the body of the child process "__c19prefix <seed> <n>": the record keeper, message server and query
// server on a bare store, in a process whose account address prefix is "iaa" (the SDK keeps the prefix in a process-wide
// configuration, so the chain of the other cases cannot change it). It creates n records by creators of 20 and 32 bytes
// and prints, as JSON, every read-back (keeper, query, export) that differs from what was submitted.
func RecordPrefixMain(args []string) {
	seed, n := int64(1), 50
	if len(args) > 0 {
		fmt.Sscan(args[0], &seed)
	}
	if len(args) > 1 {
		fmt.Sscan(args[1], &n)
	}
	sdk.GetConfig().SetBech32PrefixForAccount("iaa", "iap")
	registry := codectypes.NewInterfaceRegistry()
	recordtypes.RegisterInterfaces(registry)
	cdc := codec.NewProtoCodec(registry)
	key := storetypes.NewKVStoreKey(recordtypes.StoreKey)
	ctx := sdktestutil.DefaultContext(key, storetypes.NewTransientStoreKey("transient_"+recordtypes.StoreKey))
	k := recordkeeper.NewKeeper(cdc, key)
	srv := recordkeeper.NewMsgServerImpl(k)
	rng := rand.New(rand.NewSource(seed))
	type out struct {
		Records    int      `json:"records"`
		Mismatches []string `json:"mismatches"`
	}
	var o out
	bad := func(f string, a ...any) { o.Mismatches = append(o.Mismatches, fmt.Sprintf(f, a...)) }
	var want []recordtypes.Record
	for i := 0; i < n; i++ {
		ab := make([]byte, pick(rng, 20, 20, 32))
		rng.Read(ab)
		creator := sdk.AccAddress(ab).String()
		txb := make([]byte, 10+rng.Intn(200))
		rng.Read(txb)
		cs := []recordtypes.Content{{Digest: fmt.Sprintf("%x", rng.Int63()), DigestAlgo: "sha256", URI: pick(rng, "", "ipfs://x"), Meta: strings.Repeat("m", rng.Intn(20))}}
		msg := recordtypes.NewMsgCreateRecord(cs, creator)
		if err := msg.ValidateBasic(); err != nil {
			bad("record %d: a creator of this chain (%s) fails ValidateBasic: %v", i, creator, err)
			continue
		}
		res, err := srv.CreateRecord(ctx.WithTxBytes(txb), msg)
		if err != nil {
			bad("record %d: creation by %s rejected: %v", i, creator, err)
			continue
		}
		o.Records++
		h := sha256.Sum256(txb)
		exp := recordtypes.Record{TxHash: strings.ToUpper(hex.EncodeToString(h[:])), Contents: cs, Creator: creator}
		want = append(want, exp)
		id, _ := hex.DecodeString(res.Id)
		cmp := func(via string, got recordtypes.Record) {
			if got.Creator != exp.Creator {
				bad("record %s read through %s: creator %q, submitted by %q", res.Id, via, got.Creator, exp.Creator)
			}
			if got.TxHash != exp.TxHash || fmt.Sprint(got.Contents) != fmt.Sprint(exp.Contents) {
				bad("record %s read through %s: tx hash / contents differ from what was submitted", res.Id, via)
			}
		}
		if got, found := k.GetRecord(ctx, id); found {
			cmp("the keeper", got)
		} else {
			bad("record %s cannot be read back through the keeper", res.Id)
		}
		if q, err := k.Record(ctx, &recordtypes.QueryRecordRequest{RecordId: res.Id}); err == nil && q.Record != nil {
			cmp("the query", *q.Record)
		} else {
			bad("record %s cannot be read back through the query: %v", res.Id, err)
		}
	}
	exported := recordmod.ExportGenesis(ctx, k)
	if err := recordtypes.ValidateGenesis(*exported); err != nil {
		bad("the module's own validation rejects the exported records: %v", err)
	}
	seen := map[string]int{}
	for _, r := range exported.Records {
		seen[r.Creator+"|"+r.TxHash]++
		if _, err := sdk.AccAddressFromBech32(r.Creator); err != nil {
			bad("exported record names creator %q, which is not an address of this chain: %v", r.Creator, err)
		}
	}
	for _, r := range want {
		if seen[r.Creator+"|"+r.TxHash] == 0 {
			bad("the export holds no record by %s with tx hash %s", r.Creator, r.TxHash)
		}
	}
	bz, _ := json.Marshal(o)
	fmt.Println(string(bz))
}

// recordForeignPrefix runs RecordPrefixMain in a child process and judges its report.
func recordForeignPrefix(run *ev.Run) {
	self, err := os.Executable()
	if err != nil {
		run.Inconc("other-prefix probe: %v", err)
		return
	}
	n := tierN(run.Tier, 60, 400)
	bz, err := exec.Command(self, "__c19prefix", fmt.Sprint(run.Seed), fmt.Sprint(n)).Output()
	if err != nil {
		run.Inconc("other-prefix probe: child process failed: %v", err)
		return
	}
	var o struct {
		Records    int      `json:"records"`
		Mismatches []string `json:"mismatches"`
	}
	if err := json.Unmarshal(bytes.TrimSpace(bz), &o); err != nil {
		run.Inconc("other-prefix probe: unreadable report: %v", err)
		return
	}
	run.Eval(3 * o.Records)
	run.Count("records-created-under-another-account-prefix", int64(o.Records))
	run.Class("readback", "other-account-prefix", "keeper+query+export")
	for i, m := range o.Mismatches {
		if i >= 5 {
			break
		}
		run.Violation("C19:record:read-back-differs:other-account-prefix", map[string]any{"prefix": "iaa", "report": m}, "on a chain whose account prefix is iaa: %s", m)
	}
}

func runRecord(run *ev.Run, c int) {
	if c == 0 {
		recordForeignPrefix(run)
	}
	w := newRecordWorkload()
	// odd cases: the chain is born with records, the last of them byte-identical (contents, creator, hash of no
	// transaction bytes) to the record governance creates later - which is then the first creation after genesis
	genesisBorn := c%2 == 1
	emptyHash := sha256.Sum256(nil)
	emptyHex := strings.ToUpper(hex.EncodeToString(emptyHash[:]))
	govAddr := authtypes.NewModuleAddress(govtypes.ModuleName).String()
	canon := []recordtypes.Content{{Digest: "abc", DigestAlgo: "sha256", URI: "u", Meta: "m"}}
	var born []recordtypes.Record
	if genesisBorn {
		for i := 0; i < 1+c%3; i++ {
			born = append(born, recordtypes.Record{TxHash: strings.ToUpper(fmt.Sprintf("%064x", i+1)), Contents: []recordtypes.Content{{Digest: fmt.Sprintf("born%d", i), DigestAlgo: "sha256"}}, Creator: govAddr})
		}
		born = append(born, recordtypes.Record{TxHash: emptyHex, Contents: canon, Creator: govAddr})
	}
	r := rig.New(rig.Options{Seed: fmt.Sprintf("rec-%d-%d", run.Seed, c), NumAccounts: 4, Balances: sdk.NewCoins(sdk.NewInt64Coin(rig.BondDenom, 1_000_000_000)), InflationOff: true, SubSecond: c%2 == 1,
		GenesisMutator: func(cdc codec.Codec, gs map[string]json.RawMessage) {
			if genesisBorn {
				gs[recordtypes.ModuleName] = cdc.MustMarshalJSON(&recordtypes.GenesisState{Records: born})
			}
			// short voting period: records are also created by messages that x/gov executes in its end blocker,
			// i.e. outside any transaction (no tx bytes), which is where byte-identical records can recur across blocks
			var gg govv1.GenesisState
			cdc.MustUnmarshalJSON(gs["gov"], &gg)
			vp := 20 * time.Second
			gg.Params.VotingPeriod = &vp
			gg.Params.MinDeposit = sdk.NewCoins(sdk.NewInt64Coin(rig.BondDenom, 10))
			gs["gov"] = cdc.MustMarshalJSON(&gg)
		}})
	w.Attach(run, r)
	if genesisBorn {
		// the records the chain was born with count as creations: their ids are the keys they are stored under
		n := 0
		r.WalkStore(r.Ctx(), "record", recordtypes.RecordKey, func(k, v []byte) bool {
			var rec recordtypes.Record
			r.Cdc.MustUnmarshal(v, &rec)
			id := hex.EncodeToString(k[len(recordtypes.RecordKey):])
			w.ids[id] = &recExpect{TxHash: rec.TxHash, Creator: rec.Creator, Contents: rec.Contents, Height: 0}
			w.order = append(w.order, id)
			n++
			return false
		})
		run.Eval(1)
		if n != len(born) {
			run.Violation("C19:record:genesis-records-share-an-id", map[string]any{"in_genesis": len(born), "stored": n}, "genesis holds %d records, %d are stored", len(born), n)
		}
		run.Count("genesis-born-records", int64(n))
	}
	govSeen := false
	blocks := tierN(run.Tier, 150, 1200)
	proposer := r.Acc(0)
	govRecord := &recordtypes.MsgCreateRecord{Contents: w.canon, Creator: r.GovAddr.String()}
	submitAt := map[int]bool{5: true, 9: true, 13: true, 60: true, 61: true}
	quiet := func(b int) bool { // no record txs around the blocks in which a proposal is executed
		if genesisBorn && !govSeen && b < 40 { // the first creation after a genesis with records is governance's
			return true
		}
		for s := range submitAt {
			if b >= s+18 && b <= s+25 {
				return true
			}
		}
		return false
	}
	var pendingVotes []uint64
	for b := 0; b < blocks; b++ {
		var txs []rig.Tx
		if !quiet(b) {
			txs = w.Next(b)
		}
		for _, id := range pendingVotes {
			txs = append(txs, r.Mk(proposer, "gov-vote", govv1.NewMsgVote(proposer.Addr, id, govv1.OptionYes, "")))
		}
		pendingVotes = nil
		if submitAt[b] {
			if prop, err := govv1.NewMsgSubmitProposal([]sdk.Msg{govRecord}, sdk.NewCoins(sdk.NewInt64Coin(rig.BondDenom, 1000)), proposer.Addr.String(), "", "record", "create a record by governance", false); err == nil {
				txs = append(txs, r.Mk(proposer, "gov-submit", prop))
			}
		}
		if b%3 == 1 {
			w.lookAhead(txs)
		}
		br := r.DeliverBlock(time.Second, txs)
		if br.FinalErr != nil {
			run.Inconc("FinalizeBlock failed: %v", br.FinalErr)
			return
		}
		for _, tx := range br.Txs {
			if tx.Tag == "gov-submit" && tx.OK() && len(tx.Responses) == 1 {
				var resp govv1.MsgSubmitProposalResponse
				if r.Cdc.Unmarshal(tx.Responses[0].Value, &resp) == nil {
					pendingVotes = append(pendingVotes, resp.ProposalId)
				}
			}
		}
		// records created by governance in the end blocker: ids come from the module's events
		for _, e := range br.EndEvents {
			if e.Type != recordtypes.EventTypeCreateRecord {
				continue
			}
			id := ""
			for _, a := range e.Attributes {
				if a.Key == recordtypes.AttributeKeyRecordID {
					id = a.Value
				}
			}
			run.Eval(1)
			run.Count("records-created-by-governance", 1)
			if genesisBorn && !govSeen {
				run.Count("first-creation-after-genesis-repeats-the-last-genesis-record", 1)
			}
			govSeen = true
			if prev, dup := w.ids[id]; dup {
				run.Violation("C19:record:id-returned-twice", map[string]any{"id": id, "first_height": prev.Height, "height": br.Height, "path": "governance-executed message"}, "record id %s given to a governance-created record at height %d was already given at height %d", id, br.Height, prev.Height)
				continue
			}
			w.ids[id] = &recExpect{TxHash: emptyHex, Creator: r.GovAddr.String(), Contents: w.canon, Height: br.Height}
			w.order = append(w.order, id)
			w.govCreated++
			run.Class("create", "by-governance", "identical-across-blocks")
		}
		w.Observe(br)
	}
	w.rereadAll("final")
	run.Require("records-created", 100)
	run.Require("identical-in-one-tx", 1)
	run.Require("multi-record-tx", 1)
	run.Require("records-created-by-governance", 3)
	run.Require("ids-looked-up-before-their-creation", 10)
	run.Require("ids-looked-up-before-their-creation-then-created", 5)
}
