package prop

import (
	"encoding/hex"
	"encoding/json"
	"fmt"
	"math/big"
	"regexp"
	"sort"
	"strings"
	"time"

	"github.com/cosmos/cosmos-sdk/codec"
	sdk "github.com/cosmos/cosmos-sdk/types"
	banktypes "github.com/cosmos/cosmos-sdk/x/bank/types"
	gogotypes "github.com/cosmos/gogoproto/types"

	oracletypes "mods.irisnet.org/modules/oracle/types"
	servicetypes "mods.irisnet.org/modules/service/types"

	"verif/internal/ev"
	"verif/internal/rig"
)

func init() {
	Register(&Spec{
		ID: "C17", Level: "exploration",
		Rule: "cases = chains with several feeds (max/min/avg, latest-history 1..5, 1..3 providers, thresholds 1..N, frequency/timeouts) whose providers answer with numbers of either sign and of magnitudes 1e-6..1e300 (valid, error, missing, foreign, duplicate answers), creators and strangers starting/pausing/editing (history shrunk and grown), one creator running out of funds; after every tx and end-block each feed's value list, state index and request context are read and compared with a reference that appends exactly one exact-rational aggregate (within the float64/8-decimal bound) stamped with the block time per completed batch that met its threshold; non-trivial = a batch completion, edit or state change whose relation was evaluated; distinct = distinct (aggregate, #responses vs threshold, magnitude class, sign mix, completion site, history op, actor); since round 13: valid answers lacking the feed's field (value not judged, count is); since rounds 15-19: one transaction creating two feeds; the provider list replaced by a shorter one while a batch is open; the unfiltered listing reports every feed once, in the state of its request context",
		Assume: []string{"which batch completed when is read from the service module's request context (C08 covers the service module itself)", "responses are numeric JSON literals; tolerance = 0.5e-8 + 2^-52*(n+1)*mean|x| derived from float64 parsing and summation"},
		Cases:  func(t string) int { return tierN(t, 16, 48) },
		Run:    runOracle,
		RequireTotals: map[string]int64{"automatic-pause": 2},
	})
}

type feedModel struct {
	Ambig map[uint64]bool // batches with a valid answer that lacks the feed's field (value not judged, count is)
	Name, Creator, Agg string
	History            uint64
	CtxID              string
	Expected           []oracletypes.FeedValue
	Resp               map[uint64][]*big.Rat // batch -> exact values of accepted valid responses
	RespSrc            map[uint64][]string
}

type feedObs struct {
	Feed      oracletypes.Feed
	Found     bool
	Values    []oracletypes.FeedValue
	InRunning bool
	InPaused  bool
	CtxFound  bool
	Batch     uint64
	BState    servicetypes.RequestContextBatchState
	State     servicetypes.RequestContextState
	Threshold uint32
	ReqCount  uint32
}

type oracleSnap struct {
	Feeds  map[string]*feedObs
	Time   time.Time
	Listed map[string][]servicetypes.RequestContextState // feed name -> states of its entries in the unfiltered listing
}

type orTag struct {
	Kind string
	Feed string
	Req  string
	Val  string
	Role string
}

type oracleWorkload struct {
	run     *ev.Run
	r       *rig.Rig
	feeds   map[string]*feedModel
	names   []string
	setup   int
	provs   []*rig.Account
	pending []svcBatch
	reqFeed map[string]string // request id -> feed name
	reqBatch map[string]uint64
	answered map[string]bool
	quiet   bool
	poor    *rig.Account
}

func newOracleWorkload() *oracleWorkload {
	return &oracleWorkload{feeds: map[string]*feedModel{}, reqFeed: map[string]string{}, reqBatch: map[string]uint64{}, answered: map[string]bool{}}
}

func (w *oracleWorkload) Name() string                                        { return "oracle" }
func (w *oracleWorkload) Genesis(codec.Codec, map[string]json.RawMessage) {}
func (w *oracleWorkload) Attach(run *ev.Run, r *rig.Rig) {
	w.run, w.r = run, r
	w.provs = []*rig.Account{r.Acc(0), r.Acc(1), r.Acc(2)}
	w.poor = r.Acc(len(r.Accounts) - 1)
}

const orSvc = "price"

func (w *oracleWorkload) snapshot(ctx sdk.Context) *oracleSnap {
	k := w.r.K.Oracle
	s := &oracleSnap{Feeds: map[string]*feedObs{}, Time: ctx.BlockTime()}
	// the unfiltered listing, as the query server reports it (one page holds every feed of these chains)
	if res, err := k.Feeds(ctx, &oracletypes.QueryFeedsRequest{}); err == nil {
		s.Listed = map[string][]servicetypes.RequestContextState{}
		for _, e := range res.Feeds {
			if e.Feed != nil {
				s.Listed[e.Feed.FeedName] = append(s.Listed[e.Feed.FeedName], e.State)
			}
		}
	}
	running, paused := map[string]bool{}, map[string]bool{}
	k.IteratorFeedsByState(ctx, servicetypes.RUNNING, func(f oracletypes.Feed) { running[f.FeedName] = true })
	k.IteratorFeedsByState(ctx, servicetypes.PAUSED, func(f oracletypes.Feed) { paused[f.FeedName] = true })
	for _, n := range w.names {
		o := &feedObs{}
		o.Feed, o.Found = k.GetFeed(ctx, n)
		if o.Found {
			o.Values = k.GetFeedValues(ctx, n)
			o.InRunning, o.InPaused = running[n], paused[n]
			id, _ := hex.DecodeString(o.Feed.RequestContextID)
			rc, ok := w.r.K.Service.GetRequestContext(ctx, id)
			o.CtxFound = ok
			if ok {
				o.Batch, o.BState, o.State, o.Threshold, o.ReqCount = rc.BatchCounter, rc.BatchState, rc.State, rc.BatchResponseThreshold, rc.BatchRequestCount
			}
		}
		s.Feeds[n] = o
	}
	return s
}

// numeric literal generation: (literal, exact value)
func (w *oracleWorkload) number() (string, string) {
	rng := w.run.Rng
	var lit, cls string
	switch rng.Intn(10) {
	case 9:
		lit, cls = fmt.Sprintf("1.%02de308", rng.Intn(79)), "near-max-float"
	case 0:
		lit, cls = "0", "zero"
	case 1:
		lit, cls = fmt.Sprintf("0.%06d", rng.Intn(1000000)), "tiny"
	case 2, 3:
		lit, cls = fmt.Sprintf("%d.%04d", rng.Intn(100000), rng.Intn(10000)), "ordinary"
	case 4:
		lit, cls = fmt.Sprintf("%d", rng.Int63()), "1e18"
	case 5:
		lit, cls = fmt.Sprintf("%d.%de%d", 1+rng.Intn(9), rng.Intn(1000), 20+rng.Intn(200)), "huge"
	case 6:
		lit, cls = fmt.Sprintf("%d.%de300", 1+rng.Intn(9), rng.Intn(1000)), "1e300"
	case 7:
		lit, cls = fmt.Sprintf("%d.%08d", rng.Intn(1000), rng.Intn(100000000)), "8dec"
	default:
		lit, cls = fmt.Sprintf("%d.%dE-%d", 1+rng.Intn(9), rng.Intn(1000), 1+rng.Intn(12)), "small-exp"
	}
	if lit != "0" && rng.Intn(3) == 0 {
		lit = "-" + lit
		cls = "neg-" + cls
	}
	return lit, cls
}

func (w *oracleWorkload) Next(block int) []rig.Tx {
	rng := w.run.Rng
	r := w.r
	var out []rig.Tx
	switch w.setup {
	case 0:
		w.setup++
		// the poor creator keeps only a little of the fee denom
		keep := int64(40)
		bal := r.App.BankKeeper.GetBalance(r.Ctx(), w.poor.Addr, rig.BondDenom)
		txs := []rig.Tx{r.Mk(r.Acc(0), &orTag{Kind: "setup"}, svcDefine(r.Acc(0), orSvc, svcGenericSchemas))}
		if !w.quiet {
			txs = append(txs, r.Mk(w.poor, &orTag{Kind: "setup"}, banktypes.NewMsgSend(w.poor.Addr, r.Acc(3).Addr, sdk.NewCoins(sdk.NewCoin(rig.BondDenom, bal.Amount.SubRaw(keep))))))
		}
		return txs
	case 1:
		w.setup++
		return []rig.Tx{
			r.Mk(w.provs[0], &orTag{Kind: "setup"}, svcBind(w.provs[0], orSvc, "1stake", 100000, 2)),
			r.Mk(w.provs[1], &orTag{Kind: "setup"}, svcBind(w.provs[1], orSvc, "2stake", 100000, 2)),
			r.Mk(w.provs[2], &orTag{Kind: "setup"}, svcBind(w.provs[2], orSvc, "3stake", 100000, 2)),
		}
	case 2:
		w.setup++
		// feeds
		nf := 4
		if w.quiet {
			nf = 3
		}
		for i := 0; i < nf; i++ {
			creator := r.Acc(3 + i%3)
			if i == nf-1 && !w.quiet {
				creator = w.poor
			}
			np := 1 + rng.Intn(3)
			var provs []string
			for _, j := range rng.Perm(3)[:np] {
				provs = append(provs, w.provs[j].Addr.String())
			}
			freq := uint64(3 + rng.Intn(5))
			timeout := int64(2 + rng.Intn(int(freq)-1))
			name := fmt.Sprintf("feed%d", i)
			if i == 1 {
				name = "feed0x" // one name that extends another (prefix-iteration hazard)
			}
			if w.quiet && i == 0 {
				name = "tka-stake" // the exchange-rate feed other modules read (service pricing in tka)
			}
			if w.quiet && i == 2 {
				// an average over three providers answering with values around 1e15..1e16 (above 2^53 in sum): the float64
				// sum, and with it the stored 8-decimal value, depends on the order in which the outputs are added up
				name, np = "feedavg", 3
				provs = []string{w.provs[0].Addr.String(), w.provs[1].Addr.String(), w.provs[2].Addr.String()}
			}
			if name == "tka-stake" || name == "feedavg" {
				freq, timeout = 3, 2
			}
			msg := &oracletypes.MsgCreateFeed{FeedName: name, LatestHistory: uint64(1 + rng.Intn(5)), Description: "d", Creator: creator.Addr.String(), ServiceName: orSvc, Providers: provs,
				Input: `{"header":{},"body":{}}`, Timeout: timeout, ServiceFeeCap: sdk.NewCoins(sdk.NewInt64Coin(rig.BondDenom, 10)), RepeatedFrequency: freq, AggregateFunc: pick(rng, "max", "min", "avg"), ValueJsonPath: "last", ResponseThreshold: uint32(1 + rng.Intn(np))}
			if name == "tka-stake" {
				msg.ResponseThreshold = 1
			}
			if name == "feedavg" {
				msg.ResponseThreshold, msg.AggregateFunc = 1, "avg"
			}
			out = append(out, r.Mk(creator, &orTag{Kind: "create", Feed: name}, msg))
		}
		if !w.quiet {
			// a feed whose aggregate function is named in another letter case: refused, or else it has to aggregate
			creator := r.Acc(3)
			out = append(out, r.Mk(creator, &orTag{Kind: "create", Feed: "feedcase"}, &oracletypes.MsgCreateFeed{FeedName: "feedcase", LatestHistory: 3, Description: "d", Creator: creator.Addr.String(), ServiceName: orSvc,
				Providers: []string{w.provs[0].Addr.String()}, Input: `{"header":{},"body":{}}`, Timeout: 2, ServiceFeeCap: sdk.NewCoins(sdk.NewInt64Coin(rig.BondDenom, 10)), RepeatedFrequency: 3,
				AggregateFunc: pick(rng, "Avg", "MAX", "miN"), ValueJsonPath: "last", ResponseThreshold: 1}))
			// two feeds created by one transaction (their request contexts are made within one transaction)
			creator2 := r.Acc(4) // (the feedcase transaction above fails before its sequence number is consumed)
			twin := func(name, agg string) *oracletypes.MsgCreateFeed {
				return &oracletypes.MsgCreateFeed{FeedName: name, LatestHistory: 3, Description: "d", Creator: creator2.Addr.String(), ServiceName: orSvc,
					Providers: []string{w.provs[1].Addr.String()}, Input: `{"header":{},"body":{}}`, Timeout: 2, ServiceFeeCap: sdk.NewCoins(sdk.NewInt64Coin(rig.BondDenom, 10)), RepeatedFrequency: 4,
					AggregateFunc: agg, ValueJsonPath: "last", ResponseThreshold: 1}
			}
			out = append(out, r.Mk(creator2, &orTag{Kind: "create", Feed: "feedtwa"}, twin("feedtwa", "max"), twin("feedtwb", "min")))
			w.run.Count("two-feeds-created-by-one-transaction", 1)
		}
		return out
	}
	// answers
	for _, b := range w.pending {
		p := findAcc(r, b.Provider)
		if p == nil {
			continue
		}
		for _, id := range b.RequestIDs {
			if w.reqFeed[id] == "" {
				continue
			}
			roll := rng.Intn(10)
			if w.reqFeed[id] == "feedavg" {
				lit := fmt.Sprintf("%d.%04d", int64(1e15)+rng.Int63n(int64(8e15)), rng.Intn(10000))
				out = append(out, r.Mk(p, &orTag{Kind: "respond", Req: id, Feed: "feedavg", Val: lit, Role: "1e15"}, svcRespond(p, id, `{"last":`+lit+`}`)))
				continue
			}
			if w.reqFeed[id] == "tka-stake" && roll < 3 {
				roll = 9 // the exchange-rate feed other workloads price with is kept alive by construction
			}
			switch roll {
			case 0:
				w.run.Count("answer-withheld", 1)
			case 1:
				out = append(out, r.Mk(p, &orTag{Kind: "respond-error", Req: id, Feed: w.reqFeed[id]}, svcRespondErr(p, id)))
			case 2:
				other := w.provs[(indexAcc(w.provs, p)+1)%3]
				lit, _ := w.number()
				out = append(out, r.Mk(other, &orTag{Kind: "respond-foreign", Req: id, Feed: w.reqFeed[id], Val: lit}, svcRespond(other, id, `{"last":`+lit+`}`)))
			default:
				lit, cls := w.number()
				if w.reqFeed[id] == "tka-stake" {
					lit, cls = fmt.Sprintf("%d.%02d", 1+rng.Intn(5), rng.Intn(100)), "rate"
				}
				body := `{"last":` + lit + `}`
				if w.reqFeed[id] != "tka-stake" && rng.Intn(12) == 0 {
					// a valid answer that carries its number under another name: the feed's field is not in it. How such an
					// answer enters the aggregate is the module's business; that the completed batch appends exactly one value is not
					out = append(out, r.Mk(p, &orTag{Kind: "respond", Req: id, Feed: w.reqFeed[id], Val: "field-missing", Role: "field-missing"}, svcRespond(p, id, `{"latest":`+lit+`}`)))
					w.run.Count("answers-without-the-feed's-field", 1)
					continue
				}
				if rng.Intn(5) == 0 {
					// the number given as a JSON string (the extraction reads it as the number it spells)
					body, cls = `{"last":"`+lit+`"}`, cls+"/quoted"
					w.run.Count("answers-with-the-number-given-as-a-string", 1)
				}
				out = append(out, r.Mk(p, &orTag{Kind: "respond", Req: id, Feed: w.reqFeed[id], Val: lit, Role: cls}, svcRespond(p, id, body)))
				if rng.Intn(8) == 0 { // duplicate answer
					lit2, _ := w.number()
					out = append(out, r.Mk(p, &orTag{Kind: "respond-duplicate", Req: id, Feed: w.reqFeed[id], Val: lit2}, svcRespond(p, id, `{"last":`+lit2+`}`)))
				}
			}
		}
	}
	w.pending = nil
	// every feed is started once by its creator early on (so that batches, and the poor creator's automatic pause, happen by construction)
	if w.setup == 3 {
		w.setup++
		for _, name := range w.names {
			if a := findAcc(r, w.feeds[name].Creator); a != nil {
				out = append(out, r.Mk(a, &orTag{Kind: "start", Feed: name, Role: "creator"}, &oracletypes.MsgStartFeed{FeedName: name, Creator: a.Addr.String()}))
			}
		}
		return out
	}
	// lifecycle operations
	nops := rng.Intn(3)
	for i := 0; i < nops && len(w.names) > 0; i++ {
		name := w.names[rng.Intn(len(w.names))]
		f := w.feeds[name]
		actor := findAcc(r, f.Creator)
		role := "creator"
		if rng.Intn(4) == 0 || actor == nil {
			actor = r.Acc(rng.Intn(len(r.Accounts)))
			if actor.Addr.String() != f.Creator {
				role = "stranger"
			}
		}
		op := rng.Intn(6)
		if (name == "tka-stake" || name == "feedavg") && op == 3 {
			op = 0 // never paused: see above
		}
		switch op {
		case 0, 1, 2:
			out = append(out, r.Mk(actor, &orTag{Kind: "start", Feed: name, Role: role}, &oracletypes.MsgStartFeed{FeedName: name, Creator: actor.Addr.String()}))
		case 3:
			out = append(out, r.Mk(actor, &orTag{Kind: "pause", Feed: name, Role: role}, &oracletypes.MsgPauseFeed{FeedName: name, Creator: actor.Addr.String()}))
		default:
			msg := &oracletypes.MsgEditFeed{FeedName: name, Description: pick(rng, oracletypes.DoNotModify, "new"), LatestHistory: uint64(rng.Intn(7)), Creator: actor.Addr.String()}
			switch {
			case name == "tka-stake" || name == "feedavg":
				if rng.Intn(3) == 0 {
					msg.ResponseThreshold = 1
				}
			case rng.Intn(3) == 0:
				// raised as well as lowered, also while a batch is open: the open batch keeps the threshold it was issued with
				msg.ResponseThreshold = uint32(1 + rng.Intn(3))
				switch rng.Intn(4) {
				case 0, 1:
					for _, pa := range w.provs {
						msg.Providers = append(msg.Providers, pa.Addr.String())
					}
				case 2:
					// the list is replaced by a shorter one, also while a batch is open: a provider that batch was issued to
					// is dropped, and its answer to the open batch still counts
					drop := rng.Intn(len(w.provs))
					for j, pa := range w.provs {
						if j != drop {
							msg.Providers = append(msg.Providers, pa.Addr.String())
						}
					}
					if int(msg.ResponseThreshold) > len(msg.Providers) {
						msg.ResponseThreshold = uint32(len(msg.Providers))
					}
					w.run.Count("feed-provider-list-shortened", 1)
				}
			}
			out = append(out, r.Mk(actor, &orTag{Kind: "edit", Feed: name, Role: role}, msg))
		}
	}
	// keep the poor creator poor but able to start again sometimes
	if !w.quiet && rng.Intn(40) == 0 {
		out = append(out, r.Mk(r.Acc(3), &orTag{Kind: "fund"}, banktypes.NewMsgSend(r.Acc(3).Addr, w.poor.Addr, sdk.NewCoins(sdk.NewInt64Coin(rig.BondDenom, int64(5+rng.Intn(10)))))))
	}
	return out
}

func indexAcc(as []*rig.Account, a *rig.Account) int {
	for i, x := range as {
		if x == a {
			return i
		}
	}
	return 0
}

var reDec8 = regexp.MustCompile(`^-?\d+\.\d{8}$`)

func ratOf(lit string) *big.Rat {
	r, ok := new(big.Rat).SetString(lit)
	if !ok {
		return nil
	}
	return r
}

// exactAggregate returns the exact aggregate and the derived absolute tolerance.
func exactAggregate(agg string, xs []*big.Rat) (*big.Rat, *big.Rat) {
	n := int64(len(xs))
	res := new(big.Rat).Set(xs[0])
	sumAbs := new(big.Rat)
	for _, x := range xs {
		sumAbs.Add(sumAbs, new(big.Rat).Abs(x))
	}
	switch strings.ToLower(agg) {
	case "max":
		for _, x := range xs[1:] {
			if x.Cmp(res) > 0 {
				res.Set(x)
			}
		}
	case "min":
		for _, x := range xs[1:] {
			if x.Cmp(res) < 0 {
				res.Set(x)
			}
		}
	default:
		res = new(big.Rat)
		for _, x := range xs {
			res.Add(res, x)
		}
		res.Quo(res, big.NewRat(n, 1))
	}
	// tolerance: half a unit of the 8th decimal + float64 parse/sum error bound 2^-52*(n+1)*mean|x|
	tol := big.NewRat(5, 1_000_000_000)
	rel := new(big.Rat).SetFrac(big.NewInt(n+1), new(big.Int).Lsh(big.NewInt(1), 52))
	mean := new(big.Rat).Quo(sumAbs, big.NewRat(n, 1))
	if agg != "avg" {
		mean = new(big.Rat).Abs(res)
	}
	tol.Add(tol, rel.Mul(rel, mean))
	return res, tol
}

func (w *oracleWorkload) step(site string, br *rig.BlockRecord, prev, cur *oracleSnap, tx *rig.TxRecord) {
	run := w.run
	if prev == nil || cur == nil {
		return
	}
	for _, n := range w.names {
		f := w.feeds[n]
		p, c := prev.Feeds[n], cur.Feeds[n]
		if p == nil || c == nil || !c.Found {
			continue
		}
		det := map[string]any{"feed": n, "height": br.Height, "site": site}
		if tx != nil {
			det["msgs"] = msgBrief(tx.Msgs)
		}
		expected := f.Expected
		// batch completion between the two observation points?
		completed := false
		var batch uint64
		if p.Found && p.CtxFound && c.CtxFound {
			if p.BState != servicetypes.BATCHCOMPLETED && (c.Batch > p.Batch || (c.Batch == p.Batch && c.BState == servicetypes.BATCHCOMPLETED)) && p.Batch > 0 {
				completed, batch = true, p.Batch
			}
		}
		if completed {
			xs := f.Resp[batch]
			thr := int(p.Threshold)
			met := len(xs) >= thr && len(xs) > 0
			run.Eval(1)
			run.Count("batch-completed", 1)
			if met {
				want, tol := exactAggregate(f.Agg, xs)
				// exactly one new value, newest first
				if len(c.Values) == 0 {
					run.Violation("C17:oracle:no-value-appended-for-completed-batch", det, "feed %s batch %d completed with %d/%d valid responses but the feed has no value", n, batch, len(xs), thr)
				} else {
					nv := c.Values[0]
					got := ratOf(nv.Data)
					detv := map[string]any{"feed": n, "agg": f.Agg, "responses": f.RespSrc[batch], "stored": nv.Data, "exact": want.FloatString(10), "height": br.Height, "site": site}
					run.Eval(3)
					if got == nil || !reDec8.MatchString(nv.Data) {
						run.Violation("C17:oracle:value-not-a-decimal-with-8-places:"+f.Agg, detv, "feed %s stored %q for %s of %v", n, nv.Data, f.Agg, f.RespSrc[batch])
					} else if f.Ambig[batch] {
						run.Count("batch-with-an-answer-lacking-the-field:one-value-appended", 1)
					} else if d := new(big.Rat).Abs(new(big.Rat).Sub(got, want)); d.Cmp(tol) > 0 {
						run.Violation("C17:oracle:value-differs-from-aggregate:"+f.Agg, detv, "feed %s stored %s, exact %s of %v is %s", n, nv.Data, f.Agg, f.RespSrc[batch], want.FloatString(10))
					}
					if !nv.Timestamp.Equal(br.Time) {
						run.Violation("C17:oracle:value-timestamp-not-block-time", detv, "feed %s value stamped %s, block time %s", n, nv.Timestamp, br.Time)
					}
					expected = append([]oracletypes.FeedValue{nv}, expected...)
					if uint64(len(expected)) > f.History {
						expected = expected[:f.History]
					}
					signs := signMix(xs)
					run.Class("append", f.Agg, fmt.Sprintf("n=%d/thr=%d", len(xs), thr), magClass(new(big.Int).Quo(new(big.Rat).Abs(want).Num(), want.Denom())), signs, site)
					run.Sample("value:"+f.Agg, detv)
					run.Count("value-appended", 1)
				}
			} else {
				run.Class("no-append", f.Agg, fmt.Sprintf("n=%d/thr=%d", len(xs), thr), site)
				run.Count("batch-below-threshold", 1)
			}
		}
		// an accepted edit by the creator trims the history
		if tx != nil && tx.OK() {
			if m, ok := tx.Msgs[0].(*oracletypes.MsgEditFeed); ok && m.FeedName == n {
				if m.LatestHistory > 0 {
					old := f.History
					f.History = m.LatestHistory
					if uint64(len(expected)) > f.History {
						expected = expected[:f.History]
					}
					op := "same"
					if f.History < old {
						op = "shrink"
					} else if f.History > old {
						op = "grow"
					}
					run.Class("edit-history", op, fmt.Sprint("had=", len(c.Values)))
					run.Count("history-"+op, 1)
				}
			}
		}
		// compare the stored list with the reference list
		run.Eval(2)
		if len(c.Values) != len(expected) {
			run.Violation("C17:oracle:value-count-differs", det, "feed %s holds %d values, reference %d (latest-history %d)", n, len(c.Values), len(expected), f.History)
		} else {
			for i := range expected {
				if c.Values[i].Data != expected[i].Data || !c.Values[i].Timestamp.Equal(expected[i].Timestamp) {
					run.Violation("C17:oracle:value-list-differs", det, "feed %s value %d is %s@%s, reference %s@%s", n, i, c.Values[i].Data, c.Values[i].Timestamp, expected[i].Data, expected[i].Timestamp)
					break
				}
			}
		}
		if uint64(len(c.Values)) > c.Feed.LatestHistory {
			run.Violation("C17:oracle:more-values-than-latest-history", det, "feed %s keeps %d values with latest-history %d", n, len(c.Values), c.Feed.LatestHistory)
		}
		for i := 1; i < len(c.Values); i++ {
			if c.Values[i].Timestamp.After(c.Values[i-1].Timestamp) {
				run.Violation("C17:oracle:values-not-newest-first", det, "feed %s values out of order at %d", n, i)
			}
		}
		f.Expected = expected
		// state index mirrors the request context
		run.Eval(1)
		if c.CtxFound {
			wantRun := c.State == servicetypes.RUNNING
			if c.InRunning != wantRun || c.InPaused == wantRun {
				run.Violation("C17:oracle:state-index-differs-from-request-context", det, "feed %s: context state %s but indexed running=%v paused=%v", n, c.State, c.InRunning, c.InPaused)
			}
			// ... and so does the entry the unfiltered listing reports for the feed (exactly one)
			if cur.Listed != nil {
				run.Eval(1)
				if ls := cur.Listed[n]; len(ls) != 1 || ls[0] != c.State {
					run.Violation("C17:oracle:listing-differs-from-request-context", det, "feed %s: context state %s, the unfiltered listing reports it %d times with states %v", n, c.State, len(ls), ls)
				}
			}
			if p.Found && p.CtxFound && p.State != c.State {
				run.Class("state-change", p.State.String()+"->"+c.State.String(), site)
				if site == "end-block" && c.State == servicetypes.PAUSED {
					run.Count("automatic-pause", 1)
				}
			}
		}
	}
}

func signMix(xs []*big.Rat) string {
	pos, neg := false, false
	for _, x := range xs {
		if x.Sign() > 0 {
			pos = true
		} else if x.Sign() < 0 {
			neg = true
		}
	}
	switch {
	case pos && neg:
		return "mixed"
	case neg:
		return "all-negative"
	case pos:
		return "all-positive"
	default:
		return "zero"
	}
}

func (w *oracleWorkload) Observe(br *rig.BlockRecord) {
	run := w.run
	r := w.r
	var prev *oracleSnap
	if s, ok := br.PostBegin.(*oracleSnap); ok {
		prev = s
	}
	for _, tx := range br.Txs {
		tag, _ := tx.Tag.(*orTag)
		if tag == nil {
			continue
		}
		run.Op("h=%d #%d oracle %s %s ok=%v %s", br.Height, tx.Index, tag.Kind, msgBrief(tx.Msgs), tx.OK(), logBrief(tx))
		run.Count("or-"+tag.Kind+okSuffix(tx), 1)
		if tag.Kind == "create" && !tx.OK() {
			run.Count("or-create-rejected:"+tag.Feed+": "+htErrClass(tx.Result.Log), 1)
		}
		f := w.feeds[tag.Feed]
		switch tag.Kind {
		case "create":
			if tx.OK() {
				for _, mm := range tx.Msgs {
					m, isCreate := mm.(*oracletypes.MsgCreateFeed)
					if !isCreate {
						continue
					}
					fd, _ := r.K.Oracle.GetFeed(r.Ctx(), m.FeedName)
					w.feeds[m.FeedName] = &feedModel{Name: m.FeedName, Creator: m.Creator, Agg: m.AggregateFunc, History: m.LatestHistory, CtxID: fd.RequestContextID, Resp: map[uint64][]*big.Rat{}, RespSrc: map[uint64][]string{}}
					w.names = append(w.names, m.FeedName)
				}
				sort.Strings(w.names)
			}
		case "respond", "respond-duplicate", "respond-foreign":
			if f != nil && tx.OK() {
				if tag.Kind == "respond-foreign" {
					if !w.quiet {
						run.Violation("C17:oracle:foreign-answer-accepted", map[string]any{"msgs": msgBrief(tx.Msgs)}, "answer from a provider the request was not addressed to was accepted")
					}
				} else if w.answered[tag.Req] {
					if !w.quiet {
						run.Violation("C17:oracle:duplicate-answer-accepted", map[string]any{"msgs": msgBrief(tx.Msgs)}, "second answer to request %s accepted", tag.Req)
					}
				} else {
					w.answered[tag.Req] = true
					b := w.reqBatch[tag.Req]
					if tag.Val == "field-missing" {
						if f.Ambig == nil {
							f.Ambig = map[uint64]bool{}
						}
						f.Ambig[b] = true
						f.Resp[b] = append(f.Resp[b], new(big.Rat))
					} else {
						f.Resp[b] = append(f.Resp[b], ratOf(tag.Val))
					}
					f.RespSrc[b] = append(f.RespSrc[b], tag.Val)
				}
			}
		case "respond-error":
			if tx.OK() {
				w.answered[tag.Req] = true
			}
		case "start", "pause", "edit":
			if f != nil && tx.OK() && tag.Role == "stranger" && !w.quiet {
				run.Violation("C17:oracle:"+tag.Kind+"-by-non-creator-accepted", map[string]any{"msgs": msgBrief(tx.Msgs)}, "%s of feed %s by %s accepted; creator is %s", tag.Kind, tag.Feed, tx.Signer, f.Creator)
			}
			if f != nil && !tx.OK() && tag.Role == "stranger" {
				run.Count("hostile-"+tag.Kind+"-rejected", 1)
			}
			run.Class("lifecycle", tag.Kind, tag.Role, okSuffix(tx))
		}
		if w.quiet {
			continue
		}
		if tx.Pre != nil {
			// between txs nothing changes (ante moves no oracle state): evaluate prev -> Pre as a no-op step
			prev = tx.Pre.(*oracleSnap)
		}
		if tx.OK() && tx.Post != nil {
			cur := tx.Post.(*oracleSnap)
			w.step("tx", br, prev, cur, tx)
			prev = cur
		}
	}
	if !w.quiet {
		pe, _ := br.PreEnd.(*oracleSnap)
		po, _ := br.PostEnd.(*oracleSnap)
		w.step("end-block", br, pe, po, nil)
	}
	// learn the requests issued in this block
	for _, b := range svcNewRequests(br.EndEvents) {
		if b.Service != orSvc {
			continue
		}
		w.pending = append(w.pending, b)
		for _, id := range b.RequestIDs {
			rq, ok := r.K.Service.GetRequest(r.Ctx(), mustHex(id))
			if !ok {
				continue
			}
			for _, n := range w.names {
				if strings.EqualFold(w.feeds[n].CtxID, rq.RequestContextId) {
					w.reqFeed[id] = n
					w.reqBatch[id] = rq.RequestContextBatchCounter
				}
			}
		}
	}
}

func runOracle(run *ev.Run, c int) {
	w := newOracleWorkload()
	r := rig.New(rig.Options{Seed: fmt.Sprintf("or-%d-%d", run.Seed, c), NumAccounts: 8, Balances: sdk.NewCoins(sdk.NewInt64Coin(rig.BondDenom, 10_000_000)), InflationOff: true, SubSecond: c%2 == 1})
	w.Attach(run, r)
	r.Snapshot = func(ctx sdk.Context) any { return w.snapshot(ctx) }
	blocks := tierN(run.Tier, 250, 900)
	for b := 0; b < blocks; b++ {
		dt := time.Duration(1+run.Rng.Intn(600)) * time.Second
		br := r.DeliverBlock(dt, w.Next(b))
		if br.FinalErr != nil {
			run.Inconc("FinalizeBlock failed: %v", br.FinalErr)
			return
		}
		w.Observe(br)
		run.Eval(1)
		for _, l := range oracleIndexCheck(r, r.Ctx()) {
			slug := l[:strings.Index(l, ": ")]
			run.Violation("C17:oracle:index:"+slug, map[string]any{"height": br.Height, "line": l}, "after block %d: %s", br.Height, l)
		}
	}
	run.Require("value-appended", 20)
	run.Require("batch-below-threshold", 1)
	run.Require("history-shrink", 1)
	run.Require("history-grow", 1)
	run.Require("hostile-start-rejected", 1)
	run.Require("hostile-edit-rejected", 1)
}

// oracleIndexCheck walks the oracle module's secondary indexes against its feeds on the state visible in ctx: every
// feed must be reachable from its request context id (the index the service callbacks use to find the feed a response
// or a state change belongs to) and be listed under exactly one state; every index entry must lead to such a feed.
// One string per inconsistency, starting with a stable relation tag followed by ": ".
func oracleIndexCheck(r *rig.Rig, ctx sdk.Context) []string {
	var out []string
	add := func(tag, f string, a ...any) { out = append(out, tag+": "+fmt.Sprintf(f, a...)) }
	feeds := map[string]oracletypes.Feed{}
	r.K.Oracle.IteratorFeeds(ctx, func(f oracletypes.Feed) { feeds[f.FeedName] = f })
	byCtx := map[string]string{}
	r.WalkStore(ctx, oracletypes.StoreKey, oracletypes.PrefixReqCtxIdKey, func(k, v []byte) bool {
		var sv gogotypes.StringValue
		if err := r.Cdc.Unmarshal(v, &sv); err != nil || len(k) < 2 {
			add("request-context-index-entry-undecodable", "key %x", k)
			return false
		}
		byCtx[strings.ToUpper(hex.EncodeToString(k[2:]))] = sv.Value
		return false
	})
	listed := map[string]int{}
	for _, pfx := range [][]byte{oracletypes.PrefixFeedRunningStateKey, oracletypes.PrefixFeedPauseStateKey} {
		r.WalkStore(ctx, oracletypes.StoreKey, pfx, func(k, _ []byte) bool {
			if len(k) >= 2 {
				listed[string(k[2:])]++
			}
			return false
		})
	}
	for _, name := range sortedKeys(feeds) {
		f := feeds[name]
		id := strings.ToUpper(f.RequestContextID)
		switch got, ok := byCtx[id]; {
		case !ok:
			add("feed-not-indexed-by-its-request-context", "feed %s (request context %s) cannot be found from its request context id", name, id)
		case got != name:
			add("request-context-index-names-another-feed", "request context %s of feed %s is indexed as feed %q", id, name, got)
		}
		if listed[name] != 1 {
			add("feed-state-listing-count", "feed %s is listed %d times in the running/paused state indexes", name, listed[name])
		}
	}
	for _, id := range sortedKeys(byCtx) {
		if f, ok := feeds[byCtx[id]]; !ok || strings.ToUpper(f.RequestContextID) != id {
			add("request-context-index-entry-stray", "index entry %s -> %q matches no feed", id, byCtx[id])
		}
	}
	for _, name := range sortedKeys(listed) {
		if _, ok := feeds[name]; !ok {
			add("feed-state-listing-stray", "state index lists %q, which is no feed", name)
		}
	}
	return out
}
