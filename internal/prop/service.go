package prop

import (
	"crypto/sha256"
	"encoding/binary"
	"encoding/hex"
	"encoding/json"
	"fmt"
	"math/big"
	"os"
	"sort"
	"strings"
	"time"

	sdkmath "cosmossdk.io/math"
	tmbytes "github.com/cometbft/cometbft/libs/bytes"
	"github.com/cosmos/cosmos-sdk/codec"
	sdk "github.com/cosmos/cosmos-sdk/types"
	authtypes "github.com/cosmos/cosmos-sdk/x/auth/types"
	banktypes "github.com/cosmos/cosmos-sdk/x/bank/types"
	gogotypes "github.com/cosmos/gogoproto/types"

	oracletypes "mods.irisnet.org/modules/oracle/types"
	svmodule "mods.irisnet.org/modules/service"
	svkeeper "mods.irisnet.org/modules/service/keeper"
	svtypes "mods.irisnet.org/modules/service/types"

	"verif/internal/ev"
	"verif/internal/rig"
)

// Service module: C07 (deposits and fees conserved) and C08 (one outcome per request, context
// schedule, authority, callbacks). One workload (newServiceWorkload), one director, two monitors.

func init() {
	Register(&Spec{
		ID: "C07", Level: "exploration",
		Rule: "cases = chains driven by the service director (scripted prologue that constructs every required scenario, then state-aware random intents: define/bind/update/enable/disable/refund-deposit/call/respond/withdraw/params, hostile variants, module-owned contexts; regimes: default params, varied tax/slash fractions, non-base price denom with a real oracle feed); monitor = escrow/liability equalities at every observation point + expected-delta model of every successful tx and of every end block; non-trivial = a successful tx or an end block that moved service funds and whose relation was evaluated; distinct = distinct (relation, msg kind / end-block event kind, discount kind, tax/slash config, denom kind, magnitude); since rounds 11-12: fees restricted to the base denomination switched on and off; since rounds 15-19: after every block a what-if end block with a second keeper over the same store that was given the chain's general fee collector as its pool (slashes must arrive there)",
		Assume: []string{
			"tx fees are zero and mint inflation is off, so outside service handlers and the service end blocker no balance moves",
			"the 'fee pool' of the statement is the fee-collector module account the service keeper is configured with (service_fee_collector in e2e.AppConfig)",
			"a request's fee is the fee recorded on the compact request; the discount formula itself is not judged",
		},
		Cases: func(t string) int { return tierN(t, 16, 64) },
		Run:   func(run *ev.Run, c int) { runService(run, c, "C07") },
	})
	Register(&Spec{
		ID: "C08", Level: "exploration",
		Rule: "same director as C07 biased to scheduling: respond/none/late/foreign/duplicate, pause/start/kill/update by consumer and stranger at and around batch and expiry heights, consumer running dry, fee cap below price, disabled providers, QoS above timeout, module-owned contexts with thresholds 1..N through the keeper API; monitor = request/context/batch model built from the statement + recorder behind a registered callback module + raw queue walk after every block; non-trivial = an accepted or deliberately hostile operation, a batch issue/expiry, a callback; distinct = distinct (relation, op kind, hostile kind, context kind, outcome); since round 12: relation 'provider slashed' (recorded deposit falls by the configured fraction per expired request); since rounds 15-19: a running repeated context is not removed below its total; the end block adds an expiration entry for a context only together with a new batch; the C07 end-block balance sheet (consumer refunded, provider slashed) also judges these chains",
		Assume: []string{
			"a response delivered in the block of the request's expiration height precedes that block's end blocker and is therefore still 'while active'",
			"the period rule is judged only between consecutive batches during which the context record (state and settings) did not change",
			"threshold met = number of responses of the batch carrying an output >= the batch's response threshold",
		},
		Cases: func(t string) int { return tierN(t, 16, 64) },
		Run:   func(run *ev.Run, c int) { runService(run, c, "C08") },
	})
}

// ---------------------------------------------------------------------------------------------
// snapshot
// ---------------------------------------------------------------------------------------------

type svQE struct {
	H   int64
	Ctx string
}

type svAB struct {
	Svc, Provider string
	H             int64
}

type svSnap struct {
	Height      int64
	Time        time.Time
	Bal         map[string]sdk.Coins
	Supply      sdk.Coins
	Params      svtypes.Params
	Bindings    map[string]svtypes.ServiceBinding // svc|provider
	RawPrice    map[string]sdk.Coins              // svc|provider
	Owner       map[string]string                 // provider -> owner
	OwnerProv   map[string]bool                   // raw owner->provider index entries "owner|provider" (or "malformed:<hex>")
	OwnerBind   map[string]bool                   // raw owner->binding index entries "owner|svc|provider"
	Withdraw    map[string]string                 // owner -> withdraw address
	Ctxs        map[string]svtypes.RequestContext
	Reqs        map[string]svtypes.CompactRequest
	Active      map[string]bool
	ActiveB     map[string][]svAB // request id -> by-binding markers
	Resps       map[string]svtypes.Response
	Earned      map[string]sdk.Coins // provider
	OwnerEarned map[string]sdk.Coins // owner
	NewQ, ExpQ  []svQE
	NewMark     map[string]int64
	ExpMark     map[string]int64
	Digest      string
}

func svHex(b []byte) string { return strings.ToUpper(hex.EncodeToString(b)) }

func svBKey(svc, provider string) string { return svc + "|" + provider }

var (
	svDepositAcc  = authtypes.NewModuleAddress(svtypes.DepositAccName).String()
	svRequestAcc  = authtypes.NewModuleAddress(svtypes.RequestAccName).String()
	svFeeCollAcc  = authtypes.NewModuleAddress(svtypes.FeeCollectorName).String()
	svStdFeeColl  = authtypes.NewModuleAddress(authtypes.FeeCollectorName).String()
	svIOEmpty     = `{"header":{},"body":{}}`
	svSchemas     = `{"input":{"type":"object"},"output":{"type":"object"}}`
	svResultOK    = `{"code":200,"message":""}`
	svResultError = `{"code":500,"message":"failed"}`
)

func svTakeSnap(r *rig.Rig, ctx sdk.Context) *svSnap {
	k := r.K.Service
	s := &svSnap{
		Height: ctx.BlockHeight(), Time: ctx.BlockTime(),
		Bal: r.AllBalances(ctx), Supply: r.Supplies(ctx), Params: k.GetParams(ctx),
		Bindings: map[string]svtypes.ServiceBinding{}, RawPrice: map[string]sdk.Coins{}, Owner: map[string]string{}, Withdraw: map[string]string{},
		Ctxs: map[string]svtypes.RequestContext{}, Reqs: map[string]svtypes.CompactRequest{}, Active: map[string]bool{}, ActiveB: map[string][]svAB{},
		Resps: map[string]svtypes.Response{}, Earned: map[string]sdk.Coins{}, OwnerEarned: map[string]sdk.Coins{},
		NewMark: map[string]int64{}, ExpMark: map[string]int64{}, OwnerProv: map[string]bool{}, OwnerBind: map[string]bool{},
	}
	r.WalkStore(ctx, svtypes.StoreKey, svtypes.OwnerProviderKey, func(key, _ []byte) bool {
		if len(key) != 1+2*svtypes.AddrLen {
			s.OwnerProv["malformed:"+svHex(key)] = true
			return false
		}
		s.OwnerProv[sdk.AccAddress(key[1:1+svtypes.AddrLen]).String()+"|"+sdk.AccAddress(key[1+svtypes.AddrLen:]).String()] = true
		return false
	})
	r.WalkStore(ctx, svtypes.StoreKey, svtypes.OwnerServiceBindingKey, func(key, _ []byte) bool {
		// 0x03 | owner(20) | service name | 0x00 | provider(20)
		if len(key) < 1+2*svtypes.AddrLen+2 || key[len(key)-svtypes.AddrLen-1] != 0 {
			s.OwnerBind["malformed:"+svHex(key)] = true
			return false
		}
		o, p := sdk.AccAddress(key[1:1+svtypes.AddrLen]).String(), sdk.AccAddress(key[len(key)-svtypes.AddrLen:]).String()
		s.OwnerBind[o+"|"+string(key[1+svtypes.AddrLen:len(key)-svtypes.AddrLen-1])+"|"+p] = true
		return false
	})
	k.IterateServiceBindings(ctx, func(b svtypes.ServiceBinding) bool {
		s.Bindings[svBKey(b.ServiceName, b.Provider)] = b
		if pa, err := sdk.AccAddressFromBech32(b.Provider); err == nil {
			s.RawPrice[svBKey(b.ServiceName, b.Provider)] = k.GetPricing(ctx, b.ServiceName, pa).Price
			if _, ok := s.Owner[b.Provider]; !ok {
				if o, found := k.GetOwner(ctx, pa); found {
					s.Owner[b.Provider] = o.String()
				}
			}
		}
		return false
	})
	k.IterateWithdrawAddresses(ctx, func(o, w sdk.AccAddress) bool { s.Withdraw[o.String()] = w.String(); return false })
	k.IterateRequestContexts(ctx, func(id tmbytes.HexBytes, rc svtypes.RequestContext) bool { s.Ctxs[svHex(id)] = rc; return false })
	k.IterateRequests(ctx, func(id tmbytes.HexBytes, rq svtypes.CompactRequest) bool { s.Reqs[svHex(id)] = rq; return false })
	k.IterateResponses(ctx, func(id tmbytes.HexBytes, rs svtypes.Response) bool { s.Resps[svHex(id)] = rs; return false })
	r.WalkStore(ctx, svtypes.StoreKey, svtypes.ActiveRequestByIDKey, func(key, _ []byte) bool { s.Active[svHex(key[1:])] = true; return false })
	r.WalkStore(ctx, svtypes.StoreKey, svtypes.ActiveRequestKey, func(key, _ []byte) bool {
		// 0x14 | svc 0x00 provider 0x00 | height(8) | request id (58)
		const idLen = svtypes.RequestIDLen / 2
		if len(key) < 1+idLen+8+3 {
			s.ActiveB["malformed:"+svHex(key)] = append(s.ActiveB["malformed:"+svHex(key)], svAB{})
			return false
		}
		id := key[len(key)-idLen:]
		h := int64(binary.BigEndian.Uint64(key[len(key)-idLen-8 : len(key)-idLen]))
		head := key[1 : len(key)-idLen-8]
		parts := strings.Split(string(head), "\x00")
		ab := svAB{H: h}
		if len(parts) >= 2 {
			ab.Svc, ab.Provider = parts[0], parts[1]
		}
		s.ActiveB[svHex(id)] = append(s.ActiveB[svHex(id)], ab)
		return false
	})
	coinWalk := func(prefix []byte, into map[string]sdk.Coins) {
		r.WalkStore(ctx, svtypes.StoreKey, prefix, func(key, v []byte) bool {
			if len(key) < 1+svtypes.AddrLen {
				return false
			}
			var c sdk.Coin
			if err := r.Cdc.Unmarshal(v, &c); err != nil {
				return false
			}
			a := sdk.AccAddress(key[1 : 1+svtypes.AddrLen]).String()
			// keep zero amounts visible: they are what the store says
			into[a] = svAddCoin(into[a], c)
			return false
		})
	}
	coinWalk(svtypes.EarnedFeesKey, s.Earned)
	coinWalk(svtypes.OwnerEarnedFeesKey, s.OwnerEarned)
	for p := range s.Earned {
		if _, ok := s.Owner[p]; !ok {
			if pa, err := sdk.AccAddressFromBech32(p); err == nil {
				if o, found := k.GetOwner(ctx, pa); found {
					s.Owner[p] = o.String()
				}
			}
		}
	}
	qWalk := func(prefix []byte, into *[]svQE) {
		r.WalkStore(ctx, svtypes.StoreKey, prefix, func(key, _ []byte) bool {
			if len(key) < 9 {
				return false
			}
			*into = append(*into, svQE{H: int64(binary.BigEndian.Uint64(key[1:9])), Ctx: svHex(key[9:])})
			return false
		})
	}
	qWalk(svtypes.NewRequestBatchKey, &s.NewQ)
	qWalk(svtypes.ExpiredRequestBatchKey, &s.ExpQ)
	mWalk := func(prefix []byte, into map[string]int64) {
		r.WalkStore(ctx, svtypes.StoreKey, prefix, func(key, v []byte) bool {
			var iv gogotypes.Int64Value
			if err := r.Cdc.Unmarshal(v, &iv); err == nil {
				into[svHex(key[1:])] = iv.Value
			}
			return false
		})
	}
	mWalk(svtypes.NewRequestBatchHeightKey, s.NewMark)
	mWalk(svtypes.ExpiredRequestBatchHeightKey, s.ExpMark)
	s.Digest = r.StoreDigest(ctx, svtypes.StoreKey)
	return s
}

func svAddCoin(cs sdk.Coins, c sdk.Coin) sdk.Coins {
	if c.Amount.IsNil() || !c.Amount.IsPositive() {
		return cs
	}
	return cs.Add(c)
}

// svBalEqual compares two balance maps.
func svBalEqual(a, b map[string]sdk.Coins) []string {
	return diffLedger(map[string]map[string]*big.Int{}, balDelta(a, b))
}

// ---------------------------------------------------------------------------------------------
// queue consistency (used by C08 after every block; reusable by C13)
// ---------------------------------------------------------------------------------------------

// serviceQueueCheck walks the raw new-batch / expired-batch queues, the per-context height markers and
// the active request markers of the state visible in ctx (a committed state: call it after a block) and
// returns one string per inconsistency, each starting with a stable relation tag followed by ": ".
func serviceQueueCheck(r *rig.Rig, ctx sdk.Context) []string {
	return svQueueCheck(svTakeSnap(r, ctx), ctx.BlockHeight())
}

func svQueueCheck(s *svSnap, committed int64) []string {
	var out []string
	add := func(tag, f string, a ...any) { out = append(out, tag+": "+fmt.Sprintf(f, a...)) }
	newCnt, expCnt := map[string]int{}, map[string]int{}
	for _, e := range s.NewQ {
		newCnt[e.Ctx]++
		if _, ok := s.Ctxs[e.Ctx]; !ok {
			add("new-batch-entry-for-missing-context", "entry (height %d, context %s) but no such context", e.H, e.Ctx)
		}
		if m, ok := s.NewMark[e.Ctx]; !ok || m != e.H {
			add("new-batch-entry-marker-mismatch", "entry (height %d, context %s) but height marker is %v (present=%v)", e.H, e.Ctx, m, ok)
		}
		if e.H <= committed {
			add("new-batch-entry-overdue", "entry (height %d, context %s) still queued after block %d", e.H, e.Ctx, committed)
		}
	}
	for id, h := range s.NewMark {
		if newCnt[id] == 0 {
			add("new-batch-marker-without-entry", "context %s has new-batch height marker %d but no queue entry", id, h)
		}
	}
	for _, e := range s.ExpQ {
		expCnt[e.Ctx]++
		if _, ok := s.Ctxs[e.Ctx]; !ok {
			add("expired-batch-entry-for-missing-context", "entry (height %d, context %s) but no such context", e.H, e.Ctx)
		}
		if m, ok := s.ExpMark[e.Ctx]; !ok || m != e.H {
			add("expired-batch-entry-marker-mismatch", "entry (height %d, context %s) but height marker is %v (present=%v)", e.H, e.Ctx, m, ok)
		}
		if e.H <= committed {
			add("expired-batch-entry-overdue", "entry (height %d, context %s) still queued after block %d", e.H, e.Ctx, committed)
		}
	}
	for id, h := range s.ExpMark {
		if expCnt[id] == 0 {
			add("expired-batch-marker-without-entry", "context %s has expiration height marker %d but no queue entry", id, h)
		}
	}
	for id, rc := range s.Ctxs {
		n, e := newCnt[id], expCnt[id]
		if n > 1 || e > 1 {
			add("context-with-duplicate-entries", "context %s has %d new-batch and %d expired-batch entries", id, n, e)
		}
		switch rc.State {
		case svtypes.RUNNING:
			if n+e != 1 {
				add("running-context-entry-count", "RUNNING context %s (batch %d, batch state %s) has %d new-batch and %d expired-batch entries, expected exactly one", id, rc.BatchCounter, rc.BatchState, n, e)
			}
		case svtypes.PAUSED:
			if n+e > 1 {
				add("paused-context-entry-count", "PAUSED context %s has %d new-batch and %d expired-batch entries", id, n, e)
			}
		}
		if rc.BatchState == svtypes.BATCHRUNNING && rc.BatchCounter > 0 && e != 1 {
			add("running-batch-without-expiry-entry", "context %s batch %d is BATCH_RUNNING but has %d expired-batch entries", id, rc.BatchCounter, e)
		}
	}
	for id := range s.Active {
		rq, ok := s.Reqs[id]
		if !ok {
			add("active-marker-for-missing-request", "active marker %s without a request record", id)
			continue
		}
		if rq.ExpirationHeight <= committed {
			add("active-request-overdue", "request %s with expiration height %d still active after block %d", id, rq.ExpirationHeight, committed)
		}
		abs := s.ActiveB[id]
		if len(abs) != 1 {
			add("active-marker-index-mismatch", "request %s has %d by-binding markers", id, len(abs))
		} else if abs[0].H != rq.ExpirationHeight || abs[0].Provider != rq.Provider {
			add("active-marker-index-mismatch", "request %s (provider %s, expires %d) indexed under provider %s height %d", id, rq.Provider, rq.ExpirationHeight, abs[0].Provider, abs[0].H)
		}
		cid := strings.ToUpper(rq.RequestContextId)
		rc, ok := s.Ctxs[cid]
		if !ok {
			add("active-request-of-missing-context", "request %s belongs to missing context %s", id, cid)
			continue
		}
		if m, ok := s.ExpMark[cid]; !ok || m != rq.ExpirationHeight {
			add("active-request-without-expiry-entry", "request %s expires at %d but context %s (batch %d) has expiry marker %v (present=%v)", id, rq.ExpirationHeight, cid, rc.BatchCounter, m, ok)
		}
	}
	for id := range s.ActiveB {
		if !s.Active[id] {
			add("active-marker-index-mismatch", "by-binding marker for request %s without by-id marker", id)
		}
	}
	// the owner->provider and owner->binding indexes (read by withdraw-all and by the bindings-of-owner query) against the bindings
	wantOP, wantOB := map[string]bool{}, map[string]bool{}
	for _, b := range s.Bindings {
		o := s.Owner[b.Provider]
		if o == "" {
			add("binding-provider-without-owner", "binding %s/%s: no owner recorded for the provider", b.ServiceName, b.Provider)
			continue
		}
		if b.Owner != o {
			add("binding-owner-differs-from-provider-owner", "binding %s/%s names owner %s, the provider's recorded owner is %s", b.ServiceName, b.Provider, b.Owner, o)
		}
		wantOP[o+"|"+b.Provider] = true
		wantOB[o+"|"+b.ServiceName+"|"+b.Provider] = true
	}
	for k := range wantOP {
		if !s.OwnerProv[k] {
			add("owner-provider-index-entry-missing", "provider with a binding is not listed under its owner (owner|provider = %s)", k)
		}
	}
	for k := range s.OwnerProv {
		if !wantOP[k] {
			add("owner-provider-index-entry-stray", "index lists %s but no binding of that provider has that owner", k)
		}
	}
	for k := range wantOB {
		if !s.OwnerBind[k] {
			add("owner-binding-index-entry-missing", "binding is not listed under its owner (owner|service|provider = %s)", k)
		}
	}
	for k := range s.OwnerBind {
		if !wantOB[k] {
			add("owner-binding-index-entry-stray", "index lists %s but there is no such binding", k)
		}
	}
	sort.Strings(out)
	return out
}

// ---------------------------------------------------------------------------------------------
// workload
// ---------------------------------------------------------------------------------------------

type svTag struct {
	Kind    string // define|bind|update-binding|disable|enable|refund-deposit|set-withdraw|call|respond|ctx-op|withdraw|params|mod-create|mod-op|send|feed
	Op      string // pause|start|kill|update (ctx-op / mod-op)
	Hostile string // "" or the hostile kind
	Ctx     string
	Req     string
	Actor   string // address acting as consumer in mod-op
	Note    string
}

type svCfg struct {
	Scripted   bool   // run the constructive prologue first
	Oracle     bool   // non-base price denom with a real oracle feed (needs a chain clock ahead of the host clock or a block-time based oracle)
	Hostile    bool   // hostile intents
	ParamsVary bool   // tax / slash / limits moved over their valid ranges
	ModName    string // harness callback module name
	Alt        string // non-base price denom
	Stale      bool   // include zero-price bindings in a denom without exchange rate (lead S3)
	GenesisBorn bool  // the chain starts with a service and bindings (owner != provider) that came in through genesis import
}

type svPlan struct {
	At    int64
	OK    bool
	Never bool
	Late  bool
	Sent  bool
	Rate  string
}

type svCb struct {
	Height  int64
	TxHash  string
	Ctx     string
	Batch   uint64
	Outputs []string
	Err     string
	State   bool // state callback (pause notice) instead of response callback
	Cause   string
}

type svKnown struct {
	Scripted bool
	First    int
}

type svWorkload struct {
	run       *ev.Run
	r         *rig.Rig
	cfg       svCfg
	owners    []*rig.Account
	providers []*rig.Account
	consumers []*rig.Account
	poor      *rig.Account
	byAddr    map[string]*rig.Account
	sink      sdk.AccAddress
	n         int
	plans     map[string]*svPlan
	known     map[string]*svKnown
	answered  []string
	gone      []string
	cb        []svCb
	outSeq    int
	wantDt    time.Duration
	modShared bool
	thrMoved        map[uint64]bool
	killedMidBatch  bool
	lastBatchPaused, lastBatchStarted bool
	oneShotUpdated                    bool
}

func newServiceWorkload() Workload {
	return newSvWorkload(svCfg{Hostile: true, ModName: "verifcb", Alt: "tka", Stale: true})
}

func newSvWorkload(cfg svCfg) *svWorkload {
	if cfg.ModName == "" {
		cfg.ModName = "verifcb"
	}
	if cfg.Alt == "" {
		cfg.Alt = "tka"
	}
	return &svWorkload{cfg: cfg, plans: map[string]*svPlan{}, known: map[string]*svKnown{}, byAddr: map[string]*rig.Account{}}
}

func (w *svWorkload) Name() string { return "service" }

// Genesis: with cfg.GenesisBorn the chain starts with a service (svc-g) and one binding per provider account that exist
// only through the module's genesis import (SetServiceBindingForGenesis), each provider owned by a different account.
func (w *svWorkload) Genesis(cdc codec.Codec, gs map[string]json.RawMessage) {
	if !w.cfg.GenesisBorn {
		return
	}
	var ag authtypes.GenesisState
	cdc.MustUnmarshalJSON(gs[authtypes.ModuleName], &ag)
	accs, err := authtypes.UnpackAccounts(ag.Accounts)
	if err != nil {
		panic(err)
	}
	sort.Slice(accs, func(i, j int) bool { return accs[i].GetAccountNumber() < accs[j].GetAccountNumber() })
	n := len(accs)
	addr := func(i int) string { return accs[i%n].GetAddress().String() }
	// the same role layout as Attach
	owners, provs := []int{0, 1, 2}, []int{3, 4, 5, 6}
	if n < 10 {
		owners, provs = []int{0, 1}, []int{2, 3, 4}
	}
	var sg svtypes.GenesisState
	cdc.MustUnmarshalJSON(gs[svtypes.ModuleName], &sg)
	sg.Definitions = append(sg.Definitions, svtypes.ServiceDefinition{Name: "svc-g", Description: "d", Author: addr(owners[0]), AuthorDescription: "a", Schemas: svSchemas})
	total := sdk.NewCoins()
	for i, p := range provs {
		dep := sdk.NewCoins(sdk.NewInt64Coin(rig.BondDenom, int64(15000+1000*i)))
		if i == 1 {
			// one deposit also holds a denomination that is not the base denomination (as after a change of the base
			// denomination, or a hand-written genesis): slashing takes its share of the base denomination only
			dep = dep.Add(sdk.NewInt64Coin("tka", 7777))
		}
		sg.Bindings = append(sg.Bindings, svtypes.ServiceBinding{ServiceName: "svc-g", Provider: addr(p), Deposit: dep, Pricing: fmt.Sprintf(`{"price":"%d%s"}`, 3+i, rig.BondDenom), QoS: 1, Options: "{}", Available: true, Owner: addr(owners[i%len(owners)])})
		total = total.Add(dep...)
	}
	gs[svtypes.ModuleName] = cdc.MustMarshalJSON(&sg)
	var bg banktypes.GenesisState
	cdc.MustUnmarshalJSON(gs[banktypes.ModuleName], &bg)
	bg.Balances = append(bg.Balances, banktypes.Balance{Address: svDepositAcc, Coins: total})
	bg.Supply = bg.Supply.Add(total...)
	gs[banktypes.ModuleName] = cdc.MustMarshalJSON(&bg)
}

type svCreateArgs struct {
	Service   string   `json:"service"`
	Providers []string `json:"providers"`
	Consumer  string   `json:"consumer"`
	FeeCap    string   `json:"fee_cap"`
	Timeout   int64    `json:"timeout"`
	Repeated  bool     `json:"repeated"`
	Freq      uint64   `json:"freq"`
	Total     int64    `json:"total"`
	Threshold uint32   `json:"threshold"`
	Paused    bool     `json:"paused"`
	Module    string   `json:"module"`
}

type svModOpArgs struct {
	Op        string   `json:"op"`
	Ctx       string   `json:"ctx"`
	Consumer  string   `json:"consumer"`
	Providers []string `json:"providers"`
	Threshold uint32   `json:"threshold"`
	FeeCap    string   `json:"fee_cap"`
	Timeout   int64    `json:"timeout"`
	Freq      uint64   `json:"freq"`
	Total     int64    `json:"total"`
}

func svAddrs(ss []string) ([]sdk.AccAddress, error) {
	out := make([]sdk.AccAddress, len(ss))
	for i, s := range ss {
		a, err := sdk.AccAddressFromBech32(s)
		if err != nil {
			return nil, err
		}
		out[i] = a
	}
	return out, nil
}

func (w *svWorkload) Attach(run *ev.Run, r *rig.Rig) {
	w.run, w.r = run, r
	n := len(r.Accounts)
	idx := func(i int) *rig.Account { return r.Accounts[i%n] }
	if n >= 10 {
		w.owners = []*rig.Account{idx(0), idx(1), idx(2)}
		w.providers = []*rig.Account{idx(3), idx(4), idx(5), idx(6)}
		w.consumers = []*rig.Account{idx(7), idx(8)}
		w.poor = idx(9)
	} else {
		w.owners = []*rig.Account{idx(0), idx(1)}
		w.providers = []*rig.Account{idx(2), idx(3), idx(4)}
		w.consumers = []*rig.Account{idx(5), idx(6)}
		w.poor = idx(n - 1)
	}
	for _, a := range r.Accounts {
		w.byAddr[a.Addr.String()] = a
	}
	w.sink = sdk.AccAddress([]byte("service-sink-address"))
	k := r.K.Service
	// the keeper copy held by the rig shares its callback / module-service maps with the application's keeper:
	// the oracle module registered its price service through the application's keeper, and it is visible here
	_, w.modShared = k.GetModuleServiceByModuleName(svtypes.RegisterModuleName)
	_ = k.RegisterResponseCallback(w.cfg.ModName, func(ctx sdk.Context, id tmbytes.HexBytes, outputs []string, err error) {
		rec := svCb{Height: ctx.BlockHeight(), TxHash: svTxHash(ctx.TxBytes()), Ctx: svHex(id), Outputs: append([]string{}, outputs...)}
		if rc, ok := k.GetRequestContext(ctx, id); ok {
			rec.Batch = rc.BatchCounter
		}
		if err != nil {
			rec.Err = err.Error()
		}
		w.cb = append(w.cb, rec)
	})
	_ = k.RegisterStateCallback(w.cfg.ModName, func(ctx sdk.Context, id tmbytes.HexBytes, cause string) {
		w.cb = append(w.cb, svCb{Height: ctx.BlockHeight(), TxHash: svTxHash(ctx.TxBytes()), Ctx: svHex(id), State: true, Cause: cause})
	})
	r.Ops["svc.create"] = func(ctx sdk.Context, raw json.RawMessage) error {
		var a svCreateArgs
		if err := json.Unmarshal(raw, &a); err != nil {
			return err
		}
		pds, err := svAddrs(a.Providers)
		if err != nil {
			return err
		}
		cons, err := sdk.AccAddressFromBech32(a.Consumer)
		if err != nil {
			return err
		}
		cap, err := sdk.ParseCoinsNormalized(a.FeeCap)
		if err != nil {
			return err
		}
		st := svtypes.RUNNING
		if a.Paused {
			st = svtypes.PAUSED
		}
		_, err = k.CreateRequestContext(ctx, a.Service, pds, cons, svIOEmpty, cap, a.Timeout, a.Repeated, a.Freq, a.Total, st, a.Threshold, a.Module)
		return err
	}
	// the keeper's withdraw-everything branch (no provider given): the message handler rejects an empty provider, other
	// modules and the CLI-documented form reach it through the keeper
	r.Ops["svc.withdrawall"] = func(ctx sdk.Context, raw json.RawMessage) error {
		var a struct {
			Owner string `json:"owner"`
		}
		if err := json.Unmarshal(raw, &a); err != nil {
			return err
		}
		o, err := sdk.AccAddressFromBech32(a.Owner)
		if err != nil {
			return err
		}
		return k.WithdrawEarnedFees(ctx, o, sdk.AccAddress{})
	}
	r.Ops["svc.modop"] = func(ctx sdk.Context, raw json.RawMessage) error {
		var a svModOpArgs
		if err := json.Unmarshal(raw, &a); err != nil {
			return err
		}
		id, err := hex.DecodeString(a.Ctx)
		if err != nil {
			return err
		}
		cons, err := sdk.AccAddressFromBech32(a.Consumer)
		if err != nil {
			return err
		}
		switch a.Op {
		case "pause":
			return k.PauseRequestContext(ctx, id, cons)
		case "start":
			return k.StartRequestContext(ctx, id, cons)
		case "kill":
			return k.KillRequestContext(ctx, id, cons)
		case "update":
			pds, err := svAddrs(a.Providers)
			if err != nil {
				return err
			}
			var cap sdk.Coins
			if a.FeeCap != "" {
				if cap, err = sdk.ParseCoinsNormalized(a.FeeCap); err != nil {
					return err
				}
			}
			return k.UpdateRequestContext(ctx, id, pds, a.Threshold, cap, a.Timeout, a.Freq, a.Total, cons)
		}
		return fmt.Errorf("unknown op %q", a.Op)
	}
}

func svTxHash(bz []byte) string {
	if len(bz) == 0 {
		return ""
	}
	h := sha256.Sum256(bz)
	return hex.EncodeToString(h[:8])
}

func (w *svWorkload) Observe(br *rig.BlockRecord) {}

func (w *svWorkload) ownerOf(p *rig.Account) *rig.Account {
	// on a shared chain another workload may already have given this provider an owner
	if o, found := w.r.K.Service.GetOwner(w.r.Ctx(), p.Addr); found {
		if a := w.byAddr[o.String()]; a != nil {
			return a
		}
	}
	for i, q := range w.providers {
		if q == p {
			return w.owners[i%len(w.owners)]
		}
	}
	return p // self-owned provider (an owner binding itself)
}

func (w *svWorkload) allProviders() []*rig.Account {
	return append(append([]*rig.Account{}, w.providers...), w.owners[len(w.owners)-1])
}

func (w *svWorkload) services() []string {
	s := []string{"svc-a", "svc-b"}
	if w.cfg.GenesisBorn {
		s = append(s, "svc-g")
	}
	return s
}

// mine tells whether a service belongs to this workload (on a shared chain it leaves the others alone).
func (w *svWorkload) mine(svc string) bool {
	return svc == "svc-a" || svc == "svc-b" || svc == "svc-rate" || (svc == "svc-g" && w.cfg.GenesisBorn)
}

func (w *svWorkload) myBindings(v *svSnap) []svtypes.ServiceBinding {
	var out []svtypes.ServiceBinding
	for _, k := range sortedKeys(v.Bindings) {
		if b := v.Bindings[k]; w.mine(b.ServiceName) {
			out = append(out, b)
		}
	}
	return out
}

// ---- message constructors ----

func (w *svWorkload) txDefine(author *rig.Account, name string) rig.Tx {
	return w.r.Mk(author, &svTag{Kind: "define", Note: name}, &svtypes.MsgDefineService{Name: name, Description: "d", Author: author.Addr.String(), AuthorDescription: "a", Schemas: svSchemas})
}

func (w *svWorkload) txBind(p *rig.Account, svc, pricing string, deposit sdk.Coins, qos uint64, note string) rig.Tx {
	o := w.ownerOf(p)
	return w.r.Mk(o, &svTag{Kind: "bind", Note: note}, &svtypes.MsgBindService{ServiceName: svc, Provider: p.Addr.String(), Deposit: deposit, Pricing: pricing, QoS: qos, Options: "{}", Owner: o.Addr.String()})
}

func (w *svWorkload) txCall(c *rig.Account, svc string, pds []*rig.Account, cap sdk.Coins, timeout int64, repeated bool, freq uint64, total int64, note string) rig.Tx {
	ps := make([]string, len(pds))
	for i, p := range pds {
		ps[i] = p.Addr.String()
	}
	kind := "one-shot"
	if repeated {
		kind = "repeated"
	}
	return w.r.Mk(c, &svTag{Kind: "call", Note: kind + " " + note}, &svtypes.MsgCallService{ServiceName: svc, Providers: ps, Consumer: c.Addr.String(), Input: svIOEmpty, ServiceFeeCap: cap, Timeout: timeout, Repeated: repeated, RepeatedFrequency: freq, RepeatedTotal: total})
}

func (w *svWorkload) txRespond(p *rig.Account, req string, ok bool, rate, hostile string) rig.Tx {
	w.outSeq++
	msg := &svtypes.MsgRespondService{RequestId: req, Provider: p.Addr.String(), Result: svResultOK}
	if ok {
		if rate != "" {
			msg.Output = fmt.Sprintf(`{"header":{},"body":{"rate":"%s"}}`, rate)
		} else {
			msg.Output = fmt.Sprintf(`{"header":{},"body":{"v":"%d"}}`, w.outSeq)
		}
	} else {
		msg.Result = svResultError
	}
	return w.r.Mk(p, &svTag{Kind: "respond", Hostile: hostile, Req: req, Note: fmt.Sprint("ok=", ok)}, msg)
}

func (w *svWorkload) txCtxOp(signer *rig.Account, op, ctxID, hostile string, upd *svtypes.MsgUpdateRequestContext) rig.Tx {
	tag := &svTag{Kind: "ctx-op", Op: op, Ctx: ctxID, Hostile: hostile}
	me := signer.Addr.String()
	switch op {
	case "pause":
		return w.r.Mk(signer, tag, &svtypes.MsgPauseRequestContext{RequestContextId: ctxID, Consumer: me})
	case "start":
		return w.r.Mk(signer, tag, &svtypes.MsgStartRequestContext{RequestContextId: ctxID, Consumer: me})
	case "kill":
		return w.r.Mk(signer, tag, &svtypes.MsgKillRequestContext{RequestContextId: ctxID, Consumer: me})
	default:
		if upd == nil {
			upd = &svtypes.MsgUpdateRequestContext{}
		}
		upd.RequestContextId, upd.Consumer = ctxID, me
		return w.r.Mk(signer, tag, upd)
	}
}

func (w *svWorkload) txWithdraw(owner *rig.Account, provider, hostile string) rig.Tx {
	return w.r.Mk(owner, &svTag{Kind: "withdraw", Hostile: hostile, Note: provider}, &svtypes.MsgWithdrawEarnedFees{Owner: owner.Addr.String(), Provider: provider})
}

func (w *svWorkload) txWithdrawAll(owner *rig.Account) rig.Tx {
	return w.r.InjectOp(owner, &svTag{Kind: "withdraw", Note: "keeper-all-providers", Actor: owner.Addr.String()}, "svc.withdrawall", map[string]string{"owner": owner.Addr.String()})
}

func (w *svWorkload) txModCreate(carrier *rig.Account, a svCreateArgs, note string) rig.Tx {
	a.Module = w.cfg.ModName
	return w.r.InjectOp(carrier, &svTag{Kind: "mod-create", Note: note, Actor: a.Consumer}, "svc.create", a)
}

func (w *svWorkload) txModOp(carrier *rig.Account, a svModOpArgs, hostile string) rig.Tx {
	return w.r.InjectOp(carrier, &svTag{Kind: "mod-op", Op: a.Op, Ctx: a.Ctx, Hostile: hostile, Actor: a.Consumer}, "svc.modop", a)
}

func (w *svWorkload) txParams(carrier *rig.Account, p svtypes.Params, note string) rig.Tx {
	return w.r.InjectRoute(carrier, &svTag{Kind: "params", Note: note}, &svtypes.MsgUpdateParams{Authority: w.r.GovAddr.String(), Params: p})
}

func (w *svWorkload) hugeCap() sdk.Coins {
	return sdk.NewCoins(sdk.NewCoin(rig.BondDenom, toInt(pow2(100))))
}

type svPromoT struct {
	Start    time.Time `json:"start_time"`
	End      time.Time `json:"end_time"`
	Discount string    `json:"discount"`
}
type svPromoV struct {
	Volume   uint64 `json:"volume"`
	Discount string `json:"discount"`
}
type svRawPricing struct {
	Price string     `json:"price"`
	ByT   []svPromoT `json:"promotions_by_time,omitempty"`
	ByV   []svPromoV `json:"promotions_by_volume,omitempty"`
}

// pricing builds a pricing document. kind: flat|zero|vol|time|both
func (w *svWorkload) pricing(kind string, price *big.Int, denom string, now time.Time) string {
	rp := svRawPricing{Price: price.String() + denom}
	if kind == "zero" {
		rp.Price = "0" + denom
	}
	if kind == "vol" || kind == "both" {
		rp.ByV = []svPromoV{{1, "0.5"}, {3, "0.25"}}
	}
	if kind == "time" || kind == "both" {
		rp.ByT = []svPromoT{{now.UTC(), now.Add(40 * time.Second).UTC(), "0.7"}, {now.Add(90 * time.Second).UTC(), now.Add(100 * time.Hour).UTC(), "0.333333333333333333"}}
	}
	bz, _ := json.Marshal(rp)
	return string(bz)
}

func (w *svWorkload) minDeposit(pricing string) (sdk.Coins, bool) {
	p, err := svtypes.ParsePricing(pricing)
	if err != nil {
		return nil, false
	}
	md, err := w.r.K.Service.GetMinDeposit(w.r.Ctx(), p)
	if err != nil {
		return nil, false
	}
	if md.IsZero() {
		md = sdk.NewCoins(sdk.NewInt64Coin(w.r.K.Service.BaseDenom(w.r.Ctx()), 1))
	}
	return md, true
}

// ---- learning from the chain ----

func sortedKeys[V any](m map[string]V) []string {
	out := make([]string, 0, len(m))
	for k := range m {
		out = append(out, k)
	}
	sort.Strings(out)
	return out
}

func (w *svWorkload) learn(v *svSnap) {
	rng := w.run.Rng
	next := w.r.Height + 1
	for _, id := range sortedKeys(v.Ctxs) {
		if w.known[id] == nil {
			w.known[id] = &svKnown{Scripted: w.cfg.Scripted && w.n < svPrologueLen-4, First: w.n}
		}
	}
	for _, id := range sortedKeys(w.plans) {
		if !v.Active[id] {
			if _, ok := v.Resps[id]; ok {
				w.answered = append(w.answered, id)
			} else {
				w.gone = append(w.gone, id)
			}
			if w.plans[id].Late && !w.plans[id].Sent {
				// keep the late plan until it fires
				continue
			}
			delete(w.plans, id)
		}
	}
	if len(w.answered) > 40 {
		w.answered = w.answered[len(w.answered)-40:]
	}
	if len(w.gone) > 40 {
		w.gone = w.gone[len(w.gone)-40:]
	}
	for _, id := range sortedKeys(v.Active) {
		if w.plans[id] != nil {
			continue
		}
		rq, ok := v.Reqs[id]
		if !ok {
			continue
		}
		cid := strings.ToUpper(rq.RequestContextId)
		rc, ok := v.Ctxs[cid]
		if !ok || !w.mine(rc.ServiceName) {
			continue
		}
		p := &svPlan{OK: true}
		exp := rq.ExpirationHeight
		span := int(exp - next + 1)
		if span < 1 {
			span = 1
		}
		switch {
		case rc.ModuleName == oracletypes.ModuleName:
			p.At = next
			p.Rate = pick(rng, "2.5", "2", "3.25")
			p.Never = rng.Intn(25) == 0
		case w.known[cid] != nil && w.known[cid].Scripted:
			p.At = next
			first := len(rc.Providers) > 0 && rc.Providers[0] == rq.Provider
			if rc.ModuleName == w.cfg.ModName {
				// batch 1: only the first provider answers (threshold 2 unmet); later: everyone
				p.Never = rq.RequestContextBatchCounter == 1 && !first
			} else {
				p.Never = rq.RequestContextBatchCounter%3 == 2
			}
		default:
			x := rng.Intn(100)
			p.At = next + int64(rng.Intn(span))
			switch {
			case x < 55:
			case x < 65:
				p.OK = false
			case x < 88:
				p.Never = true
			default:
				p.Late, p.At = true, exp+1
			}
		}
		w.plans[id] = p
	}
}

func (w *svWorkload) responses(v *svSnap) []rig.Tx {
	var txs []rig.Tx
	next := w.r.Height + 1
	for _, id := range sortedKeys(w.plans) {
		p := w.plans[id]
		if p.Never || p.Sent || next < p.At || len(txs) >= 14 {
			continue
		}
		var prov string
		if rq, ok := v.Reqs[id]; ok {
			prov = rq.Provider
		} else {
			// the record was cleaned with its batch; a late answer comes from whoever we remember: any provider
			prov = w.providers[0].Addr.String()
		}
		a := w.byAddr[prov]
		if a == nil {
			p.Sent = true
			continue
		}
		hostile := ""
		if p.Late {
			hostile = "after-expiry"
		}
		txs = append(txs, w.txRespond(a, id, p.OK, p.Rate, hostile))
		p.Sent = true
		if p.Late {
			delete(w.plans, id)
		}
	}
	return txs
}

// NextDt is a hint for the block time step the workload would like next (0 = no wish).
func (w *svWorkload) NextDt() time.Duration { d := w.wantDt; w.wantDt = 0; return d }

const svPrologueLen = 16

func (w *svWorkload) Next(block int) []rig.Tx {
	v := svTakeSnap(w.r, w.r.Ctx())
	w.learn(v)
	var txs []rig.Tx
	if w.cfg.Scripted && w.n < svPrologueLen {
		txs = append(txs, w.script(v)...)
	}
	if !w.cfg.Scripted {
		// bootstrap on a shared chain: definitions first, then enough bindings to call
		for _, svc := range w.services() {
			if _, ok := w.r.K.Service.GetServiceDefinition(w.r.Ctx(), svc); !ok {
				txs = append(txs, w.txDefine(w.owners[0], svc))
			}
		}
		if len(txs) == 0 && len(w.myBindings(v)) < 5 {
			for i := 0; i < 3; i++ {
				if tx, ok := w.intentAt(v, 4); ok {
					txs = append(txs, tx)
				}
			}
		}
	}
	txs = append(txs, w.responses(v)...)
	if !w.cfg.Scripted || w.n >= svPrologueLen-4 {
		k := 1 + w.run.Rng.Intn(5)
		if w.run.Rng.Intn(12) == 0 {
			k += 6 // many requests / operations in one block
		}
		for i := 0; i < k; i++ {
			if tx, ok := w.intent(v); ok {
				txs = append(txs, tx)
			}
		}
	}
	if (!w.cfg.Scripted || w.n >= svPrologueLen) && w.n%37 == 20 {
		txs = append(txs, w.coincident(v)...)
	}
	if (!w.cfg.Scripted || w.n >= svPrologueLen) && w.n%11 == 6 {
		// one transaction with two calls of one consumer (their context ids differ in the message index only)
		if mb := w.myBindings(v); len(mb) > 0 {
			b := mb[w.run.Rng.Intn(len(mb))]
			if p := w.byAddr[b.Provider]; p != nil && b.Available {
				c := w.consumers[w.run.Rng.Intn(len(w.consumers))]
				mk := func(timeout int64, freq uint64) sdk.Msg {
					return &svtypes.MsgCallService{ServiceName: b.ServiceName, Providers: []string{b.Provider}, Consumer: c.Addr.String(), Input: svIOEmpty, ServiceFeeCap: w.hugeCap(), Timeout: timeout, Repeated: true, RepeatedFrequency: freq, RepeatedTotal: 2}
				}
				txs = append(txs, w.r.Mk(c, &svTag{Kind: "call", Note: "two-calls-one-tx"}, mk(2, 3), mk(3, 4)))
			}
		}
	}
	w.n++
	return txs
}

// coincident makes the poor consumer open three repeated contexts in one block, with the same provider, timeout and
// frequency, while holding two and a half times the provider's price: from then on three new batches of one consumer
// fall due at the same heights and the consumer can pay for some of them only (which ones is decided by the order in
// which the end blocker takes them).
func (w *svWorkload) coincident(v *svSnap) []rig.Tx {
	base := w.r.K.Service.BaseDenom(w.r.Ctx())
	var pick *svtypes.ServiceBinding
	var price sdkmath.Int
	for _, b := range w.myBindings(v) {
		pr := v.RawPrice[svBKey(b.ServiceName, b.Provider)]
		if b.Available && len(pr) == 1 && pr[0].Denom == base && pr[0].Amount.IsPositive() && pr[0].Amount.LT(sdkmath.NewInt(1_000_000_000)) && w.byAddr[b.Provider] != nil {
			bb := b
			pick, price = &bb, pr[0].Amount
			break
		}
	}
	if pick == nil {
		return nil
	}
	keep := price.MulRaw(5).QuoRaw(2)
	bal := v.Bal[w.poor.Addr.String()].AmountOf(base)
	var txs []rig.Tx
	switch {
	case bal.GT(keep):
		txs = append(txs, w.r.Mk(w.poor, &svTag{Kind: "send", Note: "drain"}, banktypes.NewMsgSend(w.poor.Addr, w.sink, sdk.NewCoins(sdk.NewCoin(base, bal.Sub(keep))))))
	case bal.LT(keep):
		txs = append(txs, w.r.Mk(w.consumers[0], &svTag{Kind: "send", Note: "top-up"}, banktypes.NewMsgSend(w.consumers[0].Addr, w.poor.Addr, sdk.NewCoins(sdk.NewCoin(base, keep.Sub(bal))))))
	}
	for i := 0; i < 3; i++ {
		txs = append(txs, w.txCall(w.poor, pick.ServiceName, []*rig.Account{w.byAddr[pick.Provider]}, w.hugeCap(), 2, true, 3, -1, "coincident"))
	}
	w.run.Count("coincident-contexts-opened", 3)
	return txs
}

// script is the constructive prologue: it builds, by construction, one instance of every scenario class the
// monitors require (volume/time discounts, partial batches, expiry with slash and refund, consumer running dry,
// pause/start, withdraw, refund of a deposit, hostile answers and operations, module-owned contexts above and
// below their threshold, and in the oracle regime a feed, a non-base priced binding and a multi-denom owner).
func (w *svWorkload) script(v *svSnap) []rig.Tx {
	r := w.r
	var txs []rig.Tx
	o0, o1, o2 := w.owners[0], w.owners[1%len(w.owners)], w.owners[len(w.owners)-1]
	P := w.providers
	c0, c1 := w.consumers[0], w.consumers[1]
	now := r.Time
	base := rig.BondDenom
	stake := func(n int64) sdk.Coins { return sdk.NewCoins(sdk.NewInt64Coin(base, n)) }
	findCtx := func(consumer *rig.Account, module string, pred func(rc svtypes.RequestContext) bool) string {
		for _, id := range sortedKeys(v.Ctxs) {
			rc := v.Ctxs[id]
			if rc.Consumer == consumer.Addr.String() && rc.ModuleName == module && (pred == nil || pred(rc)) {
				return id
			}
		}
		return ""
	}
	// gapOp pauses / restarts the scripted idle-gap context with the given frequency, and only while it really sits in
	// its idle gap: no batch in flight and the next batch queued for a height after the coming block
	gapOp := func(freq uint64, op string) []rig.Tx {
		id := findCtx(c0, "", func(rc svtypes.RequestContext) bool { return rc.Repeated && rc.RepeatedFrequency == freq })
		if id == "" {
			return nil
		}
		_, inFlight := v.ExpMark[id]
		if nh, queued := v.NewMark[id]; inFlight || !queued || nh <= r.Height+1 {
			return nil
		}
		return []rig.Tx{w.txCtxOp(c0, op, id, "", nil)}
	}
	// the scripted one-shot context of c1: while its only batch is in flight its consumer gives it a frequency and an
	// unlimited total (accepted by the update handler); it must still be removed after that one batch
	if !w.oneShotUpdated {
		if id := findCtx(c1, "", func(rc svtypes.RequestContext) bool {
			return !rc.Repeated && rc.BatchCounter == 1 && rc.BatchState == svtypes.BATCHRUNNING && rc.State == svtypes.RUNNING
		}); id != "" {
			w.oneShotUpdated = true
			rc := v.Ctxs[id]
			txs = append(txs, w.txCtxOp(c1, "update", id, "", &svtypes.MsgUpdateRequestContext{RepeatedFrequency: uint64(rc.Timeout), RepeatedTotal: -1}))
			w.run.Count("one-shot-updated-mid-batch", 1)
		}
	}
	// the context with frequency 9: killed by its consumer while batch 1 is in flight, just before every provider answers
	// (the answers are still due; the batch keeps its queue entry until it is settled)
	if !w.killedMidBatch {
		if id := findCtx(c0, "", func(rc svtypes.RequestContext) bool {
			return rc.Repeated && rc.RepeatedFrequency == 9 && rc.BatchCounter == 1 && rc.BatchState == svtypes.BATCHRUNNING && rc.State == svtypes.RUNNING
		}); id != "" {
			w.killedMidBatch = true
			txs = append(txs, w.txCtxOp(c0, "kill", id, "", nil))
			w.run.Count("context-killed-mid-batch-then-fully-answered(scripted)", 1)
		}
	}
	// the module-owned contexts with frequency 7 / 8: the module moves their threshold while batch 1 is in flight
	for _, fr := range []uint64{7, 8} {
		if w.thrMoved[fr] {
			continue
		}
		if id := findCtx(c1, w.cfg.ModName, func(rc svtypes.RequestContext) bool {
			return rc.Repeated && rc.RepeatedFrequency == fr && rc.BatchCounter == 1 && rc.BatchState == svtypes.BATCHRUNNING
		}); id != "" {
			if w.thrMoved == nil {
				w.thrMoved = map[uint64]bool{}
			}
			w.thrMoved[fr] = true
			to := uint32(1)
			if fr == 8 {
				to = 2
			}
			txs = append(txs, w.txModOp(c1, svModOpArgs{Op: "update", Ctx: id, Consumer: c1.Addr.String(), Threshold: to}, ""))
			w.run.Count(fmt.Sprintf("module-context-threshold-moved-to-%d-while-batch-in-flight", to), 1)
		}
	}
	// the context with two batches in total: while its second (last) batch is in flight with its request unanswered
	// (scripted contexts leave every batch with counter%3 == 2 unanswered), the consumer pauses it and starts it again
	if id := findCtx(c1, "", func(rc svtypes.RequestContext) bool {
		return rc.Repeated && rc.RepeatedTotal == 2 && rc.RepeatedFrequency == 4 && rc.BatchCounter == 2 && rc.BatchState == svtypes.BATCHRUNNING
	}); id != "" {
		switch rc := v.Ctxs[id]; {
		case rc.State == svtypes.RUNNING && !w.lastBatchPaused:
			w.lastBatchPaused = true
			txs = append(txs, w.txCtxOp(c1, "pause", id, "", nil))
		case rc.State == svtypes.PAUSED && !w.lastBatchStarted:
			w.lastBatchStarted = true
			txs = append(txs, w.txCtxOp(c1, "start", id, "", nil))
			w.run.Count("restart-during-last-batch", 1)
		}
	}
	switch w.n {
	case 0:
		p := v.Params
		p.ArbitrationTimeLimit, p.ComplaintRetrospect = 10*time.Second, 10*time.Second
		txs = append(txs, w.txParams(o0, p, "short-windows"))
		txs = append(txs, w.txDefine(o0, "svc-a"), w.txDefine(o1, "svc-b"))
		if bal := v.Bal[w.poor.Addr.String()].AmountOf(base); bal.GT(sdkmath.NewInt(120)) {
			txs = append(txs, r.Mk(w.poor, &svTag{Kind: "send", Note: "drain"}, banktypes.NewMsgSend(w.poor.Addr, w.sink, sdk.NewCoins(sdk.NewCoin(base, bal.SubRaw(120))))))
		}
		if w.cfg.Oracle {
			txs = append(txs, w.txDefine(o2, "svc-rate"))
			if bal := v.Bal[c1.Addr.String()].AmountOf(w.cfg.Alt); bal.GT(sdkmath.NewInt(50)) {
				txs = append(txs, r.Mk(c1, &svTag{Kind: "send", Note: "drain-alt"}, banktypes.NewMsgSend(c1.Addr, w.sink, sdk.NewCoins(sdk.NewCoin(w.cfg.Alt, bal.SubRaw(50))))))
			}
		}
	case 1:
		txs = append(txs,
			w.txBind(P[0], "svc-a", w.pricing("vol", big.NewInt(100), base, now), stake(300000), 1, "vol"),
			w.txBind(P[1], "svc-a", w.pricing("flat", big.NewInt(7), base, now), stake(30000), 1, "flat"),
			w.txBind(P[2], "svc-b", w.pricing("time", big.NewInt(1000), base, now), stake(3000000), 2, "time"),
			w.txBind(P[len(P)-1], "svc-a", w.pricing("zero", big.NewInt(0), base, now), stake(15000), 1, "zero"),
			w.txBind(o2, "svc-a", w.pricing("flat", big.NewInt(5), base, now), stake(15000), 1, "self-owned"),
		)
		if w.cfg.Oracle {
			txs = append(txs,
				w.txBind(P[2], "svc-rate", w.pricing("flat", big.NewInt(3), base, now), stake(15000), 1, "rate"),
				w.txBind(P[len(P)-1], "svc-rate", w.pricing("flat", big.NewInt(3), base, now), stake(15000), 1, "rate"),
			)
		}
	case 2:
		txs = append(txs,
			w.txCall(c0, "svc-a", []*rig.Account{P[0], P[1]}, w.hugeCap(), 2, true, 2, 3, "scripted"),
			w.txCall(w.poor, "svc-a", []*rig.Account{P[0]}, w.hugeCap(), 2, true, 2, -1, "scripted-poor"),
			w.txCall(c1, "svc-b", []*rig.Account{P[2]}, w.hugeCap(), 3, false, 0, 0, "scripted"),
			w.txCall(c1, "svc-a", []*rig.Account{P[0]}, w.hugeCap(), 3, true, 4, 2, "scripted-last-batch"),
			// a context its consumer kills while batch 1 is in flight, in the block in which both providers then answer
			w.txCall(c0, "svc-a", []*rig.Account{P[0], P[1]}, w.hugeCap(), 4, true, 9, -1, "scripted"),
			w.txModCreate(c1, svCreateArgs{Service: "svc-a", Providers: []string{P[0].Addr.String(), P[1].Addr.String()}, Consumer: c1.Addr.String(), FeeCap: w.hugeCap().String(), Timeout: 2, Repeated: true, Freq: 3, Total: 2, Threshold: 2}, "scripted"),
			// two more module-owned contexts whose threshold the module changes while batch 1 is in flight (only the first
			// provider answers batch 1): issued with 2 and lowered to 1, issued with 1 and raised to 2. A batch is judged
			// by the threshold it was issued with
			w.txModCreate(c1, svCreateArgs{Service: "svc-a", Providers: []string{P[0].Addr.String(), P[1].Addr.String()}, Consumer: c1.Addr.String(), FeeCap: w.hugeCap().String(), Timeout: 3, Repeated: true, Freq: 7, Total: 2, Threshold: 2}, "scripted"),
			w.txModCreate(c1, svCreateArgs{Service: "svc-a", Providers: []string{P[0].Addr.String(), P[1].Addr.String()}, Consumer: c1.Addr.String(), FeeCap: w.hugeCap().String(), Timeout: 3, Repeated: true, Freq: 8, Total: 2, Threshold: 1}, "scripted"),
		)
		// idle-gap restart, variant A: frequency = timeout+4; paused right after batch 1 expired, restarted one block later,
		// two blocks before the scheduled batch 2 (the restart must not add a second schedule)
		txs = append(txs, w.txCall(c0, "svc-a", []*rig.Account{P[len(P)-1], o2}, w.hugeCap(), 2, true, 6, -1, "scripted-idle-gap-a"))
		if w.cfg.Oracle {
			txs = append(txs, r.Mk(o1, &svTag{Kind: "feed", Note: "create"}, &oracletypes.MsgCreateFeed{
				FeedName: w.cfg.Alt + "-" + base, LatestHistory: 5, Description: "rate", Creator: o1.Addr.String(), ServiceName: "svc-rate",
				Providers: []string{P[2].Addr.String(), P[len(P)-1].Addr.String()}, Input: svIOEmpty, Timeout: 2, ServiceFeeCap: w.hugeCap(),
				RepeatedFrequency: 2, AggregateFunc: "avg", ValueJsonPath: "rate", ResponseThreshold: 1,
			}))
		}
	case 3:
		// idle-gap restart, variant B: timeout 3, frequency 7; restarted 2 blocks (< timeout) before the scheduled batch 2
		txs = append(txs, w.txCall(c0, "svc-a", []*rig.Account{P[len(P)-1], o2}, w.hugeCap(), 3, true, 7, -1, "scripted-idle-gap-b"))
		// hostile: stranger pauses c0's context, a non-addressed provider answers
		if id := findCtx(c0, "", func(rc svtypes.RequestContext) bool { return rc.RepeatedFrequency == 2 }); id != "" {
			txs = append(txs, w.txCtxOp(c1, "pause", id, "stranger", nil), w.txCtxOp(o0, "kill", id, "stranger", nil))
		}
		for _, id := range sortedKeys(v.Active) {
			if rq := v.Reqs[id]; rq.Provider == P[0].Addr.String() {
				txs = append(txs, w.txRespond(P[1], id, true, "", "foreign-provider"))
				break
			}
		}
		if w.cfg.Oracle {
			txs = append(txs, r.Mk(o1, &svTag{Kind: "feed", Note: "start"}, &oracletypes.MsgStartFeed{FeedName: w.cfg.Alt + "-" + base, Creator: o1.Addr.String()}))
		}
	case 4:
		if len(w.answered) > 0 {
			id := w.answered[0]
			if a := w.byAddr[v.Resps[id].Provider]; a != nil {
				txs = append(txs, w.txRespond(a, id, true, "", "duplicate"))
			}
		}
		// a context that will be paused while a batch is in flight and resumed later
		txs = append(txs, w.txCall(c1, "svc-a", []*rig.Account{P[1]}, w.hugeCap(), 2, true, 3, -1, "scripted-pausable"))
		// a context that is paused and restarted while its batch is still in flight (timeout 4)
		txs = append(txs, w.txCall(c0, "svc-a", []*rig.Account{P[1], o2}, w.hugeCap(), 4, true, 5, -1, "scripted-inflight"))
		// fee cap below price and QoS above timeout: both providers filtered -> empty batch
		txs = append(txs, w.txCall(c0, "svc-b", []*rig.Account{P[2]}, stake(10), 1, false, 0, 0, "scripted-filtered"))
	case 5:
		if id := findCtx(c0, "", func(rc svtypes.RequestContext) bool { return rc.Repeated && rc.RepeatedFrequency == 5 }); id != "" {
			txs = append(txs, w.txCtxOp(c0, "pause", id, "", nil))
		}
		txs = append(txs, gapOp(6, "pause")...)
	case 6:
		if id := findCtx(c0, "", func(rc svtypes.RequestContext) bool { return rc.Repeated && rc.RepeatedFrequency == 5 }); id != "" {
			txs = append(txs, w.txCtxOp(c0, "start", id, "", nil))
		}
		txs = append(txs, gapOp(6, "start")...)
		if id := findCtx(c1, "", func(rc svtypes.RequestContext) bool { return rc.Repeated && rc.RepeatedFrequency == 3 }); id != "" {
			txs = append(txs, w.txCtxOp(c1, "pause", id, "", nil))
		}
		txs = append(txs, w.txWithdraw(o0, P[0].Addr.String(), ""), w.txWithdraw(o1, P[0].Addr.String(), "not-owner"))
		if id := findCtx(c1, w.cfg.ModName, nil); id != "" {
			txs = append(txs, w.txModOp(c0, svModOpArgs{Op: "pause", Ctx: id, Consumer: c0.Addr.String()}, "stranger"))
		}
		if w.cfg.Oracle {
			// the rate exists now: a binding priced in the non-base denom, owned by o2 who also owns a base-priced provider
			pr := w.pricing("flat", big.NewInt(40), w.cfg.Alt, now)
			if md, ok := w.minDeposit(pr); ok {
				txs = append(txs, r.Mk(o2, &svTag{Kind: "bind", Note: "alt-denom"}, &svtypes.MsgBindService{ServiceName: "svc-b", Provider: o2.Addr.String(), Deposit: md, Pricing: pr, QoS: 1, Options: "{}", Owner: o2.Addr.String()}))
			}
		}
	case 7:
		txs = append(txs, gapOp(7, "pause")...)
		if len(w.gone) > 0 {
			txs = append(txs, w.txRespond(P[0], w.gone[0], true, "", "after-expiry"))
		}
		if w.cfg.Oracle {
			// c0 pays both denoms; c1 (50 alt left) can afford one batch of 40 alt only
			txs = append(txs,
				w.txCall(c0, "svc-a", []*rig.Account{o2}, w.hugeCap(), 2, true, 2, 2, "scripted-o2-base"),
				w.txCall(c0, "svc-b", []*rig.Account{o2}, w.hugeCap(), 2, true, 2, 2, "scripted-o2-alt"),
				w.txCall(c1, "svc-b", []*rig.Account{P[2], o2}, w.hugeCap(), 2, true, 2, -1, "scripted-two-denoms"),
			)
		}
	case 8:
		txs = append(txs, gapOp(7, "start")...)
	case 9:
		// everything o1's providers earned so far, through the owner->provider index
		txs = append(txs, w.txWithdrawAll(o1))
		txs = append(txs, r.Mk(o1, &svTag{Kind: "disable"}, &svtypes.MsgDisableServiceBinding{ServiceName: "svc-a", Provider: P[1].Addr.String(), Owner: o1.Addr.String()}))
	case 10:
		if id := findCtx(c1, "", func(rc svtypes.RequestContext) bool { return rc.Repeated && rc.RepeatedFrequency == 3 }); id != "" {
			txs = append(txs, w.txCtxOp(c1, "start", id, "", nil))
		}
		w.wantDt = 25 * time.Second
	case 11:
		txs = append(txs, r.Mk(o1, &svTag{Kind: "refund-deposit"}, &svtypes.MsgRefundServiceDeposit{ServiceName: "svc-a", Provider: P[1].Addr.String(), Owner: o1.Addr.String()}))
		if w.cfg.Oracle {
			txs = append(txs, w.txWithdraw(o2, o2.Addr.String(), ""))
		}
	case 12:
		txs = append(txs, r.Mk(o1, &svTag{Kind: "enable"}, &svtypes.MsgEnableServiceBinding{ServiceName: "svc-a", Provider: P[1].Addr.String(), Deposit: stake(9000), Owner: o1.Addr.String()}))
		txs = append(txs, r.Mk(o0, &svTag{Kind: "set-withdraw"}, &svtypes.MsgSetWithdrawAddress{Owner: o0.Addr.String(), WithdrawAddress: c0.Addr.String()}))
		if w.cfg.Stale {
			pr := w.pricing("zero", big.NewInt(0), "tkb", now)
			txs = append(txs, w.txBind(P[0], "svc-b", pr, stake(5000), 1, "zero-foreign-denom"))
		}
	case 13:
		txs = append(txs, w.txWithdraw(o0, P[0].Addr.String(), ""))
		txs = append(txs, r.Mk(c0, &svTag{Kind: "send", Note: "top-up"}, banktypes.NewMsgSend(c0.Addr, w.poor.Addr, stake(1000))))
		if w.cfg.Stale {
			txs = append(txs, w.txCall(c0, "svc-b", []*rig.Account{P[0]}, w.hugeCap(), 2, false, 0, 0, "scripted-no-rate"))
		}
	case 14:
		if id := findCtx(w.poor, "", nil); id != "" {
			txs = append(txs, w.txCtxOp(w.poor, "start", id, "", nil))
		}
	}
	return txs
}

// intent picks one state-aware random operation.
func (w *svWorkload) intent(v *svSnap) (rig.Tx, bool) { return w.intentAt(v, -1) }

// intentAt instantiates intent ix (or a weighted random one if ix < 0).
func (w *svWorkload) intentAt(v *svSnap, ix int) (rig.Tx, bool) {
	rng := w.run.Rng
	r := w.r
	base := v.Params.BaseDenom
	if base == "" {
		base = rig.BondDenom
	}
	now := r.Time
	provs := w.allProviders()
	anyAcc := func() *rig.Account { return r.Accounts[rng.Intn(len(r.Accounts))] }
	weights := []int{16, 5, 8, 3, 5, 3, 3, 3, 1, 5, 2, 5, 4, 1, 2}
	if !w.cfg.Hostile {
		weights[1], weights[3] = 0, 0
	}
	if !w.cfg.ParamsVary {
		weights[10] = 1
	}
	ctxIDs := sortedKeys(v.Ctxs)
	if ix < 0 {
		ix = weighted(rng, weights)
	}
	switch ix {
	case 0: // call
		cons := pick(rng, w.consumers[0], w.consumers[0], w.consumers[1], w.consumers[1], w.poor)
		svc := pick(rng, w.services()...)
		n := 1 + rng.Intn(4)
		perm := rng.Perm(len(provs))
		var pds []*rig.Account
		for _, i := range perm[:n] {
			pds = append(pds, provs[i])
		}
		var cap sdk.Coins
		note := "cap-huge"
		switch rng.Intn(6) {
		case 0:
			cap, note = sdk.NewCoins(sdk.NewInt64Coin(base, int64(1+rng.Intn(10)))), "cap-tiny"
		case 1:
			// exactly the raw price of the first provider (discounts make it pass or fail at the boundary)
			if pr := v.RawPrice[svBKey(svc, pds[0].Addr.String())]; len(pr) == 1 && pr[0].Denom == base && pr[0].Amount.IsPositive() {
				cap, note = sdk.NewCoins(pr[0]), "cap-at-price"
				if rng.Intn(2) == 0 && pr[0].Amount.GT(sdkmath.OneInt()) {
					cap, note = sdk.NewCoins(sdk.NewCoin(base, pr[0].Amount.SubRaw(1))), "cap-below-price"
				}
			}
		}
		if cap == nil {
			cap = sdk.NewCoins(sdk.NewCoin(base, toInt(pow2(100))))
		}
		timeout := int64(1 + rng.Intn(5))
		if rng.Intn(10) < 6 {
			freq := uint64(timeout) + uint64(rng.Intn(3))
			if rng.Intn(8) == 0 {
				freq = 0 // defaults to the timeout
			}
			return w.txCall(cons, svc, pds, cap, timeout, true, freq, pick(rng, int64(-1), 1, 2, 3, 5), note), true
		}
		return w.txCall(cons, svc, pds, cap, timeout, false, 0, 0, note), true
	case 1: // hostile respond
		switch rng.Intn(4) {
		case 0:
			ids := sortedKeys(w.plans)
			if len(ids) == 0 {
				return rig.Tx{}, false
			}
			id := ids[rng.Intn(len(ids))]
			if !v.Active[id] {
				return rig.Tx{}, false
			}
			a := provs[rng.Intn(len(provs))]
			if a.Addr.String() == v.Reqs[id].Provider {
				a = w.consumers[0]
			}
			return w.txRespond(a, id, true, "", "foreign-provider"), true
		case 1:
			if len(w.answered) == 0 {
				return rig.Tx{}, false
			}
			id := w.answered[rng.Intn(len(w.answered))]
			a := w.byAddr[v.Resps[id].Provider]
			if a == nil {
				a = provs[rng.Intn(len(provs))]
			}
			return w.txRespond(a, id, true, "", "duplicate"), true
		case 2:
			if len(w.gone) == 0 {
				return rig.Tx{}, false
			}
			id := w.gone[rng.Intn(len(w.gone))]
			return w.txRespond(provs[rng.Intn(len(provs))], id, rng.Intn(2) == 0, "", "after-expiry"), true
		default:
			id := svHex(append(tmbytes.HexBytes(make([]byte, 40)), make([]byte, 18)...))
			return w.txRespond(provs[rng.Intn(len(provs))], id, true, "", "unknown-request"), true
		}
	case 2, 3: // context operation by the consumer (2) or by a stranger (3)
		var cand []string
		var gap []string
		for _, id := range ctxIDs {
			if v.Ctxs[id].ModuleName == "" && w.mine(v.Ctxs[id].ServiceName) {
				if k := w.known[id]; k != nil && k.Scripted && w.cfg.Scripted && w.n < svPrologueLen+2 {
					continue // the prologue's own scenarios are still playing out on this context
				}
				cand = append(cand, id)
				// contexts sitting in their idle gap (frequency > timeout): batch expired, next one queued for later
				if _, inFlight := v.ExpMark[id]; !inFlight && v.NewMark[id] > r.Height+1 {
					gap = append(gap, id)
				}
			}
		}
		if ix == 2 && len(gap) > 0 && rng.Intn(3) == 0 {
			// pause, or restart, inside the idle gap
			id := gap[rng.Intn(len(gap))]
			if signer := w.byAddr[v.Ctxs[id].Consumer]; signer != nil {
				op := "pause"
				if v.Ctxs[id].State == svtypes.PAUSED {
					op = "start"
				}
				return w.txCtxOp(signer, op, id, "", nil), true
			}
		}
		if len(cand) == 0 {
			return rig.Tx{}, false
		}
		id := cand[rng.Intn(len(cand))]
		rc := v.Ctxs[id]
		var op string
		switch rc.State {
		case svtypes.RUNNING:
			op = pick(rng, "pause", "pause", "pause", "update", "update", "update", "kill", "start")
		case svtypes.PAUSED:
			op = pick(rng, "start", "start", "start", "start", "update", "kill", "pause")
		default:
			op = pick(rng, "start", "update", "kill", "pause")
		}
		var upd *svtypes.MsgUpdateRequestContext
		if op == "update" {
			upd = &svtypes.MsgUpdateRequestContext{}
			switch rng.Intn(5) {
			case 0:
				upd.RepeatedFrequency = uint64(rc.Timeout) + uint64(rng.Intn(4))
				if rc.Timeout > 1 && rng.Intn(3) == 0 {
					// only the frequency, set below the timeout the context keeps (must be refused)
					upd.RepeatedFrequency = uint64(1 + rng.Intn(int(rc.Timeout)-1))
				}
			case 1:
				upd.Timeout = int64(1 + rng.Intn(int(rc.RepeatedFrequency)+1))
			case 2:
				upd.RepeatedTotal = pick(rng, int64(-1), int64(rc.BatchCounter), int64(rc.BatchCounter)+1, int64(rc.BatchCounter)+3)
				if rng.Intn(2) == 0 {
					// frequency and total together (on a one-shot context this must not turn it into a repeating one)
					upd.RepeatedFrequency = uint64(rc.Timeout) + uint64(rng.Intn(3))
				}
			case 3:
				upd.Providers = []string{provs[rng.Intn(len(provs))].Addr.String(), provs[rng.Intn(len(provs))].Addr.String()}
				if upd.Providers[0] == upd.Providers[1] {
					upd.Providers = upd.Providers[:1]
				}
			default:
				upd.ServiceFeeCap = sdk.NewCoins(sdk.NewInt64Coin(base, int64(1+rng.Intn(2000))))
			}
		}
		signer := w.byAddr[rc.Consumer]
		hostile := ""
		if ix == 3 {
			signer = nil
			for i := 0; i < 5; i++ {
				a := anyAcc()
				if a.Addr.String() != rc.Consumer {
					signer, hostile = a, "stranger"
					break
				}
			}
		}
		if signer == nil {
			return rig.Tx{}, false
		}
		return w.txCtxOp(signer, op, id, hostile, upd), true
	case 4: // bind
		var free [][2]string
		for _, svc := range w.services() {
			for i, p := range provs {
				if _, ok := v.Bindings[svBKey(svc, p.Addr.String())]; !ok {
					free = append(free, [2]string{svc, fmt.Sprint(i)})
				}
			}
		}
		p := provs[rng.Intn(len(provs))]
		svc := pick(rng, w.services()...)
		if len(free) > 0 && rng.Intn(8) > 0 {
			f := free[rng.Intn(len(free))]
			var pi int
			fmt.Sscan(f[1], &pi)
			svc, p = f[0], provs[pi]
		} else if len(free) == 0 && rng.Intn(3) > 0 {
			return w.intentAt(v, 5)
		}
		kind := pick(rng, "flat", "flat", "zero", "vol", "vol", "time", "both")
		denom := base
		if w.cfg.Oracle && rng.Intn(3) == 0 {
			denom = w.cfg.Alt
		}
		price := pick(rng, big.NewInt(1), big.NewInt(int64(2+rng.Intn(1000))), big.NewInt(int64(1000+rng.Intn(2000000))))
		note := kind
		if w.cfg.Stale && rng.Intn(12) == 0 {
			kind, denom, note = "zero", "tkb", "zero-foreign-denom"
		}
		pr := w.pricing(kind, price, denom, now)
		md, ok := w.minDeposit(pr)
		if !ok {
			return rig.Tx{}, false
		}
		dep := sdk.NewCoins(sdk.NewCoin(md[0].Denom, md[0].Amount.MulRaw(pick(rng, int64(2), 3, 5))))
		switch rng.Intn(8) {
		case 0:
			dep = md // exactly the minimum: the first slash disables the binding
			note += "/deposit-at-min"
		case 1:
			if md[0].Amount.GT(sdkmath.OneInt()) {
				dep = sdk.NewCoins(sdk.NewCoin(md[0].Denom, md[0].Amount.SubRaw(1))) // one below the minimum
				note += "/deposit-below-min"
			}
		}
		return w.txBind(p, svc, pr, dep, uint64(1+rng.Intn(3)), note), true
	case 5: // update binding
		mb := w.myBindings(v)
		if len(mb) == 0 {
			return rig.Tx{}, false
		}
		b := mb[rng.Intn(len(mb))]
		o := w.byAddr[b.Owner]
		if o == nil {
			return rig.Tx{}, false
		}
		msg := &svtypes.MsgUpdateServiceBinding{ServiceName: b.ServiceName, Provider: b.Provider, Owner: b.Owner}
		note := ""
		switch rng.Intn(4) {
		case 0:
			msg.Deposit = sdk.NewCoins(coin(base, randMag(rng, 22)))
			note = "add-deposit"
		case 1:
			msg.QoS = uint64(1 + rng.Intn(4))
			note = "qos"
		case 2:
			msg.Pricing = w.pricing(pick(rng, "flat", "vol", "time", "both"), big.NewInt(int64(1+rng.Intn(300))), base, now)
			msg.Deposit = sdk.NewCoins(sdk.NewInt64Coin(base, 300000))
			note = "pricing"
		default:
			msg.Options = `{"a":1}`
			note = "options"
		}
		if w.cfg.Hostile && rng.Intn(10) == 0 {
			o = w.consumers[0]
			msg.Owner = o.Addr.String()
			note += "/not-owner"
		}
		return r.Mk(o, &svTag{Kind: "update-binding", Note: note}, msg), true
	case 6, 7, 8: // disable / enable / refund deposit
		var avail, unavail []svtypes.ServiceBinding
		for _, b := range w.myBindings(v) {
			if b.Available {
				avail = append(avail, b)
			} else {
				unavail = append(unavail, b)
			}
		}
		if ix == 6 && len(avail) > len(unavail)+2 {
			b := avail[rng.Intn(len(avail))]
			if o := w.byAddr[b.Owner]; o != nil {
				return r.Mk(o, &svTag{Kind: "disable"}, &svtypes.MsgDisableServiceBinding{ServiceName: b.ServiceName, Provider: b.Provider, Owner: b.Owner}), true
			}
			return rig.Tx{}, false
		}
		if len(unavail) == 0 {
			return rig.Tx{}, false
		}
		b := unavail[rng.Intn(len(unavail))]
		o := w.byAddr[b.Owner]
		if o == nil {
			return rig.Tx{}, false
		}
		if ix == 8 && !b.Deposit.IsZero() {
			w.wantDt = 25 * time.Second
			return r.Mk(o, &svTag{Kind: "refund-deposit"}, &svtypes.MsgRefundServiceDeposit{ServiceName: b.ServiceName, Provider: b.Provider, Owner: b.Owner}), true
		}
		var dep sdk.Coins
		if md, ok := w.minDeposit(b.Pricing); ok && rng.Intn(4) > 0 {
			dep = sdk.NewCoins(sdk.NewCoin(md[0].Denom, md[0].Amount.MulRaw(2)))
		} else if rng.Intn(2) == 0 {
			dep = sdk.NewCoins(coin(base, randMag(rng, 22)))
		}
		return r.Mk(o, &svTag{Kind: "enable", Note: fmt.Sprint("deposit=", !dep.IsZero())}, &svtypes.MsgEnableServiceBinding{ServiceName: b.ServiceName, Provider: b.Provider, Deposit: dep, Owner: b.Owner}), true
	case 9: // withdraw
		var cand []string
		mineP := map[string]bool{}
		for _, b := range w.myBindings(v) {
			mineP[b.Provider] = true
		}
		for _, p := range sortedKeys(v.Earned) {
			if !v.Earned[p].IsZero() && mineP[p] {
				cand = append(cand, p)
			}
		}
		if len(cand) == 0 {
			return rig.Tx{}, false
		}
		p := cand[rng.Intn(len(cand))]
		o := w.byAddr[v.Owner[p]]
		if o == nil {
			return rig.Tx{}, false
		}
		switch {
		case w.cfg.Hostile && rng.Intn(8) == 0:
			return w.txWithdraw(w.consumers[1], p, "not-owner"), true
		case rng.Intn(8) == 0:
			return w.txWithdraw(o, "", "all-providers"), true
		case rng.Intn(5) == 0:
			return w.txWithdrawAll(o), true
		}
		return w.txWithdraw(o, p, ""), true
	case 10: // params
		p := v.Params
		note := ""
		switch rng.Intn(6) {
		case 5:
			// fees restricted to the base denomination or not: bindings priced in another denomination while it was
			// allowed stay as they are
			p.RestrictedServiceFeeDenom = !p.RestrictedServiceFeeDenom
			note = fmt.Sprint("restricted-fee-denom=", p.RestrictedServiceFeeDenom)
		case 0:
			p.ServiceFeeTax = pick(rng, sdkmath.LegacyZeroDec(), sdkmath.LegacyNewDecWithPrec(5, 2), sdkmath.LegacyNewDecWithPrec(5, 1), sdkmath.LegacyOneDec().Sub(sdkmath.LegacySmallestDec()), sdkmath.LegacySmallestDec(), sdkmath.LegacyNewDecWithPrec(333333333333333333, 18))
			note = "tax=" + p.ServiceFeeTax.String()
		case 1:
			p.SlashFraction = pick(rng, sdkmath.LegacyZeroDec(), sdkmath.LegacyNewDecWithPrec(1, 3), sdkmath.LegacyNewDecWithPrec(5, 1), sdkmath.LegacyOneDec(), sdkmath.LegacySmallestDec(), sdkmath.LegacyNewDecWithPrec(1, 1))
			note = "slash=" + p.SlashFraction.String()
		case 2:
			p.MaxRequestTimeout = pick(rng, int64(2), 5, 100)
			note = fmt.Sprint("max-timeout=", p.MaxRequestTimeout)
		case 3:
			p.MinDepositMultiple = pick(rng, int64(1), 10, 1000)
			p.MinDeposit = sdk.NewCoins(sdk.NewInt64Coin(base, pick(rng, int64(1), 5000, 100000)))
			note = fmt.Sprint("min-deposit=", p.MinDepositMultiple, "/", p.MinDeposit)
		default:
			p.ArbitrationTimeLimit = time.Duration(1+rng.Intn(20)) * time.Second
			p.ComplaintRetrospect = time.Duration(1+rng.Intn(20)) * time.Second
			note = "windows"
		}
		return w.txParams(anyAcc(), p, note), true
	case 11: // module-owned context through the keeper API
		svc := pick(rng, w.services()...)
		n := 1 + rng.Intn(4)
		perm := rng.Perm(len(provs))
		var pds []string
		for _, i := range perm[:n] {
			pds = append(pds, provs[i].Addr.String())
		}
		cons := pick(rng, w.consumers[0], w.consumers[1], w.poor)
		timeout := int64(1 + rng.Intn(3))
		a := svCreateArgs{Service: svc, Providers: pds, Consumer: cons.Addr.String(), FeeCap: sdk.NewCoins(sdk.NewCoin(base, toInt(pow2(100)))).String(), Timeout: timeout,
			Repeated: rng.Intn(3) > 0, Threshold: uint32(1 + rng.Intn(n)), Paused: rng.Intn(6) == 0}
		if a.Repeated {
			a.Freq = uint64(timeout) + uint64(rng.Intn(3))
			a.Total = pick(rng, int64(-1), 1, 2, 4)
		}
		return w.txModCreate(anyAcc(), a, fmt.Sprintf("thr=%d/%d", a.Threshold, n)), true
	case 12: // operation on a module-owned context through the keeper API
		var cand []string
		for _, id := range ctxIDs {
			if v.Ctxs[id].ModuleName == w.cfg.ModName {
				cand = append(cand, id)
			}
		}
		if len(cand) == 0 {
			return rig.Tx{}, false
		}
		id := cand[rng.Intn(len(cand))]
		rc := v.Ctxs[id]
		a := svModOpArgs{Ctx: id, Consumer: rc.Consumer}
		switch rc.State {
		case svtypes.RUNNING:
			a.Op = pick(rng, "pause", "pause", "update", "kill")
		default:
			a.Op = pick(rng, "start", "start", "start", "update", "kill")
		}
		if a.Op == "update" {
			switch rng.Intn(3) {
			case 0:
				a.Threshold = uint32(1 + rng.Intn(len(rc.Providers)))
			case 1:
				a.Freq = uint64(rc.Timeout) + uint64(rng.Intn(3))
			default:
				a.Total = pick(rng, int64(-1), int64(rc.BatchCounter)+2)
			}
		}
		hostile := ""
		if w.cfg.Hostile && rng.Intn(4) == 0 {
			s := anyAcc()
			if s.Addr.String() != rc.Consumer {
				a.Consumer, hostile = s.Addr.String(), "stranger"
			}
		}
		return w.txModOp(anyAcc(), a, hostile), true
	case 13: // set withdraw address
		o := w.owners[rng.Intn(len(w.owners))]
		to := anyAcc().Addr.String()
		note := ""
		if w.cfg.Hostile && rng.Intn(3) == 0 {
			// a blocked module account (the escrows themselves are not blocked in e2e.AppConfig: paying into them is a
			// donation by the sender and outside the statement's operations)
			to, note = svStdFeeColl, "blocked-module-account"
		}
		return r.Mk(o, &svTag{Kind: "set-withdraw", Note: note}, &svtypes.MsgSetWithdrawAddress{Owner: o.Addr.String(), WithdrawAddress: to}), true
	default: // top up the poor consumer / plain transfer
		return r.Mk(w.consumers[0], &svTag{Kind: "send", Note: "top-up"}, banktypes.NewMsgSend(w.consumers[0].Addr, w.poor.Addr, sdk.NewCoins(sdk.NewInt64Coin(rig.BondDenom, int64(1+rng.Intn(3000)))))), true
	}
}

// ---------------------------------------------------------------------------------------------
// director + monitors
// ---------------------------------------------------------------------------------------------

type svMReq struct {
	Ctx      string
	Batch    uint64
	Provider string
	Issued   int64
	Exp      int64
	State    string // active|answered|expired
	Output   string
}

type svMCtx struct {
	Consumer   string
	Module     string
	Repeated   bool
	LastBatchH int64
	LastBatchN uint64
	Freq       uint64
	Timeout    int64
	Clean      bool // record unchanged (state and settings) since the last batch was issued
	SetClean   bool // settings (everything but the state) unchanged since the last batch was issued
	Removed    bool
}

type svDirector struct {
	run     *ev.Run
	r       *rig.Rig
	mode    string
	w       *svWorkload
	reqs    map[string]*svMReq
	ctxs    map[string]*svMCtx
	cbSeen  int
	cbCount map[string]int
	cbRec   map[string]svCb
	regime  string
}

func runService(run *ev.Run, c int, mode string) {
	rng := run.Rng
	regime := []string{"base", "vary", "oracle"}[c%3]
	cfg := svCfg{Scripted: true, Hostile: true, ModName: "verifcb", Alt: "tka", Stale: true, Oracle: regime == "oracle", ParamsVary: regime == "vary"}
	if run.Thorough() && c%8 == 7 {
		// the bare shared-chain workload (no prologue) under the same monitors
		cfg.Scripted, cfg.Oracle, regime = false, false, "unscripted"
	}
	// every other case starts from a genesis that already holds a service and bindings (import path of the binding indexes)
	cfg.GenesisBorn = c%2 == 1
	if cfg.GenesisBorn {
		run.Count("genesis-born-bindings-chains", 1)
	}
	w := newSvWorkload(cfg)
	bal := sdk.NewCoins()
	for _, dn := range []string{rig.BondDenom, "tka", "tkb"} {
		bal = bal.Add(sdk.NewCoin(dn, toInt(pow2(120))))
	}
	opts := rig.Options{Seed: fmt.Sprintf("sv-%d-%d", run.Seed, c), NumAccounts: 11, Balances: bal, InflationOff: true, GenesisMutator: w.Genesis, InitialHeight: boundaryHeight(c / 3), SubSecond: c%2 == 1}
	if cfg.Oracle {
		// the oracle's price service compares the feed value's block time with the host clock (lead D1); a chain clock
		// ahead of every plausible host clock keeps the feed "fresh" under that code, and block-time steps below keep
		// it fresh under a block-time based comparison as well
		opts.GenesisTime = time.Date(2200, 1, 1, 0, 0, 0, 0, time.UTC)
	}
	r := rig.New(opts)
	r.Snapshot = func(ctx sdk.Context) any { return svTakeSnap(r, ctx) }
	w.Attach(run, r)
	d := &svDirector{run: run, r: r, mode: mode, w: w, reqs: map[string]*svMReq{}, ctxs: map[string]*svMCtx{}, cbCount: map[string]int{}, cbRec: map[string]svCb{}, regime: regime}
	if !w.modShared {
		run.Inconc("the rig's service keeper copy does not share the module-service map with the application's keeper")
		return
	}
	blocks := svPrologueLen + 70
	if run.Thorough() {
		blocks = svPrologueLen + 384
	}
	for b := 0; b < blocks; b++ {
		txs := w.Next(b)
		dt := time.Duration(1+rng.Intn(12)) * time.Second
		if cfg.Oracle {
			dt = time.Duration(1+rng.Intn(4)) * time.Second
		} else if b >= svPrologueLen && rng.Intn(25) == 0 {
			dt = time.Duration(1+rng.Intn(72)) * time.Hour
		}
		if wd := w.NextDt(); wd > dt {
			dt = wd
		}
		br := r.DeliverBlock(dt, txs)
		w.Observe(br)
		d.observe(br)
	}
	// scenario classes every case constructs (prologue); a run that observed none of one is inconclusive
	if !cfg.Scripted {
		if mode == "C07" {
			run.Require("respond-ok", 1)
			run.Require("end-block-new-requests", 1)
		} else {
			run.Require("answered", 1)
			run.Require("expired", 1)
			run.Require("queue-check", 1)
		}
		return
	}
	if mode == "C07" {
		for _, n := range []string{"respond-ok", "end-block-new-requests", "end-block-discounted-request", "end-block-expired-request", "slash-nonzero", "withdraw-ok", "withdraw-all-providers-nonzero", "refund-deposit-ok", "bind-ok", "consumer-ran-dry"} {
			run.Require(n, 1)
		}
		if cfg.Oracle {
			run.Require("end-block-alt-denom-request", 1)
			run.Require("multi-denom-owner", 1)
		}
	} else {
		for _, n := range []string{"answered", "expired", "hostile-foreign-provider-rejected", "hostile-duplicate-rejected", "hostile-after-expiry-rejected", "hostile-stranger-rejected",
			"one-shot-removed", "period-checked", "paused-block", "auto-pause", "total-reached", "callback-threshold-met", "callback-threshold-unmet", "empty-batch", "queue-check",
			"restart-in-idle-gap", "restart-in-idle-gap-less-than-timeout-before-batch", "restart-during-last-batch", "one-shot-updated-mid-batch"} {
			run.Require(n, 1)
		}
	}
}

func (d *svDirector) c07() bool { return d.mode == "C07" }

func svBig(cs sdk.Coins) map[string]*big.Int {
	out := map[string]*big.Int{}
	for _, c := range cs {
		if !c.Amount.IsZero() {
			out[c.Denom] = bi(c.Amount)
		}
	}
	return out
}

func svMapAdd(into map[string]*big.Int, cs sdk.Coins, sign int64) {
	for _, c := range cs {
		v := new(big.Int).Mul(bi(c.Amount), big.NewInt(sign))
		if cur, ok := into[c.Denom]; ok {
			cur.Add(cur, v)
		} else {
			into[c.Denom] = v
		}
		if into[c.Denom].Sign() == 0 {
			delete(into, c.Denom)
		}
	}
}

func svMapDiff(exp, act map[string]*big.Int) []string {
	return diffLedger(map[string]map[string]*big.Int{"x": exp}, map[string]map[string]*big.Int{"x": act})
}

// floorFrac returns floor(amount * dec) in exact integers (dec has 18 decimals).
func svFloorFrac(amount *big.Int, dec sdkmath.LegacyDec) *big.Int {
	v := new(big.Int).Mul(amount, dec.BigInt())
	return v.Quo(v, e18)
}

func svDecClass(x sdkmath.LegacyDec) string {
	switch {
	case x.IsZero():
		return "0"
	case x.Equal(sdkmath.LegacyOneDec()):
		return "1"
	case x.LT(sdkmath.LegacyNewDecWithPrec(1, 6)):
		return "tiny"
	case x.LT(sdkmath.LegacyNewDecWithPrec(1, 1)):
		return "<10%"
	case x.LT(sdkmath.LegacyNewDecWithPrec(9, 1)):
		return "<90%"
	default:
		return ">=90%"
	}
}

func (d *svDirector) role(addr string, s *svSnap) string {
	switch addr {
	case svDepositAcc:
		return "deposit-escrow"
	case svRequestAcc:
		return "request-escrow"
	case svFeeCollAcc:
		return "fee-pool"
	}
	for _, rc := range s.Ctxs {
		if rc.Consumer == addr {
			return "consumer"
		}
	}
	for _, o := range s.Owner {
		if o == addr {
			return "owner"
		}
	}
	for _, wa := range s.Withdraw {
		if wa == addr {
			return "withdraw-address"
		}
	}
	return "other"
}

func svDenom0(cs sdk.Coins) string {
	if len(cs) == 0 {
		return ""
	}
	return cs[0].Denom
}

func svAmt0(cs sdk.Coins) *big.Int {
	if len(cs) == 0 {
		return new(big.Int)
	}
	return bi(cs[0].Amount)
}

func svFirstAddr(diffLine string) string {
	var a string
	fmt.Sscanf(diffLine, "%s", &a)
	return a
}

// ---- invariants at an observation point (C07) ----

func (d *svDirector) invariants(s *svSnap, where string) {
	run := d.run
	run.Eval(3)
	// R1 deposit escrow == sum of binding deposits
	exp := map[string]*big.Int{}
	for _, b := range s.Bindings {
		svMapAdd(exp, b.Deposit, 1)
	}
	if df := svMapDiff(exp, svBig(s.Bal[svDepositAcc])); len(df) > 0 {
		run.Violation("C07:service:deposit-escrow-vs-binding-deposits", map[string]any{"where": where, "height": s.Height, "diff": df},
			"deposit escrow differs from the sum of the bindings' recorded deposits at height %d (%s): %v (expected = sum of deposits, got = escrow balance)", s.Height, where, df)
	}
	// R2 request escrow == fees of active requests + earned fees not withdrawn (provider side)
	liab := map[string]*big.Int{}
	for id := range s.Active {
		if rq, ok := s.Reqs[id]; ok {
			svMapAdd(liab, rq.ServiceFee, 1)
		}
	}
	for _, e := range s.Earned {
		svMapAdd(liab, e, 1)
	}
	if df := svMapDiff(liab, svBig(s.Bal[svRequestAcc])); len(df) > 0 {
		run.Violation("C07:service:request-escrow-vs-liabilities", map[string]any{"where": where, "height": s.Height, "diff": df},
			"request escrow differs from active request fees + unwithdrawn earned fees at height %d (%s): %v (expected = liabilities, got = escrow balance)", s.Height, where, df)
	}
	// R2b a fee must not outlive its request's expiration height: after the end block of height H every request still
	// active expires later than H (otherwise its fee is neither refunded nor earned)
	if where == "after end block" {
		for _, id := range sortedKeys(s.Active) {
			if rq, ok := s.Reqs[id]; ok && rq.ExpirationHeight <= s.Height && !rq.ServiceFee.IsZero() {
				run.Violation("C07:service:fee-held-past-expiration", map[string]any{"height": s.Height, "request": id, "expiration_height": rq.ExpirationHeight, "fee": rq.ServiceFee.String()},
					"request %s expired at height %d but is still active after the end block of height %d: its fee %s was neither refunded nor earned", id, rq.ExpirationHeight, s.Height, rq.ServiceFee)
			}
		}
	}
	// R3 owner tally == sum of its providers' tallies
	byOwner := map[string]map[string]*big.Int{}
	for p, e := range s.Earned {
		o := s.Owner[p]
		if byOwner[o] == nil {
			byOwner[o] = map[string]*big.Int{}
		}
		svMapAdd(byOwner[o], e, 1)
	}
	act := map[string]map[string]*big.Int{}
	for o, e := range s.OwnerEarned {
		if m := svBig(e); len(m) > 0 {
			act[o] = m
		}
		if len(e) > 1 {
			run.Count("multi-denom-owner", 1)
		}
	}
	for o, m := range byOwner {
		if len(m) == 0 {
			delete(byOwner, o)
		}
	}
	if df := diffLedger(byOwner, act); len(df) > 0 {
		run.Violation("C07:service:owner-tally-vs-provider-tallies", map[string]any{"where": where, "height": s.Height, "diff": df},
			"owner-side earned fees differ from the sum of the owner's providers' earned fees at height %d (%s): %v (expected = provider side, got = owner side)", s.Height, where, df)
	}
}

// ---- per-tx transition (C07) ----

func (d *svDirector) c07Tx(br *rig.BlockRecord, tx *rig.TxRecord, tag *svTag, pre, post *svSnap) {
	run := d.run
	if len(tx.Msgs) != 1 {
		return
	}
	exp := ledger{}
	expDep := map[string]map[string]*big.Int{}   // binding key -> delta
	expEarn := map[string]map[string]*big.Int{}  // provider -> delta
	expOwner := map[string]map[string]*big.Int{} // owner -> delta
	addTo := func(m map[string]map[string]*big.Int, k string, cs sdk.Coins, sign int64) {
		if m[k] == nil {
			m[k] = map[string]*big.Int{}
		}
		svMapAdd(m[k], cs, sign)
		if len(m[k]) == 0 {
			delete(m, k)
		}
	}
	move := func(from, to string, cs sdk.Coins) {
		for _, c := range cs {
			exp.sub(from, c.Denom, bi(c.Amount))
			exp.add(to, c.Denom, bi(c.Amount))
		}
	}
	kind := tag.Kind
	detail := map[string]any{"msgs": msgBrief(tx.Msgs), "height": br.Height}
	first := tx.Msgs[0]
	if tag.Kind == "withdraw" && tag.Note == "keeper-all-providers" {
		first = &svtypes.MsgWithdrawEarnedFees{Owner: tag.Actor} // carried out through the keeper, same expected effect
	}
	switch m := first.(type) {
	case *svtypes.MsgBindService:
		move(m.Owner, svDepositAcc, m.Deposit)
		addTo(expDep, svBKey(m.ServiceName, m.Provider), m.Deposit, 1)
		run.Count("bind-ok", 1)
		run.Class("bind", tag.Note, "dep="+magClass(bi(m.Deposit[0].Amount)))
	case *svtypes.MsgUpdateServiceBinding:
		move(m.Owner, svDepositAcc, m.Deposit)
		addTo(expDep, svBKey(m.ServiceName, m.Provider), m.Deposit, 1)
		run.Class("update-binding", tag.Note)
	case *svtypes.MsgEnableServiceBinding:
		move(m.Owner, svDepositAcc, m.Deposit)
		addTo(expDep, svBKey(m.ServiceName, m.Provider), m.Deposit, 1)
		run.Class("enable", fmt.Sprint("deposit=", !m.Deposit.IsZero()))
	case *svtypes.MsgRefundServiceDeposit:
		b := pre.Bindings[svBKey(m.ServiceName, m.Provider)]
		move(svDepositAcc, m.Owner, b.Deposit)
		addTo(expDep, svBKey(m.ServiceName, m.Provider), b.Deposit, -1)
		run.Count("refund-deposit-ok", 1)
		run.Class("refund-deposit", "dep="+magClass(amountOf(b.Deposit, pre.Params.BaseDenom)))
		run.Sample("refund-deposit", map[string]any{"height": br.Height, "binding": svBKey(m.ServiceName, m.Provider), "deposit": b.Deposit.String()})
	case *svtypes.MsgRespondService:
		id := strings.ToUpper(m.RequestId)
		rq, ok := pre.Reqs[id]
		if !ok {
			return // C08 judges answers to unknown requests
		}
		tax := sdk.NewCoins()
		for _, c := range rq.ServiceFee {
			tax = tax.Add(sdk.NewCoin(c.Denom, toInt(svFloorFrac(bi(c.Amount), pre.Params.ServiceFeeTax))))
		}
		net := rq.ServiceFee.Sub(tax...)
		move(svRequestAcc, svFeeCollAcc, tax)
		addTo(expEarn, m.Provider, net, 1)
		addTo(expOwner, pre.Owner[m.Provider], net, 1)
		run.Count("respond-ok", 1)
		dk := "base"
		if len(rq.ServiceFee) > 0 && rq.ServiceFee[0].Denom != pre.Params.BaseDenom {
			dk = "alt-denom"
		}
		run.Class("respond", "tax="+svDecClass(pre.Params.ServiceFeeTax), "fee="+magClass(svAmt0(rq.ServiceFee)), dk, "taxzero="+fmt.Sprint(tax.IsZero()))
		run.Sample("respond", map[string]any{"height": br.Height, "request": id, "fee": rq.ServiceFee.String(), "tax_rate": pre.Params.ServiceFeeTax.String(), "tax": tax.String(), "earned": net.String()})
		detail["fee"], detail["tax_rate"], detail["expected_tax"] = rq.ServiceFee.String(), pre.Params.ServiceFeeTax.String(), tax.String()
	case *svtypes.MsgWithdrawEarnedFees:
		var total sdk.Coins
		if m.Provider != "" {
			total = pre.Earned[m.Provider]
			addTo(expEarn, m.Provider, total, -1)
		} else {
			for p, o := range pre.Owner {
				if o == m.Owner {
					total = total.Add(pre.Earned[p]...)
					addTo(expEarn, p, pre.Earned[p], -1)
				}
			}
		}
		addTo(expOwner, m.Owner, total, -1)
		to := m.Owner
		if wa, ok := pre.Withdraw[m.Owner]; ok {
			to = wa
		}
		move(svRequestAcc, to, total)
		run.Count("withdraw-ok", 1)
		if m.Provider == "" {
			run.Count("withdraw-all-providers-ok", 1)
			if !total.IsZero() {
				run.Count("withdraw-all-providers-nonzero", 1)
			}
		}
		run.Class("withdraw", fmt.Sprint("all=", m.Provider == ""), fmt.Sprint("denoms=", len(total)), fmt.Sprint("redirected=", to != m.Owner), "amt="+magClass(svAmt0(total)))
		run.Sample("withdraw", map[string]any{"height": br.Height, "owner": m.Owner, "provider": m.Provider, "to": to, "amount": total.String()})
	case *banktypes.MsgSend:
		if m.FromAddress != m.ToAddress {
			move(m.FromAddress, m.ToAddress, m.Amount)
		}
	default:
		// define, disable, set-withdraw, call, pause/start/kill/update, feed msgs: no funds move, no tally moves
	}
	run.Eval(4)
	if df := diffLedger(exp, balDelta(pre.Bal, post.Bal)); len(df) > 0 {
		detail["diff"] = df
		run.Violation("C07:service:"+kind+":balance-sheet:"+d.role(svFirstAddr(df[0]), pre), detail, "balance changes of a successful %s differ from what the message dictates at height %d: %v", kind, br.Height, df)
	}
	if df := svMapDiff(map[string]*big.Int{}, coinsDelta(pre.Supply, post.Supply)); len(df) > 0 {
		detail["supply"] = df
		run.Violation("C07:service:"+kind+":supply-changed", detail, "a successful %s changed total supplies: %v", kind, df)
	}
	// tallies and deposits move only as dictated
	actDep := map[string]map[string]*big.Int{}
	for k, b := range post.Bindings {
		if dl := coinsDelta(pre.Bindings[k].Deposit, b.Deposit); len(dl) > 0 {
			actDep[k] = dl
		}
	}
	if df := diffLedger(expDep, actDep); len(df) > 0 {
		detail["diff"] = df
		run.Violation("C07:service:"+kind+":binding-deposit", detail, "binding deposits after a successful %s differ from what the message dictates: %v", kind, df)
	}
	if df := diffLedger(expEarn, svCoinsMapDelta(pre.Earned, post.Earned)); len(df) > 0 {
		detail["diff"] = df
		run.Violation("C07:service:"+kind+":provider-earned-fees", detail, "provider earned fees after a successful %s differ from what the message dictates: %v", kind, df)
	}
	if df := diffLedger(expOwner, svCoinsMapDelta(pre.OwnerEarned, post.OwnerEarned)); len(df) > 0 {
		detail["diff"] = df
		run.Violation("C07:service:"+kind+":owner-earned-fees", detail, "owner earned fees after a successful %s differ from what the message dictates: %v", kind, df)
	}
}

func svCoinsMapDelta(a, b map[string]sdk.Coins) map[string]map[string]*big.Int {
	out := map[string]map[string]*big.Int{}
	for k, v := range b {
		if dl := coinsDelta(a[k], v); len(dl) > 0 {
			out[k] = dl
		}
	}
	for k, v := range a {
		if _, ok := b[k]; !ok {
			if dl := coinsDelta(v, nil); len(dl) > 0 {
				out[k] = dl
			}
		}
	}
	return out
}

// ---- end block (C07): charges, refunds, slashes ----

// otherFeePoolWhatIf: the fee pool is a name given to the keeper when the application is wired; the application at hand
// gives it the module's own collector account. On a dropped branch of the next height the module's end blocker runs with
// a second keeper over the same store that was given another pool (the chain's general fee collector): whatever leaves
// the deposit escrow there (slashes of expired requests) must arrive in that pool, and the module's own collector account
// must not move.
func (d *svDirector) otherFeePoolWhatIf() {
	r, run := d.r, d.run
	key := r.App.GetKey(svtypes.StoreKey)
	if key == nil {
		return
	}
	var k2 svkeeper.Keeper
	func() {
		defer func() { _ = recover() }()
		k2 = svkeeper.NewKeeper(r.Cdc, key, r.App.AccountKeeper, r.App.BankKeeper, authtypes.FeeCollectorName, r.GovAddr.String())
	}()
	r.WhatIf(5*time.Second, func(ctx sdk.Context) {
		base := r.K.Service.GetParams(ctx).BaseDenom
		bal := func(a string) *big.Int {
			return r.App.BankKeeper.GetBalance(ctx, sdk.MustAccAddressFromBech32(a), base).Amount.BigInt()
		}
		general := authtypes.NewModuleAddress(authtypes.FeeCollectorName).String()
		dep0, own0, gen0 := bal(svDepositAcc), bal(svFeeCollAcc), bal(general)
		aborted := ""
		func() {
			defer func() {
				if rec := recover(); rec != nil {
					aborted = fmt.Sprint(rec)
				}
			}()
			svmodule.EndBlocker(ctx, k2)
		}()
		if aborted != "" {
			run.Count("other-fee-pool-what-if-aborted", 1)
			return
		}
		dep1, own1, gen1 := bal(svDepositAcc), bal(svFeeCollAcc), bal(general)
		slashed := new(big.Int).Sub(dep0, dep1)
		run.Eval(1)
		if slashed.Sign() == 0 {
			run.Count("other-fee-pool-what-if:nothing-slashed", 1)
			return
		}
		run.Count("other-fee-pool-what-if:slash-observed", 1)
		if got := new(big.Int).Sub(gen1, gen0); got.Cmp(slashed) != 0 || own1.Cmp(own0) != 0 {
			run.Violation("C07:service:slash-does-not-reach-the-configured-fee-pool", map[string]any{"height": r.Height + 1, "slashed": slashed.String(), "configured_pool_gain": got.String(), "own_collector_gain": new(big.Int).Sub(own1, own0).String()},
				"what-if at height %d with a keeper whose fee pool is %s: %s%s left the deposit escrow, the configured pool gained %s and the module's own collector account %s", r.Height+1, authtypes.FeeCollectorName, slashed, base, got, new(big.Int).Sub(own1, own0))
		}
	})
}

func (d *svDirector) c07EndBlock(br *rig.BlockRecord, pre, post *svSnap) {
	run := d.run
	H := br.Height
	base := pre.Params.BaseDenom
	type cons struct {
		charge, refund map[string]*big.Int
	}
	per := map[string]*cons{}
	get := func(a string) *cons {
		if per[a] == nil {
			per[a] = &cons{map[string]*big.Int{}, map[string]*big.Int{}}
		}
		return per[a]
	}
	escrow := map[string]*big.Int{}
	var newIDs, expIDs []string
	for _, id := range sortedKeys(post.Reqs) {
		if _, had := pre.Reqs[id]; !had {
			newIDs = append(newIDs, id)
		}
	}
	for _, id := range sortedKeys(pre.Active) {
		if rq, ok := pre.Reqs[id]; ok && rq.ExpirationHeight == H && !post.Active[id] {
			expIDs = append(expIDs, id)
		}
	}
	for _, id := range newIDs {
		rq := post.Reqs[id]
		rc, ok := post.Ctxs[strings.ToUpper(rq.RequestContextId)]
		if !ok {
			run.Note("new request %s of missing context at height %d", id, H)
			continue
		}
		svMapAdd(get(rc.Consumer).charge, rq.ServiceFee, 1)
		svMapAdd(escrow, rq.ServiceFee, 1)
		raw := post.RawPrice[svBKey(rc.ServiceName, rq.Provider)]
		disc := "none"
		if !raw.Equal(rq.ServiceFee) {
			disc = "discounted"
			run.Count("end-block-discounted-request", 1)
		}
		dk := "base"
		if len(raw) > 0 && raw[0].Denom != base {
			dk = "alt-denom"
			run.Count("end-block-alt-denom-request", 1)
		}
		run.Class("new-request", disc, dk, "fee="+magClass(svAmt0(rq.ServiceFee)), fmt.Sprint("module=", rc.ModuleName != ""), fmt.Sprint("repeated=", rc.Repeated))
		run.Sample("new-request:"+disc+":"+dk, map[string]any{"height": H, "request": id, "consumer": rc.Consumer, "raw_price": raw.String(), "recorded_fee": rq.ServiceFee.String()})
	}
	if len(newIDs) > 0 {
		run.Count("end-block-new-requests", 1)
	}
	// expired: refund in full, slash floor(deposit*fraction) of the binding's base-denom deposit, sequentially per request
	dep := map[string]*big.Int{} // binding -> current base deposit
	slashByBinding := map[string]*big.Int{}
	slashTotal := new(big.Int)
	for _, id := range expIDs {
		rq := pre.Reqs[id]
		rc, ok := pre.Ctxs[strings.ToUpper(rq.RequestContextId)]
		if !ok {
			run.Note("expired request %s of missing context at height %d", id, H)
			continue
		}
		svMapAdd(get(rc.Consumer).refund, rq.ServiceFee, 1)
		svMapAdd(escrow, rq.ServiceFee, -1)
		bk := svBKey(rc.ServiceName, rq.Provider)
		if dep[bk] == nil {
			dep[bk] = amountOf(pre.Bindings[bk].Deposit, base)
			slashByBinding[bk] = new(big.Int)
		}
		s := svFloorFrac(dep[bk], pre.Params.SlashFraction)
		dep[bk] = new(big.Int).Sub(dep[bk], s)
		slashByBinding[bk].Add(slashByBinding[bk], s)
		slashTotal.Add(slashTotal, s)
		if s.Sign() > 0 {
			run.Count("slash-nonzero", 1)
		}
		run.Class("expired-request", "slash="+svDecClass(pre.Params.SlashFraction), "deposit="+magClass(amountOf(pre.Bindings[bk].Deposit, base)), "slashed="+magClass(s), "fee="+magClass(svAmt0(rq.ServiceFee)))
		run.Sample("expired-request", map[string]any{"height": H, "request": id, "consumer": rc.Consumer, "fee": rq.ServiceFee.String(), "binding": bk, "deposit_before": pre.Bindings[bk].Deposit.String(), "slash_fraction": pre.Params.SlashFraction.String(), "expected_slash": s.String()})
	}
	if len(expIDs) > 0 {
		run.Count("end-block-expired-request", 1)
	}
	// contexts that auto-paused because the consumer could not pay
	for id, pc := range pre.Ctxs {
		if qc, ok := post.Ctxs[id]; ok && pc.State == svtypes.RUNNING && qc.State == svtypes.PAUSED {
			run.Count("consumer-ran-dry", 1)
			run.Class("auto-pause", fmt.Sprint("module=", pc.ModuleName != ""))
		}
	}
	act := balDelta(pre.Bal, post.Bal)
	detail := map[string]any{"height": H, "new_requests": newIDs, "expired_requests": expIDs, "balance_delta": fmt.Sprint(act)}
	seen := map[string]bool{}
	// consumers
	for _, a := range sortedKeys(per) {
		c := per[a]
		seen[a] = true
		want := map[string]*big.Int{}
		for dn, v := range c.refund {
			want[dn] = new(big.Int).Set(v)
		}
		for dn, v := range c.charge {
			if want[dn] == nil {
				want[dn] = new(big.Int)
			}
			want[dn].Sub(want[dn], v)
			if want[dn].Sign() == 0 {
				delete(want, dn)
			}
		}
		got := act[a]
		if got == nil {
			got = map[string]*big.Int{}
		}
		run.Eval(1)
		if df := svMapDiff(want, got); len(df) > 0 {
			key := "C07:service:end-block:consumer-net-of-charges-and-refunds"
			switch {
			case len(c.charge) > 0 && len(c.refund) == 0:
				key = "C07:service:end-block:consumer-charge-vs-recorded-request-fees"
			case len(c.refund) > 0 && len(c.charge) == 0:
				key = "C07:service:end-block:expired-request-refund"
			}

			detail["consumer"], detail["diff"] = a, df
			run.Violation(key, detail, "consumer %s at end of block %d: charged for new requests %v, refunded for expired requests %v, but balance moved by %v: %v", a, H, c.charge, c.refund, got, df)
		}
	}
	check := func(addr, key string, want map[string]*big.Int) {
		seen[addr] = true
		got := act[addr]
		if got == nil {
			got = map[string]*big.Int{}
		}
		run.Eval(1)
		if df := svMapDiff(want, got); len(df) > 0 {
			detail["diff"] = df
			run.Violation(key, detail, "%s at end of block %d moved by %v, expected %v: %v", addr, H, got, want, df)
		}
	}
	check(svRequestAcc, "C07:service:end-block:request-escrow-vs-new-and-expired-fees", escrow)
	sl := map[string]*big.Int{}
	if slashTotal.Sign() > 0 {
		sl[base] = slashTotal
	}
	neg := map[string]*big.Int{}
	if slashTotal.Sign() > 0 {
		neg[base] = new(big.Int).Neg(slashTotal)
	}
	check(svDepositAcc, "C07:service:end-block:slash-not-taken-from-deposit-escrow", neg)
	check(svFeeCollAcc, "C07:service:end-block:slash-not-credited-to-fee-pool", sl)
	for _, a := range sortedKeys(act) {
		if !seen[a] {
			run.Eval(1)
			detail["diff"] = fmt.Sprint(act[a])
			key := "C07:service:end-block:unexpected-balance-change:" + d.role(a, pre)
			run.Violation(key, detail, "account %s moved by %v at end of block %d although no request was issued or expired for it", a, act[a], H)
		}
	}
	supDelta := coinsDelta(pre.Supply, post.Supply)
	if df := svMapDiff(map[string]*big.Int{}, supDelta); len(df) > 0 {
		run.Violation("C07:service:end-block:supply-changed", detail, "total supplies changed at end of block %d: %v", H, df)
	}
	// every coin taken from one account arrives at another: the balance changes of all accounts add up to the supply change
	sum := map[string]*big.Int{}
	for _, m := range act {
		for dn, v := range m {
			if sum[dn] == nil {
				sum[dn] = new(big.Int)
			}
			sum[dn].Add(sum[dn], v)
		}
	}
	for dn, v := range sum {
		if v.Sign() == 0 {
			delete(sum, dn)
		}
	}
	run.Eval(1)
	if df := svMapDiff(supDelta, sum); len(df) > 0 {
		detail["diff"] = df
		run.Violation("C07:service:end-block:coins-debited-but-credited-nowhere", detail, "at end of block %d the balance changes of all accounts add up to %v while supplies changed by %v: coins left an account without arriving anywhere", H, sum, supDelta)
	}
	// binding deposits: reduced by exactly the slashes
	wantDep := map[string]map[string]*big.Int{}
	for bk, s := range slashByBinding {
		if s.Sign() > 0 {
			wantDep[bk] = map[string]*big.Int{base: new(big.Int).Neg(s)}
		}
	}
	gotDep := map[string]map[string]*big.Int{}
	for k, b := range post.Bindings {
		if dl := coinsDelta(pre.Bindings[k].Deposit, b.Deposit); len(dl) > 0 {
			gotDep[k] = dl
		}
	}
	run.Eval(2)
	if df := diffLedger(wantDep, gotDep); len(df) > 0 {
		detail["diff"] = df
		run.Violation("C07:service:end-block:slash-amount", detail, "binding deposits at end of block %d moved other than by floor(deposit x slash fraction %s) per expired request: %v", H, pre.Params.SlashFraction, df)
	}
	if df := diffLedger(map[string]map[string]*big.Int{}, svCoinsMapDelta(pre.Earned, post.Earned)); len(df) > 0 {
		run.Violation("C07:service:end-block:earned-fees-moved", detail, "earned fees changed in an end block: %v", df)
	}
}

// ---- C08: per-tx ----

func svCtxSettingsEqual(a, b svtypes.RequestContext) bool {
	if a.State != b.State || a.Timeout != b.Timeout || a.RepeatedFrequency != b.RepeatedFrequency || a.RepeatedTotal != b.RepeatedTotal ||
		a.ResponseThreshold != b.ResponseThreshold || !a.ServiceFeeCap.Equal(b.ServiceFeeCap) || len(a.Providers) != len(b.Providers) || a.Repeated != b.Repeated {
		return false
	}
	for i := range a.Providers {
		if a.Providers[i] != b.Providers[i] {
			return false
		}
	}
	return true
}

func (d *svDirector) mctx(id string, rc svtypes.RequestContext) *svMCtx {
	m := d.ctxs[id]
	if m == nil {
		m = &svMCtx{Consumer: rc.Consumer, Module: rc.ModuleName, Repeated: rc.Repeated}
		d.ctxs[id] = m
	}
	return m
}

func (d *svDirector) c08Tx(br *rig.BlockRecord, tx *rig.TxRecord, tag *svTag, pre, post *svSnap) {
	run := d.run
	detail := map[string]any{"msgs": msgBrief(tx.Msgs), "height": br.Height, "hostile": tag.Hostile}
	if len(tx.Msgs) == 1 {
		switch m := tx.Msgs[0].(type) {
		case *svtypes.MsgRespondService:
			id := strings.ToUpper(m.RequestId)
			rq, had := pre.Reqs[id]
			run.Eval(4)
			switch {
			case !had || !pre.Active[id]:
				st := "unknown"
				if mr := d.reqs[id]; mr != nil {
					st = mr.State
				}
				run.Violation("C08:service:answer-accepted-for-inactive-request", detail, "answer to request %s accepted at height %d although the request was not active (model state %s, record present %v)", id, br.Height, st, had)
			case rq.Provider != m.Provider:
				run.Violation("C08:service:answer-accepted-from-non-addressed-provider", detail, "answer to request %s addressed to %s accepted from %s at height %d", id, rq.Provider, m.Provider, br.Height)
			}
			if post.Active[id] {
				run.Violation("C08:service:answered-request-still-active", detail, "request %s is still marked active after its accepted answer at height %d", id, br.Height)
			}
			if _, ok := post.Resps[id]; !ok {
				run.Violation("C08:service:accepted-answer-not-recorded", detail, "no response record for request %s after its accepted answer", id)
			}
			if mr := d.reqs[id]; mr != nil {
				if mr.State != "active" {
					run.Violation("C08:service:request-second-outcome", detail, "request %s answered at height %d but its outcome was already %q", id, br.Height, mr.State)
				}
				mr.State, mr.Output = "answered", m.Output
				run.Count("answered", 1)
				run.Class("answered", fmt.Sprint("at-expiration-height=", mr.Exp == br.Height), fmt.Sprint("with-output=", m.Output != ""), fmt.Sprint("module=", d.ctxs[mr.Ctx] != nil && d.ctxs[mr.Ctx].Module != ""))
				run.Sample("answered", map[string]any{"height": br.Height, "request": id, "provider": m.Provider, "expires": mr.Exp})
			}
		case *svtypes.MsgPauseRequestContext:
			d.c08Authority(br, pre, strings.ToUpper(m.RequestContextId), m.Consumer, "pause", detail)
		case *svtypes.MsgStartRequestContext:
			id := strings.ToUpper(m.RequestContextId)
			d.c08Authority(br, pre, id, m.Consumer, "start", detail)
			if nh, queued := pre.NewMark[id]; queued && nh > br.Height {
				if _, inFlight := pre.ExpMark[id]; !inFlight {
					// restarted inside the idle gap between an expired batch and the next, already scheduled one
					run.Count("restart-in-idle-gap", 1)
					near := nh-br.Height < pre.Ctxs[id].Timeout
					if near {
						run.Count("restart-in-idle-gap-less-than-timeout-before-batch", 1)
					}
					run.Class("restart-in-idle-gap", fmt.Sprint("blocks-before-batch=", nh-br.Height), fmt.Sprint("less-than-timeout=", near))
				}
			}
		case *svtypes.MsgKillRequestContext:
			d.c08Authority(br, pre, strings.ToUpper(m.RequestContextId), m.Consumer, "kill", detail)
		case *svtypes.MsgUpdateRequestContext:
			d.c08Authority(br, pre, strings.ToUpper(m.RequestContextId), m.Consumer, "update", detail)
		}
		if tag.Kind == "mod-op" {
			d.c08Authority(br, pre, strings.ToUpper(tag.Ctx), tag.Actor, "module-"+tag.Op, detail)
		}
	}
	// context records: new, modified, (never) removed inside a tx
	for _, id := range sortedKeys(post.Ctxs) {
		qc := post.Ctxs[id]
		pc, had := pre.Ctxs[id]
		m := d.mctx(id, qc)
		if !had {
			m.Clean, m.SetClean = qc.State == svtypes.RUNNING, true
			run.Class("context-created", fmt.Sprint("repeated=", qc.Repeated), fmt.Sprint("module=", qc.ModuleName), fmt.Sprint("providers=", len(qc.Providers)), "state="+qc.State.String())
			continue
		}
		if !svCtxSettingsEqual(pc, qc) {
			m.Clean = false
			st := pc
			st.State = qc.State
			if !svCtxSettingsEqual(st, qc) {
				m.SetClean = false
			}
			run.Class("context-modified", tag.Kind, tag.Op, "from="+pc.State.String(), "to="+qc.State.String(), fmt.Sprint("batch-in-flight=", pc.BatchState == svtypes.BATCHRUNNING))
		}
		if qc.BatchCounter != pc.BatchCounter {
			m.Clean = false
			run.Note("batch counter of %s moved inside a tx at height %d", id, br.Height)
		}
	}
}

func (d *svDirector) c08Authority(br *rig.BlockRecord, pre *svSnap, id, actor, op string, detail map[string]any) {
	run := d.run
	rc, ok := pre.Ctxs[id]
	if !ok {
		return
	}
	run.Eval(1)
	if rc.Consumer != actor {
		run.Violation("C08:service:context-operation-by-non-consumer:"+op, detail, "%s of context %s (consumer %s) accepted from %s at height %d", op, id, rc.Consumer, actor, br.Height)
		return
	}
	run.Count("consumer-op-ok", 1)
	run.Class("consumer-op", op, "state="+rc.State.String(), fmt.Sprint("batch-in-flight=", rc.BatchState == svtypes.BATCHRUNNING), fmt.Sprint("at-expiry-height=", pre.ExpMark[id] == br.Height), fmt.Sprint("at-batch-height=", pre.NewMark[id] == br.Height))
}

// ---- C08: end block ----

func (d *svDirector) c08EndBlock(br *rig.BlockRecord, pre, post *svSnap) {
	run := d.run
	H := br.Height
	// requests first: expiries and new requests
	for _, id := range sortedKeys(pre.Active) {
		rq, ok := pre.Reqs[id]
		if !ok {
			continue
		}
		detail := map[string]any{"height": H, "request": id, "expires": rq.ExpirationHeight, "provider": rq.Provider}
		run.Eval(1)
		switch {
		case rq.ExpirationHeight == H:
			if post.Active[id] {
				run.Violation("C08:service:request-not-expired-at-expiration-height", detail, "request %s is still active after the end of block %d, its expiration height", id, H)
				continue
			}
			mr := d.reqs[id]
			if mr != nil {
				if mr.State != "active" {
					run.Violation("C08:service:request-second-outcome", detail, "request %s expired at height %d but its outcome was already %q", id, H, mr.State)
				}
				mr.State = "expired"
			}
			run.Count("expired", 1)
			run.Class("expired", fmt.Sprint("module=", mr != nil && d.ctxs[mr.Ctx] != nil && d.ctxs[mr.Ctx].Module != ""))
			run.Sample("expired", detail)
		case rq.ExpirationHeight > H:
			if !post.Active[id] {
				run.Violation("C08:service:request-ended-before-expiration-without-answer", detail, "request %s (expires %d) lost its active marker in the end block of height %d", id, rq.ExpirationHeight, H)
			}
		default:
			run.Violation("C08:service:request-without-outcome-past-expiration", detail, "request %s (expired %d) still active before the end block of height %d", id, rq.ExpirationHeight, H)
		}
	}
	// "provider slashed": the recorded deposit of a binding whose request expired in this end block falls by the configured
	// fraction (rounded down) per expired request, one after the other
	{
		baseDn := pre.Params.BaseDenom
		dep := map[string]*big.Int{}
		n := map[string]int{}
		for _, id := range sortedKeys(pre.Active) {
			rq, ok := pre.Reqs[id]
			if !ok || rq.ExpirationHeight != H || post.Active[id] {
				continue
			}
			rc, ok := pre.Ctxs[strings.ToUpper(rq.RequestContextId)]
			if !ok {
				continue
			}
			bk := svBKey(rc.ServiceName, rq.Provider)
			if _, seen := dep[bk]; !seen {
				if _, has := pre.Bindings[bk]; !has {
					continue
				}
				dep[bk] = amountOf(pre.Bindings[bk].Deposit, baseDn)
			}
			dep[bk] = new(big.Int).Sub(dep[bk], svFloorFrac(dep[bk], pre.Params.SlashFraction))
			n[bk]++
		}
		for _, bk := range sortedKeys(n) {
			pb, ok := post.Bindings[bk]
			if !ok {
				continue
			}
			run.Eval(1)
			if got := amountOf(pb.Deposit, baseDn); got.Cmp(dep[bk]) != 0 {
				run.Violation("C08:service:provider-not-slashed-by-the-configured-fraction", map[string]any{"height": H, "binding": bk, "expired_requests": n[bk], "deposit_before": pre.Bindings[bk].Deposit.String(), "deposit_after": pb.Deposit.String(), "slash_fraction": pre.Params.SlashFraction.String()},
					"%d request(s) addressed to %s expired at height %d: its recorded deposit went from %s to %s, the slash fraction %s (rounded down, per request) leaves %s%s", n[bk], bk, H, pre.Bindings[bk].Deposit, pb.Deposit, pre.Params.SlashFraction, dep[bk], baseDn)
			}
			run.Class("slashed", "available="+fmt.Sprint(pre.Bindings[bk].Available), "n="+fmt.Sprint(n[bk]), "slash="+svDecClass(pre.Params.SlashFraction))
		}
	}
	newByCtx := map[string][]string{}
	for _, id := range sortedKeys(post.Reqs) {
		if _, had := pre.Reqs[id]; had {
			continue
		}
		rq := post.Reqs[id]
		cid := strings.ToUpper(rq.RequestContextId)
		newByCtx[cid] = append(newByCtx[cid], id)
		d.reqs[id] = &svMReq{Ctx: cid, Batch: rq.RequestContextBatchCounter, Provider: rq.Provider, Issued: H, Exp: rq.ExpirationHeight, State: "active"}
		rc := post.Ctxs[cid]
		run.Eval(2)
		detail := map[string]any{"height": H, "request": id}
		if !post.Active[id] || rq.RequestHeight != H || rq.ExpirationHeight != H+rc.Timeout {
			run.Violation("C08:service:new-request-malformed", detail, "request %s issued at height %d: active=%v request height %d expiration %d (context timeout %d)", id, H, post.Active[id], rq.RequestHeight, rq.ExpirationHeight, rc.Timeout)
		}
		found := false
		for _, p := range rc.Providers {
			found = found || p == rq.Provider
		}
		if !found {
			run.Violation("C08:service:request-to-provider-outside-context", detail, "request %s addressed to %s who is not among the context's providers %v", id, rq.Provider, rc.Providers)
		}
	}
	// contexts
	for _, id := range sortedKeys(pre.Ctxs) {
		pc := pre.Ctxs[id]
		qc, exists := post.Ctxs[id]
		m := d.mctx(id, pc)
		detail := map[string]any{"height": H, "context": id, "before": fmt.Sprintf("%+v", svCtxBrief(pc)), "last_batch_height": m.LastBatchH, "last_batch": m.LastBatchN}
		if pc.State == svtypes.PAUSED {
			run.Eval(1)
			run.Count("paused-block", 1)
		}
		if !exists {
			m.Removed = true
			if !pc.Repeated {
				run.Eval(1)
				run.Count("one-shot-removed", 1)
				if m.LastBatchN != 1 || pc.BatchCounter != 1 {
					run.Violation("C08:service:one-shot-context-batch-count", detail, "one-shot context %s removed at height %d after %d batches", id, H, pc.BatchCounter)
				} else if m.Clean && H != m.LastBatchH+m.Timeout {
					run.Violation("C08:service:one-shot-context-removed-at-wrong-height", detail, "one-shot context %s issued its batch at %d with timeout %d but was removed at %d", id, m.LastBatchH, m.Timeout, H)
				}
				run.Class("one-shot-removed", fmt.Sprint("module=", pc.ModuleName != ""), fmt.Sprint("requests=", pc.BatchRequestCount))
			} else if pc.RepeatedTotal > 0 && int64(pc.BatchCounter) >= pc.RepeatedTotal {
				run.Count("total-reached", 1)
				run.Class("repeated-completed", fmt.Sprint("total=", pc.RepeatedTotal))
			} else if pc.RepeatedTotal > 0 && pc.State == svtypes.RUNNING {
				// still running (nobody ended it) and below its total: it had batches left to issue
				run.Eval(1)
				run.Violation("C08:service:repeated-context-removed-below-its-total", detail, "repeated context %s (running, total %d) was removed at height %d after only %d batches", id, pc.RepeatedTotal, H, pc.BatchCounter)
			}
			if len(newByCtx[id]) > 0 {
				run.Violation("C08:service:requests-issued-for-removed-context", detail, "context %s was removed at height %d but %d new requests were issued for it", id, H, len(newByCtx[id]))
			}
			continue
		}
		delta := int64(qc.BatchCounter) - int64(pc.BatchCounter)
		// an expiration entry belongs to a batch: the end block adds one for a context only together with a new batch
		// (issued or skipped - both advance the batch counter)
		if delta == 0 {
			had := map[int64]bool{}
			for _, e := range pre.ExpQ {
				if e.Ctx == id {
					had[e.H] = true
				}
			}
			for _, e := range post.ExpQ {
				if e.Ctx == id && !had[e.H] {
					run.Eval(1)
					run.Violation("C08:service:expiration-entry-for-a-batch-never-issued", detail, "context %s (batch counter %d before and after the end block of height %d, state %s -> %s) gained an expiration entry at height %d", id, pc.BatchCounter, H, pc.State, qc.State, e.H)
				}
			}
		}
		switch {
		case delta > 0:
			run.Eval(4)
			if delta > 1 {
				run.Violation("C08:service:several-batches-in-one-block", detail, "context %s advanced from batch %d to %d in one end block", id, pc.BatchCounter, qc.BatchCounter)
			}
			if pc.State != svtypes.RUNNING {
				run.Violation("C08:service:batch-issued-while-not-running", detail, "context %s in state %s issued batch %d at height %d", id, pc.State, qc.BatchCounter, H)
			}
			// (a total lowered by an update after this batch was already scheduled is outside the statement's "settings not modified")
			if pc.Repeated && pc.RepeatedTotal > 0 && int64(qc.BatchCounter) > pc.RepeatedTotal && m.SetClean {
				run.Violation("C08:service:batch-beyond-total", detail, "context %s with total %d issued batch %d", id, pc.RepeatedTotal, qc.BatchCounter)
			}
			if !pc.Repeated && qc.BatchCounter > 1 {
				run.Violation("C08:service:one-shot-context-batch-count", detail, "one-shot context %s issued batch %d", id, qc.BatchCounter)
			}
			if pc.Repeated && m.LastBatchN > 0 && m.Clean {
				run.Count("period-checked", 1)
				gap := H - m.LastBatchH
				if gap != int64(m.Freq) {
					run.Violation("C08:service:batch-period", detail, "context %s (unmodified, running) issued batch %d at height %d and batch %d at height %d: %d blocks apart, frequency %d", id, m.LastBatchN, m.LastBatchH, qc.BatchCounter, H, gap, m.Freq)
				}
				run.Class("period", fmt.Sprint("freq-minus-timeout=", int64(m.Freq)-m.Timeout), fmt.Sprint("module=", pc.ModuleName != ""))
				run.Sample("period", map[string]any{"context": id, "batch": qc.BatchCounter, "height": H, "previous_height": m.LastBatchH, "frequency": m.Freq})
			}
			if int(qc.BatchRequestCount) != len(newByCtx[id]) {
				run.Violation("C08:service:batch-request-count", detail, "context %s batch %d records %d requests but %d were issued", id, qc.BatchCounter, qc.BatchRequestCount, len(newByCtx[id]))
			}
			if len(newByCtx[id]) == 0 {
				run.Count("empty-batch", 1)
			}
			run.Class("batch", fmt.Sprint("n=", minInt(int(qc.BatchCounter), 4)), fmt.Sprint("requests=", len(newByCtx[id])), fmt.Sprint("of=", len(pc.Providers)), fmt.Sprint("repeated=", pc.Repeated), fmt.Sprint("module=", pc.ModuleName != ""))
			m.LastBatchH, m.LastBatchN, m.Freq, m.Timeout = H, qc.BatchCounter, qc.RepeatedFrequency, qc.Timeout
			m.Clean, m.SetClean = qc.State == svtypes.RUNNING, true
		default:
			if len(newByCtx[id]) > 0 {
				run.Violation("C08:service:requests-without-batch", detail, "%d requests issued for context %s at height %d without a new batch", len(newByCtx[id]), id, H)
			}
			// a batch that was due: unmodified, running, below total, exactly one frequency after the last one
			if pc.Repeated && m.Clean && m.LastBatchN > 0 && pc.State == svtypes.RUNNING && H == m.LastBatchH+int64(m.Freq) && (pc.RepeatedTotal < 0 || int64(pc.BatchCounter) < pc.RepeatedTotal) {
				run.Eval(1)
				if qc.State == svtypes.PAUSED {
					run.Count("auto-pause", 1)
					run.Class("auto-pause-at-due-batch", fmt.Sprint("module=", pc.ModuleName != ""))
				} else {
					run.Violation("C08:service:due-batch-not-issued", detail, "context %s (unmodified, running, batch %d of total %d) was due at height %d = %d + frequency %d but no batch was issued and the context is %s", id, pc.BatchCounter, pc.RepeatedTotal, H, m.LastBatchH, m.Freq, qc.State)
				}
			}
			if !pc.Repeated && m.Clean && m.LastBatchN == 1 && H == m.LastBatchH+m.Timeout {
				run.Violation("C08:service:one-shot-context-not-removed", detail, "one-shot context %s issued its batch at %d with timeout %d and still exists after block %d", id, m.LastBatchH, m.Timeout, H)
			}
		}
		if pc.State == svtypes.RUNNING && qc.State == svtypes.PAUSED {
			if delta == 0 {
				run.Count("auto-pause", 1)
			}
			m.Clean = false
		} else if !svCtxSettingsEqual(pc, qc) {
			m.Clean = false
		}
		// a context created running in this block must have got its first batch (or have been paused for lack of funds)
		if m.LastBatchN == 0 && pc.State == svtypes.RUNNING && pc.BatchCounter == 0 && qc.BatchCounter == 0 && qc.State == svtypes.RUNNING && m.Clean {
			run.Eval(1)
			if pre.NewMark[id] == H {
				run.Violation("C08:service:first-batch-not-issued", detail, "context %s is running and was queued for its first batch at height %d, but no batch was issued and it is still running", id, H)
			}
		}
	}
	// callbacks of the harness module
	d.c08Callbacks(br, pre, post)
}

func minInt(a, b int) int {
	if a < b {
		return a
	}
	return b
}

func svCtxBrief(rc svtypes.RequestContext) map[string]any {
	return map[string]any{"consumer": rc.Consumer, "module": rc.ModuleName, "state": rc.State.String(), "batch": rc.BatchCounter, "batch_state": rc.BatchState.String(), "timeout": rc.Timeout,
		"repeated": rc.Repeated, "freq": rc.RepeatedFrequency, "total": rc.RepeatedTotal, "providers": len(rc.Providers), "threshold": rc.ResponseThreshold}
}

func (d *svDirector) c08Callbacks(br *rig.BlockRecord, pre, post *svSnap) {
	run := d.run
	H := br.Height
	failed := map[string]bool{}
	for _, tx := range br.Txs {
		if !tx.OK() {
			failed[svTxHash(tx.Bytes)] = true
		}
	}
	for ; d.cbSeen < len(d.w.cb); d.cbSeen++ {
		rec := d.w.cb[d.cbSeen]
		if rec.TxHash != "" && failed[rec.TxHash] {
			continue // fired inside a tx whose branch was dropped
		}
		if rec.State {
			run.Count("state-callback", 1)
			continue
		}
		k := fmt.Sprintf("%s/%d", rec.Ctx, rec.Batch)
		d.cbCount[k]++
		run.Eval(1)
		if d.cbCount[k] > 1 {
			run.Violation("C08:service:callback-fired-more-than-once-per-batch", map[string]any{"height": H, "context": rec.Ctx, "batch": rec.Batch, "first": d.cbRec[k], "again": rec},
				"response callback for context %s batch %d fired %d times (again at height %d)", rec.Ctx, rec.Batch, d.cbCount[k], rec.Height)
			continue
		}
		d.cbRec[k] = rec
	}
	// batches of harness-module contexts that end with this block
	for _, id := range sortedKeys(pre.Ctxs) {
		pc := pre.Ctxs[id]
		if pc.ModuleName != d.w.cfg.ModName || pc.BatchCounter == 0 {
			continue
		}
		if eh, ok := pre.ExpMark[id]; !ok || eh != H {
			continue
		}
		k := fmt.Sprintf("%s/%d", id, pc.BatchCounter)
		var outs []string
		for _, rid := range sortedKeys(d.reqs) {
			mr := d.reqs[rid]
			if mr.Ctx == id && mr.Batch == pc.BatchCounter && mr.State == "answered" && mr.Output != "" {
				outs = append(outs, mr.Output)
			}
		}
		met := len(outs) >= int(pc.BatchResponseThreshold)
		detail := map[string]any{"height": H, "context": id, "batch": pc.BatchCounter, "threshold": pc.BatchResponseThreshold, "outputs_of_answers": outs, "callback": d.cbRec[k], "count": d.cbCount[k]}
		run.Eval(2)
		if d.cbCount[k] != 1 {
			run.Violation("C08:service:callback-count-per-batch", detail, "context %s batch %d ended at height %d with %d callback invocations", id, pc.BatchCounter, H, d.cbCount[k])
			continue
		}
		rec := d.cbRec[k]
		if met {
			run.Count("callback-threshold-met", 1)
			got := append([]string{}, rec.Outputs...)
			sort.Strings(got)
			want := append([]string{}, outs...)
			sort.Strings(want)
			if rec.Err != "" || strings.Join(got, "\x00") != strings.Join(want, "\x00") {
				run.Violation("C08:service:callback-outputs-when-threshold-met", detail, "context %s batch %d met its threshold %d with %d outputs but the callback got err=%q outputs=%v", id, pc.BatchCounter, pc.BatchResponseThreshold, len(outs), rec.Err, rec.Outputs)
			}
		} else {
			run.Count("callback-threshold-unmet", 1)
			if rec.Err == "" {
				run.Violation("C08:service:callback-success-below-threshold", detail, "context %s batch %d had %d outputs, below its threshold %d, but the callback was invoked without error", id, pc.BatchCounter, len(outs), pc.BatchResponseThreshold)
			}
		}
		run.Class("callback", fmt.Sprint("met=", met), fmt.Sprint("outputs=", len(outs)), fmt.Sprint("threshold=", pc.BatchResponseThreshold), fmt.Sprint("requests=", pc.BatchRequestCount), fmt.Sprint("early=", rec.TxHash != ""))
		run.Sample(fmt.Sprint("callback:met=", met), detail)
	}
}

// ---- observe: one delivered block ----

func (d *svDirector) observe(br *rig.BlockRecord) {
	run := d.run
	if br.FinalErr != nil {
		run.Inconc("FinalizeBlock failed at height %d: %v", br.Height, br.FinalErr)
		return
	}
	if br.BeginPanic != nil || br.EndPanic != nil {
		run.Note("block processing panicked at height %d (judged by C13): %v %v", br.Height, br.BeginPanic, br.EndPanic)
	}
	snap := func(x any) *svSnap {
		s, _ := x.(*svSnap)
		return s
	}
	last := snap(br.PostBegin)
	if d.c07() {
		if pb, ab := snap(br.PreBegin), snap(br.PostBegin); pb != nil && ab != nil {
			run.Eval(1)
			if df := svBalEqual(pb.Bal, ab.Bal); len(df) > 0 {
				run.Violation("C07:service:balances-moved-in-begin-block", df, "balances moved in the begin block of height %d: %v", br.Height, df)
			}
			d.invariants(ab, "after begin block")
		}
	}
	continuity := func(prev, cur *svSnap, tx *rig.TxRecord) {
		if prev == nil || cur == nil {
			return
		}
		run.Eval(1)
		df := svBalEqual(prev.Bal, cur.Bal)
		if prev.Digest != cur.Digest || len(df) > 0 {
			det := map[string]any{"height": br.Height, "balances": df, "digest_before": prev.Digest, "digest_after": cur.Digest}
			run.Violation(d.mode+":service:state-moved-outside-a-successful-tx", det, "service store or balances changed between two observation points at height %d with no successful tx in between (a rejected tx left a trace): %v", br.Height, df)
		}
	}
	for _, tx := range br.Txs {
		tag, _ := tx.Tag.(*svTag)
		if tag == nil {
			tag = &svTag{Kind: "untagged"}
		}
		okc := "rejected"
		if tx.OK() {
			okc = "ok"
		}
		run.Count(tag.Kind+"-"+okc, 1)
		run.Op("h=%d #%d %s/%s%s %s ok=%v %s", br.Height, tx.Index, tag.Kind, tag.Op, tag.Hostile, msgBrief(tx.Msgs), tx.OK(), logBrief(tx))
		if tag.Kind == "withdraw" && os.Getenv("VERIF_DEBUG") != "" {
			fmt.Fprintf(os.Stderr, "DBG h=%d %s %s ok=%v %s\n", br.Height, tag.Hostile, msgBrief(tx.Msgs), tx.OK(), logBrief(tx))
		}
		pre := snap(tx.Pre)
		if pre == nil {
			continue
		}
		continuity(last, pre, tx)
		last = pre
		if !tx.OK() {
			if tag.Hostile != "" {
				run.Count("hostile-"+tag.Hostile+"-rejected", 1)
				run.Class("hostile-rejected", tag.Kind, tag.Op, tag.Hostile)
			}
			continue
		}
		post := snap(tx.Post)
		if post == nil {
			continue
		}
		last = post
		if tag.Hostile != "" {
			run.Count("hostile-"+tag.Hostile+"-accepted", 1)
		}
		// every MsgCallService of a successful transaction creates its own request context
		calls := 0
		for _, m := range tx.Msgs {
			if _, ok := m.(*svtypes.MsgCallService); ok {
				calls++
			}
		}
		if calls > 0 {
			fresh := 0
			for id := range post.Ctxs {
				if _, had := pre.Ctxs[id]; !had {
					fresh++
				}
			}
			run.Eval(1)
			if calls > 1 {
				run.Count("several-calls-in-one-tx", 1)
			}
			if fresh != calls {
				run.Violation(d.mode+":service:contexts-created-differs-from-calls", map[string]any{"height": br.Height, "msgs": msgBrief(tx.Msgs)}, "a successful transaction with %d MsgCallService created %d request contexts", calls, fresh)
			}
		}
		if d.c07() {
			d.c07Tx(br, tx, tag, pre, post)
			d.invariants(post, "after "+tag.Kind)
		} else {
			d.c08Tx(br, tx, tag, pre, post)
		}
	}
	pe, qe := snap(br.PreEnd), snap(br.PostEnd)
	continuity(last, pe, nil)
	if pe == nil || qe == nil {
		return
	}
	if d.c07() {
		d.c07EndBlock(br, pe, qe)
		d.invariants(qe, "after end block")
		d.otherFeePoolWhatIf()
	} else {
		d.c08EndBlock(br, pe, qe)
		// "consumer refunded" (and the provider's deposit slashed into the fee pool) at the expiration height is the C07
		// end-block balance sheet: the same relations judge the C08 chains (their keys keep the C07 prefix)
		d.c07EndBlock(br, pe, qe)
		issues := serviceQueueCheck(d.r, d.r.Ctx())
		run.Eval(1)
		run.Count("queue-check", 1)
		for _, is := range issues {
			tagEnd := strings.Index(is, ": ")
			run.Violation("C08:service:queue:"+is[:tagEnd], map[string]any{"height": br.Height, "all": issues}, "after block %d: %s", br.Height, is)
		}
	}
}
