package prop

import (
	"encoding/binary"
	"encoding/json"
	"fmt"
	"math/big"
	"math/rand"
	"sort"
	"strings"
	"time"

	errorsmod "cosmossdk.io/errors"
	sdkmath "cosmossdk.io/math"
	"github.com/cosmos/cosmos-sdk/codec"
	sdk "github.com/cosmos/cosmos-sdk/types"
	authtypes "github.com/cosmos/cosmos-sdk/x/auth/types"
	banktypes "github.com/cosmos/cosmos-sdk/x/bank/types"

	cstypes "mods.irisnet.org/modules/coinswap/types"
	farmtypes "mods.irisnet.org/modules/farm/types"

	"verif/internal/ev"
	"verif/internal/rig"
)

// C05 (principal accounted for and always withdrawable) and C06 (rewards conserved and pro rata).
//
// One generator (farmGen, also the reusable Workload), one reference model + monitor set (farmMon)
// that is fed every BlockRecord, two directors (random histories; scripted twin histories for C06).

func init() {
	Register(&Spec{
		ID: "C05", Level: "exploration",
		Rule:   "cases = chains driven by the farm director (coinswap LP tokens distributed to 8 farmers; farm pools in residue/mid/big/mixed magnitude regimes with 1..max reward denoms, future start, natural expiry, destroy, adjust, many ops per block, empty-block gaps, hostile intents) + one scripted late-small-stakers chain; after every tx and block the stake sums and the escrow identity are compared, after every block a what-if branch at height+1 lets (i) every farmer alone, (ii) all farmers in a PRNG order, (iii) all farmers in two partial steps unstake, and every history ends with a real full withdrawal; non-trivial = successful farm tx / executed what-if withdrawal whose relation was evaluated; distinct = distinct (op kind, pool phase, regime, magnitude of amount, number of reward denoms, outcome); since rounds 11-14: coin lists in reverse order, a two-denomination coincident pool (one budget exact, one with remainder), a top-up before start with a staying farmer, restart from the chain's own export in every fourth chain; since rounds 15-19: a creation wrong in two ways at once among the hostile intents; a prelude in which two farmers stake and top up in one block and the reward per share then becomes exactly 1; in mid-life the authority lowers the number of reward denominations to one for twelve blocks",
		Assume: []string{"nobody sends coins to the farm module account with a plain bank send (outside the property's quantifier; the e2e app config does not block that address)", "tx fees are zero", "amounts stay below 2^110 so that 256-bit Dec overflow is not reached", "the governance creation path is not exercised: the e2e app config registers no escrow_collector module account, so MsgCreatePoolWithCommunityPool always aborts"},
		Cases:  func(t string) int { return tierN(t, 16, 64) },
		Run:    func(run *ev.Run, c int) { runFarm(run, c, "C05") },
	})
	Register(&Spec{
		ID: "C06", Level: "exploration",
		Rule:   "cases = the C05 director with the reward monitors (exact big.Rat stake-weighted share per farmer and denom, budget identity, release per span, refund ledger, full balance sheet of reward denoms per tx and per begin/end block) + scripted twin histories that differ only in harvest frequency; non-trivial = successful farm tx or end-block refund whose relations were evaluated; distinct = distinct (op kind, pool phase, regime, denoms, magnitude, outcome); since rounds 11-14: as C05, plus rate-only multi-denomination adjustments listed in reverse order in the twin histories; since rounds 15-19: see C05",
		Assume: []string{"reward amounts are taken from message responses and cross-checked against balance deltas", "K in the rounding bound = number of successful stake/unstake/harvest messages of that farmer on that pool", "same as C05"},
		Cases:  func(t string) int { return tierN(t, 16, 64) },
		Run:    func(run *ev.Run, c int) { runFarm(run, c, "C06") },
	})
}

var (
	farmEscrowAddr    = authtypes.NewModuleAddress(farmtypes.ModuleName).String()
	farmCollectorAddr = authtypes.NewModuleAddress(farmtypes.RewardCollector).String()
	farmFeeCollAddr   = authtypes.NewModuleAddress(authtypes.FeeCollectorName).String()
)

// ---------------------------------------------------------------------------------------------
// snapshot

type farmSnap struct {
	H       int64
	Bal     map[string]sdk.Coins
	Supply  sdk.Coins
	Pools   map[string]farmtypes.FarmPool // rules filled in
	Farmers []farmtypes.FarmInfo
	Params  farmtypes.Params
	Queued  map[string]bool // pool ids having at least one raw queue entry
}

func farmSnapshot(r *rig.Rig, ctx sdk.Context) *farmSnap {
	s := &farmSnap{H: ctx.BlockHeight(), Bal: r.AllBalances(ctx), Supply: r.Supplies(ctx), Pools: map[string]farmtypes.FarmPool{}, Queued: map[string]bool{}}
	k := r.K.Farm
	k.IteratorAllPools(ctx, func(p farmtypes.FarmPool) {
		p.Rules = k.GetRewardRules(ctx, p.Id)
		s.Pools[p.Id] = p
	})
	k.IteratorAllFarmInfo(ctx, func(f farmtypes.FarmInfo) { s.Farmers = append(s.Farmers, f) })
	s.Params = k.GetParams(ctx)
	r.WalkStore(ctx, farmtypes.StoreKey, farmtypes.ActiveFarmPoolKey, func(key, _ []byte) bool {
		if len(key) > 9 {
			s.Queued[string(key[9:])] = true
		}
		return false
	})
	return s
}

func (s *farmSnap) poolIDs() []string {
	out := make([]string, 0, len(s.Pools))
	for id := range s.Pools {
		out = append(out, id)
	}
	sort.Slice(out, func(i, j int) bool { return farmSeq(out[i]) < farmSeq(out[j]) })
	return out
}

func farmSeq(id string) uint64 { n, _ := farmtypes.ValidatepPoolId(id); return n }

func (s *farmSnap) locked(pool, addr string) *big.Int {
	for _, f := range s.Farmers {
		if f.PoolId == pool && f.Address == addr {
			return bi(f.Locked)
		}
	}
	return new(big.Int)
}

// expired mirrors the chain's notion for a tx executing at height h on state s.
func (s *farmSnap) expiredAt(p farmtypes.FarmPool, h int64) bool {
	return h > p.EndHeight || (h == p.EndHeight && !s.Queued[p.Id])
}

// ---------------------------------------------------------------------------------------------
// raw queue walk (reused by C13)

// farmQueueCheck walks the raw active-pool/expiry queue (prefix 0x04: height(8, big endian) | pool id)
// of the farm store on ctx, which must show state after EndBlock of ctx.BlockHeight() (committed state
// or a PostEnd observation). It returns one line per inconsistency:
//   - an entry whose pool does not exist, or whose value names another pool than its key,
//   - an entry at a height other than the pool's end height,
//   - an entry at a height <= the current height (it was due and must have been consumed),
//   - a pool that has ended (end height <= current height) and is still queued,
//   - a pool that has not ended and does not have exactly one entry.
func farmQueueCheck(r *rig.Rig, ctx sdk.Context) []string {
	h := ctx.BlockHeight()
	var out []string
	entries := map[string][]uint64{}
	r.WalkStore(ctx, farmtypes.StoreKey, farmtypes.ActiveFarmPoolKey, func(k, v []byte) bool {
		if len(k) < 10 {
			out = append(out, fmt.Sprintf("malformed queue key %x", k))
			return false
		}
		raw := binary.BigEndian.Uint64(k[1:9])
		id := string(k[9:])
		val := ""
		func() {
			defer func() {
				if rec := recover(); rec != nil {
					val = fmt.Sprintf("<undecodable %x>", v)
				}
			}()
			val = farmtypes.MustUnMarshalPoolId(r.Cdc, v)
		}()
		if val != id {
			out = append(out, fmt.Sprintf("queue entry (height %d, %s) carries value %q", raw, id, val))
		}
		entries[id] = append(entries[id], raw)
		return false
	})
	pools := map[string]farmtypes.FarmPool{}
	r.K.Farm.IteratorAllPools(ctx, func(p farmtypes.FarmPool) { pools[p.Id] = p })
	ids := make([]string, 0, len(entries))
	for id := range entries {
		ids = append(ids, id)
	}
	sort.Strings(ids)
	for _, id := range ids {
		p, ok := pools[id]
		for _, raw := range entries[id] {
			switch {
			case !ok:
				out = append(out, fmt.Sprintf("queue entry (height %d, %s) without a pool", raw, id))
			case raw != uint64(p.EndHeight):
				out = append(out, fmt.Sprintf("queue entry of %s at height %d but the pool ends at %d", id, raw, p.EndHeight))
			}
			if raw <= uint64(h) {
				out = append(out, fmt.Sprintf("queue entry (height %d, %s) is due at or before the current height %d and was not consumed", raw, id, h))
			}
		}
	}
	pids := make([]string, 0, len(pools))
	for id := range pools {
		pids = append(pids, id)
	}
	sort.Strings(pids)
	for _, id := range pids {
		p := pools[id]
		n := len(entries[id])
		if p.EndHeight <= h {
			if n > 0 {
				out = append(out, fmt.Sprintf("pool %s ended at %d (current height %d) and still has %d queue entries", id, p.EndHeight, h, n))
			}
		} else if n != 1 {
			out = append(out, fmt.Sprintf("active pool %s (ends at %d, current height %d) has %d queue entries, want exactly 1", id, p.EndHeight, h, n))
		}
	}
	return out
}

// ---------------------------------------------------------------------------------------------
// reference model (built from the messages that succeeded and the statement, in exact arithmetic)

type fmRule struct {
	Denom    string
	Funded   *big.Int // creation budget + top-ups
	Rpb      *big.Int
	Released *big.Int // Σ rpb × span over spans with stake
	Refunded *big.Int
}

func (u *fmRule) remaining() *big.Int {
	v := new(big.Int).Sub(u.Funded, u.Released)
	return v.Sub(v, u.Refunded)
}

type fmFarmer struct {
	Stake *big.Int
	K     int                 // successful stake/unstake/harvest messages on this pool
	Paid  map[string]*big.Int // cumulative payout per denom (from responses)
	Exact map[string]*big.Rat // exact stake-weighted share of what was released
	Trunc map[string]*big.Rat // Σ over accumulator updates of stake·10⁻¹⁸
}

type fmPool struct {
	ID, Creator, Lpt, Regime string
	Start                    int64
	Editable                 bool
	Last                     int64 // height of the last touch (release point)
	Total                    *big.Int
	Rules                    []*fmRule
	F                        map[string]*fmFarmer
	Ended                    bool
	EndedHow                 string // expired | destroyed
	Refunds                  int
	Desync                   bool // a mismatch was reported; model values were re-read from the chain
}

func (p *fmPool) rule(d string) *fmRule {
	for _, u := range p.Rules {
		if u.Denom == d {
			return u
		}
	}
	return nil
}

func (p *fmPool) farmer(a string) *fmFarmer {
	f := p.F[a]
	if f == nil {
		f = &fmFarmer{Stake: new(big.Int), Paid: map[string]*big.Int{}, Exact: map[string]*big.Rat{}, Trunc: map[string]*big.Rat{}}
		for _, u := range p.Rules {
			f.Paid[u.Denom] = new(big.Int)
			f.Exact[u.Denom] = new(big.Rat)
			f.Trunc[u.Denom] = new(big.Rat)
		}
		p.F[a] = f
	}
	return f
}

func (p *fmPool) farmerAddrs() []string {
	out := make([]string, 0, len(p.F))
	for a := range p.F {
		out = append(out, a)
	}
	sort.Strings(out)
	return out
}

// touch releases rewards for the span (Last, h]: per-block × span per rule, only while somebody is
// staked; every farmer's exact share grows by release·stake/total. Returns the released amounts.
func (p *fmPool) touch(h int64) (rel map[string]*big.Int, zeroSpan bool) {
	rel = map[string]*big.Int{}
	if p.Ended || h <= p.Last {
		return rel, false
	}
	span := big.NewInt(h - p.Last)
	if p.Total.Sign() > 0 {
		for _, u := range p.Rules {
			amt := new(big.Int).Mul(u.Rpb, span)
			u.Released.Add(u.Released, amt)
			rel[u.Denom] = amt
			for _, f := range p.F {
				if f.Stake.Sign() > 0 {
					share := new(big.Rat).SetFrac(new(big.Int).Mul(amt, f.Stake), p.Total)
					f.Exact[u.Denom].Add(f.Exact[u.Denom], share)
					f.Trunc[u.Denom].Add(f.Trunc[u.Denom], new(big.Rat).SetFrac(f.Stake, e18))
				}
			}
		}
	} else if from := maxI64(p.Last, p.Start); h > from {
		zeroSpan = true // the pool was running over (from, h] with nobody staked: nothing is released
	}
	p.Last = h
	return rel, zeroSpan
}

// ---------------------------------------------------------------------------------------------
// monitors

type farmTag struct {
	Kind    string // create|stake|unstake|harvest|adjust|destroy|params|send|addliq|epilogue|gov
	Hostile string // "" or the reason the director expects a rejection
	Note    string
}

type farmMon struct {
	run     *ev.Run
	r       *rig.Rig
	mode    string // C05 | C06: which property's relations are reported
	pools   map[string]*fmPool
	prevEnd *farmSnap
	users   map[string]bool
	probes  bool
	// per block statistics for scenario classes
	opsOnPool map[string]int
}

func newFarmMon(run *ev.Run, r *rig.Rig, mode string) *farmMon {
	m := &farmMon{run: run, r: r, mode: mode, pools: map[string]*fmPool{}, users: map[string]bool{}, probes: mode == "C05"}
	for _, a := range r.Accounts {
		m.users[a.Addr.String()] = true
	}
	r.Snapshot = func(ctx sdk.Context) any { return farmSnapshot(r, ctx) }
	return m
}

func (m *farmMon) viol(prop, key string, detail any, f string, a ...any) {
	if prop == m.mode {
		m.run.Violation(prop+":farm:"+key, detail, f, a...)
	}
}

func (m *farmMon) eval(prop string, n int) {
	if prop == m.mode {
		m.run.Eval(n)
	}
}

func (m *farmMon) class(prop string, parts ...any) {
	if prop == m.mode {
		m.run.Class(parts...)
	}
}

func isLpt(denom string) bool { return strings.HasPrefix(denom, "lpt-") }

func (m *farmMon) relevant(addr string) bool {
	return addr == farmEscrowAddr || addr == farmCollectorAddr || m.users[addr]
}

func (m *farmMon) role(addr string, signer string) string {
	switch {
	case addr == farmEscrowAddr:
		return "escrow"
	case addr == farmCollectorAddr:
		return "reward-collector"
	case addr == farmFeeCollAddr:
		return "fee-collector"
	case addr == signer:
		return "signer"
	case m.users[addr]:
		return "other-user"
	}
	return "third-party"
}

// splitDiff separates the differing (addr, denom) lines into staked-token lines (C05) and others (C06).
func splitDiff(lines []string) (lpt, other []string) {
	for _, l := range lines {
		var a, d string
		fmt.Sscanf(l, "%s %s", &a, &d)
		d = strings.TrimSuffix(d, ":")
		if isLpt(d) {
			lpt = append(lpt, l)
		} else {
			other = append(other, l)
		}
	}
	return
}

func firstAddr(line string) string {
	var a string
	fmt.Sscanf(line, "%s", &a)
	return a
}

// unchanged: between two consecutive observation points nothing may move farm-related funds.
func (m *farmMon) unchanged(a, b *farmSnap, where string) {
	if a == nil || b == nil {
		return
	}
	act := balDelta(a.Bal, b.Bal)
	for addr := range act {
		if !m.relevant(addr) {
			delete(act, addr)
		}
	}
	m.eval("C05", 1)
	m.eval("C06", 1)
	if len(act) == 0 {
		return
	}
	lpt, other := splitDiff(diffLedger(map[string]map[string]*big.Int{}, act))
	if len(lpt) > 0 {
		m.viol("C05", "staked-token-moved-outside-successful-tx:"+where, lpt, "staked tokens moved %s at height %d: %v", where, b.H, lpt)
	}
	if len(other) > 0 {
		m.viol("C06", "funds-moved-outside-successful-tx:"+where, other, "balances of farm accounts / users moved %s at height %d: %v", where, b.H, other)
	}
}

// farmResyncSeq re-reads the account sequences from the chain: a tx refused by the ante handler does
// not consume its sequence number, and the director must not cascade such a refusal.
func farmResyncSeq(r *rig.Rig) {
	ctx := r.Ctx()
	for _, a := range r.Accounts {
		if seq, err := r.App.AccountKeeper.GetSequence(ctx, a.Addr); err == nil {
			a.Seq = seq
		}
	}
}

func (m *farmMon) observe(br *rig.BlockRecord) {
	run := m.run
	farmResyncSeq(m.r)
	if br.FinalErr != nil {
		run.Inconc("FinalizeBlock failed at height %d: %v", br.Height, br.FinalErr)
		return
	}
	if br.BeginPanic != nil || br.EndPanic != nil {
		run.Count("block-processing-panic", 1) // judged by C13
	}
	snap := func(x any) *farmSnap { s, _ := x.(*farmSnap); return s }
	preBegin, postBegin, preEnd, postEnd := snap(br.PreBegin), snap(br.PostBegin), snap(br.PreEnd), snap(br.PostEnd)
	m.unchanged(m.prevEnd, preBegin, "between-blocks")
	m.unchanged(preBegin, postBegin, "begin-block")
	prev := postBegin
	m.opsOnPool = map[string]int{}
	for _, tx := range br.Txs {
		tag, _ := tx.Tag.(*farmTag)
		if tag == nil {
			tag = &farmTag{Kind: "untagged"}
		}
		pre := snap(tx.Pre)
		if pre != nil {
			m.unchanged(prev, pre, "between-txs")
			prev = pre
		}
		okc := "rejected"
		if tx.OK() {
			okc = "ok"
		}
		run.Count(tag.Kind+"-"+okc, 1)
		if tag.Hostile != "" {
			run.Count("hostile-"+tag.Hostile+"-"+okc, 1)
		}
		run.Op("h=%d #%d %s%s %s ok=%v %s", br.Height, tx.Index, tag.Kind, ifStr(tag.Hostile != "", "/"+tag.Hostile), farmMsgBrief(tx.Msgs), tx.OK(), logBrief(tx))
		if pre == nil && tag.Hostile == "" && tx.Result != nil {
			run.Count("unexpected-ante-failure", 1)
			run.Note("unexpected ante failure at h=%d #%d %s %s: %s", br.Height, tx.Index, tag.Kind, farmMsgBrief(tx.Msgs), logBrief(tx))
		}
		post := snap(tx.Post)
		if tx.OK() && pre != nil && post != nil {
			m.applyTx(br, tx, tag, pre, post)
			prev = post
		} else if !tx.OK() && pre != nil {
			m.failedTx(br, tx, tag, pre)
		}
	}
	for id, n := range m.opsOnPool {
		if n >= 3 {
			run.Count("multi-op-block", 1)
			if p := m.pools[id]; p != nil && preEnd != nil {
				if cp, ok := preEnd.Pools[id]; ok && cp.EndHeight == br.Height {
					run.Count("multi-op-ending-block", 1)
				}
			}
		}
	}
	m.unchanged(prev, preEnd, "before-end-block")
	if preEnd != nil && postEnd != nil {
		m.endBlock(br, preEnd, postEnd)
		m.afterBlock(br, postEnd)
	}
	m.prevEnd = postEnd
}

func ifStr(c bool, s string) string {
	if c {
		return s
	}
	return ""
}

func farmMsgBrief(msgs []sdk.Msg) string {
	var parts []string
	for _, mm := range msgs {
		switch x := mm.(type) {
		case *farmtypes.MsgStake:
			parts = append(parts, fmt.Sprintf("Stake{%s %s %s}", x.PoolId, x.Amount, shortAddr(x.Sender)))
		case *farmtypes.MsgUnstake:
			parts = append(parts, fmt.Sprintf("Unstake{%s %s %s}", x.PoolId, x.Amount, shortAddr(x.Sender)))
		case *farmtypes.MsgHarvest:
			parts = append(parts, fmt.Sprintf("Harvest{%s %s}", x.PoolId, shortAddr(x.Sender)))
		case *farmtypes.MsgCreatePool:
			parts = append(parts, fmt.Sprintf("Create{%s lpt=%s start=%d perBlock=%s total=%s editable=%v %s}", x.Description, x.LptDenom, x.StartHeight, x.RewardPerBlock, x.TotalReward, x.Editable, shortAddr(x.Creator)))
		case *farmtypes.MsgAdjustPool:
			parts = append(parts, fmt.Sprintf("Adjust{%s add=%s perBlock=%s %s}", x.PoolId, x.AdditionalReward, x.RewardPerBlock, shortAddr(x.Creator)))
		case *farmtypes.MsgDestroyPool:
			parts = append(parts, fmt.Sprintf("Destroy{%s %s}", x.PoolId, shortAddr(x.Creator)))
		default:
			s := sdk.MsgTypeURL(mm)
			parts = append(parts, s[strings.LastIndex(s, ".")+1:])
		}
	}
	return strings.Join(parts, ",")
}

func shortAddr(a string) string {
	if len(a) > 12 {
		return a[len(a)-6:]
	}
	return a
}

func farmRespReward(r *rig.Rig, tx *rig.TxRecord) (sdk.Coins, bool) {
	if len(tx.Responses) != 1 {
		return nil, false
	}
	v := tx.Responses[0]
	switch v.TypeUrl {
	case "/irismod.farm.MsgStakeResponse":
		var resp farmtypes.MsgStakeResponse
		if r.Cdc.Unmarshal(v.Value, &resp) == nil {
			return resp.Reward, true
		}
	case "/irismod.farm.MsgUnstakeResponse":
		var resp farmtypes.MsgUnstakeResponse
		if r.Cdc.Unmarshal(v.Value, &resp) == nil {
			return resp.Reward, true
		}
	case "/irismod.farm.MsgHarvestResponse":
		var resp farmtypes.MsgHarvestResponse
		if r.Cdc.Unmarshal(v.Value, &resp) == nil {
			return resp.Reward, true
		}
	}
	return nil, false
}

func (m *farmMon) phase(p *fmPool, h int64) string {
	switch {
	case p == nil:
		return "unknown"
	case p.Ended:
		return p.EndedHow
	case h < p.Start:
		return "not-started"
	}
	return "active"
}

// applyTx advances the model by one successful tx and checks the tx-level relations.
func (m *farmMon) applyTx(br *rig.BlockRecord, tx *rig.TxRecord, tag *farmTag, pre, post *farmSnap) {
	h := br.Height
	act := balDelta(pre.Bal, post.Bal)
	supAct := coinsDelta(pre.Supply, post.Supply)
	exp := ledger{}
	supExp := map[string]*big.Int{}
	signer := tx.Signer.String()
	detail := map[string]any{"height": h, "msgs": farmMsgBrief(tx.Msgs)}
	kind := "unrelated"
	var touched *fmPool
	release := func(p *fmPool) {
		rel, zero := p.touch(h)
		for d, v := range rel {
			exp.sub(farmEscrowAddr, d, v)
			exp.add(farmCollectorAddr, d, v)
		}
		if len(rel) > 0 {
			m.run.Count("release-span", 1)
		}
		if zero {
			m.run.Count("release-zero-stake-span", 1)
		}
	}
	payout := func(p *fmPool, f *fmFarmer, who string) sdk.Coins {
		rw, ok := farmRespReward(m.r, tx)
		if !ok {
			m.viol("C06", "response-missing", detail, "successful %s carries no decodable response", kind)
		}
		for _, c := range rw {
			exp.sub(farmCollectorAddr, c.Denom, bi(c.Amount))
			exp.add(who, c.Denom, bi(c.Amount))
			if f.Paid[c.Denom] == nil {
				f.Paid[c.Denom] = new(big.Int)
			}
			f.Paid[c.Denom].Add(f.Paid[c.Denom], bi(c.Amount))
		}
		return rw
	}
	farmMsgs := 0
	for _, mm := range tx.Msgs {
		if strings.HasPrefix(sdk.MsgTypeURL(mm), "/irismod.farm.") {
			farmMsgs++
		}
	}
	if farmMsgs > 0 && len(tx.Msgs) == 1 {
		switch x := tx.Msgs[0].(type) {
		case *farmtypes.MsgCreatePool:
			kind = "create"
			var id string
			for pid := range post.Pools {
				if _, ok := pre.Pools[pid]; !ok {
					id = pid
				}
			}
			m.eval("C06", 1)
			if id == "" {
				m.viol("C06", "create:no-pool-recorded", detail, "successful MsgCreatePool left no new pool record")
				break
			}
			p := &fmPool{ID: id, Creator: x.Creator, Lpt: x.LptDenom, Regime: x.Description, Start: x.StartHeight, Editable: x.Editable, Total: new(big.Int), F: map[string]*fmFarmer{}}
			tot := x.TotalReward.Sort()
			for _, c := range tot {
				p.Rules = append(p.Rules, &fmRule{Denom: c.Denom, Funded: bi(c.Amount), Rpb: bi(x.RewardPerBlock.AmountOf(c.Denom)), Released: new(big.Int), Refunded: new(big.Int)})
				exp.sub(x.Creator, c.Denom, bi(c.Amount))
				exp.add(farmEscrowAddr, c.Denom, bi(c.Amount))
			}
			fee := pre.Params.PoolCreationFee
			if fee.Amount.IsPositive() {
				tax := new(big.Int).Mul(bi(fee.Amount), pre.Params.TaxRate.BigInt())
				tax.Quo(tax, e18)
				exp.sub(x.Creator, fee.Denom, bi(fee.Amount))
				exp.add(farmFeeCollAddr, fee.Denom, tax)
				supExp[fee.Denom] = new(big.Int).Sub(tax, bi(fee.Amount))
			}
			m.pools[id] = p
			touched = p
			m.run.Count("pool-created", 1)
			if len(p.Rules) > 1 {
				m.run.Count("multi-denom-pool", 1)
			}
			if p.Start > h {
				m.run.Count("pool-future-start", 1)
			}
			m.class("C05", "create", p.Regime, len(p.Rules), fmt.Sprint("future=", p.Start > h), fmt.Sprint("editable=", p.Editable))
			m.class("C06", "create", p.Regime, len(p.Rules), fmt.Sprint("future=", p.Start > h), "rpb="+magClass(p.Rules[0].Rpb))
		case *farmtypes.MsgStake:
			kind = "stake"
			p := m.pools[x.PoolId]
			if p == nil {
				break
			}
			touched = p
			ph := m.phase(p, h)
			release(p)
			f := p.farmer(x.Sender)
			payout(p, f, x.Sender)
			amt := bi(x.Amount.Amount)
			exp.sub(x.Sender, x.Amount.Denom, amt)
			exp.add(farmEscrowAddr, x.Amount.Denom, amt)
			first := f.Stake.Sign() == 0
			f.Stake.Add(f.Stake, amt)
			p.Total.Add(p.Total, amt)
			f.K++
			if ph != "active" {
				m.run.Count("stake-accepted-outside-lifetime", 1)
				m.run.Note("stake accepted in phase %s at height %d on %s", ph, h, p.ID)
			}
			if ph == "not-started" {
				// rewards are budgeted for the blocks from the start height on: a stake that is in before them is owed
				// a span the budget does not cover, and the last withdrawals fail
				m.viol("C05", "stake-accepted-before-the-start-height", detail, "stake into %s accepted at height %d, the pool starts at %d", p.ID, h, p.Start)
			}
			if ph == "destroyed" {
				m.viol("C06", "operation-accepted-on-destroyed-pool:stake", detail, "stake into %s accepted at height %d although the pool had been destroyed", p.ID, h)
			}
			if x.PoolId != "" && post.Pools[x.PoolId].EndHeight == h {
				m.run.Count("op-in-ending-block", 1)
			}
			m.class("C05", "stake", ph, p.Regime, "amt="+magClass(amt), fmt.Sprint("first=", first), len(p.Rules))
			m.class("C06", "stake", ph, p.Regime, "amt="+magClass(amt), fmt.Sprint("first=", first), len(p.Rules))
			m.checkBound(p, x.Sender, f, "stake", detail)
		case *farmtypes.MsgUnstake:
			kind = "unstake"
			p := m.pools[x.PoolId]
			if p == nil {
				break
			}
			touched = p
			ph := m.phase(p, h)
			release(p)
			f := p.farmer(x.Sender)
			payout(p, f, x.Sender)
			amt := bi(x.Amount.Amount)
			exp.add(x.Sender, x.Amount.Denom, amt)
			exp.sub(farmEscrowAddr, x.Amount.Denom, amt)
			full := amt.Cmp(f.Stake) == 0
			f.Stake.Sub(f.Stake, amt)
			p.Total.Sub(p.Total, amt)
			f.K++
			m.run.Count("unstake-"+ph+"-ok", 1)
			if !full {
				m.run.Count("unstake-partial-ok", 1)
			}
			if tag.Kind == "epilogue" {
				m.run.Count("epilogue-unstake-"+ph+"-ok", 1)
			}
			if post.Pools[x.PoolId].EndHeight == h && ph == "active" {
				m.run.Count("op-in-ending-block", 1)
			}
			m.class("C05", "unstake", ph, p.Regime, "amt="+magClass(amt), fmt.Sprint("full=", full), len(p.Rules), tag.Kind == "epilogue")
			m.class("C06", "unstake", ph, p.Regime, "amt="+magClass(amt), fmt.Sprint("full=", full), len(p.Rules))
			m.checkBound(p, x.Sender, f, "unstake", detail)
		case *farmtypes.MsgHarvest:
			kind = "harvest"
			p := m.pools[x.PoolId]
			if p == nil {
				break
			}
			touched = p
			ph := m.phase(p, h)
			release(p)
			f := p.farmer(x.Sender)
			rw := payout(p, f, x.Sender)
			f.K++
			if post.Pools[x.PoolId].EndHeight == h {
				m.run.Count("op-in-ending-block", 1)
			}
			m.class("C06", "harvest", ph, p.Regime, fmt.Sprint("paid=", !rw.IsZero()), len(p.Rules))
			m.class("C05", "harvest", ph, p.Regime, len(p.Rules))
			m.checkBound(p, x.Sender, f, "harvest", detail)
		case *farmtypes.MsgAdjustPool:
			kind = "adjust"
			p := m.pools[x.PoolId]
			if p == nil {
				break
			}
			touched = p
			ph := m.phase(p, h)
			endBefore := pre.Pools[x.PoolId].EndHeight
			if ph == "destroyed" {
				m.viol("C06", "operation-accepted-on-destroyed-pool:adjust", detail, "adjustment of %s accepted at height %d although the pool had been destroyed", p.ID, h)
			}
			release(p)
			for _, c := range x.AdditionalReward {
				exp.sub(x.Creator, c.Denom, bi(c.Amount))
				exp.add(farmEscrowAddr, c.Denom, bi(c.Amount))
				if u := p.rule(c.Denom); u != nil {
					u.Funded.Add(u.Funded, bi(c.Amount))
				}
			}
			for _, c := range x.RewardPerBlock {
				if u := p.rule(c.Denom); u != nil && c.Amount.IsPositive() {
					u.Rpb = bi(c.Amount)
				}
			}
			if len(x.AdditionalReward) > 0 {
				m.run.Count("adjust-topup-ok", 1)
			}
			if len(x.RewardPerBlock) > 0 {
				m.run.Count("adjust-rpb-ok", 1)
			}
			endAfter := post.Pools[x.PoolId].EndHeight
			if endBefore == h {
				m.run.Count("adjust-in-ending-block-ok", 1)
				m.run.Count("op-in-ending-block", 1)
			}
			move := "same"
			if endAfter > endBefore {
				move = "later"
			} else if endAfter < endBefore {
				move = "earlier"
			}
			m.class("C05", "adjust", ph, p.Regime, "end="+move, len(p.Rules))
			m.class("C06", "adjust", ph, p.Regime, "end="+move, fmt.Sprint("topup=", len(x.AdditionalReward)), fmt.Sprint("rpb=", len(x.RewardPerBlock)), len(p.Rules), fmt.Sprint("ending-block=", endBefore == h))
		case *farmtypes.MsgDestroyPool:
			kind = "destroy"
			p := m.pools[x.PoolId]
			if p == nil {
				break
			}
			touched = p
			ph := m.phase(p, h)
			release(p)
			for _, u := range p.Rules {
				rem := u.remaining()
				exp.sub(farmEscrowAddr, u.Denom, rem)
				exp.add(p.Creator, u.Denom, rem)
				u.Refunded.Add(u.Refunded, rem)
			}
			p.Refunds++
			m.eval("C06", 1)
			if p.Ended {
				m.viol("C06", "refund-more-than-once:destroy", detail, "pool %s was destroyed at height %d although it had already ended (%s)", p.ID, h, p.EndedHow)
			}
			p.Ended, p.EndedHow = true, "destroyed"
			if post.Queued[p.ID] {
				m.viol("C06", "destroyed-pool-still-in-the-expiry-queue", detail, "pool %s was destroyed at height %d and still has an expiry-queue entry right after the transaction", p.ID, h)
			}
			if pre.Pools[x.PoolId].EndHeight == h {
				m.run.Count("pool-destroyed-in-its-ending-block", 1)
			}
			m.run.Count("pool-destroyed", 1)
			m.run.Count("refund-destroy", 1)
			if p.Total.Sign() > 0 {
				m.run.Count("pool-destroyed-with-stakers", 1)
			}
			m.class("C05", "destroy", ph, p.Regime, fmt.Sprint("staked=", p.Total.Sign() > 0))
			m.class("C06", "destroy", ph, p.Regime, fmt.Sprint("staked=", p.Total.Sign() > 0), len(p.Rules))
		case *farmtypes.MsgUpdateParams, *farmtypes.MsgCreatePoolWithCommunityPool:
			kind = "other-farm"
		}
	}
	if touched != nil {
		m.opsOnPool[touched.ID]++
	}
	if kind == "unrelated" || kind == "other-farm" {
		// whatever else happens on the chain must leave the two farm accounts alone
		m.eval("C05", 1)
		var lines []string
		for _, a := range []string{farmEscrowAddr, farmCollectorAddr} {
			for d, v := range act[a] {
				lines = append(lines, fmt.Sprintf("%s %s: expected 0 got %s", a, d, v))
			}
		}
		if len(lines) > 0 {
			sort.Strings(lines)
			lpt, other := splitDiff(lines)
			if len(lpt) > 0 {
				m.viol("C05", "escrow-moved-by-unrelated-tx", lines, "a non-farm tx moved staked tokens of the farm accounts at height %d: %v", h, lpt)
			}
			if len(other) > 0 {
				m.viol("C06", "escrow-moved-by-unrelated-tx", lines, "a non-farm tx moved reward funds of the farm accounts at height %d: %v", h, other)
			}
		}
	} else {
		df := diffLedger(exp, act)
		lpt, other := splitDiff(df)
		m.eval("C05", 1)
		m.eval("C06", 2)
		if len(lpt) > 0 {
			detail["diff"] = lpt
			m.viol("C05", kind+":staked-token-settlement-differs:"+m.role(firstAddr(lpt[0]), signer), detail, "successful %s at height %d moved staked tokens other than requested: %v", kind, h, lpt)
		}
		if len(other) > 0 {
			detail["diff"] = other
			m.viol("C06", kind+":reward-settlement-differs:"+m.role(firstAddr(other[0]), signer), detail, "successful %s at height %d: balance changes differ from budget/release/payout/refund dictated by the history: %v", kind, h, other)
		}
		if sd := diffLedger(map[string]map[string]*big.Int{"supply": supExp}, map[string]map[string]*big.Int{"supply": supAct}); len(sd) > 0 {
			detail["supply_diff"] = sd
			m.viol("C06", kind+":supply-differs", detail, "successful %s at height %d changed total supplies other than by the burnt creation fee: %v", kind, h, sd)
		}
		m.run.Sample(m.mode+":"+kind, map[string]any{"height": h, "msg": farmMsgBrief(tx.Msgs), "delta": fmt.Sprint(act)})
	}
	m.checkState(post, "tx:"+kind, detail)
}

// checkBound: the farmer's cumulative payout P against the exact stake-weighted share E.
//
// Derivation of the tolerance from the statement ("up to rounding: below one base unit per interaction
// plus the 18-decimal truncation of the per-share accumulator"): every interaction of the farmer
// (stake, unstake, harvest) may round by less than one base unit in either direction, so K interactions
// contribute an error in (−K, +K). The per-share accumulator is kept with 18 decimals and truncated at
// each update, i.e. each update understates the per-share reward by less than 10⁻¹⁸; a farmer holding
// stake s over that update loses less than s·10⁻¹⁸. Truncation only ever lowers payouts. Hence
//
//	E − K − T  <  P  <  E + K,   T = Σ over accumulator updates u of stake_f(u)·10⁻¹⁸.
//
// P is only comparable with E right after an interaction of that farmer (in between, accrued rewards
// are still unpaid), which is where this is evaluated. E counts everything released up to this height.
func (m *farmMon) checkBound(p *fmPool, addr string, f *fmFarmer, kind string, detail map[string]any) {
	if p.Desync {
		return
	}
	for _, u := range p.Rules {
		P := new(big.Rat).SetInt(f.Paid[u.Denom])
		E := f.Exact[u.Denom]
		K := new(big.Rat).SetInt64(int64(f.K))
		lo := new(big.Rat).Sub(E, K)
		lo.Sub(lo, f.Trunc[u.Denom])
		hi := new(big.Rat).Add(E, K)
		m.eval("C06", 1)
		if kind == "unstake" {
			m.eval("C05", 1)
		}
		m.run.Count("payout-bound-checked", 1)
		if P.Cmp(lo) <= 0 || P.Cmp(hi) >= 0 {
			dir := "over"
			if P.Cmp(lo) <= 0 {
				dir = "under"
			}
			d := map[string]any{"pool": p.ID, "farmer": addr, "denom": u.Denom, "paid": f.Paid[u.Denom].String(), "exact": E.FloatString(6), "interactions": f.K, "trunc": f.Trunc[u.Denom].FloatString(20)}
			for k, v := range detail {
				d[k] = v
			}
			if kind == "unstake" {
				// C05: a withdrawal pays the principal "plus their accrued rewards"
				m.viol("C05", "unstake-pays-rewards-outside-rounding-bound:"+dir+"paid", d, "farmer %s withdrawing from %s: cumulative %s payout %s, exact accrued share %s, %d interactions", shortAddr(addr), p.ID, u.Denom, f.Paid[u.Denom], E.FloatString(6), f.K)
			}
			m.viol("C06", "cumulative-payout-outside-rounding-bound:"+dir+"paid:"+kind, d, "farmer %s on %s: cumulative %s payout %s, exact stake-weighted share %s, %d interactions, truncation allowance %s", shortAddr(addr), p.ID, u.Denom, f.Paid[u.Denom], E.FloatString(6), f.K, f.Trunc[u.Denom].FloatString(20))
		}
	}
}

var farmSpendable = func(log string) (amt *big.Int, denom string, ok bool) {
	const pfx = "spendable balance "
	i := strings.Index(log, pfx)
	if i < 0 {
		return nil, "", false
	}
	rest := log[i+len(pfx):]
	j := 0
	for j < len(rest) && rest[j] >= '0' && rest[j] <= '9' {
		j++
	}
	k := j
	for k < len(rest) && rest[k] != ' ' {
		k++
	}
	if j == 0 || k == j {
		return nil, "", false
	}
	v, good := new(big.Int).SetString(rest[:j], 10)
	return v, rest[j:k], good
}

// farmFailKind names the call site at which a withdrawal failed (stable part of the violation key).
// esc / col give the balances of the farm escrow and the reward collector before the attempt.
func farmFailKind(log string, panicked bool, esc, col sdk.Coins) string {
	switch {
	case panicked || strings.Contains(log, "panic"):
		return "panic"
	case strings.Contains(log, "the remaining reward of the pool"):
		return "remaining-budget-shortfall"
	case strings.Contains(log, "farmer locked lp token"):
		return "stake-or-total-check"
	case strings.Contains(log, "insufficient funds") || strings.Contains(log, "is smaller than"):
		if amt, denom, ok := farmSpendable(log); ok {
			if isLpt(denom) {
				return "escrow-shortfall"
			}
			if amt.Cmp(amountOf(esc, denom)) == 0 && amt.Cmp(amountOf(col, denom)) != 0 {
				return "escrow-reward-shortfall"
			}
			return "reward-collector-shortfall"
		}
		return "insufficient-funds"
	case strings.Contains(log, "invalid height"):
		return "invalid-height"
	}
	return "other"
}

func (m *farmMon) failedTx(br *rig.BlockRecord, tx *rig.TxRecord, tag *farmTag, pre *farmSnap) {
	if len(tx.Msgs) != 1 || tx.Result == nil {
		return
	}
	h := br.Height
	log := tx.Result.Log
	detail := map[string]any{"height": h, "msgs": farmMsgBrief(tx.Msgs), "log": logBrief(tx)}
	if x, ok := tx.Msgs[0].(*farmtypes.MsgUnstake); ok {
		cp, exists := pre.Pools[x.PoolId]
		locked := pre.locked(x.PoolId, x.Sender)
		amt := bi(x.Amount.Amount)
		// exactly the situation of the statement: the farmer has a recorded stake >= the amount asked for
		if exists && cp.TotalLptLocked.Denom == x.Amount.Denom && amt.Sign() > 0 && locked.Cmp(amt) >= 0 {
			m.eval("C05", 1)
			fk := farmFailKind(log, false, pre.Bal[farmEscrowAddr], pre.Bal[farmCollectorAddr])
			detail["locked"] = locked.String()
			detail["phase"] = m.phase(m.pools[x.PoolId], h)
			m.viol("C05", "unstake-fails:"+fk, detail, "unstake of %s (recorded stake %s) from %s by %s was rejected at height %d: %s", x.Amount, locked, x.PoolId, shortAddr(x.Sender), h, logBrief(tx))
			m.run.Count("unstake-within-stake-rejected", 1)
		}
	}
	if strings.Contains(log, "the remaining reward of the pool") {
		var pid string
		switch x := tx.Msgs[0].(type) {
		case *farmtypes.MsgStake:
			pid = x.PoolId
		case *farmtypes.MsgUnstake:
			pid = x.PoolId
		case *farmtypes.MsgHarvest:
			pid = x.PoolId
		case *farmtypes.MsgAdjustPool:
			pid = x.PoolId
		case *farmtypes.MsgDestroyPool:
			pid = x.PoolId
		}
		if p := m.pools[pid]; p != nil && !p.Ended {
			m.eval("C06", 1)
			m.viol("C06", "release-fails:remaining-budget-shortfall", detail, "pool %s has not ended at height %d but its remaining budget cannot cover per-block × span: %s", pid, h, logBrief(tx))
		}
	}
}

// endBlock: pools whose end height is this height release their last span and return what remains,
// exactly once, to the creator.
func (m *farmMon) endBlock(br *rig.BlockRecord, preEnd, postEnd *farmSnap) {
	h := br.Height
	exp := ledger{}
	var ending []string
	for _, id := range preEnd.poolIDs() {
		p := m.pools[id]
		if p == nil || p.Ended {
			continue
		}
		if preEnd.Pools[id].EndHeight != h {
			continue
		}
		ending = append(ending, id)
		rel, zero := p.touch(h)
		for d, v := range rel {
			exp.sub(farmEscrowAddr, d, v)
			exp.add(farmCollectorAddr, d, v)
		}
		if zero {
			m.run.Count("release-zero-stake-span", 1)
		}
		nonzero := false
		for _, u := range p.Rules {
			rem := u.remaining()
			if rem.Sign() > 0 {
				nonzero = true
			}
			exp.sub(farmEscrowAddr, u.Denom, rem)
			exp.add(p.Creator, u.Denom, rem)
			u.Refunded.Add(u.Refunded, rem)
		}
		p.Refunds++
		p.Ended, p.EndedHow = true, "expired"
		m.run.Count("pool-expired-naturally", 1)
		if nonzero {
			m.run.Count("refund-endblock", 1)
		}
		if p.Total.Sign() > 0 {
			m.run.Count("pool-expired-with-stakers", 1)
		}
		m.class("C06", "end-block", p.Regime, len(p.Rules), fmt.Sprint("refund=", nonzero), fmt.Sprint("staked=", p.Total.Sign() > 0))
		m.class("C05", "end-block", p.Regime, fmt.Sprint("staked=", p.Total.Sign() > 0))
	}
	act := balDelta(preEnd.Bal, postEnd.Bal)
	for a := range act {
		if !m.relevant(a) {
			delete(act, a)
		}
	}
	m.eval("C06", 1)
	m.eval("C05", 1)
	df := diffLedger(exp, act)
	lpt, other := splitDiff(df)
	detail := map[string]any{"height": h, "ending": ending}
	if len(lpt) > 0 {
		m.viol("C05", "end-block:staked-token-moved", lpt, "end block %d moved staked tokens: %v", h, lpt)
	}
	if len(other) > 0 {
		detail["diff"] = other
		m.viol("C06", "end-block:refund-or-release-differs:"+m.role(firstAddr(other[0]), ""), detail, "end block %d (pools ending: %v): balance changes differ from last release + refund of the remaining budget: %v", h, ending, other)
	}
	if len(ending) > 0 {
		m.run.Sample(m.mode+":end-block", map[string]any{"height": h, "ending": ending, "delta": fmt.Sprint(act)})
	}
	// a pool the chain regards as over whose budget the history says was never returned
	for _, id := range postEnd.poolIDs() {
		p := m.pools[id]
		if p == nil || p.Ended {
			continue
		}
		if cp := postEnd.Pools[id]; cp.EndHeight <= h {
			m.eval("C06", 1)
			m.viol("C06", "pool-over-without-refund", map[string]any{"pool": id, "end": cp.EndHeight, "height": h}, "pool %s is over (end height %d <= %d) but no refund of its remaining budget happened", id, cp.EndHeight, h)
			p.Ended, p.EndedHow, p.Desync = true, "expired", true
		}
	}
}

// checkState compares the chain's records with each other (C05 sums, escrow identity) and with the model.
func (m *farmMon) checkState(s *farmSnap, where string, detail map[string]any) {
	ids := s.poolIDs()
	sums := map[string]*big.Int{}
	for _, f := range s.Farmers {
		if sums[f.PoolId] == nil {
			sums[f.PoolId] = new(big.Int)
		}
		sums[f.PoolId].Add(sums[f.PoolId], bi(f.Locked))
	}
	want := sdk.NewCoins()
	for _, id := range ids {
		cp := s.Pools[id]
		sum := sums[id]
		if sum == nil {
			sum = new(big.Int)
		}
		m.eval("C05", 1)
		if sum.Cmp(bi(cp.TotalLptLocked.Amount)) != 0 {
			m.viol("C05", "stake-sum-differs-from-pool-total", map[string]any{"pool": id, "where": where, "ctx": detail}, "pool %s at height %d (%s): Σ farmer stakes %s != recorded total %s", id, s.H, where, sum, cp.TotalLptLocked.Amount)
		}
		want = want.Add(cp.TotalLptLocked)
		for _, ru := range cp.Rules {
			if ru.RemainingReward.IsPositive() {
				want = want.Add(sdk.NewCoin(ru.Reward, ru.RemainingReward))
			}
		}
	}
	for id := range sums {
		if _, ok := s.Pools[id]; !ok {
			m.viol("C05", "farmer-record-without-pool", map[string]any{"pool": id}, "farmer records exist for unknown pool %s", id)
		}
	}
	m.eval("C05", 1)
	have := s.Bal[farmEscrowAddr]
	if !have.Equal(want) {
		m.viol("C05", "escrow-differs-from-stakes-plus-budgets", map[string]any{"where": where, "ctx": detail, "escrow": have.String(), "records": want.String()}, "farm escrow holds %s, Σ pool totals + Σ remaining budgets = %s (height %d, %s)", have, want, s.H, where)
	}
	// model vs chain
	for _, id := range ids {
		p := m.pools[id]
		if p == nil {
			continue
		}
		cp := s.Pools[id]
		bad := false
		m.eval("C05", 1)
		if p.Total.Cmp(bi(cp.TotalLptLocked.Amount)) != 0 {
			bad = true
			m.viol("C05", "recorded-total-differs-from-history", map[string]any{"pool": id, "where": where, "ctx": detail}, "pool %s: recorded total %s, stakes minus withdrawals of the history %s (height %d, %s)", id, cp.TotalLptLocked.Amount, p.Total, s.H, where)
		}
		for _, a := range p.farmerAddrs() {
			f := p.F[a]
			m.eval("C05", 1)
			if got := s.locked(id, a); got.Cmp(f.Stake) != 0 {
				bad = true
				m.viol("C05", "recorded-stake-differs-from-history", map[string]any{"pool": id, "farmer": a, "where": where, "ctx": detail}, "pool %s farmer %s: recorded stake %s, history says %s (height %d, %s)", id, shortAddr(a), got, f.Stake, s.H, where)
			}
		}
		for _, ru := range cp.Rules {
			u := p.rule(ru.Reward)
			m.eval("C06", 2)
			if u == nil {
				bad = true
				m.viol("C06", "rule-not-in-history", map[string]any{"pool": id, "denom": ru.Reward}, "pool %s has a reward rule for %s that no message created", id, ru.Reward)
				continue
			}
			if bi(ru.TotalReward).Cmp(u.Funded) != 0 || bi(ru.RemainingReward).Cmp(u.remaining()) != 0 {
				bad = true
				m.viol("C06", "budget-identity", map[string]any{"pool": id, "denom": ru.Reward, "where": where, "ctx": detail, "chain_total": ru.TotalReward.String(), "chain_remaining": ru.RemainingReward.String(), "funded": u.Funded.String(), "released": u.Released.String(), "refunded": u.Refunded.String()},
					"pool %s %s: recorded total %s / remaining %s; funded by creator %s, released per-block×staked-span %s, refunded %s (height %d, %s)", id, ru.Reward, ru.TotalReward, ru.RemainingReward, u.Funded, u.Released, u.Refunded, s.H, where)
			}
			if bi(ru.RewardPerBlock).Cmp(u.Rpb) != 0 {
				bad = true
				m.viol("C06", "per-block-rate-differs-from-history", map[string]any{"pool": id, "denom": ru.Reward}, "pool %s %s: recorded per-block %s, last set by creator %s", id, ru.Reward, ru.RewardPerBlock, u.Rpb)
			}
		}
		if len(cp.Rules) != len(p.Rules) {
			bad = true
			m.viol("C06", "rule-count-differs", map[string]any{"pool": id}, "pool %s has %d rules, history created %d", id, len(cp.Rules), len(p.Rules))
		}
		if bad {
			m.resync(p, s)
		}
	}
}

// resync re-reads a pool's numbers from the chain after a reported mismatch so that one defect is not
// reported again and again under other relations.
func (m *farmMon) resync(p *fmPool, s *farmSnap) {
	cp := s.Pools[p.ID]
	p.Desync = true
	p.Total = bi(cp.TotalLptLocked.Amount)
	for a, f := range p.F {
		f.Stake = s.locked(p.ID, a)
	}
	for _, fi := range s.Farmers {
		if fi.PoolId == p.ID {
			p.farmer(fi.Address).Stake = bi(fi.Locked)
		}
	}
	for _, ru := range cp.Rules {
		u := p.rule(ru.Reward)
		if u == nil {
			u = &fmRule{Denom: ru.Reward, Refunded: new(big.Int)}
			p.Rules = append(p.Rules, u)
		}
		u.Funded = bi(ru.TotalReward)
		u.Rpb = bi(ru.RewardPerBlock)
		u.Released = new(big.Int).Sub(u.Funded, bi(ru.RemainingReward))
		u.Released.Sub(u.Released, u.Refunded)
	}
	p.Last = cp.LastHeightDistrRewards
}

func (m *farmMon) afterBlock(br *rig.BlockRecord, post *farmSnap) {
	m.checkState(post, "block-end", nil)
	ctx := m.r.Ctx()
	m.eval("C05", 1)
	m.eval("C06", 1)
	if q := farmQueueCheck(m.r, ctx); len(q) > 0 {
		m.viol("C05", "expiry-queue-inconsistent", q, "expiry queue after block %d: %v", br.Height, q)
		m.viol("C06", "expiry-queue-inconsistent", q, "expiry queue after block %d: %v", br.Height, q)
	}
	if len(br.Txs) == 0 {
		m.run.Count("block-gap", 1)
	}
	if m.probes {
		m.probe(post)
	}
}

// probe: what-if withdrawals on dropped branches at height+1.
func (m *farmMon) probe(s *farmSnap) {
	if len(s.Farmers) == 0 {
		return
	}
	rng := m.run.Rng
	r := m.r
	infos := append([]farmtypes.FarmInfo{}, s.Farmers...)
	m.r.WhatIf(5*time.Second, func(ctx sdk.Context) {
		h := ctx.BlockHeight()
		one := func(b sdk.Context, f farmtypes.FarmInfo, amt *big.Int, kind string) bool {
			cp := s.Pools[f.PoolId]
			denom := cp.TotalLptLocked.Denom
			addr, _ := sdk.AccAddressFromBech32(f.Address)
			esc := authtypes.NewModuleAddress(farmtypes.ModuleName)
			b0 := bi(r.App.BankKeeper.GetBalance(b, addr, denom).Amount)
			e0 := bi(r.App.BankKeeper.GetBalance(b, esc, denom).Amount)
			escAll := r.App.BankKeeper.GetAllBalances(b, esc)
			colAll := r.App.BankKeeper.GetAllBalances(b, authtypes.NewModuleAddress(farmtypes.RewardCollector))
			rr := r.Route(b, &farmtypes.MsgUnstake{PoolId: f.PoolId, Amount: coin(denom, amt), Sender: f.Address})
			m.eval("C05", 1)
			m.run.Count("whatif-"+kind, 1)
			ph := "active"
			if s.expiredAt(cp, h) {
				ph = "over"
			} else if cp.StartHeight > h {
				ph = "not-started"
			}
			regime := ""
			if p := m.pools[f.PoolId]; p != nil {
				regime = p.Regime
			}
			if rr.Err != nil {
				fk := farmFailKind(rr.Err.Error(), rr.Panicked, escAll, colAll)
				_, code, _ := errorsmod.ABCIInfo(rr.Err, false)
				m.viol("C05", "unstake-fails:"+fk, map[string]any{"probe": kind, "pool": f.PoolId, "farmer": f.Address, "amount": amt.String(), "recorded_stake": f.Locked.String(), "height": h, "phase": ph, "error": rr.Err.Error(), "code": code, "stack": rr.Stack},
					"what-if (%s) at height %d: unstake of %s%s (recorded stake %s) from %s [%s] by %s fails: %v", kind, h, amt, denom, f.Locked, f.PoolId, ph, shortAddr(f.Address), rr.Err)
				m.class("C05", "whatif", kind, ph, regime, "failed:"+fk)
				return false
			}
			b1 := bi(r.App.BankKeeper.GetBalance(b, addr, denom).Amount)
			e1 := bi(r.App.BankKeeper.GetBalance(b, esc, denom).Amount)
			got := new(big.Int).Sub(b1, b0)
			out := new(big.Int).Sub(e0, e1)
			if got.Cmp(amt) != 0 || out.Cmp(amt) != 0 {
				m.viol("C05", "unstake-pays-different-principal", map[string]any{"probe": kind, "pool": f.PoolId, "farmer": f.Address, "amount": amt.String(), "received": got.String(), "escrow_out": out.String(), "height": h},
					"what-if (%s) at height %d: unstake of %s%s from %s paid the farmer %s and took %s from the escrow", kind, h, amt, denom, f.PoolId, got, out)
			}
			m.class("C05", "whatif", kind, ph, regime, "amt="+magClass(amt), len(cp.Rules))
			return true
		}
		// (i) each farmer alone
		for _, f := range infos {
			b, _ := ctx.CacheContext()
			one(b, f, bi(f.Locked), "solo")
		}
		// (ii) everybody, everything, in a PRNG order on one branch
		b, _ := ctx.CacheContext()
		allOK := true
		for _, i := range rng.Perm(len(infos)) {
			if !one(b, infos[i], bi(infos[i].Locked), "all") {
				allOK = false
			}
		}
		if allOK {
			m.eval("C05", 2)
			left := 0
			r.K.Farm.IteratorAllFarmInfo(b, func(farmtypes.FarmInfo) { left++ })
			var totals []string
			r.K.Farm.IteratorAllPools(b, func(p farmtypes.FarmPool) {
				if !p.TotalLptLocked.Amount.IsZero() {
					totals = append(totals, p.Id+"="+p.TotalLptLocked.String())
				}
			})
			var held []string
			for _, c := range r.App.BankKeeper.GetAllBalances(b, authtypes.NewModuleAddress(farmtypes.ModuleName)) {
				if isLpt(c.Denom) {
					held = append(held, c.String())
				}
			}
			if left > 0 || len(totals) > 0 || len(held) > 0 {
				m.viol("C05", "full-withdrawal-leaves-residue", map[string]any{"farmer_records": left, "pool_totals": totals, "escrow_staked_tokens": held, "height": h}, "what-if at height %d: after every farmer withdrew everything %d farmer records, pool totals %v and escrowed staked tokens %v remain", h, left, totals, held)
			}
		}
		// (iii) partial amounts, then the rest
		b2, _ := ctx.CacheContext()
		for _, i := range rng.Perm(len(infos)) {
			f := infos[i]
			part := randBelow(rng, bi(f.Locked))
			if rng.Intn(3) == 0 {
				part = big.NewInt(1)
			}
			if !one(b2, f, part, "partial") {
				continue
			}
			if rest := new(big.Int).Sub(bi(f.Locked), part); rest.Sign() > 0 && rng.Intn(2) == 0 {
				g := f
				g.Locked = toInt(rest)
				one(b2, g, rest, "partial-rest")
			}
		}
	})
}

// ---------------------------------------------------------------------------------------------
// generator (also the reusable Workload)

type farmGen struct {
	topped       string // pool topped up before its start (scripted)
	toppedStaked bool
	plainLists bool
	run         *ev.Run
	r           *rig.Rig
	tok         []string // coinswap counterparty denoms whose LP tokens are staked
	rew         []string // reward denoms
	creators    []*rig.Account
	farmers     []*rig.Account
	stranger    *rig.Account
	maxBits     int    // magnitude cap of this chain
	maxCat      uint32 // MaxRewardCategories this chain wants (0 = leave default)
	maxCatWas   uint32 // what it was before the mid-life lowering
	bias        string // regime preferred by this chain ("" = any)
	maxPools    int
	last        []rig.Tx
	nCreated    int
	lptShare    *big.Int
	maxCatTried int
	noTouch     map[string]bool // pools the random adjust/destroy intents leave alone
	anchor      *rig.Account    // stakes into the coincident pools from their start block and never leaves before they end
	coincN      int
}

type farmView struct {
	s      *farmSnap
	h      int64 // height at which the txs will execute
	lpts   []string
	active []farmtypes.FarmPool // started, not over at h
	future []farmtypes.FarmPool
	over   []farmtypes.FarmPool
}

func (g *farmGen) view() *farmView {
	ctx := g.r.Ctx()
	v := &farmView{s: farmSnapshot(g.r, ctx), h: g.r.Height + 1}
	byTok := map[string]string{}
	for _, p := range g.r.K.Coinswap.GetAllPools(ctx) {
		byTok[p.CounterpartyDenom] = p.LptDenom
	}
	for _, t := range g.tok {
		if l, ok := byTok[t]; ok {
			v.lpts = append(v.lpts, l)
		}
	}
	for _, id := range v.s.poolIDs() {
		p := v.s.Pools[id]
		switch {
		case v.s.expiredAt(p, v.h):
			v.over = append(v.over, p)
		case p.StartHeight > v.h:
			v.future = append(v.future, p)
		default:
			v.active = append(v.active, p)
		}
	}
	return v
}

func (g *farmGen) bal(v *farmView, a *rig.Account, denom string) *big.Int {
	return amountOf(v.s.Bal[a.Addr.String()], denom)
}

func (g *farmGen) acct(addr string) *rig.Account {
	for _, a := range g.r.Accounts {
		if a.Addr.String() == addr {
			return a
		}
	}
	return nil
}

func (g *farmGen) regimeAmt(regime string, rate bool) *big.Int {
	rng := g.run.Rng
	switch regime {
	case "residue", "residue-short", "residue-live":
		if rate {
			return big.NewInt(pick(rng, int64(1), 3, 7, 9, 9, 11, 13, 17, 19, 23))
		}
		if rng.Intn(2) == 0 {
			return big.NewInt(1)
		}
		return big.NewInt(int64(1 + rng.Intn(12)))
	case "mid", "mid-destroy":
		return randBelow(rng, pow2(22))
	case "big":
		v := new(big.Int).Rand(rng, pow2(uint(30+rng.Intn(30))))
		return v.Add(v, pow2(60))
	}
	return randMag(rng, g.maxBits)
}

func (g *farmGen) pickRegime() string {
	rng := g.run.Rng
	if g.bias != "" && rng.Intn(3) > 0 {
		return g.bias
	}
	return pick(rng, "residue", "residue", "mid", "big", "mixed")
}

// mkCreate builds a MsgCreatePool. life = planned number of reward blocks of the first denom.
func (g *farmGen) mkCreate(v *farmView, regime string, life int, startOff int64, nden int, editable bool) (rig.Tx, bool) {
	rng := g.run.Rng
	if len(v.lpts) == 0 {
		return rig.Tx{}, false
	}
	cr := g.creators[rng.Intn(len(g.creators))]
	lpt := v.lpts[rng.Intn(len(v.lpts))]
	if nden > len(g.rew) {
		nden = len(g.rew)
	}
	var rpb, tot sdk.Coins
	for i, di := range rng.Perm(len(g.rew))[:nden] {
		d := g.rew[di]
		rate := g.regimeAmt(regime, true)
		l := life
		if i > 0 {
			l = life + rng.Intn(7) - 2 // different exhaustion heights
			if l < 1 {
				l = 1
			}
		}
		total := new(big.Int).Mul(rate, big.NewInt(int64(l)))
		if rng.Intn(2) == 0 && rate.Cmp(bigOne) > 0 {
			total.Add(total, new(big.Int).Rand(rng, rate)) // residue below one block's worth
		}
		if total.Cmp(g.bal(v, cr, d)) > 0 {
			return rig.Tx{}, false
		}
		rpb = rpb.Add(coin(d, rate))
		tot = tot.Add(coin(d, total))
	}
	g.nCreated++
	listNote := ""
	if !g.plainLists {
		rpb, tot = farmListOrder(rng, rpb, &listNote), farmListOrder(rng, tot, &listNote)
	}
	msg := &farmtypes.MsgCreatePool{Description: regime, LptDenom: lpt, StartHeight: v.h + startOff, RewardPerBlock: rpb, TotalReward: tot, Editable: editable, Creator: cr.Addr.String()}
	return g.r.Mk(cr, &farmTag{Kind: "create", Note: regime + listNote}, msg), true
}

func (g *farmGen) mkStake(v *farmView, p farmtypes.FarmPool, a *rig.Account, amt *big.Int, hostile string) (rig.Tx, bool) {
	denom := p.TotalLptLocked.Denom
	if hostile == "" {
		have := g.bal(v, a, denom)
		if have.Sign() == 0 {
			return rig.Tx{}, false
		}
		if amt.Cmp(have) > 0 {
			amt = have
		}
	}
	return g.r.Mk(a, &farmTag{Kind: "stake", Hostile: hostile, Note: p.Description}, &farmtypes.MsgStake{PoolId: p.Id, Amount: coin(denom, amt), Sender: a.Addr.String()}), true
}

func (g *farmGen) mkUnstake(a *rig.Account, pool, denom string, amt *big.Int, kind, hostile string) rig.Tx {
	return g.r.Mk(a, &farmTag{Kind: kind, Hostile: hostile}, &farmtypes.MsgUnstake{PoolId: pool, Amount: coin(denom, amt), Sender: a.Addr.String()})
}

func (g *farmGen) mkAdjust(v *farmView, p farmtypes.FarmPool, variant int) (rig.Tx, bool) {
	rng := g.run.Rng
	cr := g.acct(p.Creator)
	if cr == nil || len(p.Rules) == 0 {
		return rig.Tx{}, false
	}
	var add, rpb sdk.Coins
	regime := p.Description
	for _, ru := range p.Rules {
		if len(p.Rules) > 1 && rng.Intn(3) == 0 {
			continue // only some of the denoms
		}
		if variant == 0 || variant == 2 {
			k := int64(1 + rng.Intn(12))
			t := new(big.Int).Mul(bi(ru.RewardPerBlock), big.NewInt(k))
			if rng.Intn(2) == 0 {
				t.Add(t, g.regimeAmt(regime, true))
			}
			if rng.Intn(8) == 0 {
				t = big.NewInt(1)
			}
			if t.Cmp(g.bal(v, cr, ru.Reward)) <= 0 {
				add = add.Add(coin(ru.Reward, t))
			}
		}
		if variant == 1 || variant == 2 {
			nr := g.regimeAmt(regime, true)
			switch rng.Intn(4) {
			case 0:
				nr = new(big.Int).Add(bi(ru.RewardPerBlock), bigOne)
			case 1:
				if ru.RewardPerBlock.GT(sdkmath.OneInt()) {
					nr = new(big.Int).Sub(bi(ru.RewardPerBlock), bigOne)
				}
			}
			rpb = rpb.Add(coin(ru.Reward, nr))
		}
	}
	if add.Empty() && rpb.Empty() {
		return rig.Tx{}, false
	}
	msg := &farmtypes.MsgAdjustPool{PoolId: p.Id, Creator: p.Creator}
	note := fmt.Sprint("v", variant)
	if !add.Empty() {
		msg.AdditionalReward = farmListOrder(rng, add, &note)
	}
	if !rpb.Empty() {
		msg.RewardPerBlock = farmListOrder(rng, rpb, &note)
	}
	return g.r.Mk(cr, &farmTag{Kind: "adjust", Note: note}, msg), true
}

func (g *farmGen) mkDestroy(p farmtypes.FarmPool) (rig.Tx, bool) {
	cr := g.acct(p.Creator)
	if cr == nil {
		return rig.Tx{}, false
	}
	return g.r.Mk(cr, &farmTag{Kind: "destroy"}, &farmtypes.MsgDestroyPool{PoolId: p.Id, Creator: p.Creator}), true
}

// setup returns the txs that still have to happen before farming can start (coinswap pools, LPT
// distribution, params); empty when done.
func (g *farmGen) setup(v *farmView) []rig.Tx {
	r := g.r
	var txs []rig.Tx
	if len(v.lpts) < len(g.tok) {
		byTok := map[string]bool{}
		for _, p := range r.K.Coinswap.GetAllPools(r.Ctx()) {
			byTok[p.CounterpartyDenom] = true
		}
		cr := g.creators[0]
		for _, t := range g.tok {
			if !byTok[t] {
				amt := new(big.Int).Mul(g.lptShare, big.NewInt(int64(len(r.Accounts)+1)))
				msg := &cstypes.MsgAddLiquidity{MaxToken: coin(t, amt), ExactStandardAmt: toInt(amt), MinLiquidity: sdkmath.OneInt(), Deadline: r.Time.Unix() + 86400, Sender: cr.Addr.String()}
				txs = append(txs, r.Mk(cr, &farmTag{Kind: "addliq"}, msg))
			}
		}
		return txs
	}
	// distribute LP tokens to everybody who has none
	cr := g.creators[0]
	var sends []sdk.Msg
	for _, l := range v.lpts {
		have := g.bal(v, cr, l)
		for _, a := range r.Accounts {
			if a == cr || g.bal(v, a, l).Sign() > 0 {
				continue
			}
			if have.Cmp(g.lptShare) < 0 {
				break
			}
			have = new(big.Int).Sub(have, g.lptShare)
			sends = append(sends, banktypes.NewMsgSend(cr.Addr, a.Addr, sdk.NewCoins(coin(l, g.lptShare))))
		}
	}
	if len(sends) > 0 {
		return []rig.Tx{r.Mk(cr, &farmTag{Kind: "send", Note: "lpt-distribution"}, sends...)}
	}
	if g.maxCat != 0 && v.s.Params.MaxRewardCategories != g.maxCat {
		p := v.s.Params
		p.MaxRewardCategories = g.maxCat
		g.maxCatTried++
		if g.maxCatTried <= 2 {
			return []rig.Tx{r.InjectRoute(g.creators[0], &farmTag{Kind: "params"}, &farmtypes.MsgUpdateParams{Authority: r.GovAddr.String(), Params: p})}
		}
	}
	return nil
}

func (g *farmGen) randPool(ps []farmtypes.FarmPool) (farmtypes.FarmPool, bool) {
	if len(ps) == 0 {
		return farmtypes.FarmPool{}, false
	}
	return ps[g.run.Rng.Intn(len(ps))], true
}

func (g *farmGen) anyFarmer() *rig.Account {
	rng := g.run.Rng
	if rng.Intn(10) == 0 {
		return g.creators[rng.Intn(len(g.creators))]
	}
	return g.farmers[rng.Intn(len(g.farmers))]
}

// intent picks one state-aware intent. focus (may be nil) is a pool the director wants traffic on.
func (g *farmGen) intent(v *farmView, focus *farmtypes.FarmPool) (rig.Tx, bool) {
	rng := g.run.Rng
	r := g.r
	nLive := len(v.active) + len(v.future)
	w := []int{30, 20, 14, 8, 1, 2, 7, 1, 1}
	if nLive < 2 {
		w[5] = 40
	}
	if len(v.s.Pools) >= g.maxPools {
		w[5] = 0
	}
	if len(v.s.Farmers) == 0 {
		w[0] = 60
	}
	switch weighted(rng, w) {
	case 0: // stake
		p, ok := g.randPool(v.active)
		if focus != nil {
			p, ok = *focus, true
		}
		if !ok {
			return rig.Tx{}, false
		}
		return g.mkStake(v, p, g.anyFarmer(), g.regimeAmt(p.Description, false), "")
	case 1: // unstake
		var cands []farmtypes.FarmInfo
		for _, f := range v.s.Farmers {
			if focus == nil || f.PoolId == focus.Id {
				cands = append(cands, f)
			}
		}
		if len(cands) == 0 {
			cands = v.s.Farmers
		}
		if len(cands) == 0 {
			return rig.Tx{}, false
		}
		f := cands[rng.Intn(len(cands))]
		a := g.acct(f.Address)
		if a == nil || (a == g.anchor && !v.s.expiredAt(v.s.Pools[f.PoolId], v.h)) {
			return rig.Tx{}, false
		}
		amt := randBelow(rng, bi(f.Locked))
		switch rng.Intn(10) {
		case 0, 1, 2:
			amt = bi(f.Locked)
		case 3:
			amt = big.NewInt(1)
		}
		return g.mkUnstake(a, f.PoolId, v.s.Pools[f.PoolId].TotalLptLocked.Denom, amt, "unstake", ""), true
	case 2: // harvest
		var cands []farmtypes.FarmInfo
		for _, f := range v.s.Farmers {
			p := v.s.Pools[f.PoolId]
			if !v.s.expiredAt(p, v.h) && (focus == nil || f.PoolId == focus.Id) {
				cands = append(cands, f)
			}
		}
		if len(cands) == 0 {
			return rig.Tx{}, false
		}
		f := cands[rng.Intn(len(cands))]
		a := g.acct(f.Address)
		if a == nil {
			return rig.Tx{}, false
		}
		return r.Mk(a, &farmTag{Kind: "harvest"}, &farmtypes.MsgHarvest{PoolId: f.PoolId, Sender: f.Address}), true
	case 3: // adjust
		var cands []farmtypes.FarmPool
		for _, p := range append(append([]farmtypes.FarmPool{}, v.active...), v.future...) {
			if p.Editable && !g.noTouch[p.Id] {
				cands = append(cands, p)
			}
		}
		p, ok := g.randPool(cands)
		if focus != nil && focus.Editable && !g.noTouch[focus.Id] {
			p, ok = *focus, true
		}
		if !ok {
			return rig.Tx{}, false
		}
		return g.mkAdjust(v, p, rng.Intn(3))
	case 4: // destroy
		var cands []farmtypes.FarmPool
		for _, p := range append(append([]farmtypes.FarmPool{}, v.active...), v.future...) {
			if p.Editable && !g.noTouch[p.Id] {
				cands = append(cands, p)
			}
		}
		p, ok := g.randPool(cands)
		if !ok {
			return rig.Tx{}, false
		}
		return g.mkDestroy(p)
	case 5: // create
		maxCat := int(v.s.Params.MaxRewardCategories)
		if maxCat < 1 {
			maxCat = 1
		}
		// start offsets up to 40 blocks: pools that exist (and are queued) long before they start, e.g. at an export
		return g.mkCreate(v, g.pickRegime(), 3+rng.Intn(28), int64(pick(rng, 0, 0, 0, 1, 2, 5, 12, 40)), 1+rng.Intn(maxCat), rng.Intn(5) != 0)
	case 6:
		return g.hostile(v)
	case 7: // LP tokens change hands between users
		if len(v.lpts) == 0 {
			return rig.Tx{}, false
		}
		a, b := g.anyFarmer(), g.anyFarmer()
		l := v.lpts[rng.Intn(len(v.lpts))]
		have := g.bal(v, a, l)
		if have.Sign() == 0 || a == b {
			return rig.Tx{}, false
		}
		return r.Mk(a, &farmTag{Kind: "send"}, banktypes.NewMsgSend(a.Addr, b.Addr, sdk.NewCoins(coin(l, randBelow(rng, new(big.Int).Rsh(have, 4)))))), true
	default: // a top-up so large that the recomputed end height leaves the int64 range
		var cands []farmtypes.FarmPool
		for _, p := range v.active {
			if p.Editable && !g.noTouch[p.Id] && len(p.Rules) == 1 && p.Rules[0].RewardPerBlock.BigInt().BitLen() < 60 {
				cands = append(cands, p)
			}
		}
		p, ok := g.randPool(cands)
		if !ok {
			return rig.Tx{}, false
		}
		cr := g.acct(p.Creator)
		if cr == nil {
			return rig.Tx{}, false
		}
		ru := p.Rules[0]
		blocks := new(big.Int).Sub(pow2(63), big.NewInt(int64(2+rng.Intn(50))))
		t := new(big.Int).Mul(bi(ru.RewardPerBlock), blocks)
		if t.Cmp(g.bal(v, cr, ru.Reward)) > 0 {
			return rig.Tx{}, false
		}
		return r.Mk(cr, &farmTag{Kind: "adjust", Note: "huge-topup"}, &farmtypes.MsgAdjustPool{PoolId: p.Id, AdditionalReward: sdk.NewCoins(coin(ru.Reward, t)), Creator: p.Creator}), true
	}
}

// hostile: intents the module has to refuse (or at least survive).
func (g *farmGen) hostile(v *farmView) (rig.Tx, bool) {
	rng := g.run.Rng
	r := g.r
	all := append(append(append([]farmtypes.FarmPool{}, v.active...), v.future...), v.over...)
	switch rng.Intn(14) {
	case 0:
		if p, ok := g.randPool(v.future); ok {
			return g.mkStake(v, p, g.anyFarmer(), g.regimeAmt(p.Description, false), "before-start")
		}
	case 1:
		if p, ok := g.randPool(v.over); ok {
			return g.mkStake(v, p, g.anyFarmer(), g.regimeAmt(p.Description, false), "after-end")
		}
	case 2:
		if p, ok := g.randPool(v.active); ok {
			q := p
			q.TotalLptLocked.Denom = pick(rng, g.tok[0], rig.BondDenom, "lpt-77")
			for _, l := range v.lpts {
				if l != p.TotalLptLocked.Denom && rng.Intn(2) == 0 {
					q.TotalLptLocked.Denom = l
				}
			}
			return g.mkStake(v, q, g.anyFarmer(), big.NewInt(5), "wrong-denom")
		}
	case 3:
		if len(v.s.Farmers) > 0 {
			f := v.s.Farmers[rng.Intn(len(v.s.Farmers))]
			if a := g.acct(f.Address); a != nil {
				return g.mkUnstake(a, f.PoolId, v.s.Pools[f.PoolId].TotalLptLocked.Denom, new(big.Int).Add(bi(f.Locked), bigOne), "unstake", "more-than-staked"), true
			}
		}
	case 4:
		if p, ok := g.randPool(all); ok {
			return g.mkUnstake(g.stranger, p.Id, p.TotalLptLocked.Denom, big.NewInt(1), "unstake", "no-record"), true
		}
	case 5:
		if p, ok := g.randPool(all); ok {
			return r.Mk(g.stranger, &farmTag{Kind: "harvest", Hostile: "no-record"}, &farmtypes.MsgHarvest{PoolId: p.Id, Sender: g.stranger.Addr.String()}), true
		}
	case 6:
		for _, f := range v.s.Farmers {
			p := v.s.Pools[f.PoolId]
			if v.s.expiredAt(p, v.h) {
				if a := g.acct(f.Address); a != nil {
					return r.Mk(a, &farmTag{Kind: "harvest", Hostile: "after-end"}, &farmtypes.MsgHarvest{PoolId: f.PoolId, Sender: f.Address}), true
				}
			}
		}
	case 7:
		if p, ok := g.randPool(all); ok {
			a := g.anyFarmer()
			if a.Addr.String() == p.Creator {
				a = g.stranger
			}
			if rng.Intn(2) == 0 {
				return r.Mk(a, &farmTag{Kind: "destroy", Hostile: "not-creator"}, &farmtypes.MsgDestroyPool{PoolId: p.Id, Creator: a.Addr.String()}), true
			}
			if len(p.Rules) > 0 {
				return r.Mk(a, &farmTag{Kind: "adjust", Hostile: "not-creator"}, &farmtypes.MsgAdjustPool{PoolId: p.Id, RewardPerBlock: sdk.NewCoins(coin(p.Rules[0].Reward, big.NewInt(1))), Creator: a.Addr.String()}), true
			}
		}
	case 8:
		for _, p := range all {
			if cr := g.acct(p.Creator); cr != nil && (!p.Editable || v.s.expiredAt(p, v.h)) && len(p.Rules) > 0 {
				why := "not-editable"
				if p.Editable {
					why = "after-end"
				}
				if rng.Intn(2) == 0 {
					return r.Mk(cr, &farmTag{Kind: "destroy", Hostile: why}, &farmtypes.MsgDestroyPool{PoolId: p.Id, Creator: p.Creator}), true
				}
				return r.Mk(cr, &farmTag{Kind: "adjust", Hostile: why}, &farmtypes.MsgAdjustPool{PoolId: p.Id, AdditionalReward: sdk.NewCoins(coin(p.Rules[0].Reward, big.NewInt(100))), Creator: p.Creator}), true
			}
		}
	case 9:
		if p, ok := g.randPool(v.active); ok && p.Editable {
			if cr := g.acct(p.Creator); cr != nil {
				foreign := g.tok[0]
				return r.Mk(cr, &farmTag{Kind: "adjust", Hostile: "foreign-denom"}, &farmtypes.MsgAdjustPool{PoolId: p.Id, AdditionalReward: sdk.NewCoins(coin(foreign, big.NewInt(1000))), Creator: p.Creator}), true
			}
		}
	case 10: // creation refused: past start, too many categories, not an LP token, unknown LP token
		if len(v.lpts) > 0 {
			cr := g.creators[rng.Intn(len(g.creators))]
			msg := &farmtypes.MsgCreatePool{Description: "hostile", LptDenom: v.lpts[0], StartHeight: v.h, RewardPerBlock: sdk.NewCoins(coin(g.rew[0], big.NewInt(3))), TotalReward: sdk.NewCoins(coin(g.rew[0], big.NewInt(30))), Editable: true, Creator: cr.Addr.String()}
			why := ""
			switch rng.Intn(5) {
			case 4: // wrong in two ways at once, one per denomination: which refusal is given must not depend on chance
				if len(g.rew) < 2 {
					return rig.Tx{}, false
				}
				why = "two-ways-wrong"
				msg.RewardPerBlock = sdk.NewCoins(coin(g.rew[0], big.NewInt(5)), coin(g.rew[1], big.NewInt(1)))
				msg.TotalReward = sdk.NewCoins(coin(g.rew[0], big.NewInt(1)), coin(g.rew[1], pow2(70)))
			case 0:
				msg.StartHeight, why = v.h-1, "past-start"
			case 1:
				why = "too-many-denoms"
				var a, b sdk.Coins
				for i := 0; i <= int(v.s.Params.MaxRewardCategories) && i < len(g.rew); i++ {
					a, b = a.Add(coin(g.rew[i], big.NewInt(3))), b.Add(coin(g.rew[i], big.NewInt(30)))
				}
				if len(a) <= int(v.s.Params.MaxRewardCategories) {
					return rig.Tx{}, false
				}
				msg.RewardPerBlock, msg.TotalReward = a, b
			case 2:
				msg.LptDenom, why = g.tok[0], "not-an-lp-token"
			default:
				msg.LptDenom, why = "lpt-4242", "unknown-lp-token"
			}
			return r.Mk(cr, &farmTag{Kind: "create", Hostile: why}, msg), true
		}
	case 11: // message of one account signed by another: refused by the ante handler
		if len(v.s.Farmers) > 0 {
			f := v.s.Farmers[rng.Intn(len(v.s.Farmers))]
			thief := g.stranger
			tx := r.Mk(thief, &farmTag{Kind: "unstake", Hostile: "wrong-signer"}, &farmtypes.MsgUnstake{PoolId: f.PoolId, Amount: coin(v.s.Pools[f.PoolId].TotalLptLocked.Denom, bi(f.Locked)), Sender: f.Address})
			thief.Seq-- // the ante handler rejects it, so the sequence is not consumed
			return tx, true
		}
	case 12: // replay of a tx of the previous block
		if len(g.last) > 0 {
			t := g.last[rng.Intn(len(g.last))]
			if tg, ok := t.Tag.(*farmTag); ok && tg.Hostile != "wrong-signer" {
				return rig.Tx{Bytes: t.Bytes, Tag: &farmTag{Kind: "replay", Hostile: "replay"}}, true
			}
		}
	case 13: // governance creation path (the e2e app has no escrow_collector module account)
		if len(v.lpts) > 0 {
			cr := g.creators[0]
			sb := g.rew[0]
			for _, d := range g.rew {
				if d != rig.BondDenom {
					sb = d
					break
				}
			}
			if sb == rig.BondDenom {
				return rig.Tx{}, false
			}
			content := farmtypes.CommunityPoolCreateFarmProposal{Title: "t", Description: "d", PoolDescription: "gov", LptDenom: v.lpts[0], RewardPerBlock: sdk.NewCoins(coin(sb, big.NewInt(3)), coin(rig.BondDenom, big.NewInt(1))), FundApplied: sdk.NewCoins(coin(rig.BondDenom, big.NewInt(1))), FundSelfBond: sdk.NewCoins(coin(sb, big.NewInt(30)))}
			return r.Mk(cr, &farmTag{Kind: "gov", Hostile: "gov-path"}, &farmtypes.MsgCreatePoolWithCommunityPool{Content: content, InitialDeposit: sdk.NewCoins(coin(rig.BondDenom, big.NewInt(1))), Proposer: cr.Addr.String()}), true
		}
	}
	return rig.Tx{}, false
}

// block returns the txs of one ordinary block.
func (g *farmGen) block(v *farmView, extra []rig.Tx) []rig.Tx {
	rng := g.run.Rng
	txs := append([]rig.Tx{}, extra...)
	n := 1 + rng.Intn(5)
	if rng.Intn(8) == 0 {
		n += 4 + rng.Intn(6)
	}
	txs = append(txs, g.coincident(v)...)
	// pools ending in this very block attract traffic
	var ending []farmtypes.FarmPool
	for _, p := range v.active {
		if p.EndHeight == v.h {
			ending = append(ending, p)
		}
	}
	// ... or its creator destroys it in that very block, and the pool is then staked into and adjusted before the
	// block ends
	for _, p := range ending {
		if cr := g.acct(p.Creator); p.Editable && !g.noTouch[p.Id] && cr != nil && rng.Intn(2) == 0 {
			txs = append(txs, g.r.Mk(cr, &farmTag{Kind: "destroy", Note: "in-its-ending-block"}, &farmtypes.MsgDestroyPool{PoolId: p.Id, Creator: p.Creator}))
			if tx, ok := g.mkStake(v, p, g.anyFarmer(), big.NewInt(5), "after-destroy-same-block"); ok {
				txs = append(txs, tx)
			}
			if len(p.Rules) > 0 {
				txs = append(txs, g.r.Mk(cr, &farmTag{Kind: "adjust", Hostile: "after-destroy-same-block"}, &farmtypes.MsgAdjustPool{PoolId: p.Id, Creator: p.Creator,
					RewardPerBlock: sdk.NewCoins(coin(p.Rules[0].Reward, new(big.Int).Add(bi(p.Rules[0].RewardPerBlock), bigOne)))}))
			}
			g.run.Count("destroy-attempted-in-the-ending-block", 1)
		}
	}
	for i := 0; i < n; i++ {
		var focus *farmtypes.FarmPool
		if len(ending) > 0 && rng.Intn(2) == 0 {
			focus = &ending[rng.Intn(len(ending))]
		} else if rng.Intn(6) == 0 && len(v.active) > 0 {
			focus = &v.active[rng.Intn(len(v.active))] // several ops on one pool in one block
		}
		if tx, ok := g.intent(v, focus); ok {
			txs = append(txs, tx)
		}
	}
	g.last = txs
	return txs
}

// coincident builds, twice per chain, three pools that start in the next block, run for the same number of blocks and
// therefore end in the same block: the first and the third distribute their whole budget (total = rate x life, the
// anchor farmer stakes in the start block and stays), the second keeps a remainder for its creator. Their end-block
// settlement exercises the refund of several pools at one height, with and without something left to refund.
func (g *farmGen) coincident(v *farmView) []rig.Tx {
	if g.anchor == nil || len(v.lpts) == 0 {
		return nil
	}
	rng := g.run.Rng
	var txs []rig.Tx
	// the anchor's stakes, in the start block of pools created one block ago
	for _, id := range sortedKeys(v.s.Pools) {
		p := v.s.Pools[id]
		if p.Description == "coincident" && p.StartHeight == v.h {
			if tx, ok := g.mkStake(v, p, g.anchor, big.NewInt(int64(1000+rng.Intn(100000))), ""); ok {
				txs = append(txs, tx)
			}
		}
	}
	if g.coincN >= 2 || v.h%29 != 11 || g.nCreated == 0 {
		return txs
	}
	g.coincN++
	cr := g.creators[0]
	life := int64(4 + rng.Intn(5))
	for i := 0; i < 3; i++ {
		d := g.rew[rng.Intn(len(g.rew))]
		rate := big.NewInt(int64(1000 + rng.Intn(900000)))
		total := new(big.Int).Mul(rate, big.NewInt(life))
		if i == 1 {
			total.Add(total, big.NewInt(int64(1+rng.Intn(999))))
		}
		if total.Cmp(g.bal(v, cr, d)) > 0 {
			continue
		}
		rpb, tot := sdk.NewCoins(coin(d, rate)), sdk.NewCoins(coin(d, total))
		note := "coincident"
		if i == 2 && v.s.Params.MaxRewardCategories >= 2 {
			// the third pool pays in two denominations: this one is distributed to the last unit, the second one ends
			// with a remainder - the refund at the end has to return that remainder although one budget is exactly empty
			for _, d2 := range g.rew {
				rate2 := big.NewInt(int64(1000 + rng.Intn(900000)))
				total2 := new(big.Int).Add(new(big.Int).Mul(rate2, big.NewInt(life)), big.NewInt(int64(1+rng.Intn(999))))
				if d2 != d && total2.Cmp(g.bal(v, cr, d2)) <= 0 {
					rpb, tot = rpb.Add(coin(d2, rate2)), tot.Add(coin(d2, total2))
					note = "coincident/one-budget-exact-one-with-remainder"
					g.run.Count("coincident-pool-with-one-exact-and-one-leftover-budget", 1)
					break
				}
			}
		}
		msg := &farmtypes.MsgCreatePool{Description: "coincident", LptDenom: v.lpts[0], StartHeight: v.h + 1, RewardPerBlock: rpb, TotalReward: tot, Editable: false, Creator: cr.Addr.String()}
		txs = append(txs, g.r.Mk(cr, &farmTag{Kind: "create", Note: note}, msg))
		g.nCreated++
		g.run.Count("coincident-pools-created", 1)
	}
	return txs
}

// --- Workload interface ---------------------------------------------------------------------

type farmWorkload struct {
	g *farmGen
}

func newFarmWorkload() Workload { return &farmWorkload{} }

func (w *farmWorkload) Name() string { return "farm" }

func (w *farmWorkload) Genesis(codec.Codec, map[string]json.RawMessage) {}

func (w *farmWorkload) Attach(run *ev.Run, r *rig.Rig) {
	n := len(r.Accounts)
	g := &farmGen{run: run, r: r, tok: []string{"tka", "tkb"}, rew: []string{rig.BondDenom, "tkc", "tka"}, maxBits: 62, maxPools: 6, lptShare: pow2(100)}
	g.creators = []*rig.Account{r.Acc(0), r.Acc(1 % n)}
	for i := 2; i < n-1; i++ {
		g.farmers = append(g.farmers, r.Acc(i))
	}
	if len(g.farmers) == 0 {
		g.farmers = g.creators
	}
	g.stranger = r.Acc(n - 1)
	w.g = g
}

func (w *farmWorkload) Next(block int) []rig.Tx {
	g := w.g
	v := g.view()
	if txs := g.setup(v); len(txs) > 0 {
		return txs
	}
	if g.run.Rng.Intn(5) == 0 {
		return nil
	}
	// every 17 blocks a short-lived editable pool, so that pools keep falling due (and being destroyed in the block
	// they fall due, see block) over the whole history
	var extra []rig.Tx
	// every 17 blocks the running editable pool that would end last gets a rate under which what is left lasts about two more
	// blocks (no top-up): its end moves in front of the other pools' ends
	if block%17 == 14 {
		var last *farmtypes.FarmPool
		for i := range v.active {
			p := &v.active[i]
			if p.Editable && g.acct(p.Creator) != nil && len(p.Rules) > 0 && (last == nil || p.EndHeight > last.EndHeight) {
				last = p
			}
		}
		if last != nil && last.EndHeight > v.h+3 {
			var rpb sdk.Coins
			for _, ru := range last.Rules {
				f := (last.EndHeight - v.h) / 2 // what is left lasts about two more blocks
				if f < 2 {
					f = 2
				}
				rpb = rpb.Add(sdk.NewCoin(ru.Reward, ru.RewardPerBlock.MulRaw(f)))
			}
			extra = append(extra, g.r.Mk(g.acct(last.Creator), &farmTag{Kind: "adjust", Note: "shorten-the-longest"}, &farmtypes.MsgAdjustPool{PoolId: last.Id, RewardPerBlock: rpb, Creator: last.Creator}))
			g.run.Count("farm-longest-pool-shortened", 1)
		}
	}
	// every 7 blocks a creation that is wrong in two ways at once, one per denomination (refused before its sequence
	// number is consumed): which of the two refusals is given must be the same in every execution
	if block%7 == 3 && len(v.lpts) > 0 {
		cr := g.stranger
		msg := &farmtypes.MsgCreatePool{Description: "two-ways-wrong", LptDenom: v.lpts[0], StartHeight: v.h + 2, Editable: true, Creator: cr.Addr.String(),
			RewardPerBlock: sdk.NewCoins(coin(g.rew[0], big.NewInt(5)), coin(g.rew[1], big.NewInt(1))),
			TotalReward:    sdk.NewCoins(coin(g.rew[0], big.NewInt(1)), coin(g.rew[1], pow2(70)))}
		extra = append(extra, g.r.Mk(cr, &farmTag{Kind: "create", Hostile: "two-ways-wrong"}, msg))
		cr.Seq--
		g.run.Count("farm-creation-wrong-in-two-ways-sent", 1)
	}
	if block%17 == 11 && len(v.s.Pools) < 16 {
		if tx, ok := g.mkCreate(v, "residue", 3+g.run.Rng.Intn(10), int64(g.run.Rng.Intn(2)), 1, true); ok {
			extra = append(extra, tx)
		}
	}
	return g.block(v, extra)
}

func (w *farmWorkload) Observe(*rig.BlockRecord) { farmResyncSeq(w.g.r) }

// ---------------------------------------------------------------------------------------------
// directors

func farmBalances(denoms ...string) sdk.Coins {
	bal := sdk.NewCoins()
	for _, d := range denoms {
		bal = bal.Add(sdk.NewCoin(d, toInt(pow2(150))))
	}
	return bal
}

func farmTwinCase(tier string, c int) bool {
	if tier == "thorough" {
		return c%4 == 3
	}
	return c >= 6
}

func newFarmRig(run *ev.Run, seed string) (*rig.Rig, *farmGen) {
	r := rig.New(rig.Options{Seed: seed, NumAccounts: 13, Balances: farmBalances(rig.BondDenom, "tka", "tkb", "tkc", "rwa", "rwb", "rwc", "rwd", "rww"), InflationOff: true, InitialHeight: boundaryHeight(run.Case), SubSecond: run.Case%2 == 1})
	g := &farmGen{run: run, r: r, tok: []string{"tka", "tkb"}, rew: []string{"rwa", "rwb", "rwc", "rwd", rig.BondDenom}, maxBits: 100, maxPools: 9, lptShare: pow2(110)}
	g.creators = []*rig.Account{r.Acc(0), r.Acc(1)}
	for i := 2; i <= 10; i++ {
		g.farmers = append(g.farmers, r.Acc(i))
	}
	g.stranger = r.Acc(11)
	g.anchor = r.Acc(12)
	return r, g
}

func runFarm(run *ev.Run, c int, mode string) {
	if mode == "C06" && farmTwinCase(run.Tier, c) {
		runFarmTwins(run, c)
		return
	}
	rng := run.Rng
	r, g := newFarmRig(run, fmt.Sprintf("farm-%d-%d", run.Seed, c))
	m := newFarmMon(run, r, mode)
	g.bias = []string{"residue", "", "mid", "residue", "big", "mixed"}[c%6]
	g.maxCat = []uint32{0, 3, 1, 2, 3, 0}[c%6]
	if c%6 == 5 {
		g.tok = []string{"tka", "tkb", "tkc"}
	}
	blocks := 110
	if run.Thorough() {
		blocks = 450
	}
	deliver := func(txs []rig.Tx) *rig.BlockRecord {
		br := r.DeliverBlock(time.Duration(1+rng.Intn(30))*time.Second, txs)
		m.observe(br)
		return br
	}
	// setup: coinswap pools, LP tokens to everybody, params
	for i := 0; i < 6; i++ {
		txs := g.setup(g.view())
		if len(txs) == 0 {
			break
		}
		deliver(txs)
	}
	protect := map[string]bool{}
	newest := func(desc string) (farmtypes.FarmPool, bool) {
		v := g.view()
		ids := v.s.poolIDs()
		for i := len(ids) - 1; i >= 0; i-- {
			if p := v.s.Pools[ids[i]]; p.Description == desc {
				return p, true
			}
		}
		return farmtypes.FarmPool{}, false
	}
	stakeSome := func(v *farmView, p farmtypes.FarmPool, n int, amt func(i int) *big.Int) []rig.Tx {
		var out []rig.Tx
		for i, fi := range rng.Perm(len(g.farmers))[:n] {
			if tx, ok := g.mkStake(v, p, g.farmers[fi], amt(i), ""); ok {
				out = append(out, tx)
			}
		}
		return out
	}
	// prelude of case 0: one farmer stakes 10, a block later nine others stake 1 each, 9 per block
	// (late small stakers joining at a fractional reward-per-share point), dedicated reward denom
	if c == 0 {
		v := g.view()
		cr := g.creators[0]
		deliver([]rig.Tx{r.Mk(cr, &farmTag{Kind: "create", Note: "late-small-stakers"}, &farmtypes.MsgCreatePool{Description: "late-small", LptDenom: v.lpts[0], StartHeight: v.h, RewardPerBlock: sdk.NewCoins(coin("rww", big.NewInt(9))), TotalReward: sdk.NewCoins(coin("rww", big.NewInt(9*45+4))), Editable: false, Creator: cr.Addr.String()})})
		if p, ok := newest("late-small"); ok {
			v = g.view()
			tx, _ := g.mkStake(v, p, g.farmers[0], big.NewInt(10), "")
			deliver([]rig.Tx{tx})
			v = g.view()
			var txs []rig.Tx
			for _, a := range append(append([]*rig.Account{}, g.farmers[1:]...), g.creators[1]) {
				if tx, ok := g.mkStake(v, p, a, big.NewInt(1), ""); ok {
					txs = append(txs, tx)
				}
			}
			deliver(txs)
			run.Count("late-small-stakers-prelude", 1)
		}
	}
	// prelude of case 1: one unit of reward per block; one farmer stakes 2, a block later (reward per share 0.5) two others
	// each stake 1 and top up by 2 in the same block, then four quiet blocks bring the reward per share to exactly 1:
	// no remainder of anybody's rounding is left to cover a unit paid too much when, in the what-if, everybody leaves
	if c%16 == 1 {
		v := g.view()
		cr := g.creators[0]
		deliver([]rig.Tx{r.Mk(cr, &farmTag{Kind: "create", Note: "same-block-top-up"}, &farmtypes.MsgCreatePool{Description: "same-block-top-up", LptDenom: v.lpts[0], StartHeight: v.h, RewardPerBlock: sdk.NewCoins(coin("rww", big.NewInt(1))), TotalReward: sdk.NewCoins(coin("rww", big.NewInt(40))), Editable: false, Creator: cr.Addr.String()})})
		if p, ok := newest("same-block-top-up"); ok && len(g.farmers) >= 3 {
			v = g.view()
			tx, _ := g.mkStake(v, p, g.farmers[0], big.NewInt(2), "")
			deliver([]rig.Tx{tx})
			v = g.view()
			var txs []rig.Tx
			for _, a := range g.farmers[1:3] {
				for _, n := range []int64{1, 2} {
					if tx, ok := g.mkStake(v, p, a, big.NewInt(n), ""); ok {
						txs = append(txs, tx)
					}
				}
			}
			deliver(txs)
			for i := 0; i < 4; i++ {
				deliver(nil)
			}
			run.Count("same-block-top-up-prelude", 1)
		}
	}
	endgame := blocks - 24
	for b := 0; b < blocks; b++ {
		restartFromOwnExport(run, r, c, b, blocks)
		v := g.view()
		allInfos := v.s.Farmers
		// random unstakes keep away from the pools the endgame needs populated
		if len(protect) > 0 {
			var keep []farmtypes.FarmInfo
			for _, f := range v.s.Farmers {
				if !protect[f.PoolId] {
					keep = append(keep, f)
				}
			}
			v.s.Farmers = keep
		}
		var extra []rig.Tx
		add := func(tx rig.Tx, ok bool) {
			if ok {
				extra = append(extra, tx)
			}
		}
		g.plainLists = true // the scripted creations below have to succeed: their coin lists stay in canonical order
		maxCat := int(v.s.Params.MaxRewardCategories)
		// in mid-life the authority lowers the number of reward denominations a pool may have to one, below what pools
		// created earlier carry, and restores it twelve blocks later: the pools that exist keep all their denominations
		if b == 40 && maxCat >= 2 {
			p := v.s.Params
			g.maxCatWas, p.MaxRewardCategories = p.MaxRewardCategories, 1
			extra = append(extra, r.InjectRoute(g.creators[0], &farmTag{Kind: "params", Note: "categories-lowered-in-mid-life"}, &farmtypes.MsgUpdateParams{Authority: r.GovAddr.String(), Params: p}))
			run.Count("reward-categories-lowered-below-existing-pools", 1)
		}
		if b == 52 && g.maxCatWas >= 2 {
			p := v.s.Params
			p.MaxRewardCategories = g.maxCatWas
			extra = append(extra, r.InjectRoute(g.creators[0], &farmTag{Kind: "params", Note: "categories-restored"}, &farmtypes.MsgUpdateParams{Authority: r.GovAddr.String(), Params: p}))
		}
		switch {
		case b == 0:
			add(g.mkCreate(v, "residue", 6+rng.Intn(5), 0, 1, true))
			nd := 2
			if maxCat < 2 {
				nd = 1
			}
			add(g.mkCreate(v, g.pickRegime(), 25, 8, nd, true))
		case b == 1:
			if p, ok := g.randPool(v.future); ok {
				add(g.mkStake(v, p, g.anyFarmer(), big.NewInt(3), "before-start"))
			}
			if p, ok := g.randPool(v.active); ok {
				extra = append(extra, stakeSome(v, p, 3, func(i int) *big.Int { return g.regimeAmt(p.Description, false) })...)
			}
		case b == 2:
			// the pool that has not started yet is topped up before its start ...
			if p, ok := g.randPool(v.future); ok && p.Editable && len(p.Rules) > 0 {
				if cr := g.acct(p.Creator); cr != nil {
					var add sdk.Coins
					for _, ru := range p.Rules {
						add = add.Add(coin(ru.Reward, new(big.Int).Mul(bi(ru.RewardPerBlock), big.NewInt(int64(3+rng.Intn(5))))))
					}
					extra = append(extra, r.Mk(cr, &farmTag{Kind: "adjust", Note: "top-up-before-start"}, &farmtypes.MsgAdjustPool{PoolId: p.Id, AdditionalReward: add, Creator: p.Creator}))
					g.topped = p.Id
					run.Count("pool-topped-up-before-its-start", 1)
				}
			}
		case g.topped != "" && !g.toppedStaked:
			// ... and the anchor farmer stakes in it once it has started and stays until it ends
			if p, ok := v.s.Pools[g.topped]; ok && p.StartHeight <= v.h {
				g.toppedStaked = true
				g.noTouch = map[string]bool{p.Id: true}
				add(g.mkStake(v, p, g.anchor, big.NewInt(int64(1000+rng.Intn(100000))), ""))
			}
		case b == endgame: // short-lived pool that expires with stakers in it
			g.nCreated = 0
			add(g.mkCreate(v, "residue-short", 5, 0, 1, false))
		case b == endgame+1:
			if p, ok := newest("residue-short"); ok {
				protect[p.Id] = true
				extra = append(extra, stakeSome(v, p, 3, func(i int) *big.Int { return big.NewInt(int64(1 + 4*i)) })...)
			}
		case b == endgame+8: // pool that is destroyed with stakers in it
			add(g.mkCreate(v, "mid-destroy", 40, 0, 1, true))
		case b == endgame+9:
			if p, ok := newest("mid-destroy"); ok {
				protect[p.Id] = true
				g.noTouch = map[string]bool{p.Id: true}
				extra = append(extra, stakeSome(v, p, 3, func(i int) *big.Int { return g.regimeAmt("mid", false) })...)
			}
		case b == endgame+11:
			if p, ok := newest("mid-destroy"); ok && len(p.Rules) == 1 {
				// top-up and a slightly higher rate (keeps the pool alive until it is destroyed)
				ru := p.Rules[0]
				if cr := g.acct(p.Creator); cr != nil {
					extra = append(extra, r.Mk(cr, &farmTag{Kind: "adjust", Note: "endgame"}, &farmtypes.MsgAdjustPool{PoolId: p.Id, Creator: p.Creator,
						AdditionalReward: sdk.NewCoins(coin(ru.Reward, new(big.Int).Mul(bi(ru.RewardPerBlock), big.NewInt(10)))),
						RewardPerBlock:   sdk.NewCoins(coin(ru.Reward, new(big.Int).Add(bi(ru.RewardPerBlock), bigOne)))}))
				}
			}
		case b == endgame+14:
			if p, ok := newest("mid-destroy"); ok {
				add(g.mkDestroy(p))
			}
		case b == endgame+16: // pool still running when the history ends
			add(g.mkCreate(v, "residue-live", 60, 0, 1, false))
		case b == endgame+17:
			if p, ok := newest("residue-live"); ok {
				protect[p.Id] = true
				extra = append(extra, stakeSome(v, p, 3, func(i int) *big.Int { return big.NewInt(int64(2 + 3*i)) })...)
			}
		}
		// an operation in the block in which a pool ends
		for _, p := range v.active {
			if p.EndHeight == v.h {
				for _, f := range allInfos {
					if f.PoolId == p.Id {
						if a := g.acct(f.Address); a != nil {
							extra = append(extra, r.Mk(a, &farmTag{Kind: "harvest", Note: "ending-block"}, &farmtypes.MsgHarvest{PoolId: p.Id, Sender: f.Address}))
							break
						}
					}
				}
				if p.Editable && !g.noTouch[p.Id] && rng.Intn(2) == 0 {
					add(g.mkAdjust(v, p, rng.Intn(3)))
				}
			}
		}
		// the authority moves the pool creation fee and its tax rate around (odd amounts, rates whose product with the fee
		// is fractional, the extremes): the fee of every later pool creation is split under the values in force
		if b > 2 && b%19 == 7 {
			p := v.s.Params
			p.PoolCreationFee = sdk.NewCoin(p.PoolCreationFee.Denom, toInt(pick(rng, big.NewInt(5001), big.NewInt(1), big.NewInt(7), big.NewInt(999), big.NewInt(5000), new(big.Int).Add(pow2(70), bigOne))))
			p.TaxRate = pick(rng, sdkmath.LegacyNewDecWithPrec(4, 1), sdkmath.LegacyNewDecWithPrec(333333333333333333, 18), sdkmath.LegacySmallestDec(), sdkmath.LegacyOneDec().Sub(sdkmath.LegacySmallestDec()), sdkmath.LegacyNewDecWithPrec(5, 1), sdkmath.LegacyZeroDec(), sdkmath.LegacyOneDec())
			extra = append(extra, r.InjectRoute(g.stranger, &farmTag{Kind: "params", Note: "fee-and-tax"}, &farmtypes.MsgUpdateParams{Authority: r.GovAddr.String(), Params: p}))
			run.Count("farm-fee-parameters-changed", 1)
		}
		// periodic short-lived pools so that natural expiry keeps happening
		if b > 2 && b%23 == 0 && b < endgame && len(v.s.Pools) < g.maxPools {
			add(g.mkCreate(v, g.pickRegime(), 4+rng.Intn(6), int64(rng.Intn(2)), 1+rng.Intn(maxInt(maxCat, 1)), rng.Intn(2) == 0))
		}
		g.plainLists = false
		deliver(g.block(v, extra))
		if b >= 2 && rng.Intn(6) == 0 { // block gap
			for k := 1 + rng.Intn(4); k > 0; k-- {
				deliver(nil)
			}
		}
	}
	// epilogue: everybody really withdraws everything, in a PRNG order
	v := g.view()
	var txs []rig.Tx
	for _, i := range rng.Perm(len(v.s.Farmers)) {
		f := v.s.Farmers[i]
		if a := g.acct(f.Address); a != nil {
			txs = append(txs, g.mkUnstake(a, f.PoolId, v.s.Pools[f.PoolId].TotalLptLocked.Denom, bi(f.Locked), "epilogue", ""))
		}
	}
	br := deliver(txs)
	if post, ok := br.PostEnd.(*farmSnap); ok {
		m.eval("C05", 1)
		var held []string
		for _, cn := range post.Bal[farmEscrowAddr] {
			if isLpt(cn.Denom) {
				held = append(held, cn.String())
			}
		}
		if len(post.Farmers) > 0 || len(held) > 0 {
			allOK := true
			for _, tx := range br.Txs {
				allOK = allOK && tx.OK()
			}
			if allOK {
				m.viol("C05", "full-withdrawal-leaves-residue", map[string]any{"farmer_records": len(post.Farmers), "escrow_staked_tokens": held}, "after the full-withdrawal epilogue %d farmer records and escrowed staked tokens %v remain", len(post.Farmers), held)
			}
		} else {
			run.Count("epilogue-complete", 1)
		}
	}
	deliver(nil)
	deliver(nil)
	for _, k := range []string{"pool-created", "stake-ok", "release-span", "pool-expired-naturally", "pool-destroyed", "adjust-ok", "multi-op-block", "block-gap", "pool-future-start", "hostile-before-start-rejected"} {
		run.Require(k, 1)
	}
	if mode == "C05" {
		for _, k := range []string{"unstake-active-ok", "unstake-partial-ok", "whatif-solo", "whatif-all", "whatif-partial", "epilogue-unstake-active-ok", "epilogue-unstake-expired-ok", "epilogue-unstake-destroyed-ok"} {
			run.Require(k, 1)
		}
	} else {
		for _, k := range []string{"harvest-ok", "adjust-topup-ok", "adjust-rpb-ok", "refund-endblock", "refund-destroy", "op-in-ending-block", "payout-bound-checked", "release-zero-stake-span"} {
			run.Require(k, 1)
		}
		if g.maxCat != 1 {
			run.Require("multi-denom-pool", 1)
		}
	}
}

func maxI64(a, b int64) int64 {
	if a > b {
		return a
	}
	return b
}

func maxInt(a, b int) int {
	if a > b {
		return a
	}
	return b
}

// ---------------------------------------------------------------------------------------------
// twin histories (C06): the same scripted history twice, differing only in harvest frequency

type farmTwOp struct {
	Kind   string // stake | unstake | adjust
	Farmer int
	Amt    *big.Int
	Add    sdk.Coins
	Rpb    sdk.Coins
}

type farmTwBlock struct {
	Ops      []farmTwOp
	HarvestA []int
	HarvestB []int
}

type farmTwResult struct {
	outcomes []bool
	paid     map[string]map[string]*big.Int
	exact    map[string]map[string]*big.Rat
	trunc    map[string]map[string]*big.Rat
	k        map[string]int
	denoms   []string
	ok       bool
	settled  bool // the final withdrawal of everybody succeeded, so nothing accrued is still unpaid
}

func runFarmTwins(run *ev.Run, c int) {
	rng := run.Rng
	regime := []string{"residue", "mid", "residue", "big", "mixed"}[c%5]
	nden := 1 + c%2
	denoms := []string{"rwa", "rwb"}[:nden]
	nF := 6
	blocks := 45
	if run.Thorough() {
		blocks = 120
	}
	probe := &farmGen{run: run, maxBits: 90}
	var rates, totals sdk.Coins
	for _, d := range denoms {
		rate := probe.regimeAmt(regime, true)
		rates = rates.Add(coin(d, rate))
		t := new(big.Int).Mul(rate, big.NewInt(int64(blocks+30+rng.Intn(10))))
		t.Add(t, new(big.Int).Rand(rng, rate))
		totals = totals.Add(coin(d, t))
	}
	// script with a shadow of the stakes so that every scripted op is admissible
	shadow := make([]*big.Int, nF)
	for i := range shadow {
		shadow[i] = new(big.Int)
	}
	curRate := map[string]*big.Int{}
	for _, cn := range rates {
		curRate[cn.Denom] = bi(cn.Amount)
	}
	script := make([]farmTwBlock, blocks)
	for b := range script {
		n := rng.Intn(4)
		if b == 0 {
			n = 2
		}
		for i := 0; i < n; i++ {
			f := rng.Intn(nF)
			switch k := rng.Intn(10); {
			case k < 5 || shadow[f].Sign() == 0 && k < 9:
				a := probe.regimeAmt(regime, false)
				shadow[f].Add(shadow[f], a)
				script[b].Ops = append(script[b].Ops, farmTwOp{Kind: "stake", Farmer: f, Amt: a})
			case k < 9:
				a := randBelow(rng, shadow[f])
				if rng.Intn(4) == 0 {
					a = new(big.Int).Set(shadow[f])
				}
				shadow[f].Sub(shadow[f], a)
				script[b].Ops = append(script[b].Ops, farmTwOp{Kind: "unstake", Farmer: f, Amt: a})
			default:
				d := denoms[rng.Intn(len(denoms))]
				op := farmTwOp{Kind: "adjust"}
				if len(denoms) > 1 && rng.Intn(3) == 0 {
					// every denomination's rate lowered by one in one message (a rate-only list of several coins)
					for _, dd := range denoms {
						if curRate[dd].Cmp(bigOne) > 0 {
							curRate[dd] = new(big.Int).Sub(curRate[dd], bigOne)
						}
						op.Rpb = op.Rpb.Add(coin(dd, curRate[dd]))
					}
				} else if rng.Intn(2) == 0 {
					op.Add = sdk.NewCoins(coin(d, new(big.Int).Mul(curRate[d], big.NewInt(int64(1+rng.Intn(5))))))
				} else {
					nr := probe.regimeAmt(regime, true)
					// keep the budget sufficient: only lower the rate
					if nr.Cmp(curRate[d]) < 0 {
						op.Rpb = sdk.NewCoins(coin(d, nr))
						curRate[d] = nr
					} else {
						op.Add = sdk.NewCoins(coin(d, curRate[d]))
					}
				}
				script[b].Ops = append(script[b].Ops, op)
			}
		}
		if rng.Intn(10) == 0 {
			script[b].HarvestA = []int{rng.Intn(nF)}
		}
		script[b].HarvestB = append(script[b].HarvestB, script[b].HarvestA...)
		for k := rng.Intn(4); k > 0; k-- {
			script[b].HarvestB = append(script[b].HarvestB, rng.Intn(nF))
		}
	}
	exec := func(twin string) *farmTwResult {
		r, g := newFarmRig(run, fmt.Sprintf("farmtwin-%d-%d", run.Seed, c))
		m := newFarmMon(run, r, "C06")
		deliver := func(txs []rig.Tx) *rig.BlockRecord {
			br := r.DeliverBlock(6*time.Second, txs)
			m.observe(br)
			return br
		}
		for i := 0; i < 6; i++ {
			txs := g.setup(g.view())
			if len(txs) == 0 {
				break
			}
			deliver(txs)
		}
		v := g.view()
		res := &farmTwResult{paid: map[string]map[string]*big.Int{}, exact: map[string]map[string]*big.Rat{}, trunc: map[string]map[string]*big.Rat{}, k: map[string]int{}, denoms: denoms}
		if len(v.lpts) == 0 {
			return res
		}
		cr := g.creators[0]
		deliver([]rig.Tx{r.Mk(cr, &farmTag{Kind: "create", Note: "twin"}, &farmtypes.MsgCreatePool{Description: regime, LptDenom: v.lpts[0], StartHeight: v.h, RewardPerBlock: rates, TotalReward: totals, Editable: true, Creator: cr.Addr.String()})})
		var pid string
		for id := range m.pools {
			pid = id
		}
		if pid == "" {
			return res
		}
		lpt := v.lpts[0]
		for _, blk := range script {
			var txs []rig.Tx
			nScripted := 0
			for _, op := range blk.Ops {
				a := g.farmers[op.Farmer]
				switch op.Kind {
				case "stake":
					txs = append(txs, r.Mk(a, &farmTag{Kind: "stake", Note: "twin"}, &farmtypes.MsgStake{PoolId: pid, Amount: coin(lpt, op.Amt), Sender: a.Addr.String()}))
				case "unstake":
					txs = append(txs, g.mkUnstake(a, pid, lpt, op.Amt, "unstake", ""))
				case "adjust":
					msg := &farmtypes.MsgAdjustPool{PoolId: pid, Creator: cr.Addr.String()}
					if !op.Add.Empty() {
						msg.AdditionalReward = op.Add
					}
					note := "twin"
					if !op.Rpb.Empty() {
						msg.RewardPerBlock = op.Rpb
						if len(op.Rpb) > 1 && op.Add.Empty() {
							// a rate-only adjustment of several denominations, listed in reverse order (both twins alike)
							msg.RewardPerBlock = make(sdk.Coins, len(op.Rpb))
							for i, c := range op.Rpb {
								msg.RewardPerBlock[len(op.Rpb)-1-i] = c
							}
							note += "/coins-listed-in-reverse-order"
							run.Count("twin-rate-only-adjustment-listed-in-reverse-order", 1)
						}
					}
					txs = append(txs, r.Mk(cr, &farmTag{Kind: "adjust", Note: note}, msg))
				}
				nScripted++
			}
			hv := blk.HarvestA
			if twin == "B" {
				hv = blk.HarvestB
			}
			for _, f := range hv {
				a := g.farmers[f]
				txs = append(txs, r.Mk(a, &farmTag{Kind: "harvest", Note: "twin-" + twin}, &farmtypes.MsgHarvest{PoolId: pid, Sender: a.Addr.String()}))
			}
			br := deliver(txs)
			for i := 0; i < nScripted; i++ {
				res.outcomes = append(res.outcomes, br.Txs[i].OK())
			}
		}
		// everybody withdraws everything
		vv := g.view()
		var txs []rig.Tx
		for _, f := range vv.s.Farmers {
			if a := g.acct(f.Address); a != nil {
				txs = append(txs, g.mkUnstake(a, f.PoolId, lpt, bi(f.Locked), "epilogue", ""))
			}
		}
		br := deliver(txs)
		res.settled = true
		for _, tx := range br.Txs {
			res.outcomes = append(res.outcomes, tx.OK())
			res.settled = res.settled && tx.OK()
		}
		p := m.pools[pid]
		for a, f := range p.F {
			res.paid[a], res.exact[a], res.trunc[a] = f.Paid, f.Exact, f.Trunc
			res.k[a] = f.K
		}
		res.ok = !p.Desync
		run.Count("twin-history-run", 1)
		return res
	}
	A := exec("A")
	B := exec("B")
	same := A.ok && B.ok && A.settled && B.settled && len(A.outcomes) == len(B.outcomes)
	if same {
		for i := range A.outcomes {
			if A.outcomes[i] != B.outcomes[i] {
				same = false
			}
		}
	}
	if !same {
		run.Count("twin-diverged", 1)
		run.Note("twin histories of case %d are not comparable: a scripted operation had different outcomes, the final withdrawal failed, or a model mismatch was reported", c)
	} else {
		addrs := make([]string, 0, len(A.paid))
		for a := range A.paid {
			addrs = append(addrs, a)
		}
		sort.Strings(addrs)
		for _, a := range addrs {
			if B.paid[a] == nil {
				continue
			}
			for _, d := range denoms {
				if A.exact[a][d].Cmp(B.exact[a][d]) != 0 {
					run.Inconc("twin script of case %d is not harvest-only different: exact shares differ for %s %s", c, a, d)
					continue
				}
				// both payouts lie within their own bound around the same exact share E:
				// P_A < E + K_A and P_B > E − K_B − T_B  ⇒  P_A − P_B < K_A + K_B + T_B, and symmetrically
				diff := new(big.Rat).SetInt(new(big.Int).Sub(A.paid[a][d], B.paid[a][d]))
				ks := new(big.Rat).SetInt64(int64(A.k[a] + B.k[a]))
				hi := new(big.Rat).Add(ks, B.trunc[a][d])
				lo := new(big.Rat).Neg(new(big.Rat).Add(ks, A.trunc[a][d]))
				run.Eval(1)
				run.Count("twin-compared", 1)
				run.Class("twin", regime, nden, "paid="+magClass(A.paid[a][d]), fmt.Sprint("equal=", diff.Sign() == 0))
				run.Sample("C06:twin", map[string]any{"farmer": a, "denom": d, "paid_rare_harvest": A.paid[a][d].String(), "paid_frequent_harvest": B.paid[a][d].String(), "interactions": []int{A.k[a], B.k[a]}, "exact": A.exact[a][d].FloatString(6)})
				if diff.Cmp(lo) <= 0 || diff.Cmp(hi) >= 0 {
					run.Violation("C06:farm:payout-depends-on-harvest-frequency", map[string]any{"farmer": a, "denom": d, "rare": A.paid[a][d].String(), "frequent": B.paid[a][d].String(), "kA": A.k[a], "kB": B.k[a], "exact": A.exact[a][d].FloatString(6)},
						"farmer %s %s: cumulative payout %s with rare harvests, %s with frequent harvests (interactions %d / %d, exact share %s): difference beyond the rounding bound", shortAddr(a), d, A.paid[a][d], B.paid[a][d], A.k[a], B.k[a], A.exact[a][d].FloatString(6))
				}
			}
		}
		run.Require("twin-compared", 1)
	}
	run.Require("twin-history-run", 2)
	run.Require("harvest-ok", 1)
	run.Require("payout-bound-checked", 1)
}

// farmListOrder: a message may list its coins in any order (the wire format does not sort them, and the messages' own
// stateless validation sorts a copy before judging); one list in four with two or more coins is sent in reverse order
func farmListOrder(rng *rand.Rand, cs sdk.Coins, note *string) sdk.Coins {
	if len(cs) < 2 || rng.Intn(4) != 0 {
		return cs
	}
	out := make(sdk.Coins, len(cs))
	for i, c := range cs {
		out[len(cs)-1-i] = c
	}
	*note += "/coins-listed-in-reverse-order"
	return out
}
