package prop

import (
	"encoding/json"
	"fmt"
	"math/rand"
	"sort"
	"os"
	"strings"
	"time"

	"github.com/cosmos/cosmos-sdk/codec"
	sdk "github.com/cosmos/cosmos-sdk/types"
	"github.com/cosmos/cosmos-sdk/types/query"

	nfttypes "mods.irisnet.org/modules/nft/types"

	"verif/internal/ev"
	"verif/internal/rig"
)

func init() {
	Register(&Spec{
		ID: "C14", Level: "exploration",
		Rule: "cases = chains driven by the NFT director (issue-class with every restriction-flag combination / mint / edit / transfer with and without metadata change incl. the do-not-modify sentinel / burn / re-mint / transfer-class, each by owner, class creator and stranger); after every tx the complete NFT state read through the module's queries is compared with a reference ownership map; non-trivial = successful tx or targeted hostile rejection; distinct = distinct (op, actor role, class flags, change kind, outcome); since rounds 11-14: texts at and beyond the documented lengths, recipients empty / upper-case / 32 bytes, restart from the chain's own export in every fourth chain; since rounds 15-19: class ids of unusual spelling (reserved beginnings, dash, zero byte, separator) are tried and minted into; a panic of the module's queries under the observer's snapshot is judged (query-panicked)",
		Assume: []string{"the set of addresses that can own tokens is the set the director ever used as recipient", "a failed tx leaves no trace because BaseApp drops its branch"},
		Cases:  func(t string) int { return tierN(t, 16, 32) },
		Run:    runNFT,
	})
}

type nftTok struct{ Owner, Name, URI, URIHash, Data string }
type nftClass struct {
	Creator                          string
	MintRestricted, UpdateRestricted bool
	Name, Schema, Symbol, Desc, URI, URIHash, Data string
	Toks                             map[string]*nftTok
}

type nftTag struct {
	Op, Role, Change string
	Permitted        bool
	Why              string
}

type nftWorkload struct {
	run   *ev.Run
	r     *rig.Rig
	model map[string]*nftClass
	addrs map[string]bool
	nCls  int
	nTok  int
	quiet bool // as part of the all-modules director: no model tracking of foreign effects
	followUp []mtFollow // after a rolled-back class handover: the would-be new creator tries to use the class
}

func newNFTWorkload() *nftWorkload {
	return &nftWorkload{model: map[string]*nftClass{}, addrs: map[string]bool{}}
}

func (w *nftWorkload) Name() string                                        { return "nft" }
func (w *nftWorkload) Genesis(codec.Codec, map[string]json.RawMessage) {}
func (w *nftWorkload) Attach(run *ev.Run, r *rig.Rig) {
	w.run, w.r = run, r
	for _, a := range r.Accounts {
		w.addrs[a.Addr.String()] = true
	}
}

func (w *nftWorkload) sortedClasses() []string {
	var ids []string
	for id := range w.model {
		ids = append(ids, id)
	}
	sort.Strings(ids)
	return ids
}

// nftLong: text at and beyond the lengths the module documents for its fields (256 bytes for a uri)
func nftLong(rng *rand.Rand) string {
	n := pick(rng, 255, 256, 257, 300, 1500)
	return strings.Repeat("l", n-4) + fmt.Sprintf("%04d", rng.Intn(10000))
}

func (w *nftWorkload) field(cur string) (string, string) {
	rng := w.run.Rng
	if rng.Intn(14) == 0 {
		return nftLong(rng), "change-long"
	}
	switch rng.Intn(4) {
	case 0:
		return nfttypes.DoNotModify, "keep"
	case 1:
		return cur, "same"
	default:
		return fmt.Sprintf("v%d", rng.Intn(1000)), "change"
	}
}

func (w *nftWorkload) dataField(cur string) (string, string) {
	rng := w.run.Rng
	switch rng.Intn(4) {
	case 0:
		return nfttypes.DoNotModify, "keep"
	case 1:
		return cur, "same"
	case 2:
		return "", "change"
	default:
		return fmt.Sprintf(`{"k":%d}`, rng.Intn(1000)), "change"
	}
}

var nftOddClassIDs = []string{"tibc-art", "tibc-art\x00vip", "tibcart", "ibcart", "pegasus", "htltx", "cls/a", "cls/a/b", "Upper1", "ab", "a-b-c", "cls\x00a", "artAB", "artab"}

// Next generates 1..4 NFT txs.
func (w *nftWorkload) Next(block int) []rig.Tx {
	rng := w.run.Rng
	r := w.r
	var out []rig.Tx
	for _, f := range w.followUp {
		if a := findAcc(r, f.Actor); a != nil && w.model[f.Class] != nil {
			tid := fmt.Sprintf("tok%d", w.nTok)
			w.nTok++
			out = append(out, r.Mk(a, &nftTag{Op: "mint"}, &nfttypes.MsgMintNFT{Id: tid, DenomId: f.Class, Name: "after-rollback", URI: "u", Data: "{}", Sender: f.Actor, Recipient: f.Actor}),
				r.Mk(a, &nftTag{Op: "transfer-class"}, &nfttypes.MsgTransferDenom{Id: f.Class, Sender: f.Actor, Recipient: f.Actor}))
		}
	}
	w.followUp = nil
	var last []sdk.Msg
	if k := block - 9; !w.quiet && k >= 0 && k <= len(nftOddClassIDs) {
		// class ids of unusual spelling (reserved beginnings, a dash, a zero byte, a separator), one per block: whichever of
		// them the chain accepts is a class like any other from then on, and tokens are minted into it in the next block.
		// (A refused one is refused before its sequence number is consumed: it goes last in its block.)
		a := r.Acc(0)
		if k > 0 {
			if c := w.model[nftOddClassIDs[k-1]]; c != nil {
				for n := 0; n < 2; n++ {
					tid := fmt.Sprintf("tok%d", w.nTok)
					w.nTok++
					out = append(out, r.Mk(a, &nftTag{Op: "mint"}, &nfttypes.MsgMintNFT{Id: tid, DenomId: nftOddClassIDs[k-1], Name: "odd", URI: "u", Data: "{}", Sender: c.Creator, Recipient: c.Creator}))
				}
				w.run.Count("class-id-of-unusual-spelling-accepted", 1)
			}
		}
		if k < len(nftOddClassIDs) {
			last = append(last, &nfttypes.MsgIssueDenom{Id: nftOddClassIDs[k], Name: "odd", Schema: "s", Sender: a.Addr.String(), Symbol: "sy", Description: "d", Uri: "u", UriHash: "h", Data: "{}"})
			w.run.Count("class-id-of-unusual-spelling-tried", 1)
		}
	}
	if classes := w.sortedClasses(); len(classes) > 0 && block == 12 && !w.quiet {
		// one owner holds more than a hundred tokens of one class (list queries page at 100)
		cid := classes[0]
		if a := findAcc(r, w.model[cid].Creator); a != nil {
			for i := 0; i < 105; i++ {
				tid := fmt.Sprintf("tok%d", w.nTok)
				w.nTok++
				out = append(out, r.Mk(a, &nftTag{Op: "mint"}, &nfttypes.MsgMintNFT{Id: tid, DenomId: cid, Name: "bulk", URI: "u", Data: "{}", Sender: a.Addr.String(), Recipient: a.Addr.String()}))
			}
			w.run.Count("bulk-mint-105-to-one-owner", 1)
		}
	}
	if classes := w.sortedClasses(); len(classes) > 0 && rng.Intn(4) == 0 && !w.quiet {
		// one transaction, two messages: a valid handover of the class by its creator, then a message that always fails
		// (burn of a token that does not exist): rolled back as a whole, nothing of the handover may remain
		cid := classes[rng.Intn(len(classes))]
		c := w.model[cid]
		if a, b := findAcc(r, c.Creator), r.Acc(rng.Intn(len(r.Accounts))); a != nil && a != b {
			tid := fmt.Sprintf("tok%d", w.nTok)
			w.nTok++
			out = append(out, r.Mk(a, &nftTag{Op: "bundle-rolled-back"},
				&nfttypes.MsgTransferDenom{Id: cid, Sender: c.Creator, Recipient: b.Addr.String()},
				// the class is read again inside the same transaction (by its former creator), then the transaction fails
				&nfttypes.MsgMintNFT{Id: tid, DenomId: cid, Name: "in-bundle", URI: "u", Data: "{}", Sender: c.Creator, Recipient: c.Creator},
				&nfttypes.MsgBurnNFT{Id: "nosuchtoken", DenomId: cid, Sender: c.Creator}))
			w.followUp = append(w.followUp, mtFollow{Class: cid, Actor: b.Addr.String()})
		}
	}
	n := 1 + rng.Intn(4)
	// the model is advanced optimistically inside a block only by Observe; intents are planned against the committed model,
	// so ops in one block may conflict — permission is re-evaluated in Observe against the model state at that tx.
	for i := 0; i < n; i++ {
		a := r.Acc(rng.Intn(len(r.Accounts)))
		classes := w.sortedClasses()
		wts := []int{6, 25, 15, 25, 10, 6}
		if len(classes) == 0 {
			wts = []int{1, 0, 0, 0, 0, 0}
		}
		switch weighted(rng, wts) {
		case 0:
			id := fmt.Sprintf("cls%d", w.nCls)
			if len(classes) > 0 && rng.Intn(5) == 0 {
				id = classes[rng.Intn(len(classes))] // duplicate issue
			} else {
				w.nCls++
			}
			msg := &nfttypes.MsgIssueDenom{Id: id, Name: "n" + id, Schema: "s", Sender: a.Addr.String(), Symbol: "sy", MintRestricted: rng.Intn(2) == 0, UpdateRestricted: rng.Intn(2) == 0, Description: "d", Uri: "u", UriHash: "h", Data: `{"a":1}`}
			if rng.Intn(4) == 0 {
				// one class in four carries a long text in one of its fields
				switch rng.Intn(5) {
				case 0:
					msg.Uri = nftLong(rng)
				case 1:
					msg.UriHash = nftLong(rng)
				case 2:
					msg.Description = nftLong(rng)
				case 3:
					msg.Name = nftLong(rng)
				default:
					msg.Schema = nftLong(rng)
				}
			}
			out = append(out, r.Mk(a, &nftTag{Op: "issue"}, msg))
		case 1:
			cid := classes[rng.Intn(len(classes))]
			c := w.model[cid]
			actor := w.actor(c.Creator, "")
			tid := fmt.Sprintf("tok%d", w.nTok)
			if other := w.model[classes[rng.Intn(len(classes))]]; rng.Intn(8) == 0 && other != c && len(other.Toks) > 0 {
				// a token id that another class already uses (ids are unique within a class only)
				ids := sortedToks(other)
				if cand := ids[rng.Intn(len(ids))]; c.Toks[cand] == nil {
					tid = cand
					w.run.Count("token-id-of-another-class-minted", 1)
				} else {
					w.nTok++
				}
			} else if len(c.Toks) > 0 && rng.Intn(6) == 0 {
				for k := range sortedToks(c) {
					_ = k
				}
				ids := sortedToks(c)
				tid = ids[rng.Intn(len(ids))]
			} else {
				w.nTok++
			}
			rcpt := w.recipient()
			msg := &nfttypes.MsgMintNFT{Id: tid, DenomId: cid, Name: pick(rng, "nm", nfttypes.DoNotModify, ""), URI: "uri", UriHash: "hash", Data: pick(rng, "", `{"x":1}`), Sender: actor.Addr.String(), Recipient: rcpt}
			if rng.Intn(10) == 0 {
				if rng.Intn(2) == 0 {
					msg.URI = nftLong(rng)
				} else {
					msg.UriHash = nftLong(rng)
				}
			}
			out = append(out, r.Mk(actor, &nftTag{Op: "mint"}, msg))
		case 2, 3, 4:
			// pick an existing token
			cid := classes[rng.Intn(len(classes))]
			c := w.model[cid]
			ids := sortedToks(c)
			if len(ids) == 0 {
				continue
			}
			tid := ids[rng.Intn(len(ids))]
			t := c.Toks[tid]
			actor := w.actor(t.Owner, c.Creator)
			nm, _ := w.field(t.Name)
			uri, _ := w.field(t.URI)
			uh, _ := w.field(t.URIHash)
			dt, _ := w.dataField(t.Data)
			if rng.Intn(3) == 0 {
				nm, uri, uh, dt = nfttypes.DoNotModify, nfttypes.DoNotModify, nfttypes.DoNotModify, nfttypes.DoNotModify
			}
			switch rng.Intn(5) {
			case 0:
				out = append(out, r.Mk(actor, &nftTag{Op: "burn"}, &nfttypes.MsgBurnNFT{Id: tid, DenomId: cid, Sender: actor.Addr.String()}))
			case 1, 2:
				out = append(out, r.Mk(actor, &nftTag{Op: "edit"}, &nfttypes.MsgEditNFT{Id: tid, DenomId: cid, Name: nm, URI: uri, UriHash: uh, Data: dt, Sender: actor.Addr.String()}))
			default:
				rcpt := w.recipient()
				if rng.Intn(6) == 0 {
					rcpt = actor.Addr.String()
				}
				out = append(out, r.Mk(actor, &nftTag{Op: "transfer"}, &nfttypes.MsgTransferNFT{Id: tid, DenomId: cid, Name: nm, URI: uri, UriHash: uh, Data: dt, Sender: actor.Addr.String(), Recipient: rcpt}))
			}
		case 5:
			cid := classes[rng.Intn(len(classes))]
			c := w.model[cid]
			actor := w.actor(c.Creator, "")
			out = append(out, r.Mk(actor, &nftTag{Op: "transfer-class"}, &nfttypes.MsgTransferDenom{Id: cid, Sender: actor.Addr.String(), Recipient: w.recipient()}))
		}
	}
	for _, m := range last {
		out = append(out, r.Mk(r.Acc(0), &nftTag{Op: "issue"}, m))
	}
	return out
}

func sortedToks(c *nftClass) []string {
	var ids []string
	for id := range c.Toks {
		ids = append(ids, id)
	}
	sort.Strings(ids)
	return ids
}

// actor picks the rightful party most of the time, otherwise the other privileged party or a stranger.
func (w *nftWorkload) actor(rightful, other string) *rig.Account {
	rng := w.run.Rng
	find := func(addr string) *rig.Account {
		for _, a := range w.r.Accounts {
			if a.Addr.String() == addr {
				return a
			}
		}
		return nil
	}
	switch rng.Intn(10) {
	case 0, 1:
		if other != "" {
			if a := find(other); a != nil {
				return a
			}
		}
		fallthrough
	case 2, 3:
		return w.r.Acc(rng.Intn(len(w.r.Accounts)))
	default:
		if a := find(rightful); a != nil {
			return a
		}
		return w.r.Acc(rng.Intn(len(w.r.Accounts)))
	}
}

func (w *nftWorkload) recipient() string {
	rng := w.run.Rng
	if rng.Intn(8) == 0 {
		a := sdk.AccAddress([]byte(fmt.Sprintf("nft-fresh-addr-%05d", rng.Intn(50)))).String()
		if rng.Intn(2) == 0 {
			a = sdk.AccAddress([]byte(fmt.Sprintf("nft-fresh-32-byte-address--%05d", rng.Intn(50)))).String()
		}
		w.addrs[a] = true
		return a
	}
	if rng.Intn(25) == 0 {
		// nobody: the message's stateless validation refuses it; if it gets through, the token must still have an owner
		w.run.Count("recipient-left-empty", 1)
		return ""
	}
	if rng.Intn(8) == 0 {
		// the other valid spelling of the same account
		w.run.Count("recipient-spelled-in-upper-case", 1)
		return strings.ToUpper(w.r.Acc(rng.Intn(len(w.r.Accounts))).Addr.String())
	}
	return w.r.Acc(rng.Intn(len(w.r.Accounts))).Addr.String()
}

func modify(cur, target string) string {
	if target == nfttypes.DoNotModify {
		return cur
	}
	return target
}

// Observe advances the reference model with every successful tx and, if a run is attached for C14, judges permission.
func (w *nftWorkload) Observe(br *rig.BlockRecord) {
	judgeSnapPanics(w.run, w.r, "C14:nft", w.quiet)
	for _, tx := range br.Txs {
		tag, _ := tx.Tag.(*nftTag)
		if tag != nil && tag.Op == "bundle-rolled-back" {
			w.run.Eval(1)
			w.run.Count("nft-bundle-rolled-back"+okSuffix(tx), 1)
			if tx.OK() && !w.quiet {
				w.run.Violation("C14:nft:transaction-with-a-failing-message-succeeded", map[string]any{"height": br.Height, "msgs": msgBrief(tx.Msgs)}, "a transaction whose second message burns a token that does not exist succeeded")
			}
			continue
		}
		if tag == nil || len(tx.Msgs) != 1 {
			continue
		}
		w.apply(br, tx, tag)
	}
}

func (w *nftWorkload) role(sender string, c *nftClass, t *nftTok) string {
	switch {
	case t != nil && sender == t.Owner && c != nil && sender == c.Creator:
		return "owner+creator"
	case t != nil && sender == t.Owner:
		return "owner"
	case c != nil && sender == c.Creator:
		return "creator"
	default:
		return "stranger"
	}
}

func (w *nftWorkload) apply(br *rig.BlockRecord, tx *rig.TxRecord, tag *nftTag) {
	run := w.run
	ok := tx.OK()
	viol := func(key string, f string, a ...any) {
		if w.quiet {
			return
		}
		run.Violation("C14:nft:"+key, map[string]any{"msgs": msgBrief(tx.Msgs), "height": br.Height}, f, a...)
	}
	outcome := "rejected"
	if ok {
		outcome = "ok"
	}
	switch m := tx.Msgs[0].(type) {
	case *nfttypes.MsgIssueDenom:
		_, exists := w.model[m.Id]
		tag.Permitted = !exists
		if ok {
			if exists {
				viol("class-id-reused", "class %s issued again while it exists", m.Id)
			}
			w.model[m.Id] = &nftClass{Creator: m.Sender, MintRestricted: m.MintRestricted, UpdateRestricted: m.UpdateRestricted, Name: m.Name, Schema: m.Schema, Symbol: m.Symbol, Desc: m.Description, URI: m.Uri, URIHash: m.UriHash, Data: m.Data, Toks: map[string]*nftTok{}}
		}
		run.Class("issue", fmt.Sprint("dup=", exists), fmt.Sprint(m.MintRestricted, m.UpdateRestricted), outcome)
		if m.Name == "odd" {
			run.Count(fmt.Sprintf("odd-class-id %q: %s", m.Id, outcome+" "+htErrClass(tx.Result.Log)), 1)
		}
	case *nfttypes.MsgMintNFT:
		c := w.model[m.DenomId]
		if c == nil {
			if ok {
				viol("mint-into-missing-class", "mint into unknown class %s succeeded", m.DenomId)
			}
			return
		}
		_, exists := c.Toks[m.Id]
		role := w.role(m.Sender, c, nil)
		tag.Permitted = !exists && (!c.MintRestricted || m.Sender == c.Creator)
		if ok {
			if exists {
				viol("token-id-reused", "token %s/%s minted again while it exists", m.DenomId, m.Id)
			}
			if c.MintRestricted && m.Sender != c.Creator {
				viol("mint-restricted-class-minted-by-non-creator", "%s minted %s into mint-restricted class %s created by %s", m.Sender, m.Id, m.DenomId, c.Creator)
			}
			c.Toks[m.Id] = &nftTok{Owner: htCanonAddr(m.Recipient), Name: m.Name, URI: m.URI, URIHash: m.UriHash, Data: m.Data}
			w.addrs[htCanonAddr(m.Recipient)] = true
		}
		run.Class("mint", role, fmt.Sprint("restricted=", c.MintRestricted), fmt.Sprint("dup=", exists), outcome)
		if !ok && c.MintRestricted && m.Sender != c.Creator {
			run.Count("hostile-mint-rejected", 1)
		}
	case *nfttypes.MsgEditNFT:
		c := w.model[m.DenomId]
		if c == nil || c.Toks[m.Id] == nil {
			if ok {
				viol("edit-missing-token", "edit of unknown token %s/%s succeeded", m.DenomId, m.Id)
			}
			return
		}
		t := c.Toks[m.Id]
		role := w.role(m.Sender, c, t)
		nt := nftTok{Owner: t.Owner, Name: modify(t.Name, m.Name), URI: modify(t.URI, m.URI), URIHash: modify(t.URIHash, m.UriHash), Data: modify(t.Data, m.Data)}
		changed := nt != *t
		if ok {
			if m.Sender != t.Owner {
				viol("edit-by-non-owner", "%s (%s) edited %s/%s owned by %s", m.Sender, role, m.DenomId, m.Id, t.Owner)
			}
			if c.UpdateRestricted && changed {
				viol("update-restricted-metadata-changed:edit", "edit changed metadata of %s/%s in update-restricted class", m.DenomId, m.Id)
			}
			*t = nt
		}
		run.Class("edit", role, fmt.Sprint("update-restricted=", c.UpdateRestricted), fmt.Sprint("changed=", changed), outcome)
		if !ok && m.Sender != t.Owner {
			run.Count("hostile-edit-rejected", 1)
		}
	case *nfttypes.MsgTransferNFT:
		c := w.model[m.DenomId]
		if c == nil || c.Toks[m.Id] == nil {
			if ok {
				viol("transfer-missing-token", "transfer of unknown token %s/%s succeeded", m.DenomId, m.Id)
			}
			return
		}
		t := c.Toks[m.Id]
		role := w.role(m.Sender, c, t)
		nt := nftTok{Owner: htCanonAddr(m.Recipient), Name: modify(t.Name, m.Name), URI: modify(t.URI, m.URI), URIHash: modify(t.URIHash, m.UriHash), Data: modify(t.Data, m.Data)}
		changed := nt.Name != t.Name || nt.URI != t.URI || nt.URIHash != t.URIHash || nt.Data != t.Data
		sentinel := m.Name == nfttypes.DoNotModify && m.URI == nfttypes.DoNotModify && m.UriHash == nfttypes.DoNotModify && m.Data == nfttypes.DoNotModify
		if ok {
			if m.Sender != t.Owner {
				viol("transfer-by-non-owner", "%s (%s) transferred %s/%s owned by %s", m.Sender, role, m.DenomId, m.Id, t.Owner)
			}
			if c.UpdateRestricted && changed {
				viol("update-restricted-metadata-changed:transfer", "transfer changed metadata of %s/%s in update-restricted class", m.DenomId, m.Id)
			}
			*t = nt
			w.addrs[htCanonAddr(m.Recipient)] = true
		}
		run.Class("transfer", role, fmt.Sprint("update-restricted=", c.UpdateRestricted), fmt.Sprint("changed=", changed, " sentinel=", sentinel, " self=", htCanonAddr(m.Recipient) == m.Sender), outcome)
		if !ok && m.Sender != t.Owner {
			run.Count("hostile-transfer-rejected", 1)
		}
	case *nfttypes.MsgBurnNFT:
		c := w.model[m.DenomId]
		if c == nil || c.Toks[m.Id] == nil {
			if ok {
				viol("burn-missing-token", "burn of unknown token %s/%s succeeded", m.DenomId, m.Id)
			}
			return
		}
		t := c.Toks[m.Id]
		role := w.role(m.Sender, c, t)
		if ok {
			if m.Sender != t.Owner {
				viol("burn-by-non-owner", "%s (%s) burned %s/%s owned by %s", m.Sender, role, m.DenomId, m.Id, t.Owner)
			}
			delete(c.Toks, m.Id)
		}
		run.Class("burn", role, outcome)
		if !ok && m.Sender != t.Owner {
			run.Count("hostile-burn-rejected", 1)
		}
	case *nfttypes.MsgTransferDenom:
		c := w.model[m.Id]
		if c == nil {
			if ok {
				viol("transfer-missing-class", "handover of unknown class %s succeeded", m.Id)
			}
			return
		}
		role := w.role(m.Sender, c, nil)
		if ok {
			if m.Sender != c.Creator {
				viol("class-handover-by-non-creator", "%s handed over class %s created by %s", m.Sender, m.Id, c.Creator)
			}
			c.Creator = htCanonAddr(m.Recipient)
			w.addrs[htCanonAddr(m.Recipient)] = true
		}
		run.Class("transfer-class", role, outcome)
		if !ok && m.Sender != c.Creator {
			run.Count("hostile-handover-rejected", 1)
		}
	}
	run.Count("nft-"+tag.Op+"-"+outcome, 1)
	run.Op("h=%d #%d nft %s ok=%v %s", br.Height, tx.Index, msgBrief(tx.Msgs), ok, logBrief(tx))
	if ok && !w.quiet && tx.Post != nil {
		if snap, isSnap := tx.Post.(*nftSnap); isSnap {
			w.compare(br, tx, snap)
		}
	}
}

// nftSnap is the complete NFT state as the module reports it.
type nftSnap struct {
	Classes  map[string]*nftClass
	Supply   map[string]uint64            // class -> reported supply
	Balance  map[string]map[string]uint64 // class -> owner -> reported balance
	OwnerIDs map[string]map[string][]string // owner -> class -> ids (NFTsOfOwner query)
	Errs     []string
}

func (w *nftWorkload) snapshot(ctx sdk.Context) *nftSnap {
	k := w.r.K.NFT
	s := &nftSnap{Classes: map[string]*nftClass{}, Supply: map[string]uint64{}, Balance: map[string]map[string]uint64{}, OwnerIDs: map[string]map[string][]string{}}
	var denoms []nfttypes.Denom
	for key := []byte(nil); ; {
		dres, err := k.Denoms(ctx, &nfttypes.QueryDenomsRequest{Pagination: pageFrom(key)})
		if err != nil {
			s.Errs = append(s.Errs, "Denoms: "+err.Error())
			return s
		}
		denoms = append(denoms, dres.Denoms...)
		if dres.Pagination == nil || len(dres.Pagination.NextKey) == 0 {
			break
		}
		key = dres.Pagination.NextKey
	}
	var addrs []string
	for a := range w.addrs {
		addrs = append(addrs, a)
	}
	sort.Strings(addrs)
	for _, d := range denoms {
		c := &nftClass{Creator: d.Creator, MintRestricted: d.MintRestricted, UpdateRestricted: d.UpdateRestricted, Name: d.Name, Schema: d.Schema, Symbol: d.Symbol, Desc: d.Description, URI: d.Uri, URIHash: d.UriHash, Data: d.Data, Toks: map[string]*nftTok{}}
		for key := []byte(nil); ; {
			cres, err := k.Collection(ctx, &nfttypes.QueryCollectionRequest{DenomId: d.Id, Pagination: pageFrom(key)})
			if err != nil {
				s.Errs = append(s.Errs, "Collection: "+err.Error())
				break
			}
			for _, n := range cres.Collection.NFTs {
				if _, dup := c.Toks[n.Id]; dup {
					s.Errs = append(s.Errs, fmt.Sprintf("collection %s lists token %s twice", d.Id, n.Id))
				}
				c.Toks[n.Id] = &nftTok{Owner: n.Owner, Name: n.Name, URI: n.URI, URIHash: n.UriHash, Data: n.Data}
			}
			if cres.Pagination == nil || len(cres.Pagination.NextKey) == 0 {
				break
			}
			key = cres.Pagination.NextKey
		}
		s.Classes[d.Id] = c
		sres, err := k.Supply(ctx, &nfttypes.QuerySupplyRequest{DenomId: d.Id})
		if err == nil {
			s.Supply[d.Id] = sres.Amount
		}
		s.Balance[d.Id] = map[string]uint64{}
		for _, a := range addrs {
			bres, err := k.Supply(ctx, &nfttypes.QuerySupplyRequest{DenomId: d.Id, Owner: a})
			if err == nil && bres.Amount > 0 {
				s.Balance[d.Id][a] = bres.Amount
			}
		}
	}
	for _, a := range addrs {
		m := map[string][]string{}
		for key := []byte(nil); ; {
			ores, err := k.NFTsOfOwner(ctx, &nfttypes.QueryNFTsOfOwnerRequest{Owner: a, Pagination: pageFrom(key)})
			if err != nil {
				s.Errs = append(s.Errs, "NFTsOfOwner: "+err.Error())
				break
			}
			for _, idc := range ores.Owner.IDCollections {
				m[idc.DenomId] = append(m[idc.DenomId], idc.TokenIds...)
			}
			if ores.Pagination == nil || len(ores.Pagination.NextKey) == 0 {
				break
			}
			key = ores.Pagination.NextKey
		}
		s.OwnerIDs[a] = m
	}
	return s
}

// compare checks chain state == model and the supply/ownership relations.
func (w *nftWorkload) compare(br *rig.BlockRecord, tx *rig.TxRecord, s *nftSnap) {
	run := w.run
	det := map[string]any{"height": br.Height, "msgs": msgBrief(tx.Msgs)}
	for _, e := range s.Errs {
		run.Violation("C14:nft:query-error", det, "%s", e)
	}
	run.Eval(1)
	if len(s.Classes) != len(w.model) {
		run.Violation("C14:nft:class-set-differs", det, "chain has %d classes, reference has %d", len(s.Classes), len(w.model))
	}
	for id, mc := range w.model {
		cc := s.Classes[id]
		if cc == nil {
			run.Violation("C14:nft:class-missing", det, "class %s missing on chain", id)
			continue
		}
		run.Eval(3)
		if cc.Creator != mc.Creator {
			run.Violation("C14:nft:class-creator-differs", det, "class %s creator on chain %s, expected %s", id, cc.Creator, mc.Creator)
		}
		if cc.MintRestricted != mc.MintRestricted || cc.UpdateRestricted != mc.UpdateRestricted || cc.Name != mc.Name || cc.Schema != mc.Schema || cc.Symbol != mc.Symbol || cc.Desc != mc.Desc || cc.URI != mc.URI || cc.URIHash != mc.URIHash || cc.Data != mc.Data {
			run.Violation("C14:nft:class-attributes-changed", det, "class %s attributes on chain %+v, expected %+v", id, *cc, *mc)
		}
		if os.Getenv("VERIF_DEBUG") == "nftodd" && strings.HasPrefix(id, "tibc-") {
			fmt.Fprintf(os.Stderr, "DBG h=%d %q chain=%d model=%d supply=%d\n", br.Height, id, len(cc.Toks), len(mc.Toks), s.Supply[id])
		}
		if len(cc.Toks) != len(mc.Toks) {
			run.Violation("C14:nft:token-set-differs", det, "class %s has %d tokens on chain, %d expected", id, len(cc.Toks), len(mc.Toks))
		}
		perOwner := map[string]uint64{}
		for tid, mt := range mc.Toks {
			ct := cc.Toks[tid]
			run.Eval(2)
			if ct == nil {
				run.Violation("C14:nft:token-missing", det, "token %s/%s missing on chain", id, tid)
				continue
			}
			if ct.Owner == "" {
				run.Violation("C14:nft:token-without-owner", det, "token %s/%s has no owner", id, tid)
			}
			if ct.Owner != mt.Owner {
				run.Violation("C14:nft:owner-differs", det, "token %s/%s owned by %s on chain, expected %s", id, tid, ct.Owner, mt.Owner)
			}
			if ct.Name != mt.Name || ct.URI != mt.URI || ct.URIHash != mt.URIHash || ct.Data != mt.Data {
				run.Violation("C14:nft:metadata-differs", det, "token %s/%s metadata on chain %+v, expected %+v", id, tid, *ct, *mt)
			}
			perOwner[ct.Owner]++
		}
		// supply == number of tokens == sum of balances; balances per owner == tokens listed for that owner
		run.Eval(2)
		if s.Supply[id] != uint64(len(cc.Toks)) {
			run.Violation("C14:nft:supply-differs-from-token-count", det, "class %s reports supply %d but lists %d tokens", id, s.Supply[id], len(cc.Toks))
		}
		var sum uint64
		for a, b := range s.Balance[id] {
			sum += b
			if perOwner[a] != b {
				run.Violation("C14:nft:balance-differs-from-owned-tokens", det, "class %s: %s has balance %d but owns %d tokens", id, a, b, perOwner[a])
			}
		}
		if sum != s.Supply[id] {
			run.Violation("C14:nft:supply-differs-from-sum-of-balances", det, "class %s supply %d, sum of owner balances %d", id, s.Supply[id], sum)
		}
		// owner listing: every token listed under exactly its owner
		listed := map[string]string{}
		for a, m := range s.OwnerIDs {
			for _, tid := range m[id] {
				if prev, dup := listed[tid]; dup {
					run.Violation("C14:nft:token-listed-under-two-owners", det, "token %s/%s listed for %s and %s", id, tid, prev, a)
				}
				listed[tid] = a
			}
		}
		for tid, ct := range cc.Toks {
			if listed[tid] != ct.Owner {
				run.Violation("C14:nft:owner-listing-differs", det, "token %s/%s owner %s, listed under %q", id, tid, ct.Owner, listed[tid])
			}
		}
	}
	run.Sample("nft-state", map[string]any{"height": br.Height, "after": msgBrief(tx.Msgs), "classes": len(s.Classes)})
}

// The module's list queries return at most 100 entries per page: read all pages.
func pageFrom(key []byte) *query.PageRequest { return &query.PageRequest{Key: key, Limit: 100} }

func runNFT(run *ev.Run, c int) {
	w := newNFTWorkload()
	r := rig.New(rig.Options{Seed: fmt.Sprintf("nft-%d-%d", run.Seed, c), NumAccounts: 5, Balances: sdk.NewCoins(sdk.NewInt64Coin(rig.BondDenom, 1_000_000)), InflationOff: true, SubSecond: c%2 == 1})
	w.Attach(run, r)
	r.Snapshot = func(ctx sdk.Context) any { return w.snapshot(ctx) }
	r.SnapRecover = true
	blocks := tierN(run.Tier, 200, 450)
	for b := 0; b < blocks; b++ {
		restartFromOwnExport(run, r, c, b, blocks)
		br := r.DeliverBlock(time.Second, w.Next(b))
		if br.FinalErr != nil {
			run.Inconc("FinalizeBlock failed: %v", br.FinalErr)
			return
		}
		w.Observe(br)
	}
	if c%4 == 1 {
		run.Require("restarted-from-own-export", 1)
	}
	for _, n := range []string{"nft-mint-ok", "nft-transfer-ok", "nft-edit-ok", "nft-burn-ok", "nft-transfer-class-ok", "hostile-transfer-rejected", "hostile-edit-rejected", "hostile-burn-rejected", "hostile-mint-rejected", "hostile-handover-rejected"} {
		run.Require(n, 1)
	}
}
