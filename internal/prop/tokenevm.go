package prop

import (
	"context"
	"encoding/json"
	"fmt"
	"math/big"
	"sort"

	storetypes "cosmossdk.io/store/types"
	cryptotypes "github.com/cosmos/cosmos-sdk/crypto/types"
	sdk "github.com/cosmos/cosmos-sdk/types"
	"github.com/ethereum/go-ethereum/common"
	"github.com/ethereum/go-ethereum/core"
	ethtypes "github.com/ethereum/go-ethereum/core/types"
	"github.com/ethereum/go-ethereum/core/vm"
	"github.com/ethereum/go-ethereum/crypto"

	"mods.irisnet.org/modules/token/contracts"
	tokentypes "mods.irisnet.org/modules/token/types"
)

// tkEVM is the harness EVM for the token module (C10). It is the repository's in-memory mock
// (modules/token/keeper/mock.go) re-implemented on a KV store of the application's multistore
// ("verifevm"), so that everything a contract call changed is reverted together with a failed
// transaction, exactly as with a real EVM module. It understands the ABI of the repository's
// contracts package: creation through the TokenProxy constructor (beacon, initialize(name,
// symbol, scale, owner)), name/symbol/decimals/totalSupply/balanceOf, and the owner-only
// mint/burn. Like a real EVM it bumps the creator's nonce on contract creation (the repository
// mock does not, which makes every deployed contract land on the same address), refuses
// mint/burn from anyone but the contract owner and reverts a burn above the balance.
//
// A fault script (one-shot faults armed by a harness operation inside a carrier transaction)
// makes chosen calls fail, revert, take no/short/excess effect, credit another holder, or
// report a wrong balance, so that failures happen inside real transactions.
type tkEVM struct {
	key *storetypes.KVStoreKey
	// ak is bound after the rig exists (the EVM is handed to the app before the app exists).
	ak tkEVMAccounts
	// faults is the armed script; every fault fires at most once.
	faults []tkFault
	// fired counts faults that actually fired, by kind (evidence).
	fired map[string]int
	// unsupported holds addresses (hex of the pubkey address) whose key type the EVM "does not support".
	unsupported map[string]bool
}

type tkEVMAccounts interface {
	GetAccount(ctx context.Context, addr sdk.AccAddress) sdk.AccountI
	SetAccount(ctx context.Context, acc sdk.AccountI)
}

// tkFault: the Skip+1-th call of Method ("mint", "burn", "balanceOf", "create", "*") misbehaves.
type tkFault struct {
	Method string `json:"method"`
	Skip   int    `json:"skip"`
	// Kind: err (keeper error) | revert (VM revert) | noop (reports success, changes nothing) |
	// short (effect is amount-1) | over (effect is amount+1) | wrongholder (effect on another
	// holder) | lie (balanceOf reports balance+1)
	Kind string `json:"kind"`
}

var _ tokentypes.EVMKeeper = (*tkEVM)(nil)

const tkEVMStoreName = "verifevm"

func newTkEVM() *tkEVM {
	return &tkEVM{key: storetypes.NewKVStoreKey(tkEVMStoreName), fired: map[string]int{}, unsupported: map[string]bool{}}
}

type tkContractMeta struct {
	Name   string `json:"name"`
	Symbol string `json:"symbol"`
	Scale  uint8  `json:"scale"`
	Owner  string `json:"owner"` // hex
}

func (e *tkEVM) storeKeys() []*storetypes.KVStoreKey { return []*storetypes.KVStoreKey{e.key} }

func tkKeyMeta(c common.Address) []byte   { return append([]byte("c/"), c.Bytes()...) }
func tkKeySupply(c common.Address) []byte { return append([]byte("s/"), c.Bytes()...) }
func tkKeyBal(c, h common.Address) []byte {
	return append(append([]byte("b/"), c.Bytes()...), h.Bytes()...)
}

func (e *tkEVM) ChainID() *big.Int { return big.NewInt(16688) }

func (e *tkEVM) EstimateGas(ctx context.Context, req *tokentypes.EthCallRequest) (uint64, error) {
	return 3000000, nil
}

func (e *tkEVM) SupportedKey(pk cryptotypes.PubKey) bool {
	if pk == nil {
		return true
	}
	return !e.unsupported[common.BytesToAddress(pk.Address()).Hex()]
}

func (e *tkEVM) arm(fs []tkFault) { e.faults = append([]tkFault{}, fs...) }

func (e *tkEVM) take(method string) *tkFault {
	for i := range e.faults {
		f := &e.faults[i]
		if f.Method != method && f.Method != "*" {
			continue
		}
		if f.Skip > 0 {
			f.Skip--
			continue
		}
		out := *f
		e.faults = append(e.faults[:i], e.faults[i+1:]...)
		e.fired[out.Kind]++
		return &out
	}
	return nil
}

func (e *tkEVM) meta(ctx sdk.Context, c common.Address) (tkContractMeta, bool) {
	bz := ctx.KVStore(e.key).Get(tkKeyMeta(c))
	if bz == nil {
		return tkContractMeta{}, false
	}
	var m tkContractMeta
	if err := json.Unmarshal(bz, &m); err != nil {
		panic(err)
	}
	return m, true
}

func (e *tkEVM) getBig(ctx sdk.Context, k []byte) *big.Int {
	bz := ctx.KVStore(e.key).Get(k)
	return new(big.Int).SetBytes(bz)
}

func (e *tkEVM) setBig(ctx sdk.Context, k []byte, v *big.Int) {
	if v.Sign() < 0 {
		panic("harness EVM: negative amount")
	}
	if v.Sign() == 0 {
		ctx.KVStore(e.key).Delete(k)
		return
	}
	ctx.KVStore(e.key).Set(k, v.Bytes())
}

func tkReverted(reason string) *tokentypes.Result {
	return &tokentypes.Result{VMError: vm.ErrExecutionReverted.Error(), Ret: []byte(reason)}
}

var tkUint256Max = new(big.Int).Sub(new(big.Int).Lsh(big.NewInt(1), 256), big.NewInt(1))

// ApplyMessage implements types.EVMKeeper.
func (e *tkEVM) ApplyMessage(ctx sdk.Context, msg core.Message, tracer vm.EVMLogger, commit bool) (*tokentypes.Result, error) {
	if msg.To() == nil {
		return e.create(ctx, msg, commit)
	}
	to := *msg.To()
	meta, ok := e.meta(ctx, to)
	if !ok {
		return nil, fmt.Errorf("erc20 contract not found")
	}
	data := msg.Data()
	if len(data) < 4 {
		return tkReverted("no selector"), nil
	}
	method, err := contracts.ERC20TokenContract.ABI.MethodById(data[0:4])
	if err != nil {
		return nil, err
	}
	args, err := method.Inputs.Unpack(data[4:])
	if err != nil {
		return nil, err
	}
	res := &tokentypes.Result{Hash: to.Hex()}
	f := e.take(method.Name)
	if f != nil {
		switch f.Kind {
		case "err":
			return nil, fmt.Errorf("harness EVM: injected failure of %s", method.Name)
		case "revert":
			return tkReverted("injected revert"), nil
		}
	}
	switch method.Name {
	case "name":
		res.Ret, err = method.Outputs.Pack(meta.Name)
	case "symbol":
		res.Ret, err = method.Outputs.Pack(meta.Symbol)
	case "decimals":
		res.Ret, err = method.Outputs.Pack(meta.Scale)
	case "totalSupply":
		res.Ret, err = method.Outputs.Pack(e.getBig(ctx, tkKeySupply(to)))
	case "balanceOf":
		b := e.getBig(ctx, tkKeyBal(to, args[0].(common.Address)))
		if f != nil && f.Kind == "lie" {
			b.Add(b, bigOne)
		}
		res.Ret, err = method.Outputs.Pack(b)
	case "mint", "burn":
		if msg.From().Hex() != meta.Owner {
			return tkReverted("OwnableUnauthorizedAccount"), nil
		}
		holder := args[0].(common.Address)
		amt := new(big.Int).Set(args[1].(*big.Int))
		if !commit {
			return res, nil
		}
		if f != nil {
			switch f.Kind {
			case "noop":
				return res, nil
			case "short":
				if amt.Sign() > 0 {
					amt.Sub(amt, bigOne)
				}
			case "over":
				amt.Add(amt, bigOne)
			case "short64": // off by a whole 64-bit word: the low words of expected and actual balance agree
				if amt.Cmp(pow2(64)) >= 0 {
					amt.Sub(amt, pow2(64))
				} else if amt.Sign() > 0 {
					amt.Sub(amt, bigOne)
				}
			case "over64":
				amt.Add(amt, pow2(64))
			case "wrongholder":
				holder = common.BigToAddress(new(big.Int).Add(new(big.Int).SetBytes(holder.Bytes()), bigOne))
			}
		}
		bal := e.getBig(ctx, tkKeyBal(to, holder))
		sup := e.getBig(ctx, tkKeySupply(to))
		if method.Name == "mint" {
			bal.Add(bal, amt)
			sup.Add(sup, amt)
			if sup.Cmp(tkUint256Max) > 0 {
				return tkReverted("arithmetic overflow"), nil
			}
		} else {
			if bal.Cmp(amt) < 0 {
				return tkReverted("ERC20InsufficientBalance"), nil
			}
			bal.Sub(bal, amt)
			sup.Sub(sup, amt)
		}
		e.setBig(ctx, tkKeyBal(to, holder), bal)
		e.setBig(ctx, tkKeySupply(to), sup)
	default:
		return nil, fmt.Errorf("unknown method %s", method.Name)
	}
	if err != nil {
		return nil, err
	}
	return res, nil
}

func (e *tkEVM) create(ctx sdk.Context, msg core.Message, commit bool) (*tokentypes.Result, error) {
	if f := e.take("create"); f != nil {
		switch f.Kind {
		case "err":
			return nil, fmt.Errorf("harness EVM: injected failure of create")
		default:
			return tkReverted("injected revert"), nil
		}
	}
	contractAddr := crypto.CreateAddress(msg.From(), msg.Nonce())
	bin := contracts.TokenProxyContract.Bin
	if len(msg.Data()) < len(bin) {
		return nil, fmt.Errorf("harness EVM: unknown creation code")
	}
	args, err := contracts.TokenProxyContract.ABI.Constructor.Inputs.Unpack(msg.Data()[len(bin):])
	if err != nil {
		return nil, err
	}
	initData, ok := args[1].([]byte)
	if !ok || len(initData) < 4 {
		return nil, fmt.Errorf("harness EVM: bad initializer")
	}
	iargs, err := contracts.ERC20TokenContract.ABI.Methods[contracts.MethodInitialize].Inputs.Unpack(initData[4:])
	if err != nil {
		return nil, err
	}
	name, _ := iargs[0].(string)
	symbol, _ := iargs[1].(string)
	scale, _ := iargs[2].(uint8)
	owner, _ := iargs[3].(common.Address)
	if _, exists := e.meta(ctx, contractAddr); exists {
		return &tokentypes.Result{VMError: vm.ErrContractAddressCollision.Error()}, nil
	}
	if commit {
		bz, _ := json.Marshal(tkContractMeta{Name: name, Symbol: symbol, Scale: scale, Owner: owner.Hex()})
		ctx.KVStore(e.key).Set(tkKeyMeta(contractAddr), bz)
		// a real EVM increments the creator's nonce
		if e.ak != nil {
			if acc := e.ak.GetAccount(ctx, sdk.AccAddress(msg.From().Bytes())); acc != nil {
				if err := acc.SetSequence(msg.Nonce() + 1); err != nil {
					return nil, err
				}
				e.ak.SetAccount(ctx, acc)
			}
		}
	}
	return &tokentypes.Result{Hash: contractAddr.Hex()}, nil
}

// swapToNative plays the contract's swapToNative(to, amount) called by holder `from` in a user's
// EVM transaction: burn the holder's balance and emit the SwapToNative log.
func (e *tkEVM) swapToNative(ctx sdk.Context, contract, from common.Address, to string, amount *big.Int) (*ethtypes.Log, error) {
	if _, ok := e.meta(ctx, contract); !ok {
		return nil, fmt.Errorf("erc20 contract not found")
	}
	if len(to) == 0 {
		return nil, fmt.Errorf("execution reverted: to must be vaild iaa address")
	}
	bal := e.getBig(ctx, tkKeyBal(contract, from))
	if bal.Cmp(amount) < 0 {
		return nil, fmt.Errorf("execution reverted: ERC20InsufficientBalance")
	}
	sup := e.getBig(ctx, tkKeySupply(contract))
	e.setBig(ctx, tkKeyBal(contract, from), bal.Sub(bal, amount))
	e.setBig(ctx, tkKeySupply(contract), sup.Sub(sup, amount))
	return tkSwapToNativeLog(contract, from, to, amount)
}

func tkSwapToNativeLog(contract, from common.Address, to string, amount *big.Int) (*ethtypes.Log, error) {
	ev := contracts.ERC20TokenContract.ABI.Events[contracts.EventSwapToNative]
	data, err := ev.Inputs.Pack(from, to, amount)
	if err != nil {
		return nil, err
	}
	return &ethtypes.Log{Address: contract, Topics: []common.Hash{ev.ID}, Data: data}, nil
}

// tkEVMState is the observable EVM state: per contract total supply and holder balances.
type tkEVMContract struct {
	Meta   tkContractMeta
	Supply *big.Int
	Bal    map[string]*big.Int // holder hex -> balance
}

func (e *tkEVM) state(ctx sdk.Context) map[string]*tkEVMContract {
	out := map[string]*tkEVMContract{}
	st := ctx.KVStore(e.key)
	it := storetypes.KVStorePrefixIterator(st, []byte("c/"))
	for ; it.Valid(); it.Next() {
		c := common.BytesToAddress(it.Key()[2:])
		var m tkContractMeta
		_ = json.Unmarshal(it.Value(), &m)
		out[c.Hex()] = &tkEVMContract{Meta: m, Supply: new(big.Int), Bal: map[string]*big.Int{}}
	}
	it.Close()
	it = storetypes.KVStorePrefixIterator(st, []byte("s/"))
	for ; it.Valid(); it.Next() {
		c := common.BytesToAddress(it.Key()[2:])
		if ct := out[c.Hex()]; ct != nil {
			ct.Supply = new(big.Int).SetBytes(it.Value())
		}
	}
	it.Close()
	it = storetypes.KVStorePrefixIterator(st, []byte("b/"))
	for ; it.Valid(); it.Next() {
		k := it.Key()[2:]
		c, h := common.BytesToAddress(k[:20]), common.BytesToAddress(k[20:])
		ct := out[c.Hex()]
		if ct == nil { // balance under a non-existent contract: keep it visible
			ct = &tkEVMContract{Supply: new(big.Int), Bal: map[string]*big.Int{}}
			out[c.Hex()] = ct
		}
		ct.Bal[h.Hex()] = new(big.Int).SetBytes(it.Value())
	}
	it.Close()
	return out
}

// tkEVMDelta returns after-before per "contract/holder" and per "contract/supply", omitting zeros.
func tkEVMDelta(before, after map[string]*tkEVMContract) map[string]*big.Int {
	out := map[string]*big.Int{}
	add := func(k string, v *big.Int, sign int) {
		cur := out[k]
		if cur == nil {
			cur = new(big.Int)
			out[k] = cur
		}
		if sign > 0 {
			cur.Add(cur, v)
		} else {
			cur.Sub(cur, v)
		}
	}
	for c, ct := range after {
		add(c+"/supply", ct.Supply, 1)
		for h, b := range ct.Bal {
			add(c+"/"+h, b, 1)
		}
	}
	for c, ct := range before {
		add(c+"/supply", ct.Supply, -1)
		for h, b := range ct.Bal {
			add(c+"/"+h, b, -1)
		}
	}
	for k, v := range out {
		if v.Sign() == 0 {
			delete(out, k)
		}
	}
	return out
}

func tkDiffFlat(exp, act map[string]*big.Int) []string {
	var out []string
	seen := map[string]bool{}
	for _, m := range []map[string]*big.Int{exp, act} {
		for k := range m {
			if seen[k] {
				continue
			}
			seen[k] = true
			e, g := bigZero, bigZero
			if exp[k] != nil {
				e = exp[k]
			}
			if act[k] != nil {
				g = act[k]
			}
			if e.Cmp(g) != 0 {
				out = append(out, fmt.Sprintf("%s: expected %s got %s", k, e, g))
			}
		}
	}
	sort.Strings(out)
	return out
}
