// Package prop holds one workload director + monitor set per property.
package prop

import (
	"sort"

	"verif/internal/ev"
)

// Spec describes how a property is decided.
type Spec struct {
	ID     string
	Level  string // evidence level
	Rule   string // how cases are generated and what makes one non-trivial / distinct
	Assume []string
	// Cases returns the number of independent cases (child processes) for a tier.
	Cases func(tier string) int
	// Run executes case c and reports into run.
	Run func(run *ev.Run, c int)
	// Race: the thorough tier additionally runs RaceCases cases in the -race binary.
	RaceCases func(tier string) []int
	// RequireTotals: counters that must reach a minimum over all cases together (else inconclusive).
	RequireTotals map[string]int64
	// DeathKey maps the log tail of a child that died without a result to a violation key, when such a death is
	// itself the sanitizer's verdict (checkptr fault, race detector abort). Otherwise the death is inconclusive.
	DeathKey func(logTail string) (string, bool)
}

var registry = map[string]*Spec{}

func Register(s *Spec) { registry[s.ID] = s }

func Get(id string) *Spec { return registry[id] }

func IDs() []string {
	var out []string
	for k := range registry {
		out = append(out, k)
	}
	sort.Strings(out)
	return out
}

func tierN(tier string, quick, thorough int) int {
	if tier == "thorough" {
		return thorough
	}
	return quick
}
