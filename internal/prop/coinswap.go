package prop

import (
	"strings"
	"encoding/json"
	"fmt"
	"math/big"
	"time"

	sdkmath "cosmossdk.io/math"
	"github.com/cosmos/cosmos-sdk/codec"
	sdk "github.com/cosmos/cosmos-sdk/types"
	authtypes "github.com/cosmos/cosmos-sdk/x/auth/types"
	vestingtypes "github.com/cosmos/cosmos-sdk/x/auth/vesting/types"
	banktypes "github.com/cosmos/cosmos-sdk/x/bank/types"

	cskeeper "mods.irisnet.org/modules/coinswap/keeper"
	cstypes "mods.irisnet.org/modules/coinswap/types"

	"verif/internal/ev"
	"verif/internal/rig"
)

// Shared director for C01 (share value / pricing) and C02 (settlement).

func init() {
	Register(&Spec{
		ID: "C01", Level: "exploration",
		Rule: "cases = chains driven by the coinswap director (add/remove/one-sided add/remove/4 swap kinds x single/double hop/donations/fee changes of which one in three is rolled back with its transaction, amounts from magnitude classes up to 2^128 with tight/loose bounds) plus direct calls of GetInputPrice/GetOutputPrice; a case is non-trivial when the tx succeeded (or the pure call returned) and the share-value or leg relation was evaluated; distinct = distinct (op kind, hop, magnitude class of reserves, magnitude of amount, fee config, relation outcome strict/equal); since rounds 11-14: orders buying what they sell, recipients in upper-case bech32 and as 32-byte addresses, a vesting account opened at the next pool's reserve address, every fourth chain restarted once from its own export (a pool whose denomination does not sort last opened before, another after)",
		Assume: []string{"pool reserves are the bank balances of the pool escrow address in the two pool denoms", "fee in force is the params value read before the tx", "Int overflow panics (beyond 256 bit) are rejections"},
		Cases:  func(t string) int { return tierN(t, 16, 64) },
		Run:    func(run *ev.Run, c int) { runCoinswap(run, c, "C01") },
	})
	Register(&Spec{
		ID: "C02", Level: "exploration",
		Rule: "same director as C01; monitor = complete bank balance sheet (every account, every denom, every supply) before/after every tx against the expected-delta model of the message; non-trivial = successful coinswap tx whose full delta was compared; distinct = distinct (msg kind, hop, recipient kind, bound kind, deadline kind, pool-created flag); since rounds 11-14: tight minima on refills of emptied pools, recipients in upper-case bech32 / 32 bytes, restart from the chain's own export in every fourth chain",
		Assume: []string{"tx fees are zero in the harness so the ante handler moves no coins", "a failed tx leaves no trace because BaseApp drops its branch (checked at the next observation point)"},
		Cases:  func(t string) int { return tierN(t, 16, 64) },
		Run:    func(run *ev.Run, c int) { runCoinswap(run, c, "C02") },
	})
}

type csSnap struct {
	Bal    map[string]sdk.Coins
	Supply sdk.Coins
	Params cstypes.Params
	Pools  []cstypes.Pool
	Std    string
	Time   time.Time
}

type csTag struct {
	Kind      string // swap|add|remove|uniadd|uniremove|donate|params|send
	Hop       string // single|double
	Recipient string // self|other|fresh|blocked
	Bound     string // loose|tight|tight-1|stale
	Deadline  string // past|now|future
	Note      string
}

type csDirector struct {
	run    *ev.Run
	r      *rig.Rig
	mode   string
	denoms []string
	std    string
	touched map[string]bool
	feeCfg string
	next   time.Time // block time of the block being filled
	staged map[int]bool // scripted steps already sent
}

var csLookalikes = []string{"junk-1", "junk-2", "junk-3", "lpt-01", "lpt-02", "lpt-03"}

func runCoinswap(run *ev.Run, c int, mode string) {
	rng := run.Rng
	denoms := []string{"tka", "tkb", "tkc"}
	bal := sdk.NewCoins()
	huge := toInt(pow2(150))
	for _, d := range append([]string{rig.BondDenom}, denoms...) {
		bal = bal.Add(sdk.NewCoin(d, huge))
	}
	// coins whose names merely look like liquidity tokens of pools 1..3 (such denominations can reach a chain through
	// genesis or another module); they identify no pool
	for _, d := range csLookalikes {
		bal = bal.Add(sdk.NewCoin(d, toInt(pow2(100))))
	}
	r := rig.New(rig.Options{Seed: fmt.Sprintf("cs-%d-%d", run.Seed, c), NumAccounts: 6, Balances: bal, InflationOff: true})
	d := &csDirector{run: run, r: r, mode: mode, denoms: denoms, std: rig.BondDenom, feeCfg: "default", staged: map[int]bool{}}
	// one transaction in twenty is rolled back by a second message that cannot succeed, after its coinswap message ran
	r.Poison = func() bool { return rng.Intn(20) == 0 }
	r.Snapshot = func(ctx sdk.Context) any {
		return &csSnap{Bal: r.AllBalances(ctx), Supply: r.Supplies(ctx), Params: r.K.Coinswap.GetParams(ctx), Pools: r.K.Coinswap.GetAllPools(ctx), Std: r.K.Coinswap.GetStandardDenom(ctx), Time: ctx.BlockTime()}
	}
	// magnitude regime of this chain: small chains find residue effects, large ones overflow edges
	regimes := []int{22, 62, 66, 100, 128, 128}
	maxBits := regimes[c%len(regimes)]
	blocks := 250
	if run.Thorough() {
		blocks = 1500
	}
	if mode == "C01" && c%3 == 0 {
		d.pureProbe(tierN(run.Tier, 60000, 1000000))
	}
	for b := 0; b < blocks; b++ {
		restartFromOwnExport(run, r, c, b, blocks)
		d.touched = map[string]bool{}
		// the time of the block these intents will run in is drawn first, so that deadlines can be placed exactly at, just
		// before and just after it; block times carry a sub-second part like real consensus timestamps
		dt := time.Duration(1+rng.Intn(20)) * time.Second
		if rng.Intn(4) != 0 {
			dt += time.Duration(1+rng.Intn(999)) * time.Millisecond
		} else {
			dt = r.Time.Add(dt).Truncate(time.Second).Sub(r.Time) // a whole-second block time
		}
		d.next = r.Time.Add(dt)
		n := 1 + rng.Intn(5)
		var txs []rig.Tx
		if c%4 == 1 && b == blocks*3/5-5 {
			// shortly before the restart: the youngest pool is one whose denomination does not sort last
			a := r.Acc(rng.Intn(6))
			txs = append(txs, r.Mk(a, &csTag{Kind: "add", Note: "youngest-pool-does-not-sort-last", Bound: "new"}, &cstypes.MsgAddLiquidity{MaxToken: coin("junk-2", big.NewInt(3_000_000)), ExactStandardAmt: toInt(big.NewInt(2_000_000)), MinLiquidity: sdkmath.OneInt(), Deadline: d.next.Add(time.Hour).Unix(), Sender: a.Addr.String()}))
		}
		if c%4 == 1 && b == blocks*3/5+1 {
			// right after the restart from the chain's own export: a pool for one more denomination is opened (it takes
			// the next liquidity-token sequence number of the restarted chain)
			a := r.Acc(rng.Intn(6))
			txs = append(txs, r.Mk(a, &csTag{Kind: "add", Note: "pool-opened-after-the-restart", Bound: "new"}, &cstypes.MsgAddLiquidity{MaxToken: coin("junk-3", big.NewInt(3_000_000)), ExactStandardAmt: toInt(big.NewInt(2_000_000)), MinLiquidity: sdkmath.OneInt(), Deadline: d.next.Add(time.Hour).Unix(), Sender: a.Addr.String()}))
		}
		for i := 0; i < n; i++ {
			if tx, ok := d.intent(maxBits, b); ok {
				txs = append(txs, tx)
			}
		}
		br := r.DeliverBlock(dt, txs)
		d.observe(br)
	}
	run.Require("swap-single-ok", 1)
	run.Require("add-ok", 1)
	run.Require("remove-ok", 1)
}

func pa0(bech string) sdk.AccAddress { a, _ := sdk.AccAddressFromBech32(bech); return a }

func (d *csDirector) otherDenom(denom string) string {
	for _, o := range d.denoms {
		if o != denom {
			return o
		}
	}
	return denom
}

func (d *csDirector) pools(s *csSnap) map[string]cstypes.Pool {
	m := map[string]cstypes.Pool{}
	for _, p := range s.Pools {
		m[p.CounterpartyDenom] = p
	}
	return m
}

func (d *csDirector) cur() *csSnap { return d.r.Snapshot(d.r.Ctx()).(*csSnap) }

type poolState struct {
	X, Y, L *big.Int // standard reserve, token reserve, LPT supply
	P       cstypes.Pool
	ok      bool
}

func poolOf(s *csSnap, denom string) poolState {
	for _, p := range s.Pools {
		if p.CounterpartyDenom == denom {
			b := s.Bal[p.EscrowAddress]
			return poolState{X: amountOf(b, s.Std), Y: amountOf(b, denom), L: amountOf(s.Supply, p.LptDenom), P: p, ok: true}
		}
	}
	return poolState{X: new(big.Int), Y: new(big.Int), L: new(big.Int)}
}

func deltaOf(p cstypes.Params) *big.Int {
	return new(big.Int).Sub(e18, p.Fee.BigInt())
}

// refInput: largest recv with (x*1e18 + δ*paid)(y - recv) >= x*y*1e18.
func refInput(paid, x, y, delta *big.Int) *big.Int {
	num := new(big.Int).Mul(delta, paid)
	den := new(big.Int).Mul(x, e18)
	den.Add(den, num)
	num.Mul(num, y)
	if den.Sign() == 0 {
		return new(big.Int)
	}
	return num.Quo(num, den)
}

// csEqualityInput returns an input p with (x*1e18 + δ*p) dividing δ*p*y, if a small multiple of x gives one: with
// δ*p = k*x*1e18 the quote is k*y/(k+1).
func csEqualityInput(x, y, delta *big.Int) *big.Int {
	if x.Sign() <= 0 || y.Sign() <= 0 || delta.Sign() <= 0 {
		return nil
	}
	for k := int64(1); k <= 12; k++ {
		if new(big.Int).Mod(y, big.NewInt(k+1)).Sign() != 0 {
			continue
		}
		num := new(big.Int).Mul(x, big.NewInt(k))
		num.Mul(num, e18)
		if new(big.Int).Mod(num, delta).Sign() == 0 {
			return num.Quo(num, delta)
		}
	}
	return nil
}

// refOutput: smallest paid with (x*1e18 + δ*paid)(y - recv) >= x*y*1e18.
func refOutput(recv, x, y, delta *big.Int) *big.Int {
	num := new(big.Int).Mul(x, recv)
	num.Mul(num, e18)
	den := new(big.Int).Sub(y, recv)
	den.Mul(den, delta)
	if den.Sign() <= 0 {
		return nil
	}
	return ceilDiv(num, den)
}

func (d *csDirector) deadline(tag *csTag) int64 {
	rng := d.run.Rng
	// next block time is at most +20s from now; "now" = exactly the earliest possible next block time is unknowable, so
	// use future / past relative to the current time; the monitor classifies by the actual block time.
	switch rng.Intn(10) {
	case 0:
		tag.Deadline = "past"
		return d.r.Time.Unix() - int64(rng.Intn(100))
	case 1:
		tag.Deadline = "near"
		return d.r.Time.Unix() + int64(rng.Intn(21))
	case 2:
		// the whole second the block time falls in (passed unless the block time is a whole second), one before, one after
		tag.Deadline = "around-block-time"
		return d.next.Unix() + int64(rng.Intn(3)) - 1
	default:
		tag.Deadline = "future"
		return d.r.Time.Unix() + 3600
	}
}

func (d *csDirector) recipient(sender *rig.Account, tag *csTag) string {
	addr := d.recipientOf(sender, tag)
	if d.run.Rng.Intn(8) == 0 {
		// the other valid spelling of the same account (all upper case)
		tag.Recipient += "/upper-case"
		d.run.Count("recipient-spelled-in-upper-case", 1)
		return strings.ToUpper(addr)
	}
	return addr
}

func (d *csDirector) recipientOf(sender *rig.Account, tag *csTag) string {
	rng := d.run.Rng
	switch rng.Intn(8) {
	case 0, 1, 2:
		tag.Recipient = "other"
		return d.r.Acc(rng.Intn(6)).Addr.String()
	case 3:
		tag.Recipient = "fresh"
		if rng.Intn(2) == 0 {
			tag.Recipient = "fresh-32-bytes"
			return sdk.AccAddress([]byte(fmt.Sprintf("fresh-32-byte-long-addres-%06d", rng.Intn(1000000)))).String()
		}
		return sdk.AccAddress([]byte(fmt.Sprintf("fresh-address-%06d", rng.Intn(1000000)))).String()
	case 4:
		tag.Recipient = "blocked"
		return authtypes.NewModuleAddress(pick(rng, "fee_collector", "distribution", "mint")).String()
	default:
		tag.Recipient = "self"
		return sender.Addr.String()
	}
}

func (d *csDirector) intent(maxBits, blockNo int) (rig.Tx, bool) {
	rng := d.run.Rng
	r := d.r
	s := d.cur()
	a := r.Acc(rng.Intn(6))
	denom := d.denoms[rng.Intn(len(d.denoms))]
	if d.mode != "none" && len(d.denoms) > 2 {
		// the last denomination gets its pool late: by then the coinswap module account (which takes and burns the
		// pool-creation fee) exists and has been sent coins of its own
		last := d.denoms[len(d.denoms)-1]
		switch {
		case blockNo == 34 && !d.staged[34]:
			// a transaction opens the late pool, trades against it and is then rolled back by its last message ...
			d.staged[34] = true
			tag := &csTag{Kind: "rolled-back-pool-opening"}
			dl := d.next.Add(time.Hour).Unix()
			return r.Mk(a, tag,
				&cstypes.MsgAddLiquidity{MaxToken: coin(last, big.NewInt(1_000_000)), ExactStandardAmt: toInt(big.NewInt(900_000)), MinLiquidity: sdkmath.OneInt(), Deadline: dl, Sender: a.Addr.String()},
				&cstypes.MsgSwapOrder{Input: cstypes.Input{Address: a.Addr.String(), Coin: coin(d.std, big.NewInt(5_000))}, Output: cstypes.Output{Address: a.Addr.String(), Coin: coin(last, big.NewInt(1))}, Deadline: dl, IsBuyOrder: false},
				banktypes.NewMsgSend(a.Addr, a.Addr, sdk.NewCoins(coin(d.std, pow2(250))))), true
		case blockNo == 36 && !d.staged[36]:
			// ... then a pool for another coin is opened for real (it takes the sequence number the rolled-back one had),
			// and only then the late pool
			d.staged[36] = true
			tag := &csTag{Kind: "add", Note: "pool-for-a-look-alike-coin"}
			return r.Mk(a, tag, &cstypes.MsgAddLiquidity{MaxToken: coin("junk-1", big.NewInt(2_000_000)), ExactStandardAmt: toInt(big.NewInt(1_500_000)), MinLiquidity: sdkmath.OneInt(), Deadline: d.next.Add(time.Hour).Unix(), Sender: a.Addr.String()}), true
		case blockNo == 38 && !d.staged[38]:
			// ... and somebody opens a vesting account, holding still-locked coins of both of its denominations, at the
			// address the late pool's reserve account is going to have (the address is a hash of "lpt-<next sequence>",
			// anybody can compute it): the pool then lives on an account most of whose coins cannot be spent
			d.staged[38] = true
			next := uint64(1)
			for _, p := range s.Pools {
				if seq, err := cstypes.ParseLptDenom(p.LptDenom); err == nil && seq >= next {
					next = seq + 1
				}
			}
			squat := cstypes.GetReservePoolAddr(cstypes.GetLptDenom(next))
			locked := sdk.NewCoins(coin(last, big.NewInt(777_777)), coin(d.std, big.NewInt(1_234_567)))
			d.run.Count("vesting-account-opened-at-the-next-pool's-reserve-address", 1)
			return r.Mk(a, &csTag{Kind: "donate", Note: "vesting-account-at-the-next-pool-address"}, vestingtypes.NewMsgCreateVestingAccount(a.Addr, squat, locked, d.next.Add(1000*24*time.Hour).Unix(), true)), true
		case blockNo < 40 && denom == last:
			denom = d.denoms[rng.Intn(len(d.denoms)-1)]
		case blockNo >= 30 && blockNo < 40 && rng.Intn(6) == 0 && len(s.Pools) > 0:
			tag := &csTag{Kind: "donate", Note: "to-module-account"}
			return r.Mk(a, tag, banktypes.NewMsgSend(a.Addr, authtypes.NewModuleAddress(cstypes.ModuleName), sdk.NewCoins(coin(pick(rng, d.std, d.std, "tka"), randMag(rng, 40))))), true
		}
	}
	ps := poolOf(s, denom)
	delta := deltaOf(s.Params)
	// early blocks: make pools
	w := []int{20, 10, 30, 8, 8, 5, 2, 2}
	if !ps.ok || ps.L.Sign() == 0 {
		w = []int{70, 2, 10, 3, 3, 5, 2, 2}
	}
	switch weighted(rng, w) {
	case 0: // add liquidity
		tag := &csTag{Kind: "add"}
		std := randMag(rng, maxBits)
		var maxTok *big.Int
		minLiq := new(big.Int)
		if ps.ok && ps.L.Sign() > 0 && ps.X.Sign() > 0 {
			if rng.Intn(2) == 0 {
				std = randFrac(rng, new(big.Int).Mul(ps.X, big.NewInt(2)))
			}
			need := new(big.Int).Mul(ps.Y, std)
			need.Quo(need, ps.X).Add(need, bigOne)
			mint := new(big.Int).Mul(ps.L, std)
			mint.Quo(mint, ps.X)
			stale := d.touched[denom]
			switch rng.Intn(4) {
			case 0:
				tag.Bound = "tight"
				maxTok, minLiq = need, mint
			case 1:
				tag.Bound = "tight-1"
				if rng.Intn(2) == 0 && need.Cmp(bigOne) > 0 {
					maxTok, minLiq = new(big.Int).Sub(need, bigOne), mint
				} else {
					maxTok, minLiq = need, new(big.Int).Add(mint, bigOne)
				}
			default:
				tag.Bound = "loose"
				maxTok = new(big.Int).Mul(need, big.NewInt(2))
			}
			if stale {
				tag.Bound += "/stale"
			}
		} else {
			maxTok = randMag(rng, maxBits)
			tag.Bound = "new"
			emptied := ps.ok && ps.L.Sign() == 0
			if emptied {
				// a pool that exists but was emptied: the first deposit mints exactly the standard amount, and the stated
				// minimum is placed at and just above it most of the time
				d.run.Count("add-to-an-emptied-pool", 1)
			}
			if rng.Intn(3) == 0 || emptied && rng.Intn(4) > 0 {
				minLiq = std
				if rng.Intn(2) == 0 {
					minLiq = new(big.Int).Add(std, bigOne)
					tag.Bound = "new/tight-1"
				}
			}
		}
		d.touched[denom] = true
		msg := &cstypes.MsgAddLiquidity{MaxToken: coin(denom, maxTok), ExactStandardAmt: toInt(std), MinLiquidity: toInt(minLiq), Deadline: d.deadline(tag), Sender: a.Addr.String()}
		return r.Mk(a, tag, msg), true
	case 1: // remove liquidity
		if !ps.ok || ps.L.Sign() == 0 {
			return rig.Tx{}, false
		}
		tag := &csTag{Kind: "remove"}
		// pick a holder of LPT
		var holder *rig.Account
		for _, i := range rng.Perm(6) {
			if amountOf(s.Bal[r.Acc(i).Addr.String()], ps.P.LptDenom).Sign() > 0 {
				holder = r.Acc(i)
				break
			}
		}
		if holder == nil {
			return rig.Tx{}, false
		}
		have := amountOf(s.Bal[holder.Addr.String()], ps.P.LptDenom)
		wd := randFrac(rng, have)
		if rng.Intn(4) == 0 {
			wd = have
			tag.Note = "all"
		}
		outX := new(big.Int).Mul(wd, ps.X)
		outX.Quo(outX, ps.L)
		outY := new(big.Int).Mul(wd, ps.Y)
		outY.Quo(outY, ps.L)
		minX, minY := new(big.Int), new(big.Int)
		switch rng.Intn(4) {
		case 0:
			tag.Bound = "tight"
			minX, minY = outX, outY
		case 1:
			tag.Bound = "tight-1"
			if rng.Intn(2) == 0 {
				minX, minY = new(big.Int).Add(outX, bigOne), outY
			} else {
				minX, minY = outX, new(big.Int).Add(outY, bigOne)
			}
		default:
			tag.Bound = "loose"
		}
		if d.touched[denom] {
			tag.Bound += "/stale"
		}
		d.touched[denom] = true
		wcoin := coin(ps.P.LptDenom, wd)
		if rng.Intn(8) == 0 && d.mode != "none" {
			// hostile: a coin that only looks like this pool's liquidity token
			seq := strings.TrimPrefix(ps.P.LptDenom, "lpt-")
			wcoin, tag.Bound = coin(pick(rng, "junk-"+seq, "lpt-0"+seq), randMag(rng, 60)), "lookalike-coin"
			minX, minY = new(big.Int), new(big.Int)
		}
		msg := &cstypes.MsgRemoveLiquidity{WithdrawLiquidity: wcoin, MinToken: toInt(minY), MinStandardAmt: toInt(minX), Deadline: d.deadline(tag), Sender: holder.Addr.String()}
		return r.Mk(holder, tag, msg), true
	case 2: // swap
		tag := &csTag{Kind: "swap"}
		buy := rng.Intn(2) == 0
		double := rng.Intn(3) == 0
		var inD, outD string
		if double {
			tag.Hop = "double"
			inD = denom
			outD = d.denoms[rng.Intn(len(d.denoms))]
			if outD == inD {
				if rng.Intn(3) == 0 {
					// hostile: an order that buys what it sells; if the chain takes it, it is two legs through one pool and
					// each leg is judged on the reserves it met
					tag.Hop = "same-denom"
				} else {
					outD = d.denoms[(rng.Intn(2)+1+indexOf(d.denoms, inD))%len(d.denoms)]
				}
			}
		} else if rng.Intn(40) == 0 {
			tag.Hop = "same-denom"
			inD, outD = d.std, d.std
		} else {
			tag.Hop = "single"
			if rng.Intn(2) == 0 {
				inD, outD = d.std, denom
			} else {
				inD, outD = denom, d.std
			}
		}
		rcpt := d.recipient(a, tag)
		// reserves along the path
		type leg struct{ x, y *big.Int }
		legOf := func(in, out string) (leg, bool) {
			tok := in
			if tok == d.std {
				tok = out
			}
			p := poolOf(s, tok)
			if !p.ok || p.X.Sign() == 0 || p.Y.Sign() == 0 {
				return leg{}, false
			}
			if in == d.std {
				return leg{p.X, p.Y}, true
			}
			return leg{p.Y, p.X}, true
		}
		var inAmt, outAmt *big.Int
		stale := d.touched[inD] || d.touched[outD]
		if !buy {
			// sell exact input
			var l1 leg
			var ok bool
			if double {
				l1, ok = legOf(inD, d.std)
			} else {
				l1, ok = legOf(inD, outD)
			}
			if ok && rng.Intn(3) > 0 {
				inAmt = randFrac(rng, new(big.Int).Mul(l1.x, big.NewInt(int64(1+rng.Intn(3)))))
			} else {
				inAmt = randMag(rng, maxBits)
			}
			if ok && rng.Intn(4) == 0 {
				// an input for which the constant-product rule is met with equality (the quotient is exact): the largest
				// admissible output is then that quotient itself, not one below it
				if eq := csEqualityInput(l1.x, l1.y, delta); eq != nil {
					inAmt = eq
					tag.Note += "/rule-met-with-equality"
					d.run.Count("sell-whose-quote-meets-the-rule-with-equality", 1)
				}
			}
			exp := new(big.Int)
			if ok {
				exp = refInput(inAmt, l1.x, l1.y, delta)
				if double {
					if l2, ok2 := legOf(d.std, outD); ok2 {
						exp = refInput(exp, l2.x, l2.y, delta)
					} else {
						exp = new(big.Int)
					}
				}
			}
			switch k := rng.Intn(4); {
			case k == 0 && exp.Sign() > 0:
				tag.Bound = "tight"
				outAmt = exp
			case k == 1:
				tag.Bound = "tight-1"
				outAmt = new(big.Int).Add(exp, bigOne)
			default:
				tag.Bound = "loose"
				outAmt = big.NewInt(1)
			}
		} else {
			var l2 leg
			var ok bool
			if double {
				l2, ok = legOf(d.std, outD)
			} else {
				l2, ok = legOf(inD, outD)
			}
			if ok && rng.Intn(4) > 0 {
				outAmt = randFrac(rng, l2.y)
				if rng.Intn(6) == 0 {
					outAmt = new(big.Int).Sub(l2.y, big.NewInt(int64(rng.Intn(2)))) // all or all-1 of the reserve
				}
			} else {
				outAmt = randMag(rng, maxBits)
			}
			if outAmt.Sign() <= 0 {
				outAmt = big.NewInt(1)
			}
			var exp *big.Int
			if ok {
				exp = refOutput(outAmt, l2.x, l2.y, delta)
				if exp != nil {
					exp.Add(exp, bigZero)
				}
				if exp != nil && double {
					// module pays floor+1 per leg; the predicted intermediate uses the module's formula bound (ceil or ceil+1)
					if l1, ok1 := legOf(inD, d.std); ok1 {
						s1 := new(big.Int).Add(exp, bigOne)
						exp = refOutput(s1, l1.x, l1.y, delta)
					} else {
						exp = nil
					}
				}
			}
			switch k := rng.Intn(4); {
			case k == 0 && exp != nil:
				tag.Bound = "tight+1" // smallest admissible + 1 always suffices for floor+1 pricing
				inAmt = new(big.Int).Add(exp, bigOne)
			case k == 1 && exp != nil && exp.Cmp(bigOne) > 0:
				tag.Bound = "below-min"
				inAmt = new(big.Int).Sub(exp, bigOne)
			default:
				tag.Bound = "loose"
				inAmt = toInt(pow2(140)).BigInt()
			}
		}
		if stale {
			tag.Bound += "/stale"
		}
		d.touched[inD], d.touched[outD] = true, true
		if buy {
			tag.Note = "buy"
		} else {
			tag.Note = "sell"
		}
		msg := &cstypes.MsgSwapOrder{
			Input:  cstypes.Input{Address: a.Addr.String(), Coin: coin(inD, inAmt)},
			Output: cstypes.Output{Address: rcpt, Coin: coin(outD, outAmt)},
			Deadline: d.deadline(tag), IsBuyOrder: buy,
		}
		return r.Mk(a, tag, msg), true
	case 3: // unilateral add
		if !ps.ok {
			return rig.Tx{}, false
		}
		tag := &csTag{Kind: "uniadd"}
		side := denom
		res := ps.Y
		if rng.Intn(2) == 0 {
			side, res = d.std, ps.X
		}
		amt := randMag(rng, maxBits)
		if res.Sign() > 0 && rng.Intn(2) == 0 {
			amt = randFrac(rng, new(big.Int).Mul(res, big.NewInt(3)))
		}
		minLiq := new(big.Int)
		tag.Bound = "loose"
		if res.Sign() > 0 && ps.L.Sign() > 0 && rng.Intn(3) == 0 {
			du := new(big.Int).Sub(e18, s.Params.UnilateralLiquidityFee.BigInt())
			sq := new(big.Int).Mul(e18, res)
			sq.Add(sq, new(big.Int).Mul(du, amt)).Mul(sq, ps.L).Mul(sq, ps.L).Quo(sq, new(big.Int).Mul(e18, res))
			sq.Sqrt(sq).Sub(sq, ps.L)
			minLiq = sq
			tag.Bound = "tight"
			if rng.Intn(2) == 0 {
				minLiq = new(big.Int).Add(sq, bigOne)
				tag.Bound = "tight-1"
			}
		}
		if d.touched[denom] {
			tag.Bound += "/stale"
		}
		d.touched[denom] = true
		if rng.Intn(8) == 0 {
			// hostile: a coin that is neither side of the pool (another pool's token, or this pool's own share token)
			side, tag.Bound, minLiq = pick(rng, d.otherDenom(denom), ps.P.LptDenom), "foreign-denom", new(big.Int)
		}
		msg := &cstypes.MsgAddUnilateralLiquidity{CounterpartyDenom: denom, ExactToken: coin(side, amt), MinLiquidity: toInt(minLiq), Deadline: d.deadline(tag), Sender: a.Addr.String()}
		return r.Mk(a, tag, msg), true
	case 4: // unilateral remove
		if !ps.ok || ps.L.Sign() == 0 {
			return rig.Tx{}, false
		}
		tag := &csTag{Kind: "uniremove"}
		var holder *rig.Account
		for _, i := range rng.Perm(6) {
			if amountOf(s.Bal[r.Acc(i).Addr.String()], ps.P.LptDenom).Sign() > 0 {
				holder = r.Acc(i)
				break
			}
		}
		if holder == nil {
			return rig.Tx{}, false
		}
		have := amountOf(s.Bal[holder.Addr.String()], ps.P.LptDenom)
		wd := randFrac(rng, have)
		if rng.Intn(5) == 0 {
			wd = have
		}
		side := denom
		res := ps.Y
		if rng.Intn(2) == 0 {
			side, res = d.std, ps.X
		}
		minTok := big.NewInt(1)
		tag.Bound = "loose"
		if rng.Intn(3) == 0 {
			du := new(big.Int).Sub(e18, s.Params.UnilateralLiquidityFee.BigInt())
			num := new(big.Int).Add(ps.L, ps.L)
			num.Sub(num, wd).Mul(num, wd).Mul(num, res).Mul(num, du)
			den := new(big.Int).Mul(ps.L, ps.L)
			den.Mul(den, e18)
			num.Quo(num, den)
			if num.Sign() > 0 {
				minTok = num
				tag.Bound = "tight"
				if rng.Intn(2) == 0 {
					minTok = new(big.Int).Add(num, bigOne)
					tag.Bound = "tight-1"
				}
			}
		}
		if d.touched[denom] {
			tag.Bound += "/stale"
		}
		d.touched[denom] = true
		msg := &cstypes.MsgRemoveUnilateralLiquidity{CounterpartyDenom: denom, MinToken: coin(side, minTok), ExactLiquidity: toInt(wd), Deadline: d.deadline(tag), Sender: holder.Addr.String()}
		return r.Mk(holder, tag, msg), true
	case 5: // donation straight to the pool account
		if !ps.ok {
			return rig.Tx{}, false
		}
		tag := &csTag{Kind: "donate"}
		side := pick(rng, denom, d.std)
		if rng.Intn(12) == 0 {
			// coins sent to the coinswap module account itself (it collects and burns the pool-creation fee)
			tag.Note = "to-module-account"
			return r.Mk(a, tag, banktypes.NewMsgSend(a.Addr, authtypes.NewModuleAddress(cstypes.ModuleName), sdk.NewCoins(coin(pick(rng, d.std, denom), randMag(rng, 40))))), true
		}
		if rng.Intn(5) == 0 {
			side, tag.Note = d.otherDenom(denom), "foreign-denom" // dust of a third denomination in the pool account
		} else if have := amountOf(s.Bal[a.Addr.String()], ps.P.LptDenom); have.Sign() > 0 && rng.Intn(4) == 0 {
			// the pool's own liquidity token sent to the pool account
			d.touched[denom] = true
			tag.Note = "own-lpt"
			return r.Mk(a, tag, banktypes.NewMsgSend(a.Addr, pa0(ps.P.EscrowAddress), sdk.NewCoins(coin(ps.P.LptDenom, randFrac(rng, have))))), true
		}
		pa, _ := sdk.AccAddressFromBech32(ps.P.EscrowAddress)
		d.touched[denom] = true
		return r.Mk(a, tag, banktypes.NewMsgSend(a.Addr, pa, sdk.NewCoins(coin(side, randMag(rng, maxBits))))), true
	case 6: // fee configuration change through the authority path
		tag := &csTag{Kind: "params"}
		p := s.Params
		cfg := rng.Intn(4)
		switch cfg {
		case 0:
			p.Fee = sdkmath.LegacyNewDecWithPrec(3, 3)
		case 1:
			p.Fee = sdkmath.LegacySmallestDec()
		case 2:
			p.Fee = sdkmath.LegacyNewDecWithPrec(5, 1)
		case 3:
			p.Fee = sdkmath.LegacyOneDec().Sub(sdkmath.LegacySmallestDec())
		}
		u := rng.Intn(3)
		switch u {
		case 0:
			p.UnilateralLiquidityFee = sdkmath.LegacyZeroDec()
		case 1:
			p.UnilateralLiquidityFee = sdkmath.LegacyNewDecWithPrec(2, 3)
		case 2:
			p.UnilateralLiquidityFee = sdkmath.LegacyNewDecWithPrec(9, 1)
		}
		p.TaxRate = pick(rng, sdkmath.LegacyNewDecWithPrec(4, 1), sdkmath.LegacySmallestDec(), sdkmath.LegacyOneDec().Sub(sdkmath.LegacySmallestDec()), sdkmath.LegacyNewDecWithPrec(333333333333333333, 18))
		p.PoolCreationFee = pick(rng, sdk.NewInt64Coin(d.std, 5000), sdk.NewInt64Coin(d.std, 1), sdk.NewInt64Coin("tka", 7777), sdk.NewCoin(d.std, toInt(pow2(100))))
		tag.Note = fmt.Sprintf("fee%d/uni%d", cfg, u)
		for k := range d.touched {
			_ = k
		}
		for _, dn := range d.denoms {
			d.touched[dn] = true
		}
		up := &cstypes.MsgUpdateParams{Authority: r.GovAddr.String(), Params: p}
		if rng.Intn(3) == 0 {
			// the accepted update is followed by a message that fails: the whole transaction is rolled back and the
			// configuration in force stays what it was, for every later swap too
			tag.Note += "/rolled-back"
			return r.InjectRoute(a, tag, up, banktypes.NewMsgSend(r.GovAddr, a.Addr, sdk.NewCoins(coin(d.std, pow2(250))))), true
		}
		return r.InjectRoute(a, tag, up), true
	default: // unrelated bank send between users (must not disturb anything)
		tag := &csTag{Kind: "send"}
		b := r.Acc(rng.Intn(6))
		return r.Mk(a, tag, banktypes.NewMsgSend(a.Addr, b.Addr, sdk.NewCoins(coin(pick(rng, d.std, denom), randMag(rng, 100))))), true
	}
}

func indexOf(xs []string, x string) int {
	for i, v := range xs {
		if v == x {
			return i
		}
	}
	return 0
}

func feeClass(p cstypes.Params) string {
	f := p.Fee
	switch {
	case f.Equal(sdkmath.LegacyNewDecWithPrec(3, 3)):
		return "fee=default"
	case f.Equal(sdkmath.LegacySmallestDec()):
		return "fee=1e-18"
	case f.Equal(sdkmath.LegacyNewDecWithPrec(5, 1)):
		return "fee=0.5"
	default:
		return "fee=1-1e-18"
	}
}

func (d *csDirector) observe(br *rig.BlockRecord) {
	run := d.run
	if br.FinalErr != nil {
		run.Inconc("FinalizeBlock failed at height %d: %v", br.Height, br.FinalErr)
		return
	}
	for _, tx := range br.Txs {
		tag, _ := tx.Tag.(*csTag)
		if tag == nil {
			continue
		}
		okc := "rejected"
		if tx.OK() {
			okc = "ok"
		}
		run.Count(tag.Kind+"-"+okc, 1)
		if tag.Kind == "swap" {
			run.Count("swap-"+tag.Hop+"-"+okc, 1)
		}
		if tag.Bound == "lookalike-coin" || tag.Note == "own-lpt" || tag.Note == "to-module-account" {
			run.Count(tag.Kind+"-"+tag.Bound+tag.Note+"-"+okc, 1)
		}
		if tag.Bound == "foreign-denom" || tag.Note == "foreign-denom" {
			run.Count(tag.Kind+"-foreign-denom-"+okc, 1)
		}
		if tag.Deadline == "around-block-time" {
			run.Count("deadline-around-block-time-"+okc, 1)
			if br.Time.Nanosecond() != 0 {
				run.Count("deadline-around-sub-second-block-time-"+okc, 1)
			}
		}
		if tx.Result != nil && !tx.OK() && (containsStr(tx.Result.Log, "panic") || containsStr(tx.Result.Log, "overflow")) {
			run.Count("rejected-by-panic", 1)
		}
		run.Op("h=%d #%d %s %s ok=%v %s", br.Height, tx.Index, tag.Kind, msgBrief(tx.Msgs), tx.OK(), logBrief(tx))
		if !tx.OK() || tx.Pre == nil || tx.Post == nil {
			continue
		}
		pre, post := tx.Pre.(*csSnap), tx.Post.(*csSnap)
		if d.mode == "C01" {
			d.checkShareValue(br, tx, tag, pre, post)
			if tag.Kind == "swap" {
				d.checkLegs(br, tx, tag, pre, post)
			}
		} else {
			d.checkSettlement(br, tx, tag, pre, post)
		}
	}
	// C02: between observation points inside a block nothing but txs may move pool funds; the
	// chain of snapshots must be continuous (post of tx i == pre of tx i+1 modulo the ante handler, which moves no coins here)
	if d.mode == "C02" {
		var prev *csSnap
		if br.PostBegin != nil {
			prev = br.PostBegin.(*csSnap)
		}
		for _, tx := range br.Txs {
			if tx.Pre == nil {
				continue
			}
			pre := tx.Pre.(*csSnap)
			if prev != nil {
				if df := diffLedger(map[string]map[string]*big.Int{}, balDelta(prev.Bal, pre.Bal)); len(df) > 0 {
					run.Violation("C02:coinswap:balances-moved-outside-successful-tx", df, "balances changed between the end of one tx and the start of the next at height %d: %v", br.Height, df)
				}
				run.Eval(1)
			}
			prev = pre
			if tx.Post != nil {
				prev = tx.Post.(*csSnap)
			}
		}
	}
}

func containsStr(s, sub string) bool {
	return len(sub) == 0 || (len(s) >= len(sub) && (func() bool {
		for i := 0; i+len(sub) <= len(s); i++ {
			if s[i:i+len(sub)] == sub {
				return true
			}
		}
		return false
	})())
}

func msgBrief(msgs []sdk.Msg) string {
	s := ""
	for _, m := range msgs {
		str := fmt.Sprintf("%v", m)
		if len(str) > 300 {
			str = str[:300]
		}
		s += sdk.MsgTypeURL(m) + "{" + str + "}"
	}
	return s
}

func logBrief(tx *rig.TxRecord) string {
	if tx.Result == nil || tx.OK() {
		return ""
	}
	l := tx.Result.Log
	if len(l) > 160 {
		l = l[:160]
	}
	return "log=" + l
}

// checkShareValue: for every pool with L>0 before and after: X'·Y'·L² >= X·Y·L'².
func (d *csDirector) checkShareValue(br *rig.BlockRecord, tx *rig.TxRecord, tag *csTag, pre, post *csSnap) {
	run := d.run
	for _, p := range post.Pools {
		a, b := poolOf(pre, p.CounterpartyDenom), poolOf(post, p.CounterpartyDenom)
		if !a.ok || a.L.Sign() == 0 || b.L.Sign() == 0 {
			continue
		}
		if a.X.Cmp(b.X) == 0 && a.Y.Cmp(b.Y) == 0 && a.L.Cmp(b.L) == 0 {
			continue
		}
		lhs := new(big.Int).Mul(b.X, b.Y)
		lhs.Mul(lhs, a.L).Mul(lhs, a.L)
		rhs := new(big.Int).Mul(a.X, a.Y)
		rhs.Mul(rhs, b.L).Mul(rhs, b.L)
		run.Eval(1)
		cmp := lhs.Cmp(rhs)
		out := "strict"
		if cmp == 0 {
			out = "equal"
		}
		run.Class("share", tag.Kind, tag.Hop, "res="+magClass(a.X)+"/"+magClass(a.Y), feeClass(pre.Params), out)
		run.Sample("share-value:"+tag.Kind, map[string]any{"height": br.Height, "op": tag.Kind, "pool": p.Id, "before": []string{a.X.String(), a.Y.String(), a.L.String()}, "after": []string{b.X.String(), b.Y.String(), b.L.String()}})
		if cmp < 0 {
			run.Violation("C01:coinswap:share-value-decreased:"+tag.Kind, map[string]any{"msgs": msgBrief(tx.Msgs), "before": []string{a.X.String(), a.Y.String(), a.L.String()}, "after": []string{b.X.String(), b.Y.String(), b.L.String()}},
				"pool %s: reserves·/L² fell: before X=%s Y=%s L=%s after X=%s Y=%s L=%s (op %s at height %d)", p.Id, a.X, a.Y, a.L, b.X, b.Y, b.L, tag.Kind, br.Height)
		}
	}
}

// checkLegs reconstructs swap legs from pool balance deltas and checks the constant-product rule and extremal amounts.
func (d *csDirector) checkLegs(br *rig.BlockRecord, tx *rig.TxRecord, tag *csTag, pre, post *csSnap) {
	run := d.run
	msg, ok := tx.Msgs[0].(*cstypes.MsgSwapOrder)
	if !ok {
		return
	}
	delta := deltaOf(pre.Params)
	for _, p := range post.Pools {
		a, b := poolOf(pre, p.CounterpartyDenom), poolOf(post, p.CounterpartyDenom)
		if !a.ok {
			continue
		}
		dx := new(big.Int).Sub(b.X, a.X)
		dy := new(big.Int).Sub(b.Y, a.Y)
		if dx.Sign() == 0 && dy.Sign() == 0 {
			continue
		}
		var x, y, paid, recv *big.Int
		switch {
		case dx.Sign() > 0 && dy.Sign() < 0:
			x, y, paid, recv = a.X, a.Y, dx, new(big.Int).Neg(dy)
		case dy.Sign() > 0 && dx.Sign() < 0:
			x, y, paid, recv = a.Y, a.X, dy, new(big.Int).Neg(dx)
		default:
			run.Violation("C01:coinswap:swap-leg-shape", map[string]any{"msgs": msgBrief(tx.Msgs)}, "pool %s changed by dX=%s dY=%s in a swap: not a leg (one side in, other out)", p.Id, dx, dy)
			continue
		}
		run.Eval(1)
		lhs := new(big.Int).Mul(x, e18)
		lhs.Add(lhs, new(big.Int).Mul(delta, paid)).Mul(lhs, new(big.Int).Sub(y, recv))
		rhs := new(big.Int).Mul(x, y)
		rhs.Mul(rhs, e18)
		kind := "sell"
		if msg.IsBuyOrder {
			kind = "buy"
		}
		det := map[string]any{"msgs": msgBrief(tx.Msgs), "x": x.String(), "y": y.String(), "paid": paid.String(), "recv": recv.String(), "fee": pre.Params.Fee.String()}
		if lhs.Cmp(rhs) < 0 {
			run.Violation("C01:coinswap:leg-breaks-constant-product:"+kind, det, "swap leg on %s: (x+(1-f)paid)(y-recv) < x·y with x=%s y=%s paid=%s recv=%s fee=%s", p.Id, x, y, paid, recv, pre.Params.Fee)
		}
		if !msg.IsBuyOrder {
			want := refInput(paid, x, y, delta)
			ex := "exact"
			if recv.Cmp(want) != 0 {
				ex = "off"
				run.Violation("C01:coinswap:exact-input-not-largest", det, "exact-input leg on %s received %s, largest admissible is %s (x=%s y=%s paid=%s)", p.Id, recv, want, x, y, paid)
			}
			run.Class("leg", kind, tag.Hop, "res="+magClass(x)+"/"+magClass(y), "amt="+magClass(paid), feeClass(pre.Params), ex)
		} else {
			want := refOutput(recv, x, y, delta)
			cls := "min"
			if want == nil {
				run.Violation("C01:coinswap:exact-output-drains-reserve", det, "exact-output leg on %s bought the whole reserve", p.Id)
				continue
			}
			diff := new(big.Int).Sub(paid, want)
			if diff.Sign() < 0 || diff.Cmp(bigOne) > 0 {
				run.Violation("C01:coinswap:exact-output-not-within-one-of-smallest", det, "exact-output leg on %s paid %s, smallest admissible is %s (x=%s y=%s recv=%s)", p.Id, paid, want, x, y, recv)
			} else if diff.Sign() > 0 {
				cls = "min+1"
			}
			run.Class("leg", kind, tag.Hop, "res="+magClass(x)+"/"+magClass(y), "amt="+magClass(recv), feeClass(pre.Params), cls)
		}
		run.Sample("leg:"+kind+":"+tag.Hop, det)
	}
}

// pureProbe calls the exported price functions directly.
func (d *csDirector) pureProbe(n int) {
	run := d.run
	rng := run.Rng
	fees := []sdkmath.LegacyDec{sdkmath.LegacyNewDecWithPrec(3, 3), sdkmath.LegacySmallestDec(), sdkmath.LegacyNewDecWithPrec(5, 1), sdkmath.LegacyOneDec().Sub(sdkmath.LegacySmallestDec())}
	for i := 0; i < n; i++ {
		var fee sdkmath.LegacyDec
		if rng.Intn(3) == 0 {
			fee = sdkmath.LegacyNewDecFromBigIntWithPrec(randBelow(rng, new(big.Int).Sub(e18, big.NewInt(1))), 18)
		} else {
			fee = fees[rng.Intn(len(fees))]
		}
		delta := new(big.Int).Sub(e18, fee.BigInt())
		x, y := randMag(rng, 128), randMag(rng, 128)
		var amt *big.Int
		switch rng.Intn(3) {
		case 0:
			amt = randMag(rng, 128)
		case 1:
			amt = randFrac(rng, x)
		default:
			amt = randFrac(rng, y)
		}
		func() {
			defer func() {
				if rec := recover(); rec != nil {
					run.Count("pure-overflow-panic", 1)
				}
			}()
			got := cskeeper.GetInputPrice(toInt(amt), toInt(x), toInt(y), fee).BigInt()
			want := refInput(amt, x, y, delta)
			run.Eval(1)
			if got.Cmp(want) != 0 {
				run.Violation("C01:coinswap:GetInputPrice-not-largest", map[string]any{"amt": amt.String(), "x": x.String(), "y": y.String(), "fee": fee.String()}, "GetInputPrice(%s,%s,%s,%s)=%s, largest admissible %s", amt, x, y, fee, got, want)
			}
			run.Class("pure-in", "res="+magClass(x)+"/"+magClass(y), "amt="+magClass(amt), feeBucket(fee))
		}()
		if amt.Cmp(y) < 0 {
			func() {
				defer func() {
					if rec := recover(); rec != nil {
						run.Count("pure-overflow-panic", 1)
					}
				}()
				got := cskeeper.GetOutputPrice(toInt(amt), toInt(x), toInt(y), fee).BigInt()
				want := refOutput(amt, x, y, delta)
				run.Eval(1)
				diff := new(big.Int).Sub(got, want)
				if diff.Sign() < 0 || diff.Cmp(bigOne) > 0 {
					run.Violation("C01:coinswap:GetOutputPrice-not-within-one", map[string]any{"amt": amt.String(), "x": x.String(), "y": y.String(), "fee": fee.String()}, "GetOutputPrice(%s,%s,%s,%s)=%s, smallest admissible %s", amt, x, y, fee, got, want)
				}
				run.Class("pure-out", "res="+magClass(x)+"/"+magClass(y), "amt="+magClass(amt), feeBucket(fee), diff.String())
			}()
		}
	}
}

func feeBucket(f sdkmath.LegacyDec) string {
	switch {
	case f.LT(sdkmath.LegacyNewDecWithPrec(1, 6)):
		return "fee<1e-6"
	case f.LT(sdkmath.LegacyNewDecWithPrec(1, 2)):
		return "fee<1%"
	case f.LT(sdkmath.LegacyNewDecWithPrec(9, 1)):
		return "fee<90%"
	default:
		return "fee>=90%"
	}
}

// checkSettlement compares the full balance-sheet delta of a successful tx with the delta its message dictates.
func (d *csDirector) checkSettlement(br *rig.BlockRecord, tx *rig.TxRecord, tag *csTag, pre, post *csSnap) {
	run := d.run
	act := balDelta(pre.Bal, post.Bal)
	supAct := coinsDelta(pre.Supply, post.Supply)
	exp := ledger{}
	supExp := map[string]*big.Int{}
	poolDelta := func(p cstypes.Pool, denom string) *big.Int {
		v := new(big.Int)
		if m := act[p.EscrowAddress]; m != nil && m[denom] != nil {
			v.Set(m[denom])
		}
		return v
	}
	feeColl := authtypes.NewModuleAddress(authtypes.FeeCollectorName).String()
	keyBase := "C02:coinswap:" + tag.Kind
	if len(tx.Msgs) != 1 {
		return
	}
	detail := map[string]any{"msgs": msgBrief(tx.Msgs), "height": br.Height}
	// deadline: success implies block time <= deadline
	checkDeadline := func(dl int64) {
		run.Eval(1)
		cls := "future"
		if br.Time.Unix() == dl {
			cls = "at-deadline"
		}
		run.Count("deadline-"+cls+"-accepted", 1)
		if br.Time.After(time.Unix(dl, 0)) {
			run.Violation(keyBase+":deadline-passed-accepted", detail, "tx succeeded at block time %s after its deadline %s", br.Time.UTC(), time.Unix(dl, 0).UTC())
		}
	}
	switch m := tx.Msgs[0].(type) {
	case *cstypes.MsgSwapOrder:
		checkDeadline(m.Deadline)
		sender, rcpt := m.Input.Address, htCanonAddr(m.Output.Address)
		inD, outD := m.Input.Coin.Denom, m.Output.Coin.Denom
		std := pre.Std
		double := inD != std && outD != std
		var sold, bought *big.Int
		if !double {
			tok := inD
			if tok == std {
				tok = outD
			}
			p := poolOf(pre, tok).P
			sold = poolDelta(p, inD)
			bought = new(big.Int).Neg(poolDelta(p, outD))
			exp.add(p.EscrowAddress, inD, sold)
			exp.sub(p.EscrowAddress, outD, bought)
		} else {
			pa, pb := poolOf(pre, inD).P, poolOf(pre, outD).P
			sold = poolDelta(pa, inD)
			s1 := new(big.Int).Neg(poolDelta(pa, std))
			s2 := poolDelta(pb, std)
			bought = new(big.Int).Neg(poolDelta(pb, outD))
			exp.add(pa.EscrowAddress, inD, sold)
			exp.sub(pa.EscrowAddress, std, s1)
			exp.add(pb.EscrowAddress, std, s2)
			exp.sub(pb.EscrowAddress, outD, bought)
			run.Eval(1)
			if s1.Cmp(s2) != 0 {
				run.Violation(keyBase+":double-hop:intermediate-amounts-differ", detail, "pool A released %s standard coin, pool B received %s", s1, s2)
			}
		}
		exp.sub(sender, inD, sold)
		exp.add(rcpt, outD, bought)
		run.Eval(2)
		if sold.Sign() <= 0 || bought.Sign() <= 0 {
			run.Violation(keyBase+":non-positive-leg", detail, "swap settled sold=%s bought=%s", sold, bought)
		}
		if m.IsBuyOrder {
			if bought.Cmp(bi(m.Output.Coin.Amount)) != 0 {
				run.Violation(keyBase+":buy-order-amount", detail, "buy order for %s delivered %s", m.Output.Coin, bought)
			}
			if sold.Cmp(bi(m.Input.Coin.Amount)) > 0 {
				run.Violation(keyBase+":max-paid-exceeded", detail, "buy order paid %s > stated maximum %s", sold, m.Input.Coin)
			}
		} else {
			if sold.Cmp(bi(m.Input.Coin.Amount)) != 0 {
				run.Violation(keyBase+":sell-order-amount", detail, "sell order of %s took %s", m.Input.Coin, sold)
			}
			if bought.Cmp(bi(m.Output.Coin.Amount)) < 0 {
				run.Violation(keyBase+":min-received-not-met", detail, "sell order received %s < stated minimum %s", bought, m.Output.Coin)
			}
		}
		hop := "single"
		if double {
			hop = "double"
		}
		rk := "other"
		if rcpt == sender {
			rk = "self"
		}
		keyBase += ":" + hop
		if double && rk == "other" {
			run.Count("double-hop-recipient-other-ok", 1)
		}
		run.Class("swap", hop, kindOf(m.IsBuyOrder), "rcpt="+tag.Recipient, "bound="+tag.Bound, "amt="+magClass(sold))
	case *cstypes.MsgAddLiquidity:
		checkDeadline(m.Deadline)
		ps := poolOf(post, m.MaxToken.Denom)
		created := !poolOf(pre, m.MaxToken.Denom).ok
		p := ps.P
		std := pre.Std
		tokIn := poolDelta(p, m.MaxToken.Denom)
		stdIn := poolDelta(p, std)
		minted := new(big.Int)
		if supAct[p.LptDenom] != nil {
			minted.Set(supAct[p.LptDenom])
		}
		exp.add(p.EscrowAddress, std, stdIn)
		exp.add(p.EscrowAddress, m.MaxToken.Denom, tokIn)
		exp.sub(m.Sender, std, stdIn)
		exp.sub(m.Sender, m.MaxToken.Denom, tokIn)
		exp.add(m.Sender, p.LptDenom, minted)
		supExp[p.LptDenom] = minted
		if created {
			fee := pre.Params.PoolCreationFee
			tax := sdkmath.LegacyNewDecFromInt(fee.Amount).Mul(pre.Params.TaxRate).TruncateInt()
			// reference: floor(fee·tax) in exact integers
			taxRef := new(big.Int).Mul(bi(fee.Amount), pre.Params.TaxRate.BigInt())
			taxRef.Quo(taxRef, e18)
			_ = tax
			exp.sub(m.Sender, fee.Denom, bi(fee.Amount))
			exp.add(feeColl, fee.Denom, taxRef)
			burned := new(big.Int).Sub(bi(fee.Amount), taxRef)
			if cur, ok := supExp[fee.Denom]; ok {
				supExp[fee.Denom] = new(big.Int).Sub(cur, burned)
			} else {
				supExp[fee.Denom] = new(big.Int).Neg(burned)
			}
			run.Count("pool-created", 1)
		}
		run.Eval(4)
		if stdIn.Cmp(bi(m.ExactStandardAmt)) != 0 {
			run.Violation(keyBase+":standard-amount", detail, "add liquidity with exact standard amount %s deposited %s", m.ExactStandardAmt, stdIn)
		}
		if tokIn.Cmp(bi(m.MaxToken.Amount)) > 0 {
			run.Violation(keyBase+":max-token-exceeded", detail, "add liquidity took %s > stated maximum %s", tokIn, m.MaxToken)
		}
		if minted.Cmp(bi(m.MinLiquidity)) < 0 {
			run.Violation(keyBase+":min-liquidity-not-met", detail, "minted %s < stated minimum %s", minted, m.MinLiquidity)
		}
		if minted.Sign() > 0 && (stdIn.Sign() <= 0 || tokIn.Sign() <= 0) {
			run.Violation(keyBase+":minted-without-deposit", detail, "minted %s liquidity against deposits std=%s token=%s", minted, stdIn, tokIn)
		}
		d.checkResponseCoin(tx, keyBase, "MintToken", p.LptDenom, minted)
		run.Class("add", fmt.Sprint("created=", created), "bound="+tag.Bound, "amt="+magClass(stdIn))
	case *cstypes.MsgRemoveLiquidity:
		checkDeadline(m.Deadline)
		var p cstypes.Pool
		for _, q := range pre.Pools {
			if q.LptDenom == m.WithdrawLiquidity.Denom {
				p = q
			}
		}
		if p.EscrowAddress == "" {
			run.Violation(keyBase+":accepted-a-coin-that-is-no-pool's-liquidity-token", detail, "remove liquidity succeeded for %s, which is the liquidity token of no pool", m.WithdrawLiquidity)
			return
		}
		std := pre.Std
		stdOut := new(big.Int).Neg(poolDelta(p, std))
		tokOut := new(big.Int).Neg(poolDelta(p, p.CounterpartyDenom))
		burned := bi(m.WithdrawLiquidity.Amount)
		exp.sub(p.EscrowAddress, std, stdOut)
		exp.sub(p.EscrowAddress, p.CounterpartyDenom, tokOut)
		exp.add(m.Sender, std, stdOut)
		exp.add(m.Sender, p.CounterpartyDenom, tokOut)
		exp.sub(m.Sender, p.LptDenom, burned)
		supExp[p.LptDenom] = new(big.Int).Neg(burned)
		run.Eval(3)
		if stdOut.Cmp(bi(m.MinStandardAmt)) < 0 {
			run.Violation(keyBase+":min-standard-not-met", detail, "remove liquidity returned %s standard < stated minimum %s", stdOut, m.MinStandardAmt)
		}
		if tokOut.Cmp(bi(m.MinToken)) < 0 {
			run.Violation(keyBase+":min-token-not-met", detail, "remove liquidity returned %s token < stated minimum %s", tokOut, m.MinToken)
		}
		if stdOut.Sign() < 0 || tokOut.Sign() < 0 {
			run.Violation(keyBase+":negative-withdrawal", detail, "remove liquidity moved coins into the pool: std=%s tok=%s", stdOut, tokOut)
		}
		run.Class("remove", "bound="+tag.Bound, tag.Note, "amt="+magClass(burned))
	case *cstypes.MsgAddUnilateralLiquidity:
		checkDeadline(m.Deadline)
		p := poolOf(pre, m.CounterpartyDenom).P
		minted := new(big.Int)
		if supAct[p.LptDenom] != nil {
			minted.Set(supAct[p.LptDenom])
		}
		in := bi(m.ExactToken.Amount)
		exp.add(p.EscrowAddress, m.ExactToken.Denom, in)
		exp.sub(m.Sender, m.ExactToken.Denom, in)
		exp.add(m.Sender, p.LptDenom, minted)
		supExp[p.LptDenom] = minted
		run.Eval(2)
		if minted.Cmp(bi(m.MinLiquidity)) < 0 {
			run.Violation(keyBase+":min-liquidity-not-met", detail, "one-sided add minted %s < stated minimum %s", minted, m.MinLiquidity)
		}
		if minted.Sign() < 0 {
			run.Violation(keyBase+":negative-mint", detail, "one-sided add changed LPT supply by %s", minted)
		}
		d.checkResponseCoin(tx, keyBase, "MintToken", p.LptDenom, minted)
		run.Class("uniadd", "bound="+tag.Bound, "amt="+magClass(in), fmt.Sprint("side-std=", m.ExactToken.Denom == pre.Std))
	case *cstypes.MsgRemoveUnilateralLiquidity:
		checkDeadline(m.Deadline)
		p := poolOf(pre, m.CounterpartyDenom).P
		out := new(big.Int).Neg(poolDelta(p, m.MinToken.Denom))
		burned := bi(m.ExactLiquidity)
		exp.sub(p.EscrowAddress, m.MinToken.Denom, out)
		exp.add(m.Sender, m.MinToken.Denom, out)
		exp.sub(m.Sender, p.LptDenom, burned)
		supExp[p.LptDenom] = new(big.Int).Neg(burned)
		run.Eval(2)
		if out.Cmp(bi(m.MinToken.Amount)) < 0 {
			run.Violation(keyBase+":min-token-not-met", detail, "one-sided remove returned %s < stated minimum %s", out, m.MinToken)
		}
		if out.Sign() < 0 {
			run.Violation(keyBase+":negative-withdrawal", detail, "one-sided remove moved %s into the pool", new(big.Int).Neg(out))
		}
		run.Class("uniremove", "bound="+tag.Bound, "amt="+magClass(burned), fmt.Sprint("side-std=", m.MinToken.Denom == pre.Std))
	case *banktypes.MsgSend:
		if tag.Kind == "params" {
			// carrier of a params change: moves nothing
		} else {
			for _, c := range m.Amount {
				exp.sub(m.FromAddress, c.Denom, bi(c.Amount))
				exp.add(m.ToAddress, c.Denom, bi(c.Amount))
			}
		}
		run.Class(tag.Kind, tag.Note)
	default:
		return
	}
	run.Eval(2)
	if df := diffLedger(exp, act); len(df) > 0 {
		detail["diff"] = df
		key := keyBase + ":balance-sheet"
		// name the role of the first differing account for a stable signature
		key += ":" + d.roleOf(df[0], tx, pre, post)
		run.Violation(key, detail, "balance changes of a successful %s differ from what the message dictates: %v", tag.Kind, df)
	}
	if df := diffLedger(map[string]map[string]*big.Int{"supply": supExp}, map[string]map[string]*big.Int{"supply": supAct}); len(df) > 0 {
		detail["supply_diff"] = df
		run.Violation(keyBase+":supply", detail, "total supplies changed other than dictated: %v", df)
	}
	run.Sample("settle:"+tag.Kind+":"+tag.Hop, map[string]any{"height": br.Height, "msg": msgBrief(tx.Msgs), "recipient": tag.Recipient, "bound": tag.Bound, "delta": fmt.Sprint(act)})
}

func kindOf(buy bool) string {
	if buy {
		return "buy"
	}
	return "sell"
}

func (d *csDirector) roleOf(diffLine string, tx *rig.TxRecord, pre, post *csSnap) string {
	var addr string
	fmt.Sscanf(diffLine, "%s", &addr)
	if addr == tx.Signer.String() {
		return "sender"
	}
	for _, p := range post.Pools {
		if p.EscrowAddress == addr {
			return "pool"
		}
	}
	if m, ok := tx.Msgs[0].(*cstypes.MsgSwapOrder); ok && htCanonAddr(m.Output.Address) == addr {
		return "recipient"
	}
	if addr == authtypes.NewModuleAddress(cstypes.ModuleName).String() {
		return "module-account"
	}
	if addr == authtypes.NewModuleAddress(authtypes.FeeCollectorName).String() {
		return "fee-collector"
	}
	return "third-party"
}

func (d *csDirector) checkResponseCoin(tx *rig.TxRecord, keyBase, field, denom string, amt *big.Int) {
	if len(tx.Responses) != 1 {
		return
	}
	var got *sdk.Coin
	switch tx.Responses[0].TypeUrl {
	case "/irismod.coinswap.MsgAddLiquidityResponse":
		var resp cstypes.MsgAddLiquidityResponse
		if d.r.Cdc.Unmarshal(tx.Responses[0].Value, &resp) == nil {
			got = resp.MintToken
		}
	case "/irismod.coinswap.MsgAddUnilateralLiquidityResponse":
		var resp cstypes.MsgAddUnilateralLiquidityResponse
		if d.r.Cdc.Unmarshal(tx.Responses[0].Value, &resp) == nil {
			got = resp.MintToken
		}
	}
	if got == nil {
		return
	}
	d.run.Eval(1)
	if got.Denom != denom || bi(got.Amount).Cmp(amt) != 0 {
		d.run.Violation(keyBase+":response-differs-from-minted", map[string]any{"msgs": msgBrief(tx.Msgs)}, "response reports %s minted, supply of %s changed by %s", got, denom, amt)
	}
}

// coinswapWorkload exposes the coinswap director's intents as a Workload for multi-module chains.
type coinswapWorkload struct {
	d *csDirector
}

func newCoinswapWorkload() *coinswapWorkload { return &coinswapWorkload{} }

func (w *coinswapWorkload) Name() string                                        { return "coinswap" }
func (w *coinswapWorkload) Genesis(codec.Codec, map[string]json.RawMessage) {}
func (w *coinswapWorkload) Attach(run *ev.Run, r *rig.Rig) {
	w.d = &csDirector{run: run, r: r, mode: "none", denoms: []string{"tka", "tkb", "tkc"}, std: rig.BondDenom, feeCfg: "default"}
}

func (w *coinswapWorkload) Next(block int) []rig.Tx {
	d := w.d
	d.touched = map[string]bool{}
	saved := d.r.Snapshot
	// the director reads state through its own snapshot function
	d.r.Snapshot = func(ctx sdk.Context) any {
		return &csSnap{Bal: d.r.AllBalances(ctx), Supply: d.r.Supplies(ctx), Params: d.r.K.Coinswap.GetParams(ctx), Pools: d.r.K.Coinswap.GetAllPools(ctx), Std: d.r.K.Coinswap.GetStandardDenom(ctx), Time: ctx.BlockTime()}
	}
	defer func() { d.r.Snapshot = saved }()
	var out []rig.Tx
	d.next = d.r.Time.Add(5 * time.Second) // the shared chain's director chooses the real block time later
	n := d.run.Rng.Intn(3)
	for i := 0; i < n; i++ {
		// mixed magnitudes: at 100 bits most one-sided operations end in the 256-bit range rejection
		if tx, ok := d.intent(pick(d.run.Rng, 22, 40, 62, 100), block); ok {
			out = append(out, tx)
		}
	}
	return out
}

func (w *coinswapWorkload) Observe(br *rig.BlockRecord) {}
