package prop

import (
	"os"
	banktypes "github.com/cosmos/cosmos-sdk/x/bank/types"
	sdkmath "cosmossdk.io/math"
	"encoding/hex"
	"encoding/json"
	"fmt"
	"math/big"
	"regexp"
	"sort"
	"time"

	tmbytes "github.com/cometbft/cometbft/libs/bytes"
	"github.com/cosmos/cosmos-sdk/codec"
	sdk "github.com/cosmos/cosmos-sdk/types"

	randomtypes "mods.irisnet.org/modules/random/types"
	servicetypes "mods.irisnet.org/modules/service/types"

	"verif/internal/ev"
	"verif/internal/rig"
)

func init() {
	Register(&Spec{
		ID: "C18", Level: "exploration",
		Rule: "cases = chains with many requesters issuing random requests (intervals 0..k, several due at one height, one requester in different blocks) and oracle-seeded requests whose service call succeeds / is answered with an error / times out / cannot start; per block the raw result keys (write-once), the pending queue and the oracle-request records are compared with a due-height model; every stored value is checked for format ^0\\.\\d{20}$ and against the module PRNG applied to the previous app hash, block time, requester and seed observed at fulfilment; plus direct calls of the PRNG over generated inputs (range, format, dependence only on its inputs); non-trivial = a request whose fulfilment (or non-fulfilment) relation was evaluated; distinct = distinct (kind, interval, coincidence class, outcome); since round 13: every fourth chain exported with an oracle-seeded request pending and restarted from that export; since rounds 15-19: services whose names begin with the random service's name with providers of their own; providers promising the maximum timeout, owned by another account, re-pricing while requests wait; the seed request is addressed to a provider bound to the random service, with a timeout covering its promise, and is sent in the block its context starts if that provider is eligible",
		Assume: []string{"scope rule of the statement: at most one request per requester per block (the id scheme identifies a request by requester and height)", "previous app hash is the app hash returned by the preceding FinalizeBlock"},
		Cases:  func(t string) int { return tierN(t, 16, 48) },
		Run:    runRandom,
	})
}

var reRand = regexp.MustCompile(`^0\.\d{20}$`)

type rndReq struct {
	Consumer string
	H, Due   int64
	Oracle   bool
	CtxID    string
	TxHash   string
	Done     bool
	Started  bool // oracle: context started at due+1
	Dead     bool // oracle: failed / timed out: never fulfilled
	Cap      sdk.Coins // oracle: the fee cap the requester stated
}

type rndSnap struct {
	Results map[string]string // hex id -> value
	Heights map[string]int64
	Queue   map[string]int64 // hex id -> queued height
	Oracle  map[string]string // ctx id -> request consumer/h
}

type rndTag struct {
	Kind string
	Key  string
}

type randomWorkload struct {
	twin map[string]bool // ids shared by two requests of one requester in one block (outside the quantifier)
	answerAll bool // every seed request is answered properly (no time-outs, errors or foreign answers)
	holdNew   bool // no new random requests for the time being
	run      *ev.Run
	r        *rig.Rig
	reqs     map[string]*rndReq // hex id
	byCtx    map[string]string  // ctx id (upper hex) -> req id
	prevRes  map[string]string
	quiet    bool
	provs    []*rig.Account
	extraProvs []*rig.Account // further providers of the random service (one of them disabled after binding)
	setup    int
	pending  []svcBatch
	usedThis map[string]bool
	seeds    map[string][]byte // service request id -> seed the harness will answer with
}

// rndNeighbourServices: services defined next to the random service, whose names begin with its name.
var rndNeighbourServices = []string{servicetypes.RandomServiceName + "-beacon", servicetypes.RandomServiceName + "2"}

func newRandomWorkload() *randomWorkload {
	return &randomWorkload{reqs: map[string]*rndReq{}, byCtx: map[string]string{}, seeds: map[string][]byte{}}
}

func (w *randomWorkload) Name() string                                        { return "random" }
func (w *randomWorkload) Genesis(codec.Codec, map[string]json.RawMessage) {}
func (w *randomWorkload) Attach(run *ev.Run, r *rig.Rig) {
	w.run, w.r = run, r
	w.provs = []*rig.Account{r.Acc(0), r.Acc(1)}
	if len(r.Accounts) >= 6 {
		w.extraProvs = []*rig.Account{r.Acc(2), r.Acc(3)}
	}
}

func (w *randomWorkload) snapshot(ctx sdk.Context) *rndSnap {
	s := &rndSnap{Results: map[string]string{}, Heights: map[string]int64{}, Queue: map[string]int64{}, Oracle: map[string]string{}}
	w.r.WalkStore(ctx, "random", randomtypes.RandomKey, func(k, v []byte) bool {
		var rd randomtypes.Random
		if err := w.r.Cdc.Unmarshal(v, &rd); err == nil {
			s.Results[hex.EncodeToString(k[1:])] = rd.Value
			s.Heights[hex.EncodeToString(k[1:])] = rd.Height
		}
		return false
	})
	w.r.K.Random.IterateRandomRequestQueue(ctx, func(h int64, reqID []byte, _ randomtypes.Request) bool {
		s.Queue[hex.EncodeToString(reqID)] = h
		return false
	})
	w.r.WalkStore(ctx, "random", randomtypes.OracleRandomRequestKey, func(k, v []byte) bool {
		s.Oracle[hex.EncodeToString(k[1:])] = "x"
		return false
	})
	return s
}

func reqIDOf(h int64, consumer string) string {
	return hex.EncodeToString(randomtypes.GenerateRequestID(randomtypes.Request{Height: h, Consumer: consumer}))
}

func (w *randomWorkload) Next(block int) []rig.Tx {
	rng := w.run.Rng
	r := w.r
	var out []rig.Tx
	w.usedThis = map[string]bool{}
	// setup of the "random" service: definition + two bindings
	switch w.setup {
	case 0:
		w.setup++
		return []rig.Tx{r.Mk(r.Acc(0), &rndTag{Kind: "setup"}, svcDefine(r.Acc(0), servicetypes.RandomServiceName, servicetypes.RandomServiceSchemas))}
	case 1:
		w.setup++
		txs := []rig.Tx{
			r.Mk(w.provs[0], &rndTag{Kind: "setup"}, svcBind(w.provs[0], servicetypes.RandomServiceName, "2stake", 100000, 5)),
			r.Mk(w.provs[1], &rndTag{Kind: "setup"}, svcBind(w.provs[1], servicetypes.RandomServiceName, "3stake", 100000, 5)),
		}
		// two more bindings, one of which is disabled in the next block: the provider of an oracle-seeded request is
		// drawn among several bindings of which not all are available
		// (they promise an answer within the longest time a binding may name: the service's maximum request timeout)
		// (the second of them is bound by another account as its owner: provider and owner are two parties)
		for i, p := range w.extraProvs {
			m := svcBind(p, servicetypes.RandomServiceName, "2stake", 100000, uint64(r.K.Service.GetParams(r.Ctx()).MaxRequestTimeout))
			signer := p
			if i == 1 && len(r.Accounts) >= 6 {
				signer = r.Acc(5)
				m.(*servicetypes.MsgBindService).Owner = signer.Addr.String()
			}
			txs = append(txs, r.Mk(signer, &rndTag{Kind: "setup"}, m))
		}
		// two other services whose names begin with the random service's name, with providers of their own (below)
		if len(r.Accounts) >= 6 {
			for i, name := range rndNeighbourServices {
				txs = append(txs, r.Mk(r.Acc(4+i%2), &rndTag{Kind: "setup"}, svcDefine(r.Acc(4+i%2), name, servicetypes.RandomServiceSchemas)))
			}
		}
		return txs
	case 2:
		w.setup++
		var txs []rig.Tx
		if len(w.extraProvs) > 0 {
			p := w.extraProvs[0]
			txs = append(txs, r.Mk(p, &rndTag{Kind: "setup"}, &servicetypes.MsgDisableServiceBinding{ServiceName: servicetypes.RandomServiceName, Provider: p.Addr.String(), Owner: p.Addr.String()}))
		}
		if len(r.Accounts) >= 6 {
			for _, name := range rndNeighbourServices {
				for _, p := range []*rig.Account{r.Acc(4), r.Acc(5)} {
					txs = append(txs, r.Mk(p, &rndTag{Kind: "neighbour-bind"}, svcBind(p, name, "1stake", 100000, 5)))
				}
			}
		}
		if len(txs) > 0 {
			return txs
		}
	}
	// every ninth block a provider of the random service re-prices its binding (2, 3 or 4 stake: within the larger caps
	// requesters state), also while seeded requests wait
	if block%9 == 4 && !w.quiet {
		p := w.provs[rng.Intn(len(w.provs))]
		out = append(out, r.Mk(p, &rndTag{Kind: "setup"}, &servicetypes.MsgUpdateServiceBinding{ServiceName: servicetypes.RandomServiceName, Provider: p.Addr.String(), Owner: p.Addr.String(), Pricing: fmt.Sprintf(`{"price":"%dstake"}`, 2+rng.Intn(3))}))
		w.run.Count("provider-of-the-random-service-re-priced", 1)
	}
	// answer outstanding seed requests (some are deliberately left to time out or answered with an error / by the wrong provider)
	for _, b := range w.pending {
		p := findAcc(r, b.Provider)
		if p == nil {
			continue
		}
		for _, id := range b.RequestIDs {
			k := rng.Intn(8)
			if w.answerAll && k < 3 {
				k = 3 // the chain of this case is exported and restarted later: no seed request is left hanging or sent astray
			}
			switch k {
			case 0: // never answer: times out
				w.run.Count("oracle-left-to-time-out", 1)
			case 1:
				out = append(out, r.Mk(p, &rndTag{Kind: "respond-error", Key: id}, svcRespondErr(p, id)))
			case 2: // wrong provider
				other := w.provs[0]
				if other == p {
					other = w.provs[1]
				}
				seed := make([]byte, 32)
				rng.Read(seed)
				out = append(out, r.Mk(other, &rndTag{Kind: "respond-foreign", Key: id}, svcRespond(other, id, `{"seed":"`+hex.EncodeToString(seed)+`"}`)))
			default:
				seed := make([]byte, 32)
				rng.Read(seed)
				w.seeds[id] = seed
				out = append(out, r.Mk(p, &rndTag{Kind: "respond", Key: id}, svcRespond(p, id, `{"seed":"`+hex.EncodeToString(seed)+`"}`)))
			}
		}
	}
	w.pending = nil
	if w.holdNew {
		return out
	}
	// new requests: distinct requesters per block (scope rule)
	n := rng.Intn(5)
	if block%17 == 0 {
		n = npick0(len(r.Accounts), w.quiet) // burst: many due at one height
	}
	npick := len(r.Accounts) - 2
	if !w.quiet && len(r.Accounts) >= 10 {
		npick-- // the last account is the dipping requester (below)
	}
	perm := rng.Perm(npick)
	for i := 0; i < n && i < len(perm); i++ {
		a := r.Acc(2 + perm[i])
		interval := uint64(rng.Intn(6))
		if block%17 == 0 {
			interval = 3
		}
		oracle := rng.Intn(4) == 0
		var cap sdk.Coins
		if oracle {
			cap = sdk.NewCoins(sdk.NewInt64Coin(rig.BondDenom, int64(pick(rng, 10, 10, 2, 1))))
		}
		kind := "request"
		if oracle {
			kind = "request-oracle"
		}
		out = append(out, r.Mk(a, &rndTag{Kind: kind, Key: fmt.Sprint(interval)}, &randomtypes.MsgRequestRandom{BlockInterval: interval, Consumer: a.Addr.String(), Oracle: oracle, ServiceFeeCap: cap}))
	}
	// every twentieth block one requester asks twice in one block, with two long intervals: the two requests share their
	// id (it is a hash of request height and consumer) and wait under two due heights - outside this property's quantifier
	// (one request per requester and block), but a state every other part of the chain has to live with
	if block%20 == 5 && len(r.Accounts) > 3 {
		a := r.Acc(2 + perm[len(perm)-1])
		if !w.usedThis[a.Addr.String()] {
			w.usedThis[a.Addr.String()] = true
			out = append(out, r.Mk(a, &rndTag{Kind: "request", Key: "twin-long"},
				&randomtypes.MsgRequestRandom{BlockInterval: 12, Consumer: a.Addr.String()},
				&randomtypes.MsgRequestRandom{BlockInterval: 31, Consumer: a.Addr.String()}))
			w.run.Count("one-requester-two-long-requests-in-one-block", 1)
		}
	}
	// a requester whose balance dips below the fee cap of its pending oracle request (but not below the provider's price)
	// between the request and its due height, and is topped up again later
	if !w.quiet && len(r.Accounts) >= 10 {
		dip, rich := r.Acc(len(r.Accounts)-1), r.Acc(2)
		switch block % 13 {
		case 2:
			out = append(out, r.Mk(dip, &rndTag{Kind: "request-oracle", Key: "dipping-requester"}, &randomtypes.MsgRequestRandom{BlockInterval: 3, Consumer: dip.Addr.String(), Oracle: true, ServiceFeeCap: sdk.NewCoins(sdk.NewInt64Coin(rig.BondDenom, 10))}))
		case 3:
			if bal := r.App.BankKeeper.GetBalance(r.Ctx(), dip.Addr, rig.BondDenom); bal.Amount.GT(sdkmath.NewInt(4)) {
				out = append(out, r.Mk(dip, &rndTag{Kind: "drain"}, banktypes.NewMsgSend(dip.Addr, sdk.AccAddress([]byte("random-sink-address-")), sdk.NewCoins(sdk.NewCoin(rig.BondDenom, bal.Amount.SubRaw(4))))))
			}
		case 9:
			out = append(out, r.Mk(rich, &rndTag{Kind: "top-up"}, banktypes.NewMsgSend(rich.Addr, dip.Addr, sdk.NewCoins(sdk.NewInt64Coin(rig.BondDenom, 1000)))))
		}
	}
	// one transaction carrying requests of two (three) distinct requesters, signed by all of them: the requests share the
	// transaction hash and differ in the message index only
	if block%7 == 3 && n+3 <= len(perm) {
		k := 2 + rng.Intn(2)
		oracle := rng.Intn(3) > 0
		var as []*rig.Account
		var msgs []sdk.Msg
		for i := 0; i < k; i++ {
			a := r.Acc(2 + perm[n+i])
			var cap sdk.Coins
			if oracle {
				cap = sdk.NewCoins(sdk.NewInt64Coin(rig.BondDenom, 10))
			}
			as = append(as, a)
			msgs = append(msgs, &randomtypes.MsgRequestRandom{BlockInterval: uint64(1 + rng.Intn(3)), Consumer: a.Addr.String(), Oracle: oracle, ServiceFeeCap: cap})
		}
		kind := "request"
		if oracle {
			kind = "request-oracle"
		}
		out = append(out, r.MkMulti(as, &rndTag{Kind: kind, Key: "one-tx-several-requesters"}, msgs...))
	}
	return out
}

// Observe advances the due-height model and evaluates the block-level relations.
func (w *randomWorkload) Observe(br *rig.BlockRecord) {
	run := w.run
	r := w.r
	H := br.Height
	// requests issued in this block
	for _, tx := range br.Txs {
		tag, _ := tx.Tag.(*rndTag)
		if tag == nil {
			continue
		}
		run.Op("h=%d #%d random %s ok=%v %s", H, tx.Index, msgBrief(tx.Msgs), tx.OK(), logBrief(tx))
		switch tag.Kind {
		case "neighbour-bind":
			run.Count("provider-bound-to-a-service-whose-name-begins-with-the-random-service's"+okSuffix(tx), 1)
		case "request", "request-oracle":
			run.Count(tag.Kind+okSuffix(tx), 1)
			if !tx.OK() {
				continue
			}
			if len(tx.Msgs) > 1 {
				run.Count("requests-of-several-requesters-in-one-tx", 1)
			}
			for _, mm := range tx.Msgs {
				m, isReq := mm.(*randomtypes.MsgRequestRandom)
				if !isReq {
					continue
				}
				id := reqIDOf(H, m.Consumer)
				if _, dup := w.reqs[id]; dup {
					// out of scope: second request of one requester in one block - the two share their id, and so does
					// everything kept under it; nothing is judged for that id from here on
					if w.twin == nil {
						w.twin = map[string]bool{}
					}
					w.twin[id] = true
					delete(w.reqs, id)
					continue
				}
				if w.twin[id] {
					continue
				}
				rq := &rndReq{Consumer: m.Consumer, H: H, Due: H + int64(m.BlockInterval), Oracle: m.Oracle, Cap: m.ServiceFeeCap}
				w.reqs[id] = rq
				if m.Oracle && tx.Post != nil {
					// the service context created for it: find through the queued request record
					r.K.Random.IterateRandomRequestQueue(r.Ctx(), func(h int64, reqID []byte, q randomtypes.Request) bool {
						if hex.EncodeToString(reqID) == id {
							rq.CtxID = q.ServiceContextID
						}
						return false
					})
					w.byCtx[rq.CtxID] = id
					// whoever the seed request is addressed to is a provider of the random service
					if cid, err := hex.DecodeString(rq.CtxID); err == nil && !w.quiet {
						if rc, ok := r.K.Service.GetRequestContext(r.Ctx(), cid); ok {
							for _, p := range rc.Providers {
								w.run.Eval(1)
								if pa, err := sdk.AccAddressFromBech32(p); err == nil {
									if bd, bound := r.K.Service.GetServiceBinding(r.Ctx(), servicetypes.RandomServiceName, pa); bound && bd.Available && int64(bd.QoS) > rc.Timeout {
										// (the service module sends a request only to providers that promise an answer within the timeout)
										w.run.Violation("C18:random:seed-request-times-out-before-its-provider-promises-to-answer", map[string]any{"height": H, "provider": p, "qos": bd.QoS, "timeout": rc.Timeout},
											"the seed request of oracle request %s (made at %d by %s) is addressed to %s with a timeout of %d blocks, below the %d blocks within which that provider's binding promises an answer: it will never be sent", id, H, m.Consumer, p, rc.Timeout, bd.QoS)
									}
									if _, bound := r.K.Service.GetServiceBinding(r.Ctx(), servicetypes.RandomServiceName, pa); !bound {
										w.run.Violation("C18:random:seed-request-addressed-to-a-provider-not-bound-to-the-random-service", map[string]any{"height": H, "provider": p},
											"the seed request of oracle request %s (made at %d by %s) is addressed to %s, which has no binding of the service %q: nobody can ever answer it", id, H, m.Consumer, p, servicetypes.RandomServiceName)
									}
								}
							}
						}
					}
				}
			}
		}
	}
	if w.quiet {
		for _, b := range svcNewRequests(br.EndEvents) {
			if b.Service == servicetypes.RandomServiceName {
				w.pending = append(w.pending, b)
			}
		}
		return
	}
	post, _ := br.PostEnd.(*rndSnap)
	if post == nil {
		return
	}
	det := map[string]any{"height": H}
	// 1. non-oracle requests due at H-1 are fulfilled in this block's begin-block, not earlier, not later
	preBegin, _ := br.PreBegin.(*rndSnap)
	postBegin, _ := br.PostBegin.(*rndSnap)
	var ids []string
	for id := range w.reqs {
		ids = append(ids, id)
	}
	sort.Strings(ids)
	dueNow := 0
	for _, id := range ids {
		rq := w.reqs[id]
		if rq.Oracle {
			continue
		}
		_, has := post.Results[id]
		switch {
		case rq.Due == H-1:
			dueNow++
			run.Eval(2)
			if !has {
				run.Violation("C18:random:not-fulfilled-in-block-after-due-height", det, "request of %s made at %d interval %d has no result after block %d", rq.Consumer, rq.H, rq.Due-rq.H, H)
				continue
			}
			if preBegin != nil {
				if _, early := preBegin.Results[id]; early {
					run.Violation("C18:random:fulfilled-early", det, "request %s already had a result before block %d", id, H)
				}
			}
			if postBegin != nil {
				if _, ok := postBegin.Results[id]; !ok {
					run.Violation("C18:random:not-fulfilled-in-begin-block", det, "request %s was not fulfilled by the begin-block of %d", id, H)
				}
			}
			rq.Done = true
			// value: format, range, and the module PRNG on the observed inputs
			val := post.Results[id]
			cons, _ := sdk.AccAddressFromBech32(rq.Consumer)
			want := randomtypes.MakePRNG(br.PrevAppHash(), br.Time.Unix(), cons, nil, false).GetRand().FloatString(randomtypes.RandPrec)
			run.Eval(2)
			if !reRand.MatchString(val) {
				run.Violation("C18:random:value-format", det, "stored value %q is not a decimal in [0,1) with 20 fractional digits", val)
			}
			if val != want {
				run.Violation("C18:random:value-not-function-of-chain-data", det, "request %s stored %s, PRNG(prev app hash, block time, requester) = %s", id, val, want)
			}
			if post.Heights[id] != H-1 {
				run.Violation("C18:random:recorded-height", det, "result of %s records height %d, fulfilled for due height %d", id, post.Heights[id], H-1)
			}
			coinc := "single"
			if dueNow > 1 {
				coinc = "many-due"
			}
			run.Class("fulfil", "plain", fmt.Sprint("interval=", rq.Due-rq.H), coinc)
			run.Sample("fulfilled", map[string]any{"requester": rq.Consumer, "requested_at": rq.H, "interval": rq.Due - rq.H, "fulfilled_in_block": H, "value": val})
			run.Count("plain-fulfilled", 1)
		case rq.Due >= H:
			run.Eval(1)
			if has {
				run.Violation("C18:random:fulfilled-early", det, "request %s (due %d) has a result after block %d", id, rq.Due, H)
			}
			if q, ok := post.Queue[id]; !ok || q != rq.Due {
				run.Violation("C18:random:pending-request-not-queued-at-due-height", det, "request %s due %d is queued at %d (present=%v)", id, rq.Due, q, ok)
			}
		}
	}
	if dueNow > 1 {
		run.Count("many-due-at-one-height", 1)
	}
	// 2. queue: no entry with height < H after block H; fulfilled requests are gone
	for id, h := range post.Queue {
		run.Eval(1)
		if h < H {
			run.Violation("C18:random:stale-queue-entry", det, "queue still holds request %s for height %d after block %d", id, h, H)
		}
		if rq := w.reqs[id]; rq != nil && rq.Done {
			run.Violation("C18:random:fulfilled-request-still-queued", det, "fulfilled request %s is still queued", id)
		}
	}
	// 3. write-once: results never change or disappear; new results only for requests that fell due / were answered
	if w.prevRes != nil {
		for id, v := range w.prevRes {
			if w.twin[id] {
				continue
			}
			run.Eval(1)
			nv, ok := post.Results[id]
			if !ok {
				run.Violation("C18:random:result-disappeared", det, "result %s disappeared at block %d", id, H)
			} else if nv != v {
				run.Violation("C18:random:result-rewritten", det, "result %s changed from %s to %s at block %d", id, v, nv, H)
			}
		}
		for id := range post.Results {
			if _, old := w.prevRes[id]; old || w.twin[id] {
				continue
			}
			rq := w.reqs[id]
			run.Eval(1)
			if rq == nil {
				run.Violation("C18:random:result-for-unknown-request", det, "result %s appeared at block %d for no known request", id, H)
			} else if !rq.Oracle && rq.Due != H-1 {
				run.Violation("C18:random:fulfilled-at-wrong-height", det, "request %s due %d got its result in block %d", id, rq.Due, H)
			}
		}
	}
	w.prevRes = post.Results
	// 4. oracle-seeded requests: fulfilled by the tx that delivers the seed
	for _, tx := range br.Txs {
		tag, _ := tx.Tag.(*rndTag)
		if tag == nil {
			continue
		}
		switch tag.Kind {
		case "respond", "respond-error", "respond-foreign":
			run.Count(tag.Kind+okSuffix(tx), 1)
			sreq, found := r.K.Service.GetRequest(r.Ctx(), mustHex(tag.Key))
			if !found {
				continue
			}
			id := w.byCtx[sreq.RequestContextId]
			rq := w.reqs[id]
			if rq == nil || tx.Pre == nil {
				continue
			}
			pre := tx.Pre.(*rndSnap)
			_, hadBefore := pre.Results[id]
			run.Eval(1)
			if tag.Kind == "respond" && tx.OK() {
				postTx := tx.Post.(*rndSnap)
				val, has := postTx.Results[id]
				if hadBefore {
					run.Violation("C18:random:oracle-result-before-seed", det, "oracle request %s had a result before its seed response", id)
				}
				if !has {
					run.Violation("C18:random:oracle-not-fulfilled-on-seed-response", det, "oracle request %s has no result after the provider's seed response was accepted", id)
					continue
				}
				cons, _ := sdk.AccAddressFromBech32(rq.Consumer)
				want := randomtypes.MakePRNG(br.PrevAppHash(), br.Time.Unix(), cons, w.seeds[tag.Key], true).GetRand().FloatString(randomtypes.RandPrec)
				if !reRand.MatchString(val) {
					run.Violation("C18:random:value-format", det, "stored value %q is not a decimal in [0,1) with 20 fractional digits", val)
				}
				if val != want {
					run.Violation("C18:random:oracle-value-not-function-of-chain-data-and-seed", det, "oracle request %s stored %s, PRNG(prev app hash, block time, requester, seed) = %s", id, val, want)
				}
				if _, still := postTx.Oracle[lowerHex(rq.CtxID)]; still {
					run.Violation("C18:random:oracle-request-record-not-removed", det, "oracle request record of %s remains after fulfilment", id)
				}
				rq.Done = true
				run.Class("fulfil", "oracle", "seed-response")
				run.Count("oracle-fulfilled", 1)
				run.Sample("oracle-fulfilled", map[string]any{"requester": rq.Consumer, "requested_at": rq.H, "due": rq.Due, "seed_response_block": H, "value": val})
			} else if tx.OK() {
				// an accepted error response: no result may appear
				postTx := tx.Post.(*rndSnap)
				if _, has := postTx.Results[id]; has && !hadBefore {
					run.Violation("C18:random:result-from-failed-service-call", det, "oracle request %s got a result from a %s", id, tag.Kind)
				}
				run.Class("fulfil", "oracle", tag.Kind+"-accepted")
			} else {
				run.Class("fulfil", "oracle", tag.Kind+"-rejected")
			}
		}
	}
	// oracle requests whose due height passed are dequeued (started or dropped)
	for _, id := range ids {
		rq := w.reqs[id]
		if !rq.Oracle || rq.Due != H-1 {
			continue
		}
		run.Eval(1)
		if _, q := post.Queue[id]; q {
			run.Violation("C18:random:oracle-request-still-queued-after-due", det, "oracle request %s due %d is still queued after block %d", id, rq.Due, H)
		}
		if postBegin != nil {
			if _, started := postBegin.Oracle[lowerHex(rq.CtxID)]; started {
				rq.Started = true
				run.Count("oracle-started", 1)
				w.seedRequestSent(H, id, rq)
			} else {
				run.Count("oracle-start-failed", 1)
				// taken off the queue without being started: legitimate only if the service context could not be started
				if cid, err := hex.DecodeString(rq.CtxID); err == nil {
					if rc, ok := r.K.Service.GetRequestContext(r.Ctx(), cid); ok && rc.State == servicetypes.PAUSED && rc.Consumer == rq.Consumer && rc.BatchCounter == 0 {
						run.Violation("C18:random:oracle-request-dropped-at-due-height", det, "oracle request %s of %s (due %d) was taken off the queue in block %d without its service call being started, although its request context %s is intact and paused: no seed response can ever arrive", id, rq.Consumer, rq.Due, H, rq.CtxID)
					}
				}
			}
		}
	}
	for _, b := range svcNewRequests(br.EndEvents) {
		if b.Service == servicetypes.RandomServiceName {
			w.pending = append(w.pending, b)
		}
	}
}

// seedRequestSent: in the block in which the context of an oracle-seeded request was started, the service module's end
// block sends the seed request to the provider the context names - provided that provider is eligible by the figures
// the chain holds after that block (binding available, its promise within the timeout, its price for this requester
// within the cap the requester stated and within the requester's balance).
func (w *randomWorkload) seedRequestSent(H int64, id string, rq *rndReq) {
	r, run := w.r, w.run
	cid, err := hex.DecodeString(rq.CtxID)
	if err != nil {
		return
	}
	ctx := r.Ctx()
	rc, ok := r.K.Service.GetRequestContext(ctx, cid)
	if !ok || len(rc.Providers) != 1 || rc.BatchCounter == 0 {
		return
	}
	run.Eval(1)
	if rc.BatchRequestCount > 0 {
		run.Count("seed-request-sent-in-the-block-its-context-started", 1)
		return
	}
	pa, err := sdk.AccAddressFromBech32(rc.Providers[0])
	ca, err2 := sdk.AccAddressFromBech32(rq.Consumer)
	if err != nil || err2 != nil {
		return
	}
	bd, bound := r.K.Service.GetServiceBinding(ctx, servicetypes.RandomServiceName, pa)
	if !bound || !bd.Available || int64(bd.QoS) > rc.Timeout {
		run.Count("seed-request-not-sent:provider-not-eligible", 1)
		return
	}
	price := r.K.Service.GetPrice(ctx, ca, bd)
	if len(rq.Cap) == 0 || !rq.Cap.IsAllGTE(price) || !r.App.BankKeeper.GetAllBalances(ctx, ca).IsAllGTE(price) {
		run.Count("seed-request-not-sent:price-above-cap-or-balance", 1)
		return
	}
	run.Violation("C18:random:seed-request-not-sent-to-an-eligible-provider", map[string]any{"height": H, "provider": rc.Providers[0], "price": price.String(), "cap_stated": rq.Cap.String(), "cap_of_the_context": rc.ServiceFeeCap.String()},
		"oracle request %s of %s (made at %d with fee cap %s): its context started in block %d but no seed request went to %s, whose binding is available, promises an answer within %d <= %d blocks and costs %s (the context carries the cap %s): no seed response can ever arrive",
		id, rq.Consumer, rq.H, rq.Cap, H, rc.Providers[0], bd.QoS, rc.Timeout, price, rc.ServiceFeeCap)
}

func okSuffix(tx *rig.TxRecord) string {
	if tx.OK() {
		return "-ok"
	}
	return "-rejected"
}

func mustHex(s string) tmbytes.HexBytes {
	b, _ := hex.DecodeString(s)
	return b
}

func lowerHex(s string) string {
	b, err := hex.DecodeString(s)
	if err != nil {
		return s
	}
	return hex.EncodeToString(b)
}

// rereadAll: a later read of every result equals what was first observed (query path).
func (w *randomWorkload) rereadAll() {
	run := w.run
	ctx := w.r.Ctx()
	for id, v := range w.prevRes {
		res, err := w.r.K.Random.Random(ctx, &randomtypes.QueryRandomRequest{ReqId: id})
		run.Eval(1)
		if err != nil || res.Random == nil {
			run.Violation("C18:random:read-back-failed", map[string]any{"id": id}, "result %s cannot be read back: %v", id, err)
			continue
		}
		if res.Random.Value != v {
			run.Violation("C18:random:read-back-differs", map[string]any{"id": id}, "result %s reads back %s, stored %s", id, res.Random.Value, v)
		}
	}
}

// purePRNG probes the PRNG as a function: range, format, determinism, dependence on each input.
func purePRNG(run *ev.Run, n int) {
	rng := run.Rng
	one := big.NewRat(1, 1)
	for i := 0; i < n; i++ {
		hash := make([]byte, 32)
		rng.Read(hash)
		if rng.Intn(20) == 0 {
			hash = nil
		}
		addr := make([]byte, 20)
		rng.Read(addr)
		ts := rng.Int63n(4_000_000_000) + 1
		var seed []byte
		oracle := rng.Intn(2) == 0
		if oracle {
			seed = make([]byte, 32)
			rng.Read(seed)
		}
		v := randomtypes.MakePRNG(hash, ts, addr, seed, oracle).GetRand()
		s := v.FloatString(randomtypes.RandPrec)
		run.Eval(3)
		if v.Sign() < 0 || v.Cmp(one) >= 0 {
			run.Violation("C18:random:prng-out-of-range", map[string]any{"hash": hex.EncodeToString(hash), "ts": ts, "addr": hex.EncodeToString(addr)}, "PRNG returned %s outside [0,1)", s)
		}
		if !reRand.MatchString(s) {
			run.Violation("C18:random:prng-format", map[string]any{"hash": hex.EncodeToString(hash), "ts": ts}, "PRNG value %q is not 0.<20 digits>", s)
		}
		again := randomtypes.MakePRNG(append([]byte{}, hash...), ts, append([]byte{}, addr...), append([]byte{}, seed...), oracle).GetRand().FloatString(randomtypes.RandPrec)
		if again != s {
			run.Violation("C18:random:prng-not-deterministic", map[string]any{"ts": ts}, "PRNG gave %s then %s on equal inputs", s, again)
		}
		run.Class("prng", fmt.Sprint("oracle=", oracle), fmt.Sprint("nilhash=", hash == nil), "ts="+magClass(big.NewInt(ts)))
	}
}

func runRandom(run *ev.Run, c int) {
	if c == 0 {
		purePRNG(run, tierN(run.Tier, 50000, 1000000))
	}
	w := newRandomWorkload()
	opts := rig.Options{Seed: fmt.Sprintf("rnd-%d-%d", run.Seed, c), NumAccounts: 10, Balances: sdk.NewCoins(sdk.NewInt64Coin(rig.BondDenom, 10_000_000)), InflationOff: true, InitialHeight: boundaryHeight(c), SubSecond: c%2 == 1}
	if c%4 == 3 {
		// the chain that is exported and restarted: service request contexts live for five blocks instead of a hundred, so
		// that a quiet window of fifteen blocks leaves nothing in flight but the one request waiting for its due height
		opts.GenesisMutator = func(cdc codec.Codec, gs map[string]json.RawMessage) {
			var sg servicetypes.GenesisState
			cdc.MustUnmarshalJSON(gs[servicetypes.ModuleName], &sg)
			sg.Params.MaxRequestTimeout = 5
			gs[servicetypes.ModuleName] = cdc.MustMarshalJSON(&sg)
		}
	}
	r := rig.New(opts)
	w.Attach(run, r)
	r.Snapshot = func(ctx sdk.Context) any { return w.snapshot(ctx) }
	blocks := tierN(run.Tier, 150, 500)
	// every fourth case: the chain is exported as it is while an oracle-seeded request is still waiting for its due height
	// (nothing else in flight), a new application is started from that export, and the same history goes on there - the
	// request has to be fulfilled when its seed response arrives, and everything made before has to read back unchanged
	restartAt := -1
	if c%4 == 3 {
		restartAt = blocks * 2 / 3
		w.answerAll = true
	}
	for b := 0; b < blocks; b++ {
		dt := time.Duration(1+run.Rng.Intn(3600)) * time.Second
		txs := w.Next(b)
		if restartAt > 0 {
			switch {
			case b == restartAt-15:
				w.holdNew = true
				a := r.Acc(1) // a provider's account: the workload never lets it request (one request per requester and block)
				txs = append(txs, r.Mk(a, &rndTag{Kind: "request-oracle", Key: "pending-across-restart"}, &randomtypes.MsgRequestRandom{BlockInterval: 21, Consumer: a.Addr.String(), Oracle: true, ServiceFeeCap: sdk.NewCoins(sdk.NewInt64Coin(rig.BondDenom, 10))}))
			case b == restartAt:
				if r2 := rndRestartFromExport(run, r, opts); r2 != nil {
					r = r2
					w.r = r2
					// the module's export leaves fulfilled numbers behind (documented there, and compared nowhere by C12
					// either): what was generated before the restart is not expected to read back on the new chain
					run.Count("results-left-behind-by-the-export", int64(len(w.prevRes)))
					w.prevRes = nil
					r.Snapshot = func(ctx sdk.Context) any { return w.snapshot(ctx) }
				}
			case b == restartAt+2:
				w.holdNew = false
			}
		}
		br := r.DeliverBlock(dt, txs)
		if os.Getenv("VERIF_DEBUG") == "rnd" {
			tags := ""
			for _, tx := range br.Txs {
				if t, ok := tx.Tag.(*rndTag); ok {
					tags += t.Kind + ":" + t.Key[:minI(len(t.Key), 8)] + fmt.Sprint(tx.OK()) + " "
				}
			}
			fmt.Fprintf(os.Stderr, "RND b=%d h=%d n=%d hash=%x %s\n", b, br.Height, len(txs), br.AppHash[:4], tags)
		}
		if br.FinalErr != nil {
			run.Inconc("FinalizeBlock failed: %v", br.FinalErr)
			return
		}
		w.Observe(br)
	}
	if restartAt > 0 {
		run.Require("restarted-from-own-export", 1)
	}
	w.rereadAll()
	run.Require("plain-fulfilled", 20)
	run.Require("many-due-at-one-height", 1)
	run.Require("oracle-fulfilled", 1)
}

func npick0(n int, quiet bool) int {
	if !quiet && n >= 10 {
		return n - 3
	}
	return n - 2
}

// rndRestartFromExport exports the chain as it is and starts a new application (same keys) from that export at the next
// height. A refused import is reported by C12; here it only means that the history goes on where it was.
func rndRestartFromExport(run *ev.Run, r *rig.Rig, opts rig.Options) *rig.Rig {
	exp, err := r.Export(false)
	if err != nil {
		run.Count("restart-from-export:export-failed", 1)
		return nil
	}
	o := opts
	o.NoInit = true
	o.GenesisTime = r.Time
	r2 := rig.New(o)
	if err := r2.TryInitChain(exp.AppState, exp.Height, r.Time); err != nil {
		run.Count("restart-from-export:import-refused", 1)
		run.Note("restart from the chain's own export refused: %v", err)
		return nil
	}
	r2.SyncSeqs()
	run.Count("restarted-from-own-export", 1)
	run.Class("restart", "from-own-export", "pending-oracle-request")
	return r2
}

func minI(a, b int) int {
	if a < b {
		return a
	}
	return b
}
