package prop

import (
	abci "github.com/cometbft/cometbft/abci/types"
	"strings"
	"os"
	"encoding/json"
	"fmt"
	"time"

	sdkmath "cosmossdk.io/math"
	dbm "github.com/cosmos/cosmos-db"
	"github.com/cosmos/cosmos-sdk/codec"
	sdk "github.com/cosmos/cosmos-sdk/types"

	cstypes "mods.irisnet.org/modules/coinswap/types"
	farmtypes "mods.irisnet.org/modules/farm/types"
	servicetypes "mods.irisnet.org/modules/service/types"
	tokenv1 "mods.irisnet.org/modules/token/types/v1"

	"verif/internal/ev"
	"verif/internal/rig"
)

// The all-modules director: every module's Workload on one chain. Used by the cross-cutting
// properties (C11 determinism, C12 export/import, C13 block processing, C16 params).

type quietable interface{ SetQuiet() }

func (w *nftWorkload) SetQuiet()    { w.quiet = true }
func (w *mtWorkload) SetQuiet()     { w.quiet = true }
func (w *recordWorkload) SetQuiet() { w.quiet = true }
func (w *randomWorkload) SetQuiet() { w.quiet = true }
func (w *oracleWorkload) SetQuiet() { w.quiet = true }

// extraWorkloads lets module files register their workload constructors (htlc, farm, service, token …).
var extraWorkloads = []func() Workload{
	func() Workload { return newHTLCWorkload() },
	func() Workload { return newFarmWorkload() },
	func() Workload { return newServiceWorkload() },
	func() Workload { return newTokenWorkload() },
}

func allWorkloads() []Workload {
	ws := []Workload{newCoinswapWorkload(), newNFTWorkload(), newMTWorkload(), newRecordWorkload(), newRandomWorkload(), newOracleWorkload(), newPricedCallWorkload(), newParamChurnWorkload()}
	for _, f := range extraWorkloads {
		ws = append(ws, f())
	}
	for _, w := range ws {
		if q, ok := w.(quietable); ok {
			q.SetQuiet()
		}
	}
	return ws
}

const allAccounts = 12

// allOptions is the single source of the rig configuration of multi-module chains; replicas use it too.
func allOptions(seed string, ws []Workload, db dbm.DB, genesisTime time.Time) rig.Options {
	// the token module talks to the store-backed harness EVM, whose state commits, reverts and restarts with the chain
	evm := newTkEVM()
	return rig.Options{
		Seed: seed, NumAccounts: allAccounts, Balances: StdBalances(), DB: db, GenesisTime: genesisTime,
		EVM: evm, ExtraStoreKeys: evm.storeKeys(), SubSecond: true,
		GenesisMutator: func(cdc codec.Codec, gs map[string]json.RawMessage) {
			for _, w := range ws {
				w.Genesis(cdc, gs)
			}
		},
	}
}

type allChain struct {
	run *ev.Run
	r   *rig.Rig
	ws  []Workload
	n   int
	// PreExec: before a block is delivered every one of its transactions is first simulated and run through CheckTx in
	// this process, as a node's RPC and mempool do; nothing of that may reach block execution (replicas do neither)
	PreExec bool
	// Extra transactions for the next block (appended after the workloads' own)
	Extra []rig.Tx
}

func newAllChain(run *ev.Run, seed string, journal *rig.Journal, genesisTime time.Time) *allChain {
	return newAllChainAt(run, seed, journal, genesisTime, 1)
}

// newAllChainAt is newAllChain with an initial height other than 1.
func newAllChainAt(run *ev.Run, seed string, journal *rig.Journal, genesisTime time.Time, initialHeight int64) *allChain {
	ws := allWorkloads()
	opts := allOptions(seed, ws, nil, genesisTime)
	opts.NoInit = true
	opts.InitialHeight = initialHeight
	r := rig.New(opts)
	r.Journal = journal
	for _, w := range ws {
		w.Attach(run, r)
	}
	r.InitDefault()
	// one transaction in fourteen gets a second message that cannot succeed: its first message runs to the end and the
	// transaction is rolled back as a whole; whatever survives that outside the stores shows up as replica divergence
	// (C11), and the stores themselves are compared anyway
	c := &allChain{run: run, r: r, ws: ws}
	// (not during the first blocks: the workloads' one-time set-up transactions - definitions, feeds, liquidity - are not retried)
	r.Poison = func() bool { return c.n >= 15 && run.Rng.Intn(14) == 0 }
	return c
}

// Step delivers one block with txs from every workload.
func (c *allChain) Step(dt time.Duration) *rig.BlockRecord {
	var txs []rig.Tx
	for _, w := range c.ws {
		txs = append(txs, w.Next(c.n)...)
	}
	c.n++
	txs = append(txs, c.Extra...)
	c.Extra = nil
	if c.PreExec {
		for _, tx := range txs {
			func() {
				defer func() { _ = recover() }()
				if _, _, err := c.r.App.Simulate(tx.Bytes); err == nil {
					c.run.Count("pre-exec-simulated-ok", 1)
				}
				if res, err := c.r.App.CheckTx(&abci.RequestCheckTx{Tx: tx.Bytes, Type: abci.CheckTxType_New}); err == nil && res.Code == 0 {
					c.run.Count("pre-exec-checktx-ok", 1)
				}
			}()
		}
	}
	br := c.r.DeliverBlock(dt, txs)
	for _, w := range c.ws {
		w.Observe(br)
	}
	c.countTxs(br)
	return br
}

// countTxs records, per message type, how many transactions succeeded and were rejected.
func (c *allChain) countTxs(br *rig.BlockRecord) {
	for _, tx := range br.Txs {
		if tx.Result == nil {
			continue // the block did not complete (begin/end block aborted): there are no transaction results to count
		}
		if _, poisoned := tx.Tag.(*rig.PoisonedTag); poisoned {
			c.run.Count("poisoned-tx"+okSuffix(tx), 1)
			if tx.OK() {
				c.run.Inconc("a transaction whose second message sends 2^250 stake succeeded at height %d", br.Height)
			}
			continue
		}
		if tx.OK() {
			c.run.Count("all-tx-ok", 1)
		} else {
			c.run.Count("all-tx-rejected", 1)
			if os.Getenv("VERIF_DEBUG") == "rejects" && len(tx.Msgs) > 0 {
				fmt.Fprintf(os.Stderr, "REJ %s %s\n", shortMsg(sdk.MsgTypeURL(tx.Msgs[0])), errClass(fmt.Errorf("%s", tx.Result.Log)))
			}
			if strings.Contains(tx.Result.Log, "account sequence mismatch") {
				c.run.Count("all-tx-rejected:sequence-mismatch", 1)
			}
		}
		for _, m := range tx.Msgs {
			c.run.Count("msg:"+sdk.MsgTypeURL(m)+okSuffix(tx), 1)
		}
	}
}

// aliveTotals: every workload of the shared chain must have got its main message types through at least once over
// the whole run; a workload that is silently dead on the shared chain (all its transactions rejected) makes the
// cross-module checks observe less than they claim.
func aliveTotals(extra map[string]int64) map[string]int64 {
	m := map[string]int64{"priced-bind-ok": 1, "priced-call-ok": 1}
	for _, t := range []string{
		"coinswap.MsgAddLiquidity", "coinswap.MsgSwapOrder", "coinswap.MsgRemoveLiquidity",
		"farm.MsgCreatePool", "farm.MsgStake", "farm.MsgUnstake", "farm.MsgHarvest", "farm.MsgAdjustPool",
		"htlc.MsgCreateHTLC", "htlc.MsgClaimHTLC",
		"mt.MsgIssueDenom", "mt.MsgMintMT", "mt.MsgTransferMT", "mt.MsgBurnMT",
		"nft.MsgIssueDenom", "nft.MsgMintNFT", "nft.MsgTransferNFT", "nft.MsgBurnNFT",
		"oracle.MsgCreateFeed", "oracle.MsgStartFeed", "oracle.MsgEditFeed",
		"random.MsgRequestRandom", "record.MsgCreateRecord",
		"service.MsgDefineService", "service.MsgBindService", "service.MsgCallService", "service.MsgRespondService", "service.MsgWithdrawEarnedFees", "service.MsgPauseRequestContext",
		"token.v1.MsgIssueToken", "token.v1.MsgMintToken", "token.v1.MsgBurnToken", "token.v1.MsgSwapToERC20", "token.v1.MsgSwapFromERC20",
	} {
		m["msg:/irismod."+t+"-ok"] = 1
	}
	for k, v := range extra {
		m[k] = v
	}
	return m
}

// StepAt is Step with an absolute block time.
func (c *allChain) StepAt(t time.Time) *rig.BlockRecord {
	return c.Step(t.Sub(c.r.Time))
}

// ---- pricedCall: a service priced in a non-base denom, so that binding / calling needs the oracle exchange rate ----

type pricedCallWorkload struct {
	run    *ev.Run
	r      *rig.Rig
	setup  int
	nextP  int
	bound  []*rig.Account
	active bool
}

func newPricedCallWorkload() *pricedCallWorkload { return &pricedCallWorkload{} }

func (w *pricedCallWorkload) Name() string                                        { return "pricedcall" }
func (w *pricedCallWorkload) Genesis(codec.Codec, map[string]json.RawMessage) {}
func (w *pricedCallWorkload) Attach(run *ev.Run, r *rig.Rig)                  { w.run, w.r = run, r; w.nextP = 4 }
func (w *pricedCallWorkload) Observe(br *rig.BlockRecord) {
	for _, tx := range br.Txs {
		if t, ok := tx.Tag.(*pcTag); ok {
			w.run.Count("priced-"+t.Kind+okSuffix(tx), 1)
			if os.Getenv("VERIF_DEBUG") != "" {
				fmt.Fprintf(os.Stderr, "DBG priced h=%d %s ok=%v %s\n", br.Height, t.Kind, tx.OK(), logBrief(tx))
			}
			if t.Kind == "bind" && tx.OK() {
				w.bound = append(w.bound, t.Acc)
			}
		}
	}
}

type pcTag struct {
	Kind string
	Acc  *rig.Account
}

const pxSvc = "px"

// Next: define once, then keep binding providers priced in tka, re-pricing bound ones and calling them. Whether
// these succeed depends on the oracle feed "tka-stake" (created by the oracle workload) having a fresh value.
// A provider another workload already gave an owner is bound through that owner.
func (w *pricedCallWorkload) Next(block int) []rig.Tx {
	r := w.r
	rng := w.run.Rng
	if w.setup == 0 {
		w.setup++
		return []rig.Tx{r.Mk(r.Acc(4), &pcTag{Kind: "define"}, svcDefine(r.Acc(4), pxSvc, svcGenericSchemas))}
	}
	ownerOf := func(p *rig.Account) *rig.Account {
		if o, found := r.K.Service.GetOwner(r.Ctx(), p.Addr); found {
			if a := findAcc(r, o.String()); a != nil {
				return a
			}
		}
		return p
	}
	var out []rig.Tx
	// stay within whatever the service parameters currently allow (other workloads change them)
	sp := r.K.Service.GetParams(r.Ctx())
	qos, timeout := uint64(5), int64(10)
	if sp.MaxRequestTimeout < timeout {
		timeout = sp.MaxRequestTimeout
	}
	if uint64(sp.MaxRequestTimeout) < qos {
		qos = uint64(sp.MaxRequestTimeout)
	}
	if sp.RestrictedServiceFeeDenom && block%5 == 0 {
		// another workload restricted service fees to the base denomination: nothing priced in tka can be bound or
		// re-priced while that lasts; the authority lifts the restriction again after a few blocks
		sp.RestrictedServiceFeeDenom = false
		out = append(out, r.InjectRoute(r.Acc(4), &pcTag{Kind: "lift-fee-denom-restriction"}, &servicetypes.MsgUpdateParams{Authority: r.GovAddr.String(), Params: sp}))
	}
	{
		if w.nextP >= len(r.Accounts) {
			w.nextP = 4
		}
		p := r.Acc(w.nextP)
		o := ownerOf(p)
		already := false
		for _, b := range w.bound {
			already = already || b == p
		}
		if !already {
			msg := &servicetypes.MsgBindService{ServiceName: pxSvc, Provider: p.Addr.String(), Deposit: sdk.NewCoins(sdk.NewInt64Coin(rig.BondDenom, 1_000_000)), Pricing: `{"price":"2tka"}`, QoS: qos, Options: "{}", Owner: o.Addr.String()}
			out = append(out, r.Mk(o, &pcTag{Kind: "bind", Acc: p}, msg))
		} else {
			// re-pricing a bound provider needs the exchange rate again (minimum deposit in the base denom)
			msg := &servicetypes.MsgUpdateServiceBinding{ServiceName: pxSvc, Provider: p.Addr.String(), Pricing: fmt.Sprintf(`{"price":"%dtka"}`, 1+rng.Intn(3)), Owner: o.Addr.String()}
			out = append(out, r.Mk(o, &pcTag{Kind: "update", Acc: p}, msg))
			w.nextP++
		}
	}
	if len(w.bound) > 0 && rng.Intn(2) == 0 {
		p := w.bound[rng.Intn(len(w.bound))]
		c := r.Acc(rng.Intn(4) + 6)
		msg := &servicetypes.MsgCallService{ServiceName: pxSvc, Providers: []string{p.Addr.String()}, Consumer: c.Addr.String(), Input: `{"header":{},"body":{}}`, ServiceFeeCap: sdk.NewCoins(sdk.NewInt64Coin(rig.BondDenom, 1000)), Timeout: timeout}
		out = append(out, r.Mk(c, &pcTag{Kind: "call"}, msg))
	}
	return out
}

var _ = fmt.Sprint

// ---- paramChurn: mild, valid parameter changes through the authority path during the history, so that anything a
// process remembers about parameters (caches, package variables) shows up as replica divergence or stale behaviour ----

type paramChurnWorkload struct {
	run *ev.Run
	r   *rig.Rig
}

func newParamChurnWorkload() *paramChurnWorkload { return &paramChurnWorkload{} }

func (w *paramChurnWorkload) Name() string                                        { return "paramchurn" }
func (w *paramChurnWorkload) Genesis(codec.Codec, map[string]json.RawMessage) {}
func (w *paramChurnWorkload) Attach(run *ev.Run, r *rig.Rig)                  { w.run, w.r = run, r }
func (w *paramChurnWorkload) Observe(br *rig.BlockRecord) {
	for _, tx := range br.Txs {
		if t, ok := tx.Tag.(string); ok && len(t) > 6 && t[:6] == "churn:" {
			w.run.Count(t+okSuffix(tx), 1)
		}
	}
}

func (w *paramChurnWorkload) Next(block int) []rig.Tx {
	if block < 8 || block%9 != 0 {
		return nil
	}
	r := w.r
	rng := w.run.Rng
	ctx := r.Ctx()
	a := r.Acc(rng.Intn(len(r.Accounts)))
	gov := r.GovAddr.String()
	dec := func(choices ...string) sdkmath.LegacyDec { return sdkmath.LegacyMustNewDecFromStr(choices[rng.Intn(len(choices))]) }
	switch rng.Intn(4) {
	case 0:
		p := r.K.Token.GetParams(ctx)
		p.IssueTokenBaseFee = sdk.NewInt64Coin(rig.BondDenom, int64(pick(rng, 60000, 120000, 30000, 1)))
		p.MintTokenFeeRatio = dec("0.1", "0.2", "0", "1")
		p.TokenTaxRate = dec("0.4", "0.1", "0", "1")
		return []rig.Tx{r.InjectRoute(a, "churn:token", &tokenv1.MsgUpdateParams{Authority: gov, Params: p})}
	case 1:
		p := r.K.Farm.GetParams(ctx)
		p.PoolCreationFee = sdk.NewInt64Coin(rig.BondDenom, int64(pick(rng, 5000, 1, 70000)))
		p.TaxRate = dec("0.4", "0.000000000000000001", "0.999999999999999999", "0.25")
		p.MaxRewardCategories = uint32(pick(rng, 2, 3, 1))
		return []rig.Tx{r.InjectRoute(a, "churn:farm", &farmtypes.MsgUpdateParams{Authority: gov, Params: p})}
	case 2:
		p := r.K.Service.GetParams(ctx)
		p.ServiceFeeTax = dec("0.05", "0", "0.5")
		p.SlashFraction = dec("0.001", "0", "0.5", "1")
		p.MaxRequestTimeout = int64(pick(rng, 100, 60, 200))
		return []rig.Tx{r.InjectRoute(a, "churn:service", &servicetypes.MsgUpdateParams{Authority: gov, Params: p})}
	default:
		p := r.K.Coinswap.GetParams(ctx)
		p.TaxRate = dec("0.4", "0.1", "0.9")
		p.PoolCreationFee = sdk.NewInt64Coin(rig.BondDenom, int64(pick(rng, 5000, 1, 9999)))
		return []rig.Tx{r.InjectRoute(a, "churn:coinswap", &cstypes.MsgUpdateParams{Authority: gov, Params: p})}
	}
}
