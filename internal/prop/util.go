package prop

import (
	"fmt"
	"math/big"
	"math/rand"
	"sort"

	sdkmath "cosmossdk.io/math"
	sdk "github.com/cosmos/cosmos-sdk/types"

	"verif/internal/ev"
	"verif/internal/rig"
)

var (
	bigOne  = big.NewInt(1)
	bigZero = big.NewInt(0)
	e18     = new(big.Int).Exp(big.NewInt(10), big.NewInt(18), nil)
)

func bi(i sdkmath.Int) *big.Int { return i.BigInt() }

func pow2(n uint) *big.Int { return new(big.Int).Lsh(bigOne, n) }

// magClass names the magnitude class of v.
func magClass(v *big.Int) string {
	n := v.BitLen()
	switch {
	case v.Sign() == 0:
		return "0"
	case n <= 1:
		return "1"
	case n <= 10:
		return "small"
	case n <= 32:
		return "1e6"
	case n <= 70:
		return "1e18"
	case n <= 100:
		return "2^64+"
	default:
		return "2^128"
	}
}

// randMag draws an amount from magnitude classes {1, small, ~1e6, ~1e18, ~2^64, ~2^128}.
// maxBits caps the class.
func randMag(r *rand.Rand, maxBits int) *big.Int {
	classes := []int{1, 8, 22, 62, 66, 100, 128}
	var ok []int
	for _, c := range classes {
		if c <= maxBits {
			ok = append(ok, c)
		}
	}
	bits := ok[r.Intn(len(ok))]
	if bits == 1 {
		return big.NewInt(1)
	}
	v := new(big.Int).Rand(r, pow2(uint(bits)))
	if v.Sign() == 0 {
		v.SetInt64(1)
	}
	// bias to the top of the class half of the time
	if r.Intn(2) == 0 {
		v.SetBit(v, bits-1, 1)
	}
	return v
}

// randBelow returns a uniform value in [1, max] (max >= 1).
func randBelow(r *rand.Rand, max *big.Int) *big.Int {
	if max.Sign() <= 0 {
		return big.NewInt(1)
	}
	v := new(big.Int).Rand(r, max)
	return v.Add(v, bigOne)
}

// randFrac returns about max * p/q with jitter, at least 1.
func randFrac(r *rand.Rand, max *big.Int) *big.Int {
	den := int64(1 + r.Intn(1000))
	num := int64(1 + r.Intn(int(den)))
	v := new(big.Int).Mul(max, big.NewInt(num))
	v.Quo(v, big.NewInt(den))
	if v.Sign() <= 0 {
		v.SetInt64(1)
	}
	return v
}

// toInt converts; values beyond what sdkmath.Int can carry are clamped to 2^255-1 (still a valid message amount).
func toInt(b *big.Int) sdkmath.Int {
	if b.BitLen() > 255 {
		return sdkmath.NewIntFromBigInt(new(big.Int).Sub(pow2(255), bigOne))
	}
	return sdkmath.NewIntFromBigInt(b)
}

func coin(denom string, b *big.Int) sdk.Coin { return sdk.NewCoin(denom, toInt(b)) }

// balDelta returns after - before per (address, denom) as big.Int, omitting zeros.
func balDelta(before, after map[string]sdk.Coins) map[string]map[string]*big.Int {
	out := map[string]map[string]*big.Int{}
	add := func(addr, denom string, v *big.Int) {
		if v.Sign() == 0 {
			return
		}
		m := out[addr]
		if m == nil {
			m = map[string]*big.Int{}
			out[addr] = m
		}
		if cur, ok := m[denom]; ok {
			cur.Add(cur, v)
			if cur.Sign() == 0 {
				delete(m, denom)
				if len(m) == 0 {
					delete(out, addr)
				}
			}
		} else {
			m[denom] = new(big.Int).Set(v)
		}
	}
	for a, cs := range after {
		for _, c := range cs {
			add(a, c.Denom, bi(c.Amount))
		}
	}
	for a, cs := range before {
		for _, c := range cs {
			add(a, c.Denom, new(big.Int).Neg(bi(c.Amount)))
		}
	}
	return out
}

func coinsDelta(before, after sdk.Coins) map[string]*big.Int {
	d := balDelta(map[string]sdk.Coins{"x": before}, map[string]sdk.Coins{"x": after})
	if d["x"] == nil {
		return map[string]*big.Int{}
	}
	return d["x"]
}

// ledger is an expected-delta builder.
type ledger map[string]map[string]*big.Int

func (l ledger) add(addr, denom string, v *big.Int) {
	if v.Sign() == 0 {
		return
	}
	m := l[addr]
	if m == nil {
		m = map[string]*big.Int{}
		l[addr] = m
	}
	if cur, ok := m[denom]; ok {
		cur.Add(cur, v)
		if cur.Sign() == 0 {
			delete(m, denom)
			if len(m) == 0 {
				delete(l, addr)
			}
		}
	} else {
		m[denom] = new(big.Int).Set(v)
	}
}

func (l ledger) sub(addr, denom string, v *big.Int) { l.add(addr, denom, new(big.Int).Neg(v)) }

// diffLedger lists the (addr, denom) pairs on which expected and actual deltas differ.
func diffLedger(exp, act map[string]map[string]*big.Int) []string {
	var out []string
	seen := map[string]bool{}
	visit := func(a, d string) {
		k := a + "/" + d
		if seen[k] {
			return
		}
		seen[k] = true
		e, g := bigZero, bigZero
		if m := exp[a]; m != nil && m[d] != nil {
			e = m[d]
		}
		if m := act[a]; m != nil && m[d] != nil {
			g = m[d]
		}
		if e.Cmp(g) != 0 {
			out = append(out, fmt.Sprintf("%s %s: expected %s got %s", a, d, e, g))
		}
	}
	for a, m := range exp {
		for d := range m {
			visit(a, d)
		}
	}
	for a, m := range act {
		for d := range m {
			visit(a, d)
		}
	}
	sort.Strings(out)
	return out
}

func pick[T any](r *rand.Rand, xs ...T) T { return xs[r.Intn(len(xs))] }

// weighted picks an index by weight.
func weighted(r *rand.Rand, w []int) int {
	t := 0
	for _, x := range w {
		t += x
	}
	n := r.Intn(t)
	for i, x := range w {
		if n < x {
			return i
		}
		n -= x
	}
	return len(w) - 1
}

func ceilDiv(a, b *big.Int) *big.Int {
	q, m := new(big.Int).QuoRem(a, b, new(big.Int))
	if m.Sign() != 0 {
		q.Add(q, bigOne)
	}
	return q
}

func amountOf(cs sdk.Coins, denom string) *big.Int { return bi(cs.AmountOf(denom)) }

// boundaryHeight picks the initial height of case c so that short chains cross the byte-width boundaries of
// height-keyed queues (…FF -> …00 in the 1st, 2nd, 3rd and 4th byte of the big-endian height).
func boundaryHeight(c int) int64 {
	return []int64{1, 200, 65400, 16777100, 4294967200}[c%5]
}


// judgeSnapPanics: the observer's snapshot is made of the module's own queries; one of them panicking is a violation of
// its own (the state has become unreadable through the module's interface), not a reason to end the run.
func judgeSnapPanics(run *ev.Run, r *rig.Rig, prefix string, quiet bool) {
	for _, p := range r.SnapPanics {
		if !quiet {
			run.Violation(prefix+":query-panicked", map[string]any{"panic": p}, "a query of the module panicked while the state was being read: %s", p)
		}
	}
	r.SnapPanics = nil
}
