package prop

import (
	"verif/internal/ev"
	"verif/internal/rig"
)

// restartFromOwnExport: in every fourth case of a dedicated chain (case index 1 modulo 4) the chain is, once, exported
// as it is and a new application is started from that export; the same history and the same reference model go on
// there. What the module's import loses, re-orders or mis-assigns shows as a difference between the new application and
// the model at the next observation point or at the next operation on the object concerned. A refused import leaves the
// old application in place (C12 judges refusals).
func restartFromOwnExport(run *ev.Run, r *rig.Rig, c, b, blocks int) bool {
	if c%4 != 1 || b != blocks*3/5 {
		return false
	}
	if err := r.RestartFromExport(); err != nil {
		run.Count("restart-from-own-export-refused", 1)
		run.Note("restart from the chain's own export refused at height %d: %.300v", r.Height, err)
		return false
	}
	run.Count("restarted-from-own-export", 1)
	run.Class("restart", "from-own-export")
	return true
}
