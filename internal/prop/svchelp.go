package prop

import (
	"strings"
	"encoding/json"
	"sort"

	abci "github.com/cometbft/cometbft/abci/types"
	sdk "github.com/cosmos/cosmos-sdk/types"

	servicetypes "mods.irisnet.org/modules/service/types"

	"verif/internal/rig"
)

// Minimal service-module plumbing shared by the random (C18) and oracle (C17) directors: define a service,
// bind providers, find the request ids a batch produced, respond.

const svcGenericSchemas = `{"input":{"type":"object"},"output":{"type":"object"}}`

func svcDefine(author *rig.Account, name, schemas string) sdk.Msg {
	return &servicetypes.MsgDefineService{Name: name, Description: "d", Tags: []string{"t"}, Author: author.Addr.String(), AuthorDescription: "a", Schemas: schemas}
}

func svcBind(provider *rig.Account, name string, price string, deposit int64, qos uint64) sdk.Msg {
	return &servicetypes.MsgBindService{ServiceName: name, Provider: provider.Addr.String(), Deposit: sdk.NewCoins(sdk.NewInt64Coin(rig.BondDenom, deposit)), Pricing: `{"price":"` + price + `"}`, QoS: qos, Options: "{}", Owner: provider.Addr.String()}
}

type svcBatch struct {
	Service, Provider string
	RequestIDs        []string
}

// svcNewRequests extracts the requests issued in a block from the service module's end-block events.
func svcNewRequests(events []abci.Event) []svcBatch {
	var out []svcBatch
	for _, e := range events {
		if e.Type != servicetypes.EventTypeNewBatchRequestProvider {
			continue
		}
		var b svcBatch
		for _, a := range e.Attributes {
			switch a.Key {
			case servicetypes.AttributeKeyServiceName:
				b.Service = a.Value
			case servicetypes.AttributeKeyProvider:
				b.Provider = a.Value
			case servicetypes.AttributeKeyRequests:
				_ = json.Unmarshal([]byte(a.Value), &b.RequestIDs)
			}
		}
		out = append(out, b)
	}
	// the module emits these events in map-iteration order; sort so the harness stays deterministic
	for i := range out {
		sort.Strings(out[i].RequestIDs)
	}
	sort.Slice(out, func(i, j int) bool {
		if out[i].Service != out[j].Service {
			return out[i].Service < out[j].Service
		}
		if out[i].Provider != out[j].Provider {
			return out[i].Provider < out[j].Provider
		}
		// several batches for one provider in one block: by their requests
		return strings.Join(out[i].RequestIDs, ",") < strings.Join(out[j].RequestIDs, ",")
	})
	return out
}

func svcRespond(provider *rig.Account, requestID, body string) sdk.Msg {
	return &servicetypes.MsgRespondService{RequestId: requestID, Provider: provider.Addr.String(), Result: `{"code":200,"message":""}`, Output: `{"header":{},"body":` + body + `}`}
}

func svcRespondErr(provider *rig.Account, requestID string) sdk.Msg {
	return &servicetypes.MsgRespondService{RequestId: requestID, Provider: provider.Addr.String(), Result: `{"code":400,"message":"failed"}`, Output: ""}
}

func findAcc(r *rig.Rig, addr string) *rig.Account {
	for _, a := range r.Accounts {
		if a.Addr.String() == addr {
			return a
		}
	}
	return nil
}
