package prop

import (
	sdkmath "cosmossdk.io/math"
	"crypto/sha256"
	"encoding/binary"
	"encoding/hex"
	"encoding/json"
	"fmt"
	"math/big"
	"math/rand"
	"sort"
	"strings"
	"time"

	"github.com/cosmos/cosmos-sdk/codec"
	sdk "github.com/cosmos/cosmos-sdk/types"
	authtypes "github.com/cosmos/cosmos-sdk/x/auth/types"
	banktypes "github.com/cosmos/cosmos-sdk/x/bank/types"

	htlctypes "mods.irisnet.org/modules/htlc/types"

	"verif/internal/ev"
	"verif/internal/rig"
)

// HTLC: one workload (newHTLCWorkload), one director with two monitor sets:
//   C03 - funds leave escrow exactly once (contract state machine, per-event balance sheets, refund set at expiry)
//   C04 - escrow and cross-chain counters match the open contracts (sums, supply, limits, tumbling window)
// plus htlcQueueCheck, a raw walk of the expiry queue reused by C13.

func init() {
	Register(&Spec{
		ID: "C03", Level: "exploration",
		Rule: "cases = chains driven by the htlc director: plain (1-3 coins, timestamp 0 and non-zero), incoming and outgoing cross-chain contracts with scripted fates (claim early / in the block before expiry / at expiry / after, never, wrong secret, secret bound to another timestamp, second claim, claim after refund, claim in the creating block, duplicate create while open / completed / refunded, expiry buckets of 3-6 contracts) followed by weighted random intents; a case is non-trivial when a create/claim succeeded, a targeted hostile claim/create was executed (and rejected) or a contract was refunded at block begin, and the state-machine, balance-sheet or refund-set relation was evaluated on it; distinct = distinct (event kind, contract type, coin count, timestamp class, secret kind, claim timing, claimer role, duplicate kind, bucket size class, outcome); since rounds 11-14: every refusal of the preimage of an open contract is judged (only parameter-caused refusals of cross-chain claims are excused), four cross-chain transfers born in genesis, recipients in upper-case bech32 / 32 bytes, a crowd of 125-154 contracts falling due together in every fourth chain, one parameter update in four loosened and rolled back; since rounds 15-19: the bank's send-enabled switch of a plain denomination is turned off for seven blocks every 45; a claim refused as over a supply limit is excused only when the supply figures the chain kept before the transaction, plus the amount, exceed the limit named; a time-based limit is set below what the running period has counted",
		Assume: []string{
			"tx fees are zero in the harness, so the ante handler moves no coins",
			"contract id = sha256(hashlock||sender||to||sorted amount string), lock = sha256(secret||be64(timestamp)) (timestamp 0: sha256(secret)), computed by the harness independently",
			"a valid claim that the chain rejects (e.g. supply limit reached after a parameter change) is counted, not judged",
			"coins an account receives as designated recipient are its own: a contract whose recipient is the escrow account itself satisfies C03 when the claim nets to zero (judged by C04)",
		},
		Cases: func(t string) int { return tierN(t, 16, 64) },
		Run:   func(run *ev.Run, c int) { runHTLC(run, c, "C03") },
	})
	Register(&Spec{
		ID: "C04", Level: "exploration",
		Rule: "same director as C03 biased to cross-chain transfers: 4 assets (with and without genesis supply, time-limited or not, generated limits/fees/min/max/locks, distinct and shared deputies), amounts placed at limit, limit+1, time-based limit and min/max boundaries, block-time deltas that land before / exactly on / after the limit-period boundary, parameter changes mid-history through the authority path (incl. the busiest asset switched off and on again, and the asset with most outgoing value in flight taken off the list for eight blocks); relations are evaluated after block begin, after every successful tx and after block end; non-trivial = a boundary at which at least one contract was open or an asset counter non-zero, or a successful cross-chain create/claim/refund; distinct = distinct (observation point, event kind, direction, asset configuration class, fit class, window phase, outcome); since rounds 11-14: as C03 (genesis-born transfers, upper-case recipients, crowds, loosened-and-rolled-back parameter updates); since rounds 15-19: see C03 (send-enabled switch, period limit below what was counted)",
		Assume: []string{
			"asset denoms enter the chain only through the module or through genesis balances that the genesis asset supply records (offset bank supply - current supply is constant, 0 on every denom used)",
			"limit clauses are asserted only while the asset's parameters are unchanged: the total-limit clause from the first boundary at which it holds after a change, the time-based clause from the first window reset after a change",
			"limit periods are the tumbling windows the module's reset defines: elapsed block time accumulates per block and the window ends at the first block begin at which it reaches the period",
			"direct bank transfers to the escrow account are outside the quantifier (create/claim/expire histories) and are not generated",
		},
		Cases: func(t string) int { return tierN(t, 16, 64) },
		Run:   func(run *ev.Run, c int) { runHTLC(run, c, "C04") },
	})
}

// ---------------------------------------------------------------------------------------------
// independent hash / id computation

func htlcLock(secret []byte, ts uint64) []byte {
	h := sha256.New()
	h.Write(secret)
	if ts > 0 {
		var b [8]byte
		binary.BigEndian.PutUint64(b[:], ts)
		h.Write(b[:])
	}
	return h.Sum(nil)
}

// htlcAmountString renders coins sorted by denom as "<amount><denom>,..." (own formatting).
func htlcAmountString(amount sdk.Coins) string {
	type dc struct {
		d string
		a *big.Int
	}
	var xs []dc
	for _, c := range amount {
		xs = append(xs, dc{c.Denom, bi(c.Amount)})
	}
	sort.Slice(xs, func(i, j int) bool { return xs[i].d < xs[j].d })
	parts := make([]string, len(xs))
	for i, x := range xs {
		parts[i] = x.a.String() + x.d
	}
	return strings.Join(parts, ",")
}

func htlcID(sender, to sdk.AccAddress, amount sdk.Coins, lock []byte) []byte {
	h := sha256.New()
	h.Write(lock)
	h.Write(sender)
	h.Write(to)
	h.Write([]byte(htlcAmountString(amount)))
	return h.Sum(nil)
}

func htlcEscrow() string { return authtypes.NewModuleAddress(htlctypes.ModuleName).String() }

func htLow(s string) string { return strings.ToLower(s) }

func htShort(id string) string {
	if len(id) > 8 {
		return id[:8]
	}
	return id
}

// ---------------------------------------------------------------------------------------------
// htlcQueueCheck walks the raw expiry queue (prefix 0x02: 0x02||be64(height)||id) of the htlc store on ctx
// and returns human-readable inconsistencies, each starting with a stable slug:
//
//	queue-entry-without-contract, queue-entry-for-closed-contract, queue-entry-at-wrong-height,
//	queue-entry-not-in-future, open-contract-queue-entries, queue-key-malformed
//
// ctx must be a committed state (ctx.BlockHeight() = last committed height).
func htlcQueueCheck(r *rig.Rig, ctx sdk.Context) []string {
	var out []string
	entries := map[string][]uint64{}
	r.WalkStore(ctx, "htlc", []byte{0x02}, func(k, v []byte) bool {
		if len(k) != 1+8+32 {
			out = append(out, fmt.Sprintf("queue-key-malformed: key %x has length %d", k, len(k)))
			if len(k) < 9 {
				return false
			}
		}
		h := binary.BigEndian.Uint64(k[1:9])
		idb := k[9:]
		id := hex.EncodeToString(idb)
		entries[id] = append(entries[id], h)
		rec, found := r.K.HTLC.GetHTLC(ctx, idb)
		switch {
		case !found:
			out = append(out, fmt.Sprintf("queue-entry-without-contract: entry (height %d, id %s) has no contract record", h, id))
		case rec.State != htlctypes.Open:
			out = append(out, fmt.Sprintf("queue-entry-for-closed-contract: entry (height %d, id %s) but the contract is %s (closed at %d)", h, id, rec.State, rec.ClosedBlock))
		case rec.ExpirationHeight != h:
			out = append(out, fmt.Sprintf("queue-entry-at-wrong-height: entry (height %d, id %s) but the contract expires at %d", h, id, rec.ExpirationHeight))
		}
		if int64(h) <= ctx.BlockHeight() {
			out = append(out, fmt.Sprintf("queue-entry-not-in-future: entry (height %d, id %s) at or below the committed height %d", h, id, ctx.BlockHeight()))
		}
		return false
	})
	r.WalkStore(ctx, "htlc", []byte{0x01}, func(k, v []byte) bool {
		var rec htlctypes.HTLC
		if err := r.Cdc.Unmarshal(v, &rec); err != nil {
			out = append(out, fmt.Sprintf("contract-record-undecodable: %x: %v", k, err))
			return false
		}
		if rec.State != htlctypes.Open {
			return false
		}
		id := hex.EncodeToString(k[1:])
		es := entries[id]
		if len(es) != 1 || es[0] != rec.ExpirationHeight {
			out = append(out, fmt.Sprintf("open-contract-queue-entries: open contract %s (expires %d) has %d queue entries at heights %v", id, rec.ExpirationHeight, len(es), es))
		}
		return false
	})
	return out
}

// ---------------------------------------------------------------------------------------------
// snapshot

type htRec struct {
	raw string
	h   htlctypes.HTLC
}

type htSnap struct {
	Height int64
	Time   time.Time
	Bal    map[string]sdk.Coins
	Supply sdk.Coins
	Recs   map[string]*htRec // lower-case hex id -> record
	NQueue int
	Sup    map[string]htlctypes.AssetSupply
	Params htlctypes.Params
	PrevBT time.Time
	Digest string
}

func htlcSnapshot(r *rig.Rig, ctx sdk.Context, cache map[string]*htRec) *htSnap {
	s := &htSnap{Height: ctx.BlockHeight(), Time: ctx.BlockTime(), Bal: r.AllBalances(ctx), Supply: r.Supplies(ctx),
		Recs: map[string]*htRec{}, Sup: map[string]htlctypes.AssetSupply{}}
	r.WalkStore(ctx, "htlc", []byte{0x01}, func(k, v []byte) bool {
		id := hex.EncodeToString(k[1:])
		if c, ok := cache[id]; ok && c.raw == string(v) {
			s.Recs[id] = c
			return false
		}
		rec := &htRec{raw: string(v)}
		if err := r.Cdc.Unmarshal(v, &rec.h); err != nil {
			panic(fmt.Sprintf("htlc record %s undecodable: %v", id, err))
		}
		if cache != nil {
			cache[id] = rec
		}
		s.Recs[id] = rec
		return false
	})
	r.WalkStore(ctx, "htlc", []byte{0x02}, func(k, v []byte) bool { s.NQueue++; return false })
	for _, as := range r.K.HTLC.GetAllAssetSupplies(ctx) {
		s.Sup[as.CurrentSupply.Denom] = as
	}
	s.Params = r.K.HTLC.GetParams(ctx)
	s.PrevBT, _ = r.K.HTLC.GetPreviousBlockTime(ctx)
	s.Digest = r.StoreDigest(ctx, "htlc")
	return s
}

func (s *htSnap) asset(denom string) (htlctypes.AssetParam, bool) {
	for _, a := range s.Params.AssetParams {
		if a.Denom == denom {
			return a, true
		}
	}
	return htlctypes.AssetParam{}, false
}

// ---------------------------------------------------------------------------------------------
// workload

type htTag struct {
	Kind    string // create | claim | params | send
	Type    string // plain | incoming | outgoing | badhtlt
	ID      string // contract id (create: id the harness computed; claim: target id)
	Secret  string // claim: right | wrong-random | wrong-flip | wrong-other | unknown-id ; create: lock kind
	Timing  string // claim: early | E-1 | E | after | same-block | random
	Claimer string // to | sender | stranger
	Dup     string // create: "" | open | completed | refunded | same-block | unknown-state
	Fit     string // create htlt: in-range | limit-exact | limit+1 | ignore-incoming | tbl-exact | tbl+1 | min-1 | min | max | max+1 | fee-1 | lock-1 | no-supply | inactive
	Fate    string
	Note    string
}

type htAssetCfg struct {
	Denom    string
	Deputy   int // account index
	Limit    *big.Int
	TL       bool
	Period   time.Duration
	TBL      *big.Int
	Fee      *big.Int
	Min, Max *big.Int
	MinLock  uint64
	MaxLock  uint64
}

type htBook struct {
	ID       string
	Msg      *htlctypes.MsgCreateHTLC
	Secret   []byte
	LockKind string // right | no-ts-lock | other-ts | ts-lock-on-zero
	Sender   int
	Type     string
	Fate     string
	Created  int64
	Expiry   int64
}

type htAction struct {
	Kind    string // claim | dup
	ID      string
	Secret  string
	Timing  string
	Claimer string
	Dup     string
	Twice   bool
}

type htState struct {
	H      int64
	now    time.Time
	params htlctypes.Params
	asset  map[string]htlctypes.AssetParam
	sup    map[string]htlctypes.AssetSupply
}

type htScript struct {
	Type, Fate, Arg string
}

type htlcWorkload struct {
	run *ev.Run
	r   *rig.Rig
	rng *rand.Rand

	Mode    string        // "", "C03", "C04": weight bias
	NextDt  time.Duration // hint from the driver: time step of the block being built (0 = unknown)
	Horizon int64         // last height the driver will produce (0 = unknown)

	cfg      []htAssetCfg
	book     map[string]*htBook
	order    []string
	sched    map[int64][]htAction
	script   []htScript
	idx      map[string]int
	poisoned map[int]bool
	touched  map[string]bool
	newSeq   int
	escrow   string
	shared   bool // on a multi-module chain: do not pay third-party module accounts (gov/farm keep books on their balances)

	// GenesisBorn > 0: the chain's genesis already holds that many open ordinary contracts (hash locks written in upper,
	// lower and mixed case hex, all of which genesis validation accepts); GenesisBase is the chain's initial height
	GenesisBorn int
	// Crowd: once in the history more than a hundred ordinary contracts are created in one block with one time lock
	Crowd bool
	GenesisBase int64
	genBorn     []*htBook
	delisted    []htlctypes.AssetParam // assets the delist script took off the parameter list, to be put back
}

func (w *htlcWorkload) SetQuiet() { w.shared = true }

func newHTLCWorkload() *htlcWorkload {
	return &htlcWorkload{book: map[string]*htBook{}, sched: map[int64][]htAction{}, idx: map[string]int{}, escrow: htlcEscrow()}
}

func (w *htlcWorkload) Name() string { return "htlc" }

func htP10(n int) *big.Int { return new(big.Int).Exp(big.NewInt(10), big.NewInt(int64(n)), nil) }

// assets: htltbnb / htltinc get genesis supply when the chain gives genesis balances in them (recorded as current
// supply, limit raised accordingly); htltaaa / htltbbb never have genesis balances.
func (w *htlcWorkload) assetConfig() []htAssetCfg {
	cfg := []htAssetCfg{
		{Denom: "htltbnb", Deputy: 1, Limit: htP10(12), TL: false, Period: time.Hour, TBL: big.NewInt(0), Fee: big.NewInt(1000), Min: big.NewInt(1), Max: htP10(12), MinLock: 50, MaxLock: 34560},
		{Denom: "htltinc", Deputy: 2, Limit: htP10(9), TL: true, Period: 120 * time.Second, TBL: big.NewInt(5_000_000), Fee: big.NewInt(100), Min: big.NewInt(10), Max: htP10(7), MinLock: 55, MaxLock: 200},
		{Denom: "htltaaa", Deputy: 3, Limit: htP10(6), TL: true, Period: 45 * time.Second, TBL: htP10(5), Fee: big.NewInt(0), Min: big.NewInt(1), Max: htP10(6), MinLock: 50, MaxLock: 100},
		{Denom: "htltbbb", Deputy: 1, Limit: htP10(6), TL: false, Period: 0, TBL: big.NewInt(0), Fee: big.NewInt(7), Min: big.NewInt(3), Max: new(big.Int).Mul(big.NewInt(2), htP10(6)), MinLock: 50, MaxLock: 34560},
	}
	if w.shared {
		cfg[2].Period = 10 * time.Minute // long enough for the scripted in-and-out transfers to fall into one limit period
	}
	if w.rng == nil {
		return cfg
	}
	rng := w.rng
	for i := range cfg {
		c := &cfg[i]
		switch rng.Intn(4) {
		case 0: // keep
		case 1: // tiny numbers: residues and boundaries are hit all the time
			c.Limit = big.NewInt(int64(50 + rng.Intn(500)))
			c.Max = new(big.Int).Add(c.Limit, big.NewInt(int64(rng.Intn(3))))
			c.Min = big.NewInt(int64(1 + rng.Intn(3)))
			c.Fee = big.NewInt(int64(rng.Intn(4)))
			c.TBL = big.NewInt(int64(10 + rng.Intn(40)))
		case 2: // huge numbers
			c.Limit = randMag(rng, 128)
			c.Limit.SetBit(c.Limit, 100, 1)
			c.Max = randFrac(rng, c.Limit)
			c.Min = big.NewInt(int64(1 + rng.Intn(1000)))
			if c.Min.Cmp(c.Max) > 0 {
				c.Min = big.NewInt(1)
			}
			c.Fee = big.NewInt(int64(rng.Intn(100000)))
			c.TBL = randFrac(rng, c.Limit)
		case 3: // medium, max swap above the limit
			c.Limit = new(big.Int).Mul(big.NewInt(int64(1+rng.Intn(999))), htP10(3+rng.Intn(6)))
			c.Max = new(big.Int).Mul(c.Limit, big.NewInt(2))
			c.Min = big.NewInt(int64(1 + rng.Intn(50)))
			c.Fee = big.NewInt(int64(rng.Intn(50)))
			c.TBL = randFrac(rng, c.Limit)
		}
		if c.TL || rng.Intn(4) == 0 {
			c.TL = rng.Intn(5) > 0 || c.TL && rng.Intn(3) > 0
			c.Period = pick(rng, 30*time.Second, 45*time.Second, 60*time.Second, 2*time.Minute, 5*time.Minute, 10*time.Minute)
			if c.TBL.Sign() == 0 {
				c.TBL = randFrac(rng, c.Limit)
			}
		}
		if c.TBL.Cmp(c.Limit) > 0 {
			c.TBL = new(big.Int).Set(c.Limit)
		}
		c.MinLock = uint64(50 + rng.Intn(6))
		c.MaxLock = c.MinLock + uint64(rng.Intn(60))
		if rng.Intn(3) == 0 {
			c.MaxLock = 34560
		}
		c.Deputy = 1 + rng.Intn(3)
	}
	return cfg
}

func (w *htlcWorkload) Genesis(cdc codec.Codec, gs map[string]json.RawMessage) {
	var ag authtypes.GenesisState
	cdc.MustUnmarshalJSON(gs[authtypes.ModuleName], &ag)
	accs, err := authtypes.UnpackAccounts(ag.Accounts)
	if err != nil || len(accs) == 0 {
		panic(fmt.Sprintf("htlc workload: cannot read genesis accounts: %v", err))
	}
	var bg banktypes.GenesisState
	cdc.MustUnmarshalJSON(gs[banktypes.ModuleName], &bg)
	w.cfg = w.assetConfig()
	var params htlctypes.Params
	var supplies []htlctypes.AssetSupply
	for _, c := range w.cfg {
		gen := bg.Supply.AmountOf(c.Denom)
		limit := toInt(c.Limit).Add(gen)
		dep := accs[c.Deputy%len(accs)].GetAddress().String()
		params.AssetParams = append(params.AssetParams, htlctypes.AssetParam{
			Denom:         c.Denom,
			SupplyLimit:   htlctypes.SupplyLimit{Limit: limit, TimeLimited: c.TL, TimePeriod: c.Period, TimeBasedLimit: toInt(c.TBL)},
			Active:        true,
			DeputyAddress: dep,
			FixedFee:      toInt(c.Fee),
			MinSwapAmount: toInt(c.Min),
			MaxSwapAmount: toInt(c.Max),
			MinBlockLock:  c.MinLock,
			MaxBlockLock:  c.MaxLock,
		})
		zero := sdk.NewCoin(c.Denom, toInt(big.NewInt(0)))
		supplies = append(supplies, htlctypes.NewAssetSupply(zero, zero, sdk.NewCoin(c.Denom, gen), zero, 0))
	}
	// previous block time: the default genesis takes the host clock; a fixed instant in the past keeps the
	// first block deterministic (its elapsed time exceeds every period, so every window starts at block 1)
	var born []htlctypes.HTLC
	escrowed := sdk.NewCoins()
	for i := 0; i < w.GenesisBorn && len(accs) >= 3; i++ {
		sender, to := accs[(1+i)%len(accs)].GetAddress(), accs[(2+i)%len(accs)].GetAddress()
		amt := sdk.NewCoins(sdk.NewInt64Coin("tka", int64(1000+7*i)))
		secret := w.secret()
		lock := htlcLock(secret, 0)
		id := hex.EncodeToString(htlcID(sender, to, amt, lock))
		lockText := strings.ToUpper(hex.EncodeToString(lock))
		switch i % 3 {
		case 1:
			lockText = strings.ToLower(lockText)
		case 2:
			lockText = strings.ToLower(lockText[:32]) + lockText[32:]
		}
		if w.GenesisBase < 1 {
			w.GenesisBase = 1
		}
		expiry := uint64(w.GenesisBase) + uint64(30+5*i)
		born = append(born, htlctypes.HTLC{Id: id, Sender: sender.String(), To: to.String(), Amount: amt, HashLock: lockText, ExpirationHeight: expiry, State: htlctypes.Open})
		escrowed = escrowed.Add(amt...)
		fate := []string{"early", "wrong-then-right", "refund", "Em1", "atE"}[i%5]
		msg := &htlctypes.MsgCreateHTLC{Sender: sender.String(), To: to.String(), Amount: amt, HashLock: lockText, TimeLock: expiry - uint64(w.GenesisBase)}
		w.genBorn = append(w.genBorn, &htBook{ID: id, Msg: msg, Secret: secret, LockKind: "right", Type: "plain", Fate: fate, Created: w.GenesisBase, Expiry: int64(expiry)})
	}
	// ... and four open cross-chain transfers of the first asset (two incoming, two outgoing; one of each is claimed, the
	// other left to expire): an import has to put them into the expiry queue and into the supply counters like a creation
	if w.GenesisBorn > 0 && len(accs) >= 7 && len(w.cfg) > 0 {
		c := w.cfg[0]
		dep := accs[c.Deputy%len(accs)].GetAddress()
		sumIn, sumOut := sdkmath.ZeroInt(), sdkmath.ZeroInt()
		for i := 0; i < 4; i++ {
			user := accs[(c.Deputy+2+i)%len(accs)].GetAddress()
			if user.Equals(dep) {
				continue
			}
			amt := sdk.NewCoins(sdk.NewCoin(c.Denom, toInt(c.Min).AddRaw(int64(i))))
			if amt[0].Amount.BigInt().Cmp(c.Max) > 0 {
				amt = sdk.NewCoins(sdk.NewCoin(c.Denom, toInt(c.Min)))
			}
			secret := w.secret()
			ts := uint64(1_600_000_000 + i)
			lock := htlcLock(secret, ts)
			h := htlctypes.HTLC{Amount: amt, HashLock: strings.ToUpper(hex.EncodeToString(lock)), Timestamp: ts, State: htlctypes.Open, Transfer: true,
				ExpirationHeight: uint64(w.GenesisBase) + uint64(38+3*i), ReceiverOnOtherChain: "other-chain-receiver", SenderOnOtherChain: "other-chain-sender"}
			typ := "incoming"
			if i%2 == 0 {
				h.Sender, h.To, h.Direction = dep.String(), user.String(), htlctypes.Incoming
				sumIn = sumIn.Add(amt[0].Amount)
				h.Id = hex.EncodeToString(htlcID(dep, user, amt, lock))
			} else {
				typ = "outgoing"
				h.Sender, h.To, h.Direction = user.String(), dep.String(), htlctypes.Outgoing
				sumOut = sumOut.Add(amt[0].Amount)
				escrowed = escrowed.Add(amt...)
				h.Id = hex.EncodeToString(htlcID(user, dep, amt, lock))
			}
			born = append(born, h)
			msg := &htlctypes.MsgCreateHTLC{Sender: h.Sender, To: h.To, Amount: amt, HashLock: h.HashLock, Timestamp: ts, Transfer: true,
				TimeLock: h.ExpirationHeight - uint64(w.GenesisBase), ReceiverOnOtherChain: h.ReceiverOnOtherChain, SenderOnOtherChain: h.SenderOnOtherChain}
			w.genBorn = append(w.genBorn, &htBook{ID: h.Id, Msg: msg, Secret: secret, LockKind: "right", Type: typ, Fate: []string{"early", "early", "refund", "refund"}[i], Created: w.GenesisBase, Expiry: int64(h.ExpirationHeight)})
		}
		sup := &supplies[0]
		sup.IncomingSupply.Amount, sup.OutgoingSupply.Amount = sumIn, sumOut
		sup.CurrentSupply.Amount = sup.CurrentSupply.Amount.Add(sumOut)
		params.AssetParams[0].SupplyLimit.Limit = params.AssetParams[0].SupplyLimit.Limit.Add(sumOut)
	}
	if !escrowed.IsZero() {
		bg.Balances = append(bg.Balances, banktypes.Balance{Address: htlcEscrow(), Coins: escrowed})
		bg.Supply = bg.Supply.Add(escrowed...)
		gs[banktypes.ModuleName] = cdc.MustMarshalJSON(&bg)
	}
	// previous block time: the default genesis takes the host clock; a fixed instant in the past keeps the
	// first block deterministic (its elapsed time exceeds every period, so every window starts at block 1)
	g := htlctypes.NewGenesisState(params, born, supplies, time.Unix(0, 0).UTC())
	gs[htlctypes.ModuleName] = cdc.MustMarshalJSON(g)
}

func (w *htlcWorkload) Attach(run *ev.Run, r *rig.Rig) {
	w.run, w.r = run, r
	if w.rng == nil {
		w.rng = run.Rng
	}
	for i, a := range r.Accounts {
		w.idx[a.Addr.String()] = i
	}
	// scripted fates: consumed first so that every scenario class occurs by construction
	for _, f := range []string{"early", "Em1", "atE", "after", "refund", "wrong-then-right", "double", "double-same-block", "dup-open", "dup-completed", "dup-refunded", "sameblock", "badlock:no-ts-lock", "badlock:other-ts", "badlock:ts-lock-on-zero", "ts0:early", "ts0:refund", "ts0:atE", "bucket", "wrong-Em1", "wrong-timed", "double-Em1", "dup-Em1", "wrong-sameblock"} {
		w.script = append(w.script, htScript{Type: "plain", Fate: f})
	}
	for _, f := range []string{"early", "Em1", "atE", "refund", "double", "dup-open", "wrong-then-right", "limit-fill", "tbl-fill", "early", "early", "after", "wrong-Em1", "wrong-timed"} {
		w.script = append(w.script, htScript{Type: "incoming", Fate: f})
	}
	for _, f := range []string{"early", "Em1", "atE", "refund", "double", "dup-refunded", "early", "wrong-Em1", "double-Em1"} {
		w.script = append(w.script, htScript{Type: "outgoing", Fate: f})
	}
	w.script = append(w.script, htScript{Type: "plain", Fate: "bucket"}, htScript{Type: "mixed", Fate: "bucket"},
		htScript{Type: "incoming", Fate: "fast", Arg: "tl"}, htScript{Type: "params", Fate: "limit-tighten"})
	w.rng.Shuffle(len(w.script), func(i, j int) { w.script[i], w.script[j] = w.script[j], w.script[i] })
	if w.Crowd && len(w.script) > 6 {
		w.script = append(w.script[:6], append([]htScript{{Type: "plain", Fate: "crowd"}}, w.script[6:]...)...)
	}
	// contracts that came in through genesis: known to the book with their secrets, fates scheduled like any other
	for _, b := range w.genBorn {
		for i, a := range r.Accounts {
			if a.Addr.String() == b.Msg.Sender {
				b.Sender = i
			}
		}
		w.register(b)
		C, E := b.Created, b.Expiry
		switch b.Fate {
		case "early":
			w.at(C+3+int64(w.rng.Intn(10)), htAction{Kind: "claim", ID: b.ID, Secret: "right", Timing: "early", Claimer: pick(w.rng, "to", "sender", "stranger")})
		case "wrong-then-right":
			t1 := C + 3 + int64(w.rng.Intn(10))
			w.at(t1, htAction{Kind: "claim", ID: b.ID, Secret: pick(w.rng, "wrong-random", "wrong-flip"), Timing: "early", Claimer: "to"})
			w.at(t1+2, htAction{Kind: "claim", ID: b.ID, Secret: "right", Timing: "early", Claimer: "to"})
		case "Em1":
			w.at(E-1, htAction{Kind: "claim", ID: b.ID, Secret: "right", Timing: "E-1", Claimer: "to"})
		case "atE":
			w.at(E, htAction{Kind: "claim", ID: b.ID, Secret: "right", Timing: "E", Claimer: "to"})
		}
	}
}

func (w *htlcWorkload) read() *htState {
	ctx := w.r.Ctx()
	st := &htState{H: w.r.Height + 1, now: w.r.Time, asset: map[string]htlctypes.AssetParam{}, sup: map[string]htlctypes.AssetSupply{}}
	st.params = w.r.K.HTLC.GetParams(ctx)
	for _, a := range st.params.AssetParams {
		st.asset[a.Denom] = a
	}
	for _, s := range w.r.K.HTLC.GetAllAssetSupplies(ctx) {
		st.sup[s.CurrentSupply.Denom] = s
	}
	return st
}

func (w *htlcWorkload) pickAcc(not ...int) (int, bool) {
	n := len(w.r.Accounts)
	for _, i := range w.rng.Perm(n) {
		if w.poisoned[i] {
			continue
		}
		bad := false
		for _, x := range not {
			if x == i {
				bad = true
			}
		}
		if !bad {
			return i, true
		}
	}
	return 0, false
}

// mk signs a tx; a message failing ValidateBasic is rejected before the ante handler, so the chain does not
// consume the sequence number: the account is not used again in this block and re-synchronised afterwards.
func (w *htlcWorkload) mk(acc int, tag *htTag, msg sdk.Msg) rig.Tx {
	if vb, ok := msg.(sdk.HasValidateBasic); ok {
		if err := vb.ValidateBasic(); err != nil {
			w.poisoned[acc] = true
			tag.Note += "/fails-validate-basic"
		}
	}
	return w.r.Mk(w.r.Acc(acc), tag, msg)
}

func (w *htlcWorkload) hexCase(b []byte) string {
	s := hex.EncodeToString(b)
	if w.rng.Intn(2) == 0 {
		return strings.ToUpper(s)
	}
	return s
}

func (w *htlcWorkload) secret() []byte {
	b := make([]byte, 32)
	w.rng.Read(b)
	return b
}

func (w *htlcWorkload) balances(acc int) sdk.Coins {
	return w.r.App.BankKeeper.GetAllBalances(w.r.Ctx(), w.r.Acc(acc).Addr)
}

func (w *htlcWorkload) timeLock(st *htState) uint64 {
	switch w.rng.Intn(10) {
	case 0, 1, 2, 3, 4:
		return 50
	case 5, 6, 7:
		return uint64(50 + w.rng.Intn(10))
	case 8:
		return uint64(50 + w.rng.Intn(40))
	default:
		if w.Mode == "" {
			return uint64(50 + w.rng.Intn(200))
		}
		return uint64(50 + w.rng.Intn(80))
	}
}

func (w *htlcWorkload) timestampHTLT(st *htState) uint64 {
	base := st.now.Add(w.NextDt).Unix()
	switch w.rng.Intn(12) {
	case 0:
		return uint64(base - 14*60)
	case 1:
		return uint64(base + 29*60)
	default:
		return uint64(base + int64(w.rng.Intn(600)) - 200)
	}
}

func (w *htlcWorkload) register(b *htBook) {
	if _, ok := w.book[b.ID]; ok {
		return
	}
	w.book[b.ID] = b
	w.order = append(w.order, b.ID)
}

// lockFor builds the hash lock of a create message for a lock kind.
func (w *htlcWorkload) lockFor(kind string, secret []byte, ts uint64) []byte {
	switch kind {
	case "no-ts-lock": // ts != 0 but the lock ignores it
		return htlcLock(secret, 0)
	case "other-ts", "ts-lock-on-zero": // lock bound to another timestamp than the contract's
		o := ts + 1 + uint64(w.rng.Intn(1000))
		if o == 0 {
			o = 7
		}
		return htlcLock(secret, o)
	default:
		return htlcLock(secret, ts)
	}
}

func (w *htlcWorkload) plainAmount(acc int, maxCoins int) sdk.Coins {
	bal := w.balances(acc)
	var held []sdk.Coin
	for _, c := range bal {
		if c.Amount.IsPositive() {
			held = append(held, c)
		}
	}
	if len(held) == 0 {
		return nil
	}
	n := 1 + w.rng.Intn(maxCoins)
	if n > len(held) {
		n = len(held)
	}
	out := sdk.NewCoins()
	for _, i := range w.rng.Perm(len(held))[:n] {
		c := held[i]
		amt := randMag(w.rng, 128)
		if amt.Cmp(bi(c.Amount)) > 0 {
			amt = randFrac(w.rng, bi(c.Amount))
		}
		out = out.Add(coin(c.Denom, amt))
	}
	return out
}

func (w *htlcWorkload) pickTo(sender int, tag *htTag) string {
	rng := w.rng
	switch rng.Intn(40) {
	case 0, 1, 2, 3:
		tag.Note += "/to-self"
		return w.r.Acc(sender).Addr.String()
	case 4, 5, 6:
		tag.Note += "/to-fresh"
		if rng.Intn(2) == 0 {
			// a 32-byte account address (derived, interchain and group-policy accounts have such addresses)
			tag.Note += "-32-bytes"
			return sdk.AccAddress([]byte(fmt.Sprintf("htlc-fresh-32-byte-addres-%06d", rng.Intn(1000000)))).String()
		}
		return sdk.AccAddress([]byte(fmt.Sprintf("htlc-fresh-addr-%06d", rng.Intn(1000000)))).String()
	case 7, 8:
		tag.Note += "/to-module"
		if w.shared {
			return authtypes.NewModuleAddress("coinswap").String()
		}
		return authtypes.NewModuleAddress(pick(rng, "gov", "coinswap", "farm")).String()
	case 9, 10:
		tag.Note += "/to-blocked"
		return authtypes.NewModuleAddress(pick(rng, "fee_collector", "distribution", "mint", "bonded_tokens_pool")).String()
	case 11:
		tag.Note += "/to-escrow"
		return w.escrow
	default:
		i, _ := w.pickAcc(sender)
		return w.r.Acc(i).Addr.String()
	}
}

// createPlain emits a plain HTLC creation (and, for some fates, more txs in the same block).
func (w *htlcWorkload) createPlain(st *htState, fate string, lock uint64) []rig.Tx {
	rng := w.rng
	sender, ok := w.pickAcc()
	if !ok {
		return nil
	}
	tag := &htTag{Kind: "create", Type: "plain", Fate: fate}
	to := w.pickTo(sender, tag)
	if strings.HasPrefix(fate, "badlock") || fate == "sameblock" || fate == "double-same-block" || strings.HasPrefix(fate, "dup") {
		// scripted fates need a recipient that can receive
		if strings.Contains(tag.Note, "to-blocked") {
			i, _ := w.pickAcc(sender)
			to = w.r.Acc(i).Addr.String()
			tag.Note = ""
		}
	}
	amount := w.plainAmount(sender, 3)
	if amount == nil {
		return nil
	}
	sec := w.secret()
	var ts uint64
	switch rng.Intn(6) {
	case 0, 1:
		ts = 0
	case 2:
		ts = uint64(st.now.Unix())
	case 3:
		ts = 1
	case 4:
		ts = ^uint64(0) - uint64(rng.Intn(2000))
	default:
		ts = rng.Uint64()
	}
	lockKind := "right"
	switch {
	case strings.HasPrefix(fate, "ts0:"):
		ts = 0
		fate = fate[4:]
	case strings.HasPrefix(fate, "badlock:"):
		lockKind = fate[8:]
		fate = "badlock"
		if lockKind == "ts-lock-on-zero" {
			ts = 0
		} else if ts == 0 || ts > ^uint64(0)-5000 {
			ts = 1 + uint64(rng.Intn(1<<30))
		}
	}
	if lock == 0 {
		lock = w.timeLock(st)
	}
	if fate == "invalid-lock" {
		lock = pick(rng, uint64(49), uint64(34561), uint64(0))
	}
	if fate == "overdraw" {
		c := w.balances(sender)
		if len(c) > 0 {
			amount = sdk.NewCoins(sdk.NewCoin(c[0].Denom, c[0].Amount.AddRaw(1)))
		}
	}
	hl := w.lockFor(lockKind, sec, ts)
	toAddr, _ := sdk.AccAddressFromBech32(to)
	to = w.spell(to, tag)
	msg := &htlctypes.MsgCreateHTLC{Sender: w.r.Acc(sender).Addr.String(), To: to, Amount: amount, HashLock: w.hexCase(hl), Timestamp: ts, TimeLock: lock}
	id := hex.EncodeToString(htlcID(w.r.Acc(sender).Addr, toAddr, amount, hl))
	tag.ID, tag.Secret, tag.Fate = id, lockKind, fate
	w.register(&htBook{ID: id, Msg: msg, Secret: sec, LockKind: lockKind, Sender: sender, Type: "plain", Fate: fate})
	txs := []rig.Tx{w.mk(sender, tag, msg)}
	txs = append(txs, w.sameBlockFollowers(st, id, fate, sender)...)
	return txs
}

// sameBlockFollowers: txs that must be in the creating block (claim in the creating block, duplicate in the same block).
func (w *htlcWorkload) sameBlockFollowers(st *htState, id, fate string, sender int) []rig.Tx {
	var txs []rig.Tx
	switch fate {
	case "sameblock":
		if tx, ok := w.claim(st, htAction{Kind: "claim", ID: id, Secret: "right", Timing: "same-block", Claimer: "stranger"}); ok {
			txs = append(txs, tx)
		}
	case "dup-same-block":
		if tx, ok := w.dup(st, htAction{Kind: "dup", ID: id, Dup: "same-block"}); ok {
			txs = append(txs, tx)
		}
	case "wrong-sameblock":
		if tx, ok := w.claim(st, htAction{Kind: "claim", ID: id, Secret: pick(w.rng, "wrong-random", "wrong-flip"), Timing: "same-block", Claimer: "stranger"}); ok {
			txs = append(txs, tx)
		}
	}
	return txs
}

func (w *htlcWorkload) deputyIdx(a htlctypes.AssetParam) (int, bool) {
	i, ok := w.idx[a.DeputyAddress]
	return i, ok
}

func (w *htlcWorkload) pickAsset(st *htState, want func(a htlctypes.AssetParam) bool) (htlctypes.AssetParam, bool) {
	n := len(st.params.AssetParams)
	if n == 0 {
		return htlctypes.AssetParam{}, false
	}
	for _, i := range w.rng.Perm(n) {
		a := st.params.AssetParams[i]
		if w.touched[a.Denom] {
			continue
		}
		if want == nil || want(a) {
			return a, true
		}
	}
	return htlctypes.AssetParam{}, false
}

// createIncoming: deputy -> user, nothing escrowed, minted on claim.
func (w *htlcWorkload) createIncoming(st *htState, fate string, lock uint64, denom string) []rig.Tx {
	rng := w.rng
	var a htlctypes.AssetParam
	var ok bool
	fits := func(a htlctypes.AssetParam) bool { // the minimum swap amount fits under both limits
		sp, has := st.sup[a.Denom]
		if !has || !a.Active {
			return false
		}
		due := w.dueIncoming(a.Denom, st.H)
		room := a.SupplyLimit.Limit.Sub(sp.CurrentSupply.Amount).Sub(sp.IncomingSupply.Amount).Add(toInt(due))
		if a.SupplyLimit.TimeLimited {
			tr := a.SupplyLimit.TimeBasedLimit.Sub(sp.TimeLimitedCurrentSupply.Amount).Sub(sp.IncomingSupply.Amount).Add(toInt(due))
			if tr.LT(room) {
				room = tr
			}
		}
		return room.GTE(a.MinSwapAmount)
	}
	switch {
	case denom == "tl":
		a, ok = w.pickAsset(st, func(a htlctypes.AssetParam) bool { return a.SupplyLimit.TimeLimited && fits(a) })
	case denom != "":
		a, ok = st.asset[denom]
	case fate == "tbl-fill":
		a, ok = w.pickAsset(st, func(a htlctypes.AssetParam) bool { return a.SupplyLimit.TimeLimited && a.Active })
	case fate == "limit-fill":
		a, ok = w.pickAsset(st, func(a htlctypes.AssetParam) bool {
			s, has := st.sup[a.Denom]
			if !has {
				return false
			}
			room := a.SupplyLimit.Limit.Sub(s.CurrentSupply.Amount).Sub(s.IncomingSupply.Amount)
			return a.Active && !a.SupplyLimit.TimeLimited && room.IsPositive() && room.LTE(a.MaxSwapAmount) && room.GTE(a.MinSwapAmount)
		})
		if !ok {
			a, ok = w.pickAsset(st, func(a htlctypes.AssetParam) bool { return a.Active })
		}
	default:
		a, ok = w.pickAsset(st, func(a htlctypes.AssetParam) bool { return a.Active || rng.Intn(4) == 0 })
	}
	if !ok {
		return nil
	}
	dep, ok := w.deputyIdx(a)
	if !ok || w.poisoned[dep] {
		return nil
	}
	sup, hasSup := st.sup[a.Denom]
	tag := &htTag{Kind: "create", Type: "incoming", Fate: fate}
	toI, _ := w.pickAcc(dep)
	to := w.r.Acc(toI).Addr.String()
	switch rng.Intn(24) {
	case 0, 1:
		to = sdk.AccAddress([]byte(fmt.Sprintf("htlc-fresh-addr-%06d", rng.Intn(1000000)))).String()
		tag.Note += "/to-fresh"
	case 2: // recipients that cannot (or must not) receive: the module's own escrow account, a bank-blocked module account
		to = w.escrow
		tag.Note += "/to-escrow"
	case 3:
		to = authtypes.NewModuleAddress(pick(rng, "fee_collector", "distribution", "mint", "bonded_tokens_pool")).String()
		tag.Note += "/to-blocked"
	}
	min, max := bi(a.MinSwapAmount), bi(a.MaxSwapAmount)
	cur, inc, tl := new(big.Int), new(big.Int), new(big.Int)
	if hasSup {
		cur, inc, tl = bi(sup.CurrentSupply.Amount), bi(sup.IncomingSupply.Amount), bi(sup.TimeLimitedCurrentSupply.Amount)
	} else {
		tag.Fit = "no-supply"
	}
	// incoming transfers refunded at the begin of the block being built free room before this tx runs
	due := w.dueIncoming(a.Denom, st.H)
	room := new(big.Int).Sub(bi(a.SupplyLimit.Limit), new(big.Int).Add(cur, inc))
	room.Add(room, due)
	troom := new(big.Int).Sub(bi(a.SupplyLimit.TimeBasedLimit), new(big.Int).Add(tl, inc))
	troom.Add(troom, due)
	var amt *big.Int
	inRange := func() *big.Int {
		hi := new(big.Int).Set(max)
		if room.Cmp(hi) < 0 {
			hi = new(big.Int).Set(room)
		}
		if a.SupplyLimit.TimeLimited && troom.Cmp(hi) < 0 {
			hi = new(big.Int).Set(troom)
		}
		if hi.Cmp(min) < 0 {
			tag.Fit = "no-room"
			return new(big.Int).Set(min)
		}
		span := new(big.Int).Sub(hi, min)
		v := new(big.Int).Set(min)
		if span.Sign() > 0 {
			// small share of the room most of the time so that several transfers fit
			d := randFrac(rng, span)
			if rng.Intn(3) > 0 {
				d.Quo(d, big.NewInt(int64(2+rng.Intn(30))))
			}
			v.Add(v, d)
		}
		tag.Fit = "in-range"
		return v
	}
	mode := rng.Intn(16)
	switch fate {
	case "limit-fill":
		mode = 0
	case "limit+1":
		mode = 1
	case "tbl-fill":
		mode = 3
	case "early", "Em1", "atE", "after", "refund", "double", "dup-open", "wrong-then-right":
		mode = 15
	case "fast":
		mode = 6 // the minimum swap amount: fits whenever anything fits
	}
	switch {
	case mode == 0 && room.Sign() > 0:
		amt, tag.Fit = room, "limit-exact"
		if a.SupplyLimit.TimeLimited && troom.Cmp(room) < 0 {
			tag.Fit = "limit-exact/over-tbl"
		}
	case mode == 1 && room.Sign() >= 0:
		amt, tag.Fit = new(big.Int).Add(room, bigOne), "limit+1"
	case mode == 2 && inc.Sign() > 0 && room.Sign() >= 0:
		amt, tag.Fit = new(big.Int).Add(room, randBelow(rng, inc)), "ignore-incoming"
	case mode == 3 && a.SupplyLimit.TimeLimited && troom.Sign() > 0:
		amt, tag.Fit = new(big.Int).Set(troom), "tbl-exact"
		if room.Cmp(troom) < 0 {
			amt, tag.Fit = new(big.Int).Set(room), "limit-exact"
		}
	case mode == 4 && a.SupplyLimit.TimeLimited && troom.Sign() >= 0:
		amt, tag.Fit = new(big.Int).Add(troom, bigOne), "tbl+1"
	case mode == 5:
		amt, tag.Fit = new(big.Int).Sub(min, bigOne), "min-1"
	case mode == 6:
		amt, tag.Fit = new(big.Int).Set(min), "min"
	case mode == 7:
		amt, tag.Fit = new(big.Int).Set(max), "max"
	case mode == 8:
		amt, tag.Fit = new(big.Int).Add(max, bigOne), "max+1"
	default:
		amt = inRange()
	}
	if amt.Sign() <= 0 {
		amt = inRange()
		if amt.Sign() <= 0 {
			return nil
		}
	}
	if !a.Active {
		tag.Fit += "/inactive"
	}
	if lock == 0 {
		lock = w.timeLock(st)
	}
	sec := w.secret()
	ts := w.timestampHTLT(st)
	if rng.Intn(40) == 0 {
		ts = pick(rng, uint64(0), uint64(st.now.Unix()-16*60), uint64(st.now.Add(w.NextDt).Unix()+30*60))
		tag.Note += "/bad-timestamp"
	}
	hl := htlcLock(sec, ts)
	amount := sdk.NewCoins(coin(a.Denom, amt))
	toAddr, _ := sdk.AccAddressFromBech32(to)
	to = w.spell(to, tag)
	depAddr := w.r.Acc(dep).Addr
	msg := &htlctypes.MsgCreateHTLC{Sender: depAddr.String(), To: to, ReceiverOnOtherChain: "", SenderOnOtherChain: "bnb1sender", Amount: amount, HashLock: w.hexCase(hl), Timestamp: ts, TimeLock: lock, Transfer: true}
	id := hex.EncodeToString(htlcID(depAddr, toAddr, amount, hl))
	tag.ID, tag.Secret = id, "right"
	w.register(&htBook{ID: id, Msg: msg, Secret: sec, LockKind: "right", Sender: dep, Type: "incoming", Fate: fate})
	w.touched[a.Denom] = true
	if tag.Fit == "in-range" {
		delete(w.touched, a.Denom)
	}
	txs := []rig.Tx{w.mk(dep, tag, msg)}
	if fate == "limit-fill" && tag.Fit == "limit-exact" {
		// the next unit must not fit any more: same block, after the filling create
		sec2 := w.secret()
		hl2 := htlcLock(sec2, ts)
		one := sdk.NewCoins(coin(a.Denom, min))
		msg2 := &htlctypes.MsgCreateHTLC{Sender: depAddr.String(), To: to, SenderOnOtherChain: "bnb1sender", Amount: one, HashLock: w.hexCase(hl2), Timestamp: ts, TimeLock: lock, Transfer: true}
		id2 := hex.EncodeToString(htlcID(depAddr, toAddr, one, hl2))
		t2 := &htTag{Kind: "create", Type: "incoming", Fate: "refund", ID: id2, Secret: "right", Fit: "limit+min-after-fill"}
		w.register(&htBook{ID: id2, Msg: msg2, Secret: sec2, LockKind: "right", Sender: dep, Type: "incoming", Fate: "refund"})
		txs = append(txs, w.mk(dep, t2, msg2))
	}
	return txs
}

// createOutgoing: user -> deputy, escrowed, burned on claim.
func (w *htlcWorkload) createOutgoing(st *htState, fate string, lock uint64, denom string) []rig.Tx {
	rng := w.rng
	// users holding an asset denom
	type cand struct {
		acc int
		a   htlctypes.AssetParam
		bal *big.Int
	}
	var cs []cand
	for _, a := range st.params.AssetParams {
		if denom != "" && a.Denom != denom {
			continue
		}
		dep, _ := w.deputyIdx(a)
		for i := range w.r.Accounts {
			if i == dep && a.DeputyAddress == w.r.Acc(i).Addr.String() || w.poisoned[i] {
				continue
			}
			b := w.r.App.BankKeeper.GetBalance(w.r.Ctx(), w.r.Acc(i).Addr, a.Denom)
			if b.Amount.IsPositive() {
				cs = append(cs, cand{i, a, bi(b.Amount)})
			}
		}
	}
	if len(cs) == 0 {
		return nil
	}
	c := cs[rng.Intn(len(cs))]
	a := c.a
	sup := st.sup[a.Denom]
	tag := &htTag{Kind: "create", Type: "outgoing", Fate: fate}
	min, max, fee := bi(a.MinSwapAmount), bi(a.MaxSwapAmount), bi(a.FixedFee)
	lo := new(big.Int).Add(min, fee)
	avail := new(big.Int)
	if sup.CurrentSupply.Denom != "" {
		avail.Sub(bi(sup.CurrentSupply.Amount), bi(sup.OutgoingSupply.Amount))
	}
	hi := new(big.Int).Set(max)
	if c.bal.Cmp(hi) < 0 {
		hi.Set(c.bal)
	}
	if avail.Cmp(hi) < 0 {
		hi.Set(avail)
	}
	var amt *big.Int
	mode := rng.Intn(12)
	if fate != "random" {
		mode = 11
	}
	switch {
	case mode == 0 && lo.Cmp(bigOne) > 0:
		amt, tag.Fit = new(big.Int).Sub(lo, bigOne), "fee-1"
	case mode == 1:
		amt, tag.Fit = new(big.Int).Set(lo), "fee+min"
	case mode == 2:
		amt, tag.Fit = new(big.Int).Add(avail, bigOne), "available+1"
	case mode == 3 && avail.Sign() > 0:
		amt, tag.Fit = new(big.Int).Set(avail), "available-exact"
	case mode == 4:
		amt, tag.Fit = new(big.Int).Add(max, bigOne), "max+1"
	default:
		if hi.Cmp(lo) < 0 {
			amt, tag.Fit = new(big.Int).Set(lo), "no-room"
		} else {
			span := new(big.Int).Sub(hi, lo)
			amt = new(big.Int).Set(lo)
			if span.Sign() > 0 {
				d := randFrac(rng, span)
				if rng.Intn(3) > 0 {
					d.Quo(d, big.NewInt(int64(2+rng.Intn(30))))
				}
				amt.Add(amt, d)
			}
			tag.Fit = "in-range"
		}
	}
	if lock == 0 {
		lock = a.MinBlockLock + uint64(rng.Intn(4))
		if lock > a.MaxBlockLock {
			lock = a.MaxBlockLock
		}
		if fate == "random" {
			switch rng.Intn(10) {
			case 0:
				if a.MinBlockLock > 50 {
					lock, tag.Fit = a.MinBlockLock-1, tag.Fit+"/lock-1"
				}
			case 1:
				if a.MaxBlockLock < 34560 {
					lock, tag.Fit = a.MaxBlockLock+1, tag.Fit+"/lock+1"
				}
			case 2:
				lock = a.MaxBlockLock
				if lock > 130 {
					lock = 130
				}
			}
		}
	}
	if !a.Active {
		tag.Fit += "/inactive"
	}
	sec := w.secret()
	ts := w.timestampHTLT(st)
	hl := htlcLock(sec, ts)
	amount := sdk.NewCoins(coin(a.Denom, amt))
	sAddr := w.r.Acc(c.acc).Addr
	to := a.DeputyAddress
	if fate == "random" && rng.Intn(15) == 0 {
		j, _ := w.pickAcc(c.acc)
		to = w.r.Acc(j).Addr.String()
		tag.Type, tag.Fit = "badhtlt", "no-deputy-involved"
	}
	toAddr, _ := sdk.AccAddressFromBech32(to)
	msg := &htlctypes.MsgCreateHTLC{Sender: sAddr.String(), To: to, ReceiverOnOtherChain: "bnb1receiver", Amount: amount, HashLock: w.hexCase(hl), Timestamp: ts, TimeLock: lock, Transfer: true}
	id := hex.EncodeToString(htlcID(sAddr, toAddr, amount, hl))
	tag.ID, tag.Secret = id, "right"
	w.register(&htBook{ID: id, Msg: msg, Secret: sec, LockKind: "right", Sender: c.acc, Type: "outgoing", Fate: fate})
	if tag.Fit != "in-range" {
		w.touched[a.Denom] = true
	}
	return []rig.Tx{w.mk(c.acc, tag, msg)}
}

// createBadHTLT: cross-chain creations that the direction / asset rules exclude.
func (w *htlcWorkload) createBadHTLT(st *htState) []rig.Tx {
	rng := w.rng
	a, ok := w.pickAsset(st, nil)
	if !ok {
		return nil
	}
	dep, ok := w.deputyIdx(a)
	if !ok || w.poisoned[dep] {
		return nil
	}
	tag := &htTag{Kind: "create", Type: "badhtlt", Fate: "refund"}
	sender, to := dep, w.r.Acc(dep).Addr.String()
	amount := sdk.NewCoins(coin(a.Denom, bi(a.MinSwapAmount)))
	switch rng.Intn(4) {
	case 0:
		tag.Fit = "deputy-to-deputy"
	case 1:
		tag.Fit = "unsupported-denom"
		i, _ := w.pickAcc(dep)
		to = w.r.Acc(i).Addr.String()
		amount = sdk.NewCoins(coin(rig.BondDenom, big.NewInt(5)))
	case 2:
		tag.Fit = "two-coins"
		i, _ := w.pickAcc(dep)
		to = w.r.Acc(i).Addr.String()
		amount = sdk.NewCoins(coin(a.Denom, big.NewInt(5)), coin(rig.BondDenom, big.NewInt(5)))
	default:
		tag.Fit = "to-blocked"
		to = authtypes.NewModuleAddress("fee_collector").String()
	}
	sec := w.secret()
	ts := w.timestampHTLT(st)
	hl := htlcLock(sec, ts)
	toAddr, _ := sdk.AccAddressFromBech32(to)
	msg := &htlctypes.MsgCreateHTLC{Sender: w.r.Acc(sender).Addr.String(), To: to, Amount: amount, HashLock: w.hexCase(hl), Timestamp: ts, TimeLock: 50, Transfer: true}
	id := hex.EncodeToString(htlcID(w.r.Acc(sender).Addr, toAddr, amount, hl))
	tag.ID, tag.Secret = id, "right"
	w.register(&htBook{ID: id, Msg: msg, Secret: sec, LockKind: "right", Sender: sender, Type: "badhtlt", Fate: "refund"})
	return []rig.Tx{w.mk(sender, tag, msg)}
}

// bucket: several contracts that expire at the same height (same block, same lock), with mixed fates.
func (w *htlcWorkload) bucket(st *htState, typ string) []rig.Tx {
	return w.bucketN(st, typ, 3+w.rng.Intn(4))
}

// bucketN: n contracts created in one block with one time lock, i.e. falling due together (a crowd of more than a hundred
// when the script asks for it: whatever a block does per due item, it has to do for all of them at that height)
func (w *htlcWorkload) bucketN(st *htState, typ string, n int) []rig.Tx {
	lock := uint64(50 + w.rng.Intn(4))
	var txs []rig.Tx
	fates := []string{"refund", "Em1", "atE", "early", "refund", "refund"}
	if n > 100 {
		// a crowd stays: more than a hundred contracts are still open when their height comes, a few are claimed in that block
		fates = []string{"refund", "refund", "refund", "atE", "refund", "refund", "refund", "refund"}
	}
	for i := 0; i < n; i++ {
		f := fates[i%len(fates)]
		switch {
		case typ == "mixed" && i%3 == 1:
			txs = append(txs, w.createIncoming(st, f, lock, "")...)
		case typ == "mixed" && i%3 == 2:
			l := lock
			txs = append(txs, w.createOutgoing(st, f, l, "")...)
		default:
			txs = append(txs, w.createPlain(st, f, lock)...)
		}
	}
	// one more for the same expiry height from the next block
	w.sched[st.H+1] = append(w.sched[st.H+1], htAction{Kind: "bucket-join", Timing: fmt.Sprint(int64(lock) + st.H)})
	return txs
}

// dueIncoming sums the open incoming transfers of denom that expire at height h (refunded at its block begin).
func (w *htlcWorkload) dueIncoming(denom string, h int64) *big.Int {
	sum := new(big.Int)
	for _, id := range w.order {
		b := w.book[id]
		if b.Type != "incoming" || b.Expiry != h || b.Msg.Amount[0].Denom != denom {
			continue
		}
		if rec, ok := w.state(id); ok && rec.State == htlctypes.Open {
			sum.Add(sum, bi(b.Msg.Amount[0].Amount))
		}
	}
	return sum
}

// Push puts a scenario in front of the script (drivers use it to ask for a scenario class they still miss).
func (w *htlcWorkload) Push(s htScript) {
	for _, x := range w.script {
		if x == s {
			return
		}
	}
	w.script = append([]htScript{s}, w.script...)
}

// tighten: a parameter change that leaves a few units of room under an asset's limit; the room is filled exactly
// by the first tx of the next block (and one more minimum-size transfer must then be refused).
func (w *htlcWorkload) tighten(st *htState) []rig.Tx {
	var idx = -1
	for _, i := range w.rng.Perm(len(st.params.AssetParams)) {
		a := st.params.AssetParams[i]
		_, dep := w.deputyIdx(a)
		_, has := st.sup[a.Denom]
		if !dep || !has || !a.Active || w.touched[a.Denom] {
			continue
		}
		if idx < 0 || !a.SupplyLimit.TimeLimited {
			idx = i
		}
		if !a.SupplyLimit.TimeLimited {
			break
		}
	}
	if idx < 0 {
		return nil
	}
	p := htlctypes.Params{AssetParams: append([]htlctypes.AssetParam{}, st.params.AssetParams...)}
	a := &p.AssetParams[idx]
	sup := st.sup[a.Denom]
	k := new(big.Int).Mul(bi(a.MinSwapAmount), big.NewInt(int64(1+w.rng.Intn(5))))
	if k.Cmp(bi(a.MaxSwapAmount)) > 0 {
		k = bi(a.MinSwapAmount)
	}
	a.SupplyLimit.Limit = sup.CurrentSupply.Amount.Add(sup.IncomingSupply.Amount).Add(toInt(k))
	a.SupplyLimit.TimeLimited = false
	if a.SupplyLimit.TimeBasedLimit.GT(a.SupplyLimit.Limit) {
		a.SupplyLimit.TimeBasedLimit = a.SupplyLimit.Limit
	}
	acc, ok := w.pickAcc()
	if !ok {
		return nil
	}
	w.touched[a.Denom] = true
	tag := &htTag{Kind: "params", Type: a.Denom, Note: "limit-tighten"}
	w.sched[st.H+1] = append([]htAction{{Kind: "limit-fill", ID: a.Denom}}, w.sched[st.H+1]...)
	return []rig.Tx{w.r.InjectRoute(w.r.Acc(acc), tag, &htlctypes.MsgUpdateParams{Authority: w.r.GovAddr.String(), Params: p})}
}

// roomForTL makes the listed asset with a supply record and the smallest recorded supplies active and time-limited,
// with a one-minute period and room for many minimum-size transfers under both limits.
func (w *htlcWorkload) roomForTL(st *htState) []rig.Tx {
	p := htlctypes.Params{AssetParams: append([]htlctypes.AssetParam{}, st.params.AssetParams...)}
	best := -1
	var bestUsed sdkmath.Int
	for i, a := range p.AssetParams {
		sup, ok := st.sup[a.Denom]
		if !ok {
			continue
		}
		if _, hasDep := w.deputyIdx(a); !hasDep {
			continue
		}
		used := sup.CurrentSupply.Amount.Add(sup.IncomingSupply.Amount)
		if best < 0 || used.LT(bestUsed) {
			best, bestUsed = i, used
		}
	}
	acc, ok := w.pickAcc()
	if best < 0 || !ok {
		return nil
	}
	a := &p.AssetParams[best]
	room := a.MinSwapAmount.MulRaw(1000).AddRaw(1_000_000)
	a.Active = true
	a.SupplyLimit.Limit = bestUsed.Add(room).Add(room)
	a.SupplyLimit.TimeLimited = true
	a.SupplyLimit.TimePeriod = time.Minute
	a.SupplyLimit.TimeBasedLimit = st.sup[a.Denom].IncomingSupply.Amount.Add(room)
	if a.MaxSwapAmount.LT(a.MinSwapAmount) {
		a.MaxSwapAmount = a.MinSwapAmount
	}
	w.touched[a.Denom] = true
	tag := &htTag{Kind: "params", Type: a.Denom, Note: "room-for-tl"}
	return []rig.Tx{w.r.InjectRoute(w.r.Acc(acc), tag, &htlctypes.MsgUpdateParams{Authority: w.r.GovAddr.String(), Params: p})}
}

func (w *htlcWorkload) state(id string) (htlctypes.HTLC, bool) {
	b, err := hex.DecodeString(id)
	if err != nil {
		return htlctypes.HTLC{}, false
	}
	return w.r.K.HTLC.GetHTLC(w.r.Ctx(), b)
}

// claim builds a claim tx for a book entry.
func (w *htlcWorkload) claim(st *htState, a htAction) (rig.Tx, bool) {
	rng := w.rng
	tag := &htTag{Kind: "claim", ID: a.ID, Secret: a.Secret, Timing: a.Timing, Claimer: a.Claimer}
	b := w.book[a.ID]
	var sec []byte
	switch a.Secret {
	case "right":
		if b == nil {
			return rig.Tx{}, false
		}
		sec = b.Secret
	case "wrong-flip":
		if b == nil {
			return rig.Tx{}, false
		}
		sec = append([]byte{}, b.Secret...)
		sec[rng.Intn(32)] ^= 1 << uint(rng.Intn(8))
	case "wrong-other":
		if len(w.order) < 2 {
			return rig.Tx{}, false
		}
		o := w.book[w.order[rng.Intn(len(w.order))]]
		if o.ID == a.ID {
			return rig.Tx{}, false
		}
		sec = o.Secret
	default:
		sec = w.secret()
	}
	if b != nil {
		tag.Type = b.Type
	}
	var who int
	var ok bool
	switch {
	case b != nil && a.Claimer == "to":
		who, ok = w.idx[b.Msg.To]
		if !ok || w.poisoned[who] {
			who, ok = w.pickAcc()
			tag.Claimer = "stranger"
		}
	case b != nil && a.Claimer == "sender":
		who, ok = b.Sender, !w.poisoned[b.Sender]
		if !ok {
			who, ok = w.pickAcc()
			tag.Claimer = "stranger"
		}
	default:
		who, ok = w.pickAcc()
		if ok && b != nil {
			switch w.r.Acc(who).Addr.String() {
			case b.Msg.To:
				tag.Claimer = "to"
			case b.Msg.Sender:
				tag.Claimer = "sender"
			default:
				tag.Claimer = "stranger"
			}
		}
	}
	if !ok {
		return rig.Tx{}, false
	}
	idb, _ := hex.DecodeString(a.ID)
	msg := &htlctypes.MsgClaimHTLC{Sender: w.r.Acc(who).Addr.String(), Id: w.hexCase(idb), Secret: w.hexCase(sec)}
	return w.mk(who, tag, msg), true
}

// dup re-sends a creation whose id equals an existing contract's (same sender, recipient, amount, hash lock;
// timestamp and time lock are not part of the id and are varied).
func (w *htlcWorkload) dup(st *htState, a htAction) (rig.Tx, bool) {
	b := w.book[a.ID]
	if b == nil || w.poisoned[b.Sender] {
		return rig.Tx{}, false
	}
	m := *b.Msg
	if w.rng.Intn(2) == 0 && !m.Transfer {
		m.Timestamp = m.Timestamp + 1
	}
	if w.rng.Intn(2) == 0 {
		m.TimeLock = 50 + uint64(w.rng.Intn(20))
		if m.Transfer && b.Type == "outgoing" {
			if ap, ok := st.asset[m.Amount[0].Denom]; ok {
				m.TimeLock = ap.MinBlockLock
			}
		}
	}
	if m.Transfer {
		m.Timestamp = w.timestampHTLT(st)
	}
	tag := &htTag{Kind: "create", Type: b.Type, ID: a.ID, Dup: a.Dup, Secret: b.LockKind, Fate: "dup"}
	return w.mk(b.Sender, tag, &m), true
}

func (w *htlcWorkload) doAction(st *htState, a htAction) []rig.Tx {
	switch a.Kind {
	case "claim":
		var txs []rig.Tx
		if tx, ok := w.claim(st, a); ok {
			txs = append(txs, tx)
		}
		if a.Twice {
			a2 := a
			a2.Claimer = "stranger"
			if tx, ok := w.claim(st, a2); ok {
				txs = append(txs, tx)
			}
		}
		return txs
	case "dup":
		if tx, ok := w.dup(st, a); ok {
			return []rig.Tx{tx}
		}
	case "limit-fill":
		return w.createIncoming(st, "limit-fill", 0, a.ID)
	case "bucket-join":
		var e int64
		fmt.Sscan(a.Timing, &e)
		if l := e - st.H; l >= 50 {
			return w.createPlain(st, "refund", uint64(l))
		}
	}
	return nil
}

func (w *htlcWorkload) paramsTx(st *htState) (rig.Tx, bool) {
	rng := w.rng
	if len(st.params.AssetParams) == 0 {
		return rig.Tx{}, false
	}
	p := htlctypes.Params{AssetParams: append([]htlctypes.AssetParam{}, st.params.AssetParams...)}
	i := rng.Intn(len(p.AssetParams))
	a := &p.AssetParams[i]
	sup := st.sup[a.Denom]
	used := new(big.Int)
	if sup.CurrentSupply.Denom != "" {
		used.Add(bi(sup.CurrentSupply.Amount), bi(sup.IncomingSupply.Amount))
	}
	tag := &htTag{Kind: "params", Type: a.Denom}
	fixTBL := func() {
		if a.SupplyLimit.TimeBasedLimit.GT(a.SupplyLimit.Limit) {
			a.SupplyLimit.TimeBasedLimit = a.SupplyLimit.Limit
		}
	}
	switch rng.Intn(14) {
	case 0:
		tag.Note = "raise-limit"
		a.SupplyLimit.Limit = a.SupplyLimit.Limit.Add(toInt(randMag(rng, 62)))
	case 1:
		tag.Note = "limit-to-used"
		a.SupplyLimit.Limit = toInt(used)
		fixTBL()
	case 2:
		tag.Note = "limit-below-used"
		a.SupplyLimit.Limit = toInt(new(big.Int).Quo(used, big.NewInt(2)))
		fixTBL()
	case 3:
		tag.Note = "toggle-time-limited"
		a.SupplyLimit.TimeLimited = !a.SupplyLimit.TimeLimited
		if a.SupplyLimit.TimeLimited {
			if a.SupplyLimit.TimePeriod < 30*time.Second {
				a.SupplyLimit.TimePeriod = 60 * time.Second
			}
			if !a.SupplyLimit.TimeBasedLimit.IsPositive() {
				a.SupplyLimit.TimeBasedLimit = toInt(randFrac(rng, new(big.Int).Add(bi(a.SupplyLimit.Limit), bigOne)))
				fixTBL()
			}
		}
	case 4:
		tag.Note = "period"
		a.SupplyLimit.TimePeriod = pick(rng, 30*time.Second, 45*time.Second, 60*time.Second, 2*time.Minute, 5*time.Minute, 10*time.Minute)
	case 5:
		tag.Note = "time-based-limit"
		a.SupplyLimit.TimeBasedLimit = toInt(randFrac(rng, new(big.Int).Add(bi(a.SupplyLimit.Limit), bigOne)))
		if sup.TimeLimitedCurrentSupply.Denom != "" && sup.TimeLimitedCurrentSupply.Amount.IsPositive() {
			// below what this period has already counted: the claims still to come in this period meet a limit that is
			// behind them
			tag.Note = "time-based-limit-below-counted"
			a.SupplyLimit.TimeLimited = true
			a.SupplyLimit.TimeBasedLimit = sup.TimeLimitedCurrentSupply.Amount.QuoRaw(2)
			w.run.Count("time-based-limit-set-below-what-the-period-has-counted", 1)
		}
		fixTBL()
	case 6:
		tag.Note = "deputy"
		j, _ := w.pickAcc()
		a.DeputyAddress = w.r.Acc(j).Addr.String()
	case 7:
		tag.Note = "fee-min-max"
		a.FixedFee = toInt(big.NewInt(int64(rng.Intn(2000))))
		a.MinSwapAmount = toInt(big.NewInt(int64(1 + rng.Intn(20))))
		if a.MaxSwapAmount.LT(a.MinSwapAmount) || rng.Intn(3) == 0 {
			a.MaxSwapAmount = a.MinSwapAmount.Add(toInt(randMag(rng, 62)))
		}
	case 8:
		tag.Note = "locks"
		a.MinBlockLock = uint64(50 + rng.Intn(8))
		a.MaxBlockLock = a.MinBlockLock + uint64(rng.Intn(100))
	case 9:
		tag.Note = "toggle-active"
		a.Active = !a.Active
	case 10:
		if len(p.AssetParams) >= 6 {
			return rig.Tx{}, false
		}
		w.newSeq++
		na := *a
		na.Denom = fmt.Sprintf("htltnew%c", 'a'+rune(w.newSeq%26))
		for _, x := range p.AssetParams {
			if x.Denom == na.Denom {
				return rig.Tx{}, false
			}
		}
		na.SupplyLimit.Limit = toInt(htP10(3 + rng.Intn(9)))
		na.SupplyLimit.TimeBasedLimit = toInt(randFrac(rng, bi(na.SupplyLimit.Limit)))
		na.MaxSwapAmount = na.MinSwapAmount.Add(na.SupplyLimit.Limit)
		na.Active = true
		tag.Note, tag.Type = "add-asset", na.Denom
		p.AssetParams = append(p.AssetParams, na)
	case 11:
		if len(p.AssetParams) <= 3 || rng.Intn(3) > 0 {
			return rig.Tx{}, false
		}
		tag.Note = "remove-asset"
		p.AssetParams = append(p.AssetParams[:i:i], p.AssetParams[i+1:]...)
	case 12:
		tag.Note = "invalid-tbl-above-limit"
		a.SupplyLimit.TimeBasedLimit = a.SupplyLimit.Limit.AddRaw(1)
	default:
		tag.Note = "no-change"
	}
	acc, ok := w.pickAcc()
	if !ok {
		return rig.Tx{}, false
	}
	if rng.Intn(4) == 0 {
		// one update in four is rolled back by the message that follows it (a proposal or transaction whose later message
		// fails), and it loosens every limit a hundredfold first: nothing of it may be in force afterwards
		for k := range p.AssetParams {
			p.AssetParams[k].SupplyLimit.Limit = p.AssetParams[k].SupplyLimit.Limit.MulRaw(100).AddRaw(1_000_000)
			p.AssetParams[k].Active = true
		}
		tag.Note += "/loosened-and-rolled-back"
		w.run.Count("parameter-update-rolled-back-by-the-next-message", 1)
		from := w.r.Acc(acc)
		return w.r.InjectRoute(from, tag, &htlctypes.MsgUpdateParams{Authority: w.r.GovAddr.String(), Params: p},
			banktypes.NewMsgSend(from.Addr, from.Addr, sdk.NewCoins(sdk.NewCoin(rig.BondDenom, toInt(pow2(250)))))), true
	}
	for _, x := range p.AssetParams {
		w.touched[x.Denom] = true
	}
	return w.r.InjectRoute(w.r.Acc(acc), tag, &htlctypes.MsgUpdateParams{Authority: w.r.GovAddr.String(), Params: p}), true
}

// randomClaim picks any known contract and a claim flavour matching its current state.
func (w *htlcWorkload) randomClaim(st *htState) []rig.Tx {
	if len(w.order) == 0 {
		return nil
	}
	rng := w.rng
	// prefer recent contracts
	n := len(w.order)
	k := n - 1 - rng.Intn(htMinInt(n, 60))
	if rng.Intn(4) == 0 {
		k = rng.Intn(n)
	}
	id := w.order[k]
	a := htAction{Kind: "claim", ID: id, Timing: "random", Claimer: pick(rng, "to", "sender", "stranger", "stranger")}
	if b := w.book[id]; b != nil && b.Created > 0 {
		a.Timing = htTimingName(st.H, b.Created, b.Expiry)
	}
	switch rng.Intn(6) {
	case 0, 1:
		a.Secret = "right"
	case 2:
		a.Secret = "wrong-random"
	case 3:
		a.Secret = "wrong-flip"
	case 4:
		a.Secret = "wrong-other"
	default:
		a.Secret = "right"
		a.Twice = true
	}
	return w.doAction(st, a)
}

func htMinInt(a, b int) int {
	if a < b {
		return a
	}
	return b
}

func (w *htlcWorkload) randomDup(st *htState) []rig.Tx {
	if len(w.order) == 0 {
		return nil
	}
	id := w.order[w.rng.Intn(len(w.order))]
	d := "never-created"
	if h, ok := w.state(id); ok {
		switch h.State {
		case htlctypes.Open:
			d = "open"
		case htlctypes.Completed:
			d = "completed"
		default:
			d = "refunded"
		}
	}
	return w.doAction(st, htAction{Kind: "dup", ID: id, Dup: d})
}

func (w *htlcWorkload) unknownClaim(st *htState) []rig.Tx {
	who, ok := w.pickAcc()
	if !ok {
		return nil
	}
	id := w.secret()
	tag := &htTag{Kind: "claim", ID: hex.EncodeToString(id), Secret: "unknown-id", Timing: "random", Claimer: "stranger"}
	var msg *htlctypes.MsgClaimHTLC
	switch w.rng.Intn(4) {
	case 0: // malformed secret: rejected by ValidateBasic
		msg = &htlctypes.MsgClaimHTLC{Sender: w.r.Acc(who).Addr.String(), Id: hex.EncodeToString(id), Secret: "abcd"}
		tag.Secret = "malformed"
	default:
		msg = &htlctypes.MsgClaimHTLC{Sender: w.r.Acc(who).Addr.String(), Id: hex.EncodeToString(id), Secret: hex.EncodeToString(w.secret())}
	}
	return []rig.Tx{w.mk(who, tag, msg)}
}

func (w *htlcWorkload) bankSend(st *htState) []rig.Tx {
	a, ok := w.pickAcc()
	if !ok {
		return nil
	}
	b, _ := w.pickAcc(a)
	amt := w.plainAmount(a, 2)
	if amt == nil {
		return nil
	}
	return []rig.Tx{w.r.Mk(w.r.Acc(a), &htTag{Kind: "send"}, banktypes.NewMsgSend(w.r.Acc(a).Addr, w.r.Acc(b).Addr, amt))}
}

// scripted takes the next scripted scenario that can start now (creation must leave room for its fate before the horizon).
func (w *htlcWorkload) scripted(st *htState) []rig.Tx {
	if len(w.script) == 0 {
		return nil
	}
	s := w.script[0]
	need := int64(60)
	if s.Fate == "fast" || s.Fate == "limit-tighten" || s.Fate == "room-for-tl" {
		need = 3
	}
	if w.Horizon > 0 && st.H+need > w.Horizon {
		return nil
	}
	var txs []rig.Tx
	switch {
	case s.Type == "params" && s.Fate == "limit-tighten":
		txs = w.tighten(st)
	case s.Type == "params" && s.Fate == "room-for-tl":
		txs = w.roomForTL(st)
	case s.Fate == "fast" && s.Type == "outgoing":
		txs = w.createOutgoing(st, "fast", 0, s.Arg)
	case s.Fate == "fast":
		txs = w.createIncoming(st, "fast", 0, s.Arg)
	case s.Fate == "bucket":
		txs = w.bucket(st, s.Type)
	case s.Fate == "crowd":
		txs = w.bucketN(st, "plain", 125+w.rng.Intn(30))
		w.run.Count("crowd-of-more-than-a-hundred-contracts-due-together", 1)
	case s.Type == "plain":
		txs = w.createPlain(st, s.Fate, 0)
	case s.Type == "incoming":
		txs = w.createIncoming(st, s.Fate, 0, "")
	case s.Type == "outgoing":
		txs = w.createOutgoing(st, s.Fate, 0, "")
	}
	if len(txs) == 0 {
		// not possible yet (e.g. nobody holds the asset): rotate
		w.script = append(w.script[1:], s)
		return nil
	}
	w.script = w.script[1:]
	return txs
}

func (w *htlcWorkload) randomFate() string {
	return pick(w.rng, "early", "early", "Em1", "atE", "after", "refund", "refund", "wrong-then-right", "double", "double-same-block", "dup-open", "dup-completed", "dup-refunded", "sameblock", "dup-same-block", "none", "none",
		"wrong-Em1", "wrong-timed", "wrong-timed", "double-Em1", "dup-Em1", "wrong-sameblock")
}

func (w *htlcWorkload) intent(st *htState) []rig.Tx {
	rng := w.rng
	//            plain inc out bad claim dup send params unk bucket badlock invalid
	wt := []int{22, 14, 12, 3, 18, 5, 3, 2, 2, 2, 4, 3}
	switch w.Mode {
	case "C03":
		wt = []int{30, 10, 8, 2, 22, 7, 2, 1, 2, 3, 5, 3}
	case "C04":
		wt = []int{10, 30, 22, 4, 16, 3, 2, 5, 1, 2, 1, 1}
	}
	switch weighted(rng, wt) {
	case 0:
		return w.createPlain(st, w.randomFate(), 0)
	case 1:
		return w.createIncoming(st, pick(rng, "random", "random", "early", "early", "Em1", "atE", "refund", "double", "dup-open", "limit-fill", "tbl-fill", "none"), 0, "")
	case 2:
		return w.createOutgoing(st, pick(rng, "random", "random", "early", "early", "Em1", "atE", "refund", "double", "none"), 0, "")
	case 3:
		return w.createBadHTLT(st)
	case 4:
		return w.randomClaim(st)
	case 5:
		return w.randomDup(st)
	case 6:
		return w.bankSend(st)
	case 7:
		if tx, ok := w.paramsTx(st); ok {
			return []rig.Tx{tx}
		}
	case 8:
		return w.unknownClaim(st)
	case 9:
		return w.bucket(st, pick(rng, "plain", "mixed"))
	case 10:
		return w.createPlain(st, "badlock:"+pick(rng, "no-ts-lock", "other-ts", "ts-lock-on-zero"), 0)
	default:
		return w.createPlain(st, pick(rng, "invalid-lock", "overdraw"), 0)
	}
	return nil
}

func (w *htlcWorkload) Next(block int) []rig.Tx {
	w.poisoned = map[int]bool{}
	w.touched = map[string]bool{}
	st := w.read()
	var txs []rig.Tx
	acts := w.sched[st.H]
	delete(w.sched, st.H)
	sort.SliceStable(acts, func(i, j int) bool { return acts[i].Kind == "limit-fill" && acts[j].Kind != "limit-fill" })
	for _, a := range acts {
		txs = append(txs, w.doAction(st, a)...)
	}
	// twice per chain the asset with the most recorded activity is switched off by the authority and, a few blocks
	// later, on again: its supply record (open transfers, current supply) must come through unchanged
	if !w.shared && (block%60 == 40 || block%60 == 46) {
		if tx, ok := w.flipActive(st, block%60 == 46); ok {
			txs = append(txs, tx)
		}
	}
	// every 45 blocks the bank authority switches transfers of one plain denomination off for seven blocks (the bank's
	// "send enabled" switch is about user transfers): contracts in that denomination that are open meanwhile are still
	// claimed by their preimage and refunded at their height
	if !w.shared && (block%45 == 20 || block%45 == 27) {
		on := block%45 == 27
		if acc, ok := w.pickAcc(); ok {
			tag := &htTag{Kind: "bank-switch", Note: fmt.Sprint("send-enabled=", on)}
			txs = append(txs, w.r.InjectRoute(w.r.Acc(acc), tag, &banktypes.MsgSetSendEnabled{Authority: w.r.GovAddr.String(), SendEnabled: []*banktypes.SendEnabled{{Denom: "tka", Enabled: on}}}))
			w.run.Count("bank-send-switch-flipped", 1)
		}
	}
	// every 40 blocks the asset with the most outgoing value in flight is taken off the parameter list altogether (its
	// supply record stays) and put back eight blocks later: transfers of it that expire meanwhile must still be
	// refunded and released in full
	if !w.shared && (block%40 == 30 || block%40 == 38) {
		if tx, ok := w.delist(st, block%40 == 38); ok {
			txs = append(txs, tx)
		}
	}
	// on the multi-module chains the authority empties the asset list altogether every 50 blocks and restores it four
	// blocks later (the begin blocker has nothing to update meanwhile)
	// on the multi-module chains, every 50 blocks: an incoming transfer of the time-limited asset that has no genesis
	// supply, claimed at once, and three blocks later an outgoing transfer of the same asset, claimed at once (the
	// asset's current supply goes down again while its limit period is still running)
	if w.shared && block%50 == 8 {
		w.Push(htScript{Type: "incoming", Fate: "fast", Arg: "htltaaa"})
	}
	if w.shared && block%50 == 11 {
		w.Push(htScript{Type: "outgoing", Fate: "fast", Arg: "htltaaa"})
	}
	if w.shared && (block%50 == 30 || ((block%50 >= 34 || block%50 < 30) && len(w.delisted) > 0)) {
		if tx, ok := w.delistAll(st, block%50 != 30); ok {
			txs = append(txs, tx)
		}
	}
	n := 1 + w.rng.Intn(3)
	for i := 0; i < n; i++ {
		if len(w.script) > 0 && (i == 0 || w.rng.Intn(2) == 0) {
			if t := w.scripted(st); len(t) > 0 {
				txs = append(txs, t...)
				continue
			}
		}
		txs = append(txs, w.intent(st)...)
	}
	return txs
}

// flipActive deactivates (on == false) the active asset with the largest recorded supplies, or reactivates (on == true)
// every inactive asset.
func (w *htlcWorkload) flipActive(st *htState, on bool) (rig.Tx, bool) {
	if len(st.params.AssetParams) == 0 {
		return rig.Tx{}, false
	}
	p := htlctypes.Params{AssetParams: append([]htlctypes.AssetParam{}, st.params.AssetParams...)}
	note, changed := "deactivate-busiest", false
	if on {
		note = "reactivate"
		for i := range p.AssetParams {
			if !p.AssetParams[i].Active {
				p.AssetParams[i].Active, changed = true, true
			}
		}
	} else {
		best, bestAmt := -1, new(big.Int)
		for i, a := range p.AssetParams {
			sup, ok := st.sup[a.Denom]
			if !ok || !a.Active {
				continue
			}
			amt := new(big.Int).Add(bi(sup.IncomingSupply.Amount), bi(sup.OutgoingSupply.Amount))
			amt.Add(amt, bi(sup.CurrentSupply.Amount))
			if best < 0 || amt.Cmp(bestAmt) > 0 {
				best, bestAmt = i, amt
			}
		}
		if best >= 0 {
			p.AssetParams[best].Active, changed = false, true
		}
	}
	acc, ok := w.pickAcc()
	if !changed || !ok {
		return rig.Tx{}, false
	}
	for _, x := range p.AssetParams {
		w.touched[x.Denom] = true
	}
	return w.r.InjectRoute(w.r.Acc(acc), &htTag{Kind: "params", Note: note}, &htlctypes.MsgUpdateParams{Authority: w.r.GovAddr.String(), Params: p}), true
}

// delist removes the listed asset with the largest recorded outgoing supply from the parameters (back == false), or
// appends the assets removed this way again (back == true).
func (w *htlcWorkload) delist(st *htState, back bool) (rig.Tx, bool) {
	p := htlctypes.Params{AssetParams: append([]htlctypes.AssetParam{}, st.params.AssetParams...)}
	note := "delist-busiest-outgoing"
	if back {
		note = "relist"
		if len(w.delisted) == 0 {
			return rig.Tx{}, false
		}
		for _, a := range w.delisted {
			dup := false
			for _, x := range p.AssetParams {
				dup = dup || x.Denom == a.Denom
			}
			if !dup {
				p.AssetParams = append(p.AssetParams, a)
			}
		}
		w.delisted = nil
	} else {
		if len(p.AssetParams) < 2 {
			return rig.Tx{}, false
		}
		best, bestAmt := -1, new(big.Int)
		for i, a := range p.AssetParams {
			sup, ok := st.sup[a.Denom]
			if !ok {
				continue
			}
			if amt := bi(sup.OutgoingSupply.Amount); best < 0 || amt.Cmp(bestAmt) > 0 {
				best, bestAmt = i, amt
			}
		}
		if best < 0 {
			return rig.Tx{}, false
		}
		w.delisted = append(w.delisted, p.AssetParams[best])
		p.AssetParams = append(p.AssetParams[:best:best], p.AssetParams[best+1:]...)
	}
	acc, ok := w.pickAcc()
	if !ok {
		return rig.Tx{}, false
	}
	for _, x := range st.params.AssetParams {
		w.touched[x.Denom] = true
	}
	for _, x := range p.AssetParams {
		w.touched[x.Denom] = true
	}
	return w.r.InjectRoute(w.r.Acc(acc), &htTag{Kind: "params", Note: note}, &htlctypes.MsgUpdateParams{Authority: w.r.GovAddr.String(), Params: p}), true
}

// delistAll stores an empty asset list (back == false) or the list that was in force before (back == true).
func (w *htlcWorkload) delistAll(st *htState, back bool) (rig.Tx, bool) {
	var p htlctypes.Params
	note := "delist-every-asset"
	if back {
		if len(st.params.AssetParams) > 0 { // the list is back (or never went)
			w.delisted = nil
		}
		if len(w.delisted) == 0 {
			return rig.Tx{}, false
		}
		note = "relist-every-asset"
		p.AssetParams = w.delisted
	} else {
		if len(st.params.AssetParams) == 0 || len(w.delisted) > 0 {
			return rig.Tx{}, false
		}
		w.delisted = append([]htlctypes.AssetParam{}, st.params.AssetParams...)
	}
	acc, ok := w.pickAcc()
	if !ok {
		return rig.Tx{}, false
	}
	for _, x := range st.params.AssetParams {
		w.touched[x.Denom] = true
	}
	for _, x := range p.AssetParams {
		w.touched[x.Denom] = true
	}
	return w.r.InjectRoute(w.r.Acc(acc), &htTag{Kind: "params", Note: note}, &htlctypes.MsgUpdateParams{Authority: w.r.GovAddr.String(), Params: p}), true
}

func htTimingName(t, c, e int64) string {
	switch {
	case t == e-1:
		return "E-1"
	case t == e:
		return "E"
	case t > e:
		return "after"
	case t == c:
		return "same-block"
	}
	return "early"
}

func (w *htlcWorkload) at(h int64, a htAction) {
	if h <= w.r.Height {
		h = w.r.Height + 1
	}
	w.sched[h] = append(w.sched[h], a)
}

// Observe learns which creations succeeded, schedules their fates and re-synchronises account sequences.
func (w *htlcWorkload) Observe(br *rig.BlockRecord) {
	rng := w.rng
	for _, tx := range br.Txs {
		tag, _ := tx.Tag.(*htTag)
		if tag == nil || tag.Kind != "create" || tag.Dup != "" || !tx.OK() {
			continue
		}
		b := w.book[tag.ID]
		if b == nil || b.Created != 0 {
			continue
		}
		b.Created = br.Height
		b.Expiry = br.Height + int64(b.Msg.TimeLock)
		C, E := b.Created, b.Expiry
		mid := func() int64 { return C + 1 + int64(rng.Intn(int(E-C-2))) } // in [C+1, E-2]
		role := pick(rng, "to", "sender", "stranger")
		id := b.ID
		switch b.Fate {
		case "early":
			w.at(mid(), htAction{Kind: "claim", ID: id, Secret: "right", Timing: "early", Claimer: role})
		case "fast":
			w.at(C+1, htAction{Kind: "claim", ID: id, Secret: "right", Timing: "early", Claimer: role})
		case "Em1":
			w.at(E-1, htAction{Kind: "claim", ID: id, Secret: "right", Timing: "E-1", Claimer: role})
		case "atE":
			w.at(E, htAction{Kind: "claim", ID: id, Secret: "right", Timing: "E", Claimer: role})
		case "after":
			w.at(E+1+int64(rng.Intn(3)), htAction{Kind: "claim", ID: id, Secret: "right", Timing: "after", Claimer: role})
		case "wrong-then-right":
			t1 := mid()
			w.at(t1, htAction{Kind: "claim", ID: id, Secret: pick(rng, "wrong-random", "wrong-flip", "wrong-other"), Timing: "early", Claimer: role})
			if t2 := t1 + int64(rng.Intn(3)); t2 < E {
				w.at(t2, htAction{Kind: "claim", ID: id, Secret: "right", Timing: "early", Claimer: role})
			}
		case "double":
			t1 := mid()
			w.at(t1, htAction{Kind: "claim", ID: id, Secret: "right", Timing: "early", Claimer: role})
			w.at(t1+1+int64(rng.Intn(4)), htAction{Kind: "claim", ID: id, Secret: "right", Timing: "early", Claimer: "stranger"})
		case "wrong-Em1": // wrong secret in the last block in which a claim can still succeed, then the right one
			wk := pick(rng, "wrong-random", "wrong-flip", "wrong-other")
			w.at(E-1, htAction{Kind: "claim", ID: id, Secret: wk, Timing: "E-1", Claimer: role})
			if rng.Intn(2) == 0 {
				w.at(E-1, htAction{Kind: "claim", ID: id, Secret: "right", Timing: "E-1", Claimer: "stranger"})
			}
		case "wrong-timed":
			wk := pick(rng, "wrong-random", "wrong-flip", "wrong-other")
			t := pick(rng, C+1, E-2, E-1, E, E+1, mid())
			w.at(t, htAction{Kind: "claim", ID: id, Secret: wk, Timing: htTimingName(t, C, E), Claimer: role})
		case "double-Em1":
			w.at(E-1, htAction{Kind: "claim", ID: id, Secret: "right", Timing: "E-1", Claimer: role, Twice: rng.Intn(2) == 0})
			w.at(pick(rng, E-1, E, E+1), htAction{Kind: "claim", ID: id, Secret: "right", Timing: "after", Claimer: "stranger"})
		case "dup-Em1":
			w.at(pick(rng, E-1, E-2, C+1), htAction{Kind: "dup", ID: id, Dup: "open"})
		case "double-same-block":
			w.at(mid(), htAction{Kind: "claim", ID: id, Secret: "right", Timing: "early", Claimer: role, Twice: true})
		case "dup-open":
			w.at(mid(), htAction{Kind: "dup", ID: id, Dup: "open"})
		case "dup-completed":
			t1 := mid()
			w.at(t1, htAction{Kind: "claim", ID: id, Secret: "right", Timing: "early", Claimer: role})
			w.at(t1+int64(rng.Intn(3)), htAction{Kind: "dup", ID: id, Dup: "completed"})
		case "dup-refunded":
			w.at(E+int64(rng.Intn(3)), htAction{Kind: "dup", ID: id, Dup: "refunded"})
		case "badlock":
			w.at(mid(), htAction{Kind: "claim", ID: id, Secret: "right", Timing: "early", Claimer: role})
			if rng.Intn(2) == 0 {
				w.at(E, htAction{Kind: "claim", ID: id, Secret: "right", Timing: "E", Claimer: role})
			}
		case "limit-fill", "tbl-fill", "random":
			switch rng.Intn(3) {
			case 0:
			default:
				w.at(mid(), htAction{Kind: "claim", ID: id, Secret: "right", Timing: "early", Claimer: role})
			}
		}
	}
	ctx := w.r.Ctx()
	for _, a := range w.r.Accounts {
		if acc := w.r.App.AccountKeeper.GetAccount(ctx, a.Addr); acc != nil {
			a.Seq = acc.GetSequence()
		}
	}
}

// ---------------------------------------------------------------------------------------------
// director + monitors

type htContract struct {
	ID        string
	Sender    string
	To        string
	Amount    sdk.Coins
	Lock      []byte
	Timestamp uint64
	Created   int64
	Expiry    int64
	Closed    int64
	Transfer  bool
	Dir       htlctypes.SwapDirection
	State     htlctypes.HTLCState
	Outflows  []string
	Overdue   bool
	Bucket    int
}

func (c *htContract) typ() string {
	switch {
	case !c.Transfer:
		return "plain"
	case c.Dir == htlctypes.Incoming:
		return "incoming"
	default:
		return "outgoing"
	}
}

// escrowed reports whether the contract's coins sit in the escrow account while it is open.
func (c *htContract) escrowed() bool { return !c.Transfer || c.Dir == htlctypes.Outgoing }

type htWin struct {
	Elapsed time.Duration
	Done    *big.Int // completed incoming amount in the current tumbling window
	Armed   bool     // parameters unchanged since the window started
	Resets  int
}

type htDirector struct {
	run  *ev.Run
	r    *rig.Rig
	mode string
	w    *htlcWorkload

	escrow string
	cache  map[string]*htRec
	prev   *htSnap

	model    map[string]*htContract
	byExpiry map[int64][]string

	// C03
	escrowOwn map[string]*big.Int // coins the escrow account received as designated recipient
	c3off     map[string]*big.Int

	// C04
	win        map[string]*htWin
	limitArmed map[string]bool
	doneIn     map[string]*big.Int
	doneOut    map[string]*big.Int
	gen0Cur    map[string]*big.Int
	bankOff    map[string]*big.Int
	off        map[string]*big.Int
	lastTime   time.Time
	lastEvent  string
	lastInfo   string

	ignore map[string]bool
	stop   bool
}

func runHTLC(run *ev.Run, c int, mode string) {
	w := newHTLCWorkload()
	w.rng = run.Rng
	w.Mode = mode
	if c%2 == 1 {
		w.GenesisBorn, w.GenesisBase = 5, boundaryHeight(c)
	}
	w.Crowd = c%4 == 2
	bal := sdk.NewCoins()
	for _, dn := range []string{rig.BondDenom, "tka", "tkb"} {
		bal = bal.Add(sdk.NewCoin(dn, toInt(pow2(150))))
	}
	// one asset denom with genesis balances (recorded as genesis current supply by the workload's genesis)
	bal = bal.Add(sdk.NewCoin("htltbnb", toInt(htP10(15))))
	r := rig.New(rig.Options{Seed: fmt.Sprintf("htlc-%s-%d-%d", mode, run.Seed, c), NumAccounts: 8, Balances: bal, InflationOff: true, GenesisMutator: w.Genesis, InitialHeight: boundaryHeight(c), SubSecond: c%2 == 1})
	d := &htDirector{run: run, r: r, mode: mode, w: w, escrow: htlcEscrow(), cache: map[string]*htRec{},
		model: map[string]*htContract{}, byExpiry: map[int64][]string{}, escrowOwn: map[string]*big.Int{}, c3off: map[string]*big.Int{},
		win: map[string]*htWin{}, limitArmed: map[string]bool{}, doneIn: map[string]*big.Int{}, doneOut: map[string]*big.Int{},
		gen0Cur: map[string]*big.Int{}, bankOff: map[string]*big.Int{}, off: map[string]*big.Int{}, ignore: map[string]bool{}}
	for _, m := range []string{"fee_collector", "distribution", "mint", "bonded_tokens_pool", "not_bonded_tokens_pool", "gov"} {
		d.ignore[authtypes.NewModuleAddress(m).String()] = true
	}
	r.Snapshot = func(ctx sdk.Context) any { return htlcSnapshot(r, ctx, d.cache) }
	w.Attach(run, r)
	d.start()
	blocks := 150
	if run.Thorough() {
		blocks = 320
	}
	w.Horizon = r.Height + int64(blocks)
	for b := 0; b < blocks && !d.stop; b++ {
		d.requests(b)
		dt := d.pickDt()
		w.NextDt = dt
		txs := w.Next(b)
		br := r.DeliverBlock(dt, txs)
		w.Observe(br)
		d.observe(br)
	}
	d.finish()
}

func (d *htDirector) start() {
	s := htlcSnapshot(d.r, d.r.Ctx(), d.cache)
	d.prev = s
	d.lastTime = d.r.Time
	for _, b := range d.w.genBorn {
		lock, _ := hex.DecodeString(b.Msg.HashLock)
		c := &htContract{ID: b.ID, Sender: b.Msg.Sender, To: b.Msg.To, Amount: b.Msg.Amount, Lock: lock, Timestamp: b.Msg.Timestamp, Created: b.Created, Expiry: b.Expiry, Transfer: b.Msg.Transfer, State: htlctypes.Open}
		if b.Type == "incoming" {
			c.Dir = htlctypes.Incoming
		} else if b.Type == "outgoing" {
			c.Dir = htlctypes.Outgoing
		}
		d.run.Count("genesis-born-"+c.typ(), 1)
		d.model[b.ID] = c
		d.byExpiry[c.Expiry] = append(d.byExpiry[c.Expiry], b.ID)
		c.Bucket = len(d.byExpiry[c.Expiry])
		d.run.Count("genesis-born-contracts", 1)
	}
	for _, a := range s.Params.AssetParams {
		sup, ok := s.Sup[a.Denom]
		if !ok {
			d.run.Inconc("asset %s has no supply record after the first block", a.Denom)
			continue
		}
		d.win[a.Denom] = &htWin{Done: new(big.Int), Armed: sup.TimeElapsed == 0 && sup.TimeLimitedCurrentSupply.Amount.IsZero()}
		if !d.win[a.Denom].Armed {
			d.run.Note("asset %s starts mid-window (elapsed %s): window clauses wait for the first reset", a.Denom, sup.TimeElapsed)
		}
		d.gen0Cur[a.Denom] = bi(sup.CurrentSupply.Amount)
		d.bankOff[a.Denom] = new(big.Int).Sub(amountOf(s.Supply, a.Denom), bi(sup.CurrentSupply.Amount))
		if d.bankOff[a.Denom].Sign() != 0 {
			d.run.Note("asset %s: genesis bank supply differs from genesis current supply by %s; the supply clause is checked with this constant offset", a.Denom, d.bankOff[a.Denom])
		}
		used := new(big.Int).Add(bi(sup.CurrentSupply.Amount), bi(sup.IncomingSupply.Amount))
		d.limitArmed[a.Denom] = used.Cmp(bi(a.SupplyLimit.Limit)) <= 0
	}
	// informational: the escrow account is not a blocked address in the repository's app config
	d.r.WhatIf(time.Second, func(ctx sdk.Context) {
		esc, _ := sdk.AccAddressFromBech32(d.escrow)
		rr := d.r.Route(ctx, banktypes.NewMsgSend(d.r.Acc(0).Addr, esc, sdk.NewCoins(sdk.NewInt64Coin(rig.BondDenom, 1))))
		if rr.Err == nil {
			d.run.Count("info-direct-bank-send-to-escrow-accepted(what-if, outside the quantifier)", 1)
		} else {
			d.run.Count("info-direct-bank-send-to-escrow-rejected(what-if)", 1)
		}
	})
}

// requests asks the workload for the scenario classes C04 must have seen (each is constructive, see the workload).
func (d *htDirector) requests(b int) {
	if d.mode != "C04" {
		return
	}
	c := d.run.Counters
	if b%6 == 2 && (b < 50 || c["window-reset-after-completions"] == 0 || c["time-limited-incoming-claim-ok-after-a-reset"] == 0) {
		d.w.Push(htScript{Type: "incoming", Fate: "fast", Arg: "tl"})
	}
	// no time-limited claim after a reset yet although half the history is over: the authority gives one listed asset a
	// short limit period with plenty of room (random parameter changes may have removed or filled every such asset)
	if b >= 50 && b%12 == 8 && c["time-limited-incoming-claim-ok-after-a-reset"] == 0 {
		d.w.Push(htScript{Type: "params", Fate: "room-for-tl"})
	}
	if b%10 == 5 && (c["incoming-create-reaches-limit-exactly"] == 0 || c["incoming-at-limit-boundary-rejected"] == 0) {
		d.w.Push(htScript{Type: "params", Fate: "limit-tighten"})
	}
}

func (d *htDirector) pickDt() time.Duration {
	rng := d.run.Rng
	if d.mode == "C03" {
		return time.Duration(1+rng.Intn(10)) * time.Second
	}
	if d.run.Counters["window-reset-after-completions"] == 0 && rng.Intn(2) == 0 {
		for _, a := range d.prev.Params.AssetParams {
			if w := d.win[a.Denom]; w != nil && a.SupplyLimit.TimeLimited && w.Done.Sign() > 0 {
				if rem := a.SupplyLimit.TimePeriod - w.Elapsed; rem > 0 {
					return rem
				}
			}
		}
	}
	// C04: land before / exactly on / after the end of a limit period
	s := d.prev
	var tl []htlctypes.AssetParam
	for _, a := range s.Params.AssetParams {
		if a.SupplyLimit.TimeLimited && d.win[a.Denom] != nil {
			tl = append(tl, a)
		}
	}
	k := rng.Intn(20)
	if len(tl) > 0 && k < 5 {
		a := tl[rng.Intn(len(tl))]
		rem := a.SupplyLimit.TimePeriod - d.win[a.Denom].Elapsed
		switch {
		case k < 2 && rem > 0 && rem < 12*time.Minute:
			d.run.Count("dt-exactly-on-period-end", 1)
			return rem
		case k < 3 && rem > time.Second && rem < 12*time.Minute:
			d.run.Count("dt-one-second-before-period-end", 1)
			return rem - time.Second
		case k < 4 && rem > 0 && rem < 12*time.Minute:
			d.run.Count("dt-one-second-after-period-end", 1)
			return rem + time.Second
		}
	}
	if k == 19 {
		return pick(rng, 31*time.Second, 61*time.Second, 5*time.Minute, 11*time.Minute)
	}
	return time.Duration(1+rng.Intn(15)) * time.Second
}

// ---- generic helpers

func htAddCoins(m map[string]*big.Int, cs sdk.Coins, sign int64) {
	for _, c := range cs {
		v := new(big.Int).Mul(bi(c.Amount), big.NewInt(sign))
		if cur, ok := m[c.Denom]; ok {
			cur.Add(cur, v)
		} else {
			m[c.Denom] = v
		}
	}
}

func htGet(m map[string]*big.Int, k string) *big.Int {
	if v, ok := m[k]; ok {
		return v
	}
	return new(big.Int)
}

func htKeys(ms ...map[string]*big.Int) []string {
	set := map[string]bool{}
	for _, m := range ms {
		for k := range m {
			set[k] = true
		}
	}
	out := make([]string, 0, len(set))
	for k := range set {
		out = append(out, k)
	}
	sort.Strings(out)
	return out
}

func (d *htDirector) detail(extra map[string]any) map[string]any {
	if extra == nil {
		extra = map[string]any{}
	}
	return extra
}

// continuity: between two adjacent observation points no htlc code runs; nothing of the module may differ.
func (d *htDirector) continuity(a, b *htSnap, where string, allBalances bool) {
	if a == nil || b == nil {
		return
	}
	d.run.Eval(1)
	key := d.mode + ":htlc:state-moved-outside-tx-and-block-begin:" + where
	if a.Digest != b.Digest {
		d.run.Violation(key, map[string]any{"where": where, "height": b.Height}, "htlc store changed %s at height %d (digest %s -> %s)", where, b.Height, a.Digest, b.Digest)
		return
	}
	if allBalances {
		if df := diffLedger(map[string]map[string]*big.Int{}, balDelta(a.Bal, b.Bal)); len(df) > 0 {
			d.run.Violation(key, map[string]any{"where": where, "height": b.Height, "diff": df}, "balances changed %s at height %d: %v", where, b.Height, df)
		}
		return
	}
	if !a.Bal[d.escrow].Equal(b.Bal[d.escrow]) {
		d.run.Violation(key, map[string]any{"where": where, "height": b.Height}, "escrow balance changed %s at height %d: %s -> %s", where, b.Height, a.Bal[d.escrow], b.Bal[d.escrow])
	}
}

// diffRecords checks the state machine between two points: records never disappear, appear only when allowed,
// change only when allowed, only open->completed|refunded, and never in their immutable fields.
func (d *htDirector) diffRecords(a, b *htSnap, allowed map[string]bool, site string) (changed []string) {
	n := 0
	for id, ra := range a.Recs {
		rb, ok := b.Recs[id]
		n++
		if !ok {
			d.run.Violation("C03:htlc:contract-record-disappeared:"+site, map[string]any{"id": id, "height": b.Height}, "contract %s (%s) no longer exists after %s at height %d", id, ra.h.State, site, b.Height)
			continue
		}
		if ra == rb || ra.raw == rb.raw {
			continue
		}
		changed = append(changed, id)
		if d.mode != "C03" {
			continue
		}
		ha, hb := ra.h, rb.h
		if !allowed[id] {
			d.run.Violation("C03:htlc:unaddressed-contract-changed:"+site, map[string]any{"id": id, "height": b.Height, "before": ha.String(), "after": hb.String()}, "contract %s changed during %s at height %d although it was not addressed: %s -> %s", id, site, b.Height, ha.State, hb.State)
		}
		if ha.State != hb.State && !(ha.State == htlctypes.Open && (hb.State == htlctypes.Completed || hb.State == htlctypes.Refunded)) {
			d.run.Violation(fmt.Sprintf("C03:htlc:illegal-state-transition:%s->%s:%s", htStateName(ha.State), htStateName(hb.State), site), map[string]any{"id": id, "height": b.Height}, "contract %s went %s -> %s during %s at height %d", id, ha.State, hb.State, site, b.Height)
		}
		if ha.State == hb.State && ha.State != htlctypes.Open {
			d.run.Violation("C03:htlc:closed-contract-rewritten:"+site, map[string]any{"id": id, "height": b.Height, "before": ha.String(), "after": hb.String()}, "closed contract %s (%s) was rewritten during %s at height %d", id, ha.State, site, b.Height)
		}
		if ha.Sender != hb.Sender || ha.To != hb.To || !ha.Amount.Equal(hb.Amount) || ha.HashLock != hb.HashLock || ha.Timestamp != hb.Timestamp || ha.ExpirationHeight != hb.ExpirationHeight || ha.Transfer != hb.Transfer || ha.Direction != hb.Direction {
			d.run.Violation("C03:htlc:contract-terms-changed:"+site, map[string]any{"id": id, "height": b.Height, "before": ha.String(), "after": hb.String()}, "terms of contract %s changed during %s at height %d", id, site, b.Height)
		}
	}
	for id := range b.Recs {
		if _, ok := a.Recs[id]; !ok {
			changed = append(changed, id)
			if !allowed[id] && d.mode == "C03" {
				d.run.Violation("C03:htlc:unexpected-contract-record:"+site, map[string]any{"id": id, "height": b.Height}, "contract %s appeared during %s at height %d", id, site, b.Height)
			}
		}
	}
	d.run.Eval(n)
	sort.Strings(changed)
	return changed
}

func htStateName(s htlctypes.HTLCState) string {
	switch s {
	case htlctypes.Open:
		return "open"
	case htlctypes.Completed:
		return "completed"
	case htlctypes.Refunded:
		return "refunded"
	}
	return fmt.Sprint(int32(s))
}

// role names an address for stable violation keys.
func (d *htDirector) role(addr string, c *htContract, signer string) string {
	switch {
	case addr == d.escrow:
		return "escrow"
	case c != nil && addr == c.To && addr == c.Sender:
		return "sender=recipient"
	case c != nil && addr == c.To:
		return "recipient"
	case c != nil && addr == c.Sender:
		return "sender"
	case addr == signer:
		return "signer"
	case addr == "supply":
		return "supply"
	}
	return "third-party"
}

// cmpSheet compares the complete balance-sheet and supply delta between two points with the expectation.
// skipIgnored drops module accounts other modules' begin blockers may touch.
func (d *htDirector) cmpSheet(key string, exp ledger, supExp map[string]*big.Int, a, b *htSnap, c *htContract, signer string, skipIgnored bool, det map[string]any, what string) bool {
	act := balDelta(a.Bal, b.Bal)
	if skipIgnored {
		for addr := range act {
			if d.ignore[addr] {
				delete(act, addr)
			}
		}
	}
	d.run.Eval(2)
	ok := true
	if df := diffLedger(exp, act); len(df) > 0 {
		var addr string
		fmt.Sscanf(df[0], "%s", &addr)
		det["diff"] = df
		d.run.Violation(key+":balance-sheet:"+d.role(addr, c, signer), det, "%s: balance changes differ from what the event dictates: %v", what, df)
		ok = false
	}
	supAct := coinsDelta(a.Supply, b.Supply)
	if skipIgnored {
		delete(supAct, rig.BondDenom)
	}
	if df := diffLedger(map[string]map[string]*big.Int{"supply": supExp}, map[string]map[string]*big.Int{"supply": supAct}); len(df) > 0 {
		det["supply_diff"] = df
		d.run.Violation(key+":supply", det, "%s: total supplies changed other than dictated: %v", what, df)
		ok = false
	}
	return ok
}

func htCoinCountClass(cs sdk.Coins) string { return fmt.Sprintf("coins=%d", len(cs)) }

func htTsClass(ts uint64) string {
	switch {
	case ts == 0:
		return "ts=0"
	case ts > ^uint64(0)-5000:
		return "ts=max"
	}
	return "ts>0"
}

func (d *htDirector) observe(br *rig.BlockRecord) {
	run := d.run
	if br.FinalErr != nil {
		if br.BeginPanic != nil {
			run.Violation(d.mode+":htlc:block-begin-aborted", map[string]any{"panic": br.BeginPanic.Value, "module": br.BeginPanic.Module, "height": br.Height}, "block begin aborted at height %d in module %q: %s", br.Height, br.BeginPanic.Module, br.BeginPanic.Value)
		} else {
			run.Inconc("FinalizeBlock failed at height %d: %v", br.Height, br.FinalErr)
		}
		d.stop = true
		return
	}
	pb, _ := br.PreBegin.(*htSnap)
	ob, _ := br.PostBegin.(*htSnap)
	pe, _ := br.PreEnd.(*htSnap)
	oe, _ := br.PostEnd.(*htSnap)
	if pb == nil || ob == nil || pe == nil || oe == nil {
		run.Inconc("missing block snapshots at height %d", br.Height)
		d.stop = true
		return
	}
	d.continuity(d.prev, pb, "between-blocks", true)
	d.beginBlock(br, pb, ob)
	prev := ob
	for _, tx := range br.Txs {
		tag, _ := tx.Tag.(*htTag)
		if tag == nil {
			continue
		}
		okc := "rejected"
		if tx.OK() {
			okc = "ok"
		}
		run.Count(tag.Kind+"-"+okc, 1)
		run.Op("h=%d #%d %s %s id=%s secret=%s timing=%s dup=%s fit=%s %s ok=%v %s", br.Height, tx.Index, tag.Kind, tag.Type, htShort(tag.ID), tag.Secret, tag.Timing, tag.Dup, tag.Fit, tag.Note, tx.OK(), logBrief(tx))
		if tx.Pre == nil {
			run.Count("rejected-before-execution", 1)
			continue
		}
		pre := tx.Pre.(*htSnap)
		d.continuity(prev, pre, "between-txs", true)
		if tx.OK() && tx.Post != nil {
			post := tx.Post.(*htSnap)
			d.onTxOK(br, tx, tag, pre, post)
			prev = post
		} else {
			d.onTxRejected(br, tx, tag, pre)
			prev = pre
		}
	}
	d.continuity(prev, pe, "after-last-tx", true)
	d.continuity(pe, oe, "block-end", false)
	d.blockEnd(br, oe)
	d.prev = oe
}

// ---- block begin: refunds and window bookkeeping

func (d *htDirector) beginBlock(br *rig.BlockRecord, pb, ob *htSnap) {
	run := d.run
	h := br.Height
	// tumbling-window model, from the block times and the parameters in force
	dt := br.Time.Sub(d.lastTime)
	d.lastTime = br.Time
	for _, a := range pb.Params.AssetParams {
		w := d.win[a.Denom]
		if w == nil {
			// asset added by a parameter change: its supply record is created at this block begin
			w = &htWin{Done: new(big.Int), Armed: true}
			if _, had := pb.Sup[a.Denom]; had {
				w.Armed = false
			}
			d.win[a.Denom] = w
			if _, ok := d.gen0Cur[a.Denom]; !ok {
				d.gen0Cur[a.Denom] = new(big.Int)
				d.bankOff[a.Denom] = amountOf(pb.Supply, a.Denom)
				if sup, had := pb.Sup[a.Denom]; had {
					d.gen0Cur[a.Denom] = bi(sup.CurrentSupply.Amount)
					d.bankOff[a.Denom].Sub(d.bankOff[a.Denom], bi(sup.CurrentSupply.Amount))
				}
			}
		}
		w.Elapsed += dt
		if !a.SupplyLimit.TimeLimited || w.Elapsed >= a.SupplyLimit.TimePeriod {
			if a.SupplyLimit.TimeLimited {
				w.Resets++
				run.Count("window-reset", 1)
				if w.Done.Sign() > 0 {
					run.Count("window-reset-after-completions", 1)
				}
				if w.Elapsed == a.SupplyLimit.TimePeriod {
					run.Count("window-reset-exactly-at-period", 1)
				}
			}
			w.Elapsed = 0
			w.Done = new(big.Int)
			w.Armed = true
		} else if a.SupplyLimit.TimePeriod-w.Elapsed <= time.Second {
			run.Count("window-kept-one-second-before-period", 1)
		}
	}

	// refund set
	due := map[string]bool{}
	for _, id := range d.byExpiry[h] {
		if c := d.model[id]; c != nil && c.State == htlctypes.Open {
			due[id] = true
		}
	}
	changed := d.diffRecords(pb, ob, due, "block-begin")
	exp := ledger{}
	refunded := map[string]bool{}
	for _, id := range changed {
		rb := ob.Recs[id]
		ra := pb.Recs[id]
		if rb == nil || ra == nil {
			continue
		}
		c := d.model[id]
		if rb.h.State == htlctypes.Refunded && ra.h.State != htlctypes.Refunded {
			refunded[id] = true
			if c != nil {
				// what a refund of this contract moves: only if its coins are still due (model open)
				if c.State == htlctypes.Open && c.escrowed() {
					for _, cn := range c.Amount {
						exp.sub(d.escrow, cn.Denom, bi(cn.Amount))
						exp.add(c.Sender, cn.Denom, bi(cn.Amount))
					}
				}
				if d.mode == "C03" && !due[id] {
					kind := "refunded-at-height-other-than-expiration"
					if c.Overdue {
						kind = "refunded-late"
					}
					if c.State != htlctypes.Open {
						kind = "refund-of-closed-contract"
					}
					run.Violation("C03:htlc:block-begin:"+kind, map[string]any{"id": id, "height": h, "expiry": c.Expiry, "model_state": htStateName(c.State)}, "contract %s (expiry %d, %s in the model) was refunded at block begin of height %d", id, c.Expiry, htStateName(c.State), h)
				}
				if c.State == htlctypes.Open {
					c.State, c.Closed = htlctypes.Refunded, h
					c.Outflows = append(c.Outflows, fmt.Sprintf("refund@%d", h))
					run.Count("refund-"+c.typ(), 1)
					if n := int64(len(d.byExpiry[h])); n > run.Counters["most-contracts-falling-due-at-one-height"] {
						run.Counters["most-contracts-falling-due-at-one-height"] = n
					}
					if c.Timestamp == 0 {
						run.Count("refund-ts0", 1)
					}
					run.Class("refund", c.typ(), htCoinCountClass(c.Amount), htTsClass(c.Timestamp), fmt.Sprintf("bucket=%d", htMinInt(len(d.byExpiry[h]), 6)), fmt.Sprint("to=sender:", c.To == c.Sender))
					run.Sample("refund:"+c.typ(), map[string]any{"height": h, "id": id, "sender": c.Sender, "amount": c.Amount.String(), "created": c.Created, "expiry": c.Expiry, "bucket": len(d.byExpiry[h])})
				} else {
					c.State = htlctypes.Refunded
					c.Outflows = append(c.Outflows, fmt.Sprintf("refund@%d", h))
				}
			}
		} else if c != nil {
			c.State = rb.h.State // follow the chain after the state-machine report
		}
	}
	if d.mode == "C03" {
		run.Eval(1 + len(due))
		nDue := 0
		for id := range due {
			nDue++
			if !refunded[id] {
				c := d.model[id]
				c.Overdue = true
				run.Violation("C03:htlc:block-begin:due-contract-not-refunded", map[string]any{"id": id, "height": h, "type": c.typ()}, "open %s contract %s expires at height %d but was not refunded at that block begin (chain state %s)", c.typ(), id, h, htRecState(ob.Recs[id]))
			}
		}
		if nDue >= 3 {
			run.Count("expiry-bucket>=3", 1)
		}
		if nDue > 0 {
			run.Count("expiry-heights-with-refunds", 1)
		}
		// events name exactly the refunded contracts
		evIDs := map[string]int{}
		for _, e := range br.BeginEvents {
			if e.Type == htlctypes.EventTypeRefundHTLC {
				for _, at := range e.Attributes {
					if at.Key == htlctypes.AttributeKeyID {
						evIDs[htLow(at.Value)]++
					}
				}
			}
		}
		bad := false
		for id, n := range evIDs {
			if !due[id] || n != 1 {
				bad = true
			}
		}
		if len(evIDs) != nDue {
			bad = true
		}
		if bad {
			run.Violation("C03:htlc:block-begin:refund-events-differ-from-due-set", map[string]any{"height": h, "events": fmt.Sprint(evIDs), "due": fmt.Sprint(due)}, "refund events at height %d name %d contracts, %d open contracts expire at this height", h, len(evIDs), nDue)
		}
		d.cmpSheet("C03:htlc:refund", exp, map[string]*big.Int{}, pb, ob, nil, "", true, map[string]any{"height": h, "refunded": fmt.Sprint(refunded)}, fmt.Sprintf("block begin at height %d", h))
	}
	d.lastEvent = "block-begin"
	d.lastInfo = fmt.Sprintf("block begin of height %d", h)
	if len(refunded) > 0 {
		d.lastEvent = "refund"
		var ids []string
		for id := range refunded {
			ids = append(ids, id)
		}
		sort.Strings(ids)
		d.lastInfo = fmt.Sprintf("block begin of height %d refunded %v", h, ids)
	}
	d.checkSums(ob, "block-begin")
}

func htRecState(r *htRec) string {
	if r == nil {
		return "absent"
	}
	return htStateName(r.h.State)
}

// ---- transactions

func (d *htDirector) onTxRejected(br *rig.BlockRecord, tx *rig.TxRecord, tag *htTag, pre *htSnap) {
	run := d.run
	switch tag.Kind {
	case "claim":
		c := d.model[htLow(tag.ID)]
		st := "unknown"
		valid := false
		if c != nil {
			st = htStateName(c.State)
			if m, ok := tx.Msgs[0].(*htlctypes.MsgClaimHTLC); ok {
				sec, _ := hex.DecodeString(m.Secret)
				valid = c.State == htlctypes.Open && string(htlcLock(sec, c.Timestamp)) == string(c.Lock)
			}
		}
		if valid && strings.Contains(tx.Result.Log, "invalid secret") {
			// the chain calls a preimage of the open contract's hash lock invalid
			run.Eval(1)
			run.Violation(d.mode+":htlc:claim:preimage-of-open-contract-rejected-as-invalid-secret", map[string]any{"height": br.Height, "id": c.ID, "type": c.typ(), "log": logBrief(tx)},
				"claim of open %s contract %s with the preimage of its hash lock was rejected as 'invalid secret' at height %d", c.typ(), htShort(c.ID), br.Height)
			return
		}
		if valid && strings.Contains(tx.Result.Log, "htlc not open") {
			// the contract is open by every accepted event so far (and is not due before a later block begin)
			run.Eval(1)
			run.Violation(d.mode+":htlc:claim:open-contract-rejected-as-not-open", map[string]any{"height": br.Height, "id": c.ID, "type": c.typ(), "expiry": c.Expiry, "log": logBrief(tx)},
				"claim of open %s contract %s (expires at %d) with the preimage of its hash lock was rejected as 'not open' at height %d", c.typ(), htShort(c.ID), c.Expiry, br.Height)
			return
		}
		if valid {
			// the only reasons for which the chain may refuse the preimage of an open contract are consequences of the
			// authority's parameter changes on cross-chain transfers (asset taken off the list, limit lowered below what
			// is in flight); anything else - an abort inside the handler included - keeps funds from the designated recipient
			lg := tx.Result.Log
			excused := c.typ() != "plain" && (strings.Contains(lg, "asset not found") || strings.Contains(lg, "over limit") || strings.Contains(lg, "supply limit") || strings.Contains(lg, "not active"))
			// "over limit" is a reason only when the figures the chain itself kept before this transaction say so
			if excused && pre != nil && strings.Contains(lg, "over limit") && len(c.Amount) == 1 {
				coin := c.Amount[0]
				if sup, ok := pre.Sup[coin.Denom]; ok {
					for _, ap := range pre.Params.AssetParams {
						if ap.Denom != coin.Denom {
							continue
						}
						run.Eval(1)
						overTotal := sup.CurrentSupply.Amount.Add(coin.Amount).GT(ap.SupplyLimit.Limit)
						overPeriod := ap.SupplyLimit.TimeLimited && sup.TimeLimitedCurrentSupply.Amount.Add(coin.Amount).GT(ap.SupplyLimit.TimeBasedLimit)
						period := strings.Contains(lg, "for current time period")
						if (period && !overPeriod) || (!period && !overTotal) {
							run.Violation(d.mode+":htlc:claim:preimage-of-open-contract-rejected-as-over-a-limit-it-is-within", map[string]any{"height": br.Height, "id": c.ID, "type": c.typ(), "amount": coin.String(), "supply": fmt.Sprintf("%+v", sup), "limit": fmt.Sprintf("%+v", ap.SupplyLimit), "log": logBrief(tx)},
								"claim of open %s contract %s (amount %s) with the preimage of its hash lock was rejected at height %d as over a supply limit, but the recorded supply (current %s, in this period %s) plus the amount is within the limits (total %s, period %s, time-limited %v): %s",
								c.typ(), htShort(c.ID), coin, br.Height, sup.CurrentSupply.Amount, sup.TimeLimitedCurrentSupply.Amount, ap.SupplyLimit.Limit, ap.SupplyLimit.TimeBasedLimit, ap.SupplyLimit.TimeLimited, logBrief(tx))
							return
						}
						run.Count("valid-claim-rejected-over-a-limit-confirmed-by-the-recorded-supply", 1)
					}
				}
			}
			if !excused {
				run.Eval(1)
				run.Violation(d.mode+":htlc:claim:preimage-of-open-contract-rejected:"+htErrClass(lg), map[string]any{"height": br.Height, "id": c.ID, "type": c.typ(), "amount": c.Amount.String(), "log": logBrief(tx)},
					"claim of open %s contract %s (amount %s, expires at %d) with the preimage of its hash lock was rejected at height %d: %s", c.typ(), htShort(c.ID), c.Amount, c.Expiry, br.Height, logBrief(tx))
				return
			}
			run.Count("valid-claim-rejected(not judged)", 1)
			run.Count("valid-claim-rejected(not judged): "+htErrClass(tx.Result.Log), 1)
			run.Note("valid claim of %s contract %s rejected at height %d: %s", c.typ(), htShort(c.ID), br.Height, logBrief(tx))
			return
		}
		if d.mode == "C03" {
			run.Eval(1)
			name := "claim-rejected:" + tag.Secret + ":on-" + st
			run.Count(name, 1)
			if c != nil && c.State == htlctypes.Open && tag.Secret == "right" {
				run.Count("claim-rejected:secret-bound-to-other-timestamp", 1)
			}
			if tag.Timing == "E" && st == "refunded" {
				run.Count("claim-at-expiry-height-rejected", 1)
			}
			if c != nil && c.State == htlctypes.Open && br.Height == c.Expiry-1 && strings.HasPrefix(tag.Secret, "wrong") {
				run.Count("wrong-secret-in-block-before-expiry-rejected", 1)
			}
			typ := tag.Type
			if c != nil {
				typ = c.typ()
			}
			run.Class("claim-rejected", typ, tag.Secret, "state="+st, "timing="+tag.Timing, "claimer="+tag.Claimer)
			run.Sample("claim-rejected:"+tag.Secret+":"+st, map[string]any{"height": br.Height, "id": tag.ID, "state": st, "secret_kind": tag.Secret, "log": logBrief(tx)})
		}
	case "create":
		if tag.Dup != "" {
			c := d.model[htLow(tag.ID)]
			st := "never-created"
			if c != nil {
				st = htStateName(c.State)
			}
			if d.mode == "C03" {
				run.Eval(1)
				run.Count("duplicate-create-rejected:"+st, 1)
				run.Class("create-rejected", tag.Type, "dup="+st)
				run.Sample("duplicate-create-rejected:"+st, map[string]any{"height": br.Height, "id": tag.ID, "existing_state": st, "log": logBrief(tx)})
			}
			return
		}
		if _, exists := d.model[htLow(tag.ID)]; exists && d.mode == "C03" {
			run.Count("duplicate-create-rejected:same-id-by-chance", 1)
		}
		if d.mode == "C04" && tag.Type != "plain" {
			run.Count("htlt-create-rejected:"+tag.Fit, 1)
			run.Class("create-rejected", tag.Type, "fit="+tag.Fit)
			// the unit that must not fit
			if m, ok := tx.Msgs[0].(*htlctypes.MsgCreateHTLC); ok && m.Transfer && len(m.Amount) == 1 {
				if a, ok := pre.asset(m.Amount[0].Denom); ok && a.DeputyAddress == m.Sender {
					sup := pre.Sup[a.Denom]
					tot := new(big.Int).Add(bi(sup.CurrentSupply.Amount), bi(sup.IncomingSupply.Amount))
					tot.Add(tot, bi(m.Amount[0].Amount))
					if tot.Cmp(bi(a.SupplyLimit.Limit)) > 0 {
						run.Count("incoming-over-limit-rejected", 1)
						if new(big.Int).Sub(tot, bi(m.Amount[0].Amount)).Cmp(bi(a.SupplyLimit.Limit)) == 0 || new(big.Int).Sub(tot, bi(a.SupplyLimit.Limit)).Cmp(bigOne) == 0 {
							run.Count("incoming-at-limit-boundary-rejected", 1)
						}
					}
				}
			}
		}
	}
}

func (d *htDirector) onTxOK(br *rig.BlockRecord, tx *rig.TxRecord, tag *htTag, pre, post *htSnap) {
	run := d.run
	h := br.Height
	signer := tx.Signer.String()
	if len(tx.Msgs) != 1 {
		return
	}
	det := map[string]any{"height": h, "tx": tx.Index, "msg": msgBrief(tx.Msgs)}
	site := tag.Kind
	d.lastEvent = tag.Kind
	d.lastInfo = fmt.Sprintf("height %d tx %d: %s", h, tx.Index, msgBrief(tx.Msgs))
	switch m := tx.Msgs[0].(type) {
	case *htlctypes.MsgCreateHTLC:
		sender, _ := sdk.AccAddressFromBech32(m.Sender)
		to, _ := sdk.AccAddressFromBech32(m.To)
		lock, _ := hex.DecodeString(m.HashLock)
		id := hex.EncodeToString(htlcID(sender, to, m.Amount, lock))
		det["id"] = id
		// id reported by the chain
		chainID := id
		if len(tx.Responses) == 1 {
			var resp htlctypes.MsgCreateHTLCResponse
			if d.r.Cdc.Unmarshal(tx.Responses[0].Value, &resp) == nil && resp.Id != "" {
				chainID = htLow(resp.Id)
			}
		}
		if d.mode == "C03" {
			run.Eval(1)
			if chainID != id {
				run.Violation("C03:htlc:create:id-differs-from-sha256-of-terms", det, "chain reports id %s, sha256(hashlock||sender||to||amount) is %s", chainID, id)
			}
		}
		old := d.model[chainID]
		if old != nil && d.mode == "C03" {
			run.Violation("C03:htlc:duplicate-create-accepted:existing-"+htStateName(old.State), det, "creation of contract %s succeeded although a contract with this id exists (%s, created at %d)", chainID, htStateName(old.State), old.Created)
		}
		c := &htContract{ID: chainID, Sender: m.Sender, To: htCanonAddr(m.To), Amount: m.Amount, Lock: lock, Timestamp: m.Timestamp, Created: h, Expiry: h + int64(m.TimeLock), Transfer: m.Transfer, State: htlctypes.Open}
		if m.Transfer {
			a, _ := pre.asset(m.Amount[0].Denom)
			if a.DeputyAddress == m.Sender {
				c.Dir = htlctypes.Incoming
			} else {
				c.Dir = htlctypes.Outgoing
			}
		}
		if old != nil {
			// keep the books consistent with what the chain now holds
			d.unindex(old)
		}
		d.model[chainID] = c
		d.byExpiry[c.Expiry] = append(d.byExpiry[c.Expiry], chainID)
		c.Bucket = len(d.byExpiry[c.Expiry])
		d.lastEvent = "create-" + c.typ()
		site = "create"
		changed := d.diffRecords(pre, post, map[string]bool{chainID: true}, site)
		_ = changed
		run.Count("create-ok-"+c.typ(), 1)
		if c.Timestamp == 0 {
			run.Count("create-ok-ts0", 1)
		} else {
			run.Count("create-ok-ts-nonzero", 1)
		}
		if len(c.Amount) > 1 {
			run.Count("create-ok-multi-coin", 1)
		}
		if c.To == d.escrow {
			run.Count("create-ok-recipient-is-escrow", 1)
		}
		if d.mode == "C03" {
			// the record the chain holds restates the message
			rec := post.Recs[chainID]
			run.Eval(1)
			if rec == nil {
				run.Violation("C03:htlc:create:no-record", det, "creation succeeded but no contract %s exists", chainID)
			} else {
				hh := rec.h
				var bad []string
				if hh.Sender != m.Sender {
					bad = append(bad, "sender")
				}
				if htCanonAddr(hh.To) != htCanonAddr(m.To) { // same account; the spelling on record is the chain's business
					bad = append(bad, "to")
				}
				if !hh.Amount.Equal(m.Amount) {
					bad = append(bad, "amount")
				}
				if htLow(hh.HashLock) != htLow(m.HashLock) {
					bad = append(bad, "hash_lock")
				}
				if hh.Timestamp != m.Timestamp {
					bad = append(bad, "timestamp")
				}
				if int64(hh.ExpirationHeight) != c.Expiry {
					bad = append(bad, "expiration_height")
				}
				if hh.State != htlctypes.Open {
					bad = append(bad, "state")
				}
				if hh.Transfer != m.Transfer || hh.Direction != c.Dir {
					bad = append(bad, "direction")
				}
				if len(bad) > 0 {
					det["record"] = hh.String()
					run.Violation("C03:htlc:create:record-differs-from-message:"+strings.Join(bad, "+"), det, "contract %s created at height %d with time lock %d: record differs in %v", chainID, h, m.TimeLock, bad)
				}
			}
			exp := ledger{}
			if c.escrowed() {
				for _, cn := range c.Amount {
					exp.sub(c.Sender, cn.Denom, bi(cn.Amount))
					exp.add(d.escrow, cn.Denom, bi(cn.Amount))
				}
			}
			d.cmpSheet("C03:htlc:create:"+c.typ(), exp, map[string]*big.Int{}, pre, post, c, signer, false, det, "create "+c.typ())
			run.Class("create", c.typ(), htCoinCountClass(c.Amount), htTsClass(c.Timestamp), "lock="+tag.Secret, "amt="+magClass(bi(c.Amount[0].Amount)), fmt.Sprint("to=self:", c.To == c.Sender), fmt.Sprint("dup:", tag.Dup))
			run.Sample("create:"+c.typ(), map[string]any{"height": h, "id": chainID, "sender": c.Sender, "to": c.To, "amount": c.Amount.String(), "timestamp": c.Timestamp, "time_lock": m.TimeLock, "expiry": c.Expiry})
		} else if c.Transfer {
			a, _ := pre.asset(c.Amount[0].Denom)
			sup := post.Sup[a.Denom]
			fit := tag.Fit
			if c.Dir == htlctypes.Incoming {
				used := new(big.Int).Add(bi(sup.CurrentSupply.Amount), bi(sup.IncomingSupply.Amount))
				if used.Cmp(bi(a.SupplyLimit.Limit)) == 0 {
					run.Count("incoming-create-reaches-limit-exactly", 1)
					fit += "/reaches-limit"
				}
				if a.SupplyLimit.TimeLimited {
					tu := new(big.Int).Add(bi(sup.TimeLimitedCurrentSupply.Amount), bi(sup.IncomingSupply.Amount))
					if tu.Cmp(bi(a.SupplyLimit.TimeBasedLimit)) == 0 {
						run.Count("incoming-create-reaches-time-based-limit-exactly", 1)
						fit += "/reaches-tbl"
					}
				}
			}
			run.Class("create", c.typ(), htAssetClass(a), "fit="+fit, "amt="+magClass(bi(c.Amount[0].Amount)))
			run.Sample("create:"+c.typ(), map[string]any{"height": h, "id": chainID, "amount": c.Amount.String(), "fit": fit, "supply_after": htSupStr(sup)})
		}
	case *htlctypes.MsgClaimHTLC:
		id := htLow(m.Id)
		sec, _ := hex.DecodeString(m.Secret)
		c := d.model[id]
		det["id"] = id
		site = "claim"
		valid := c != nil && c.State == htlctypes.Open && string(htlcLock(sec, c.Timestamp)) == string(c.Lock)
		if c != nil {
			d.lastInfo += fmt.Sprintf(" | contract: %s sender=%s to=%s amount=%s created=%d expiry=%d state-before=%s", c.typ(), c.Sender, c.To, c.Amount, c.Created, c.Expiry, htStateName(c.State))
			if c.To == d.escrow {
				d.lastInfo += " (recipient is the htlc escrow account)"
			}
		}
		d.diffRecords(pre, post, map[string]bool{id: true}, site)
		if !valid {
			if d.mode == "C03" {
				run.Eval(1)
				switch {
				case c == nil:
					run.Violation("C03:htlc:claim-accepted:unknown-contract", det, "claim of %s succeeded although no such contract was ever created", id)
				case c.State != htlctypes.Open:
					run.Violation("C03:htlc:claim-accepted:contract-"+htStateName(c.State), det, "claim of contract %s succeeded although it is %s (closed at %d): %s", id, htStateName(c.State), c.Closed, strings.Join(c.Outflows, ","))
				default:
					run.Violation("C03:htlc:claim-accepted:secret-is-not-preimage", det, "claim of contract %s succeeded with secret %x: sha256(secret||be64(%d)) = %x, hash lock is %x", id, sec, c.Timestamp, htlcLock(sec, c.Timestamp), c.Lock)
				}
				// whatever moved was not due
				d.cmpSheet("C03:htlc:invalid-claim-moved-funds", ledger{}, map[string]*big.Int{}, pre, post, c, signer, false, det, "invalid claim")
			}
			if c != nil {
				if rec := post.Recs[id]; rec != nil && rec.h.State != c.State {
					c.State = rec.h.State
					c.Outflows = append(c.Outflows, fmt.Sprintf("invalid-claim@%d", h))
				}
			}
			return
		}
		exp := ledger{}
		supExp := map[string]*big.Int{}
		for _, cn := range c.Amount {
			amt := bi(cn.Amount)
			switch c.typ() {
			case "plain":
				exp.sub(d.escrow, cn.Denom, amt)
				exp.add(c.To, cn.Denom, amt)
			case "incoming":
				exp.add(c.To, cn.Denom, amt)
				supExp[cn.Denom] = new(big.Int).Set(amt)
			case "outgoing":
				exp.sub(d.escrow, cn.Denom, amt)
				supExp[cn.Denom] = new(big.Int).Neg(amt)
			}
		}
		if c.To == d.escrow && c.typ() != "outgoing" {
			htAddCoins(d.escrowOwn, c.Amount, 1)
			run.Count("claim-ok-recipient-is-escrow", 1)
			d.lastEvent = "claim-to-escrow-as-recipient"
		} else {
			d.lastEvent = "claim-" + c.typ()
		}
		timing := "early"
		switch {
		case h == c.Expiry-1:
			timing = "E-1"
			run.Count("claim-ok-in-block-before-expiry", 1)
		case h == c.Created:
			timing = "creating-block"
			run.Count("claim-ok-in-creating-block", 1)
		case h >= c.Expiry:
			timing = "at-or-after-expiry"
		}
		claimer := "stranger"
		switch m.Sender {
		case c.To:
			claimer = "to"
		case c.Sender:
			claimer = "sender"
		}
		run.Count("claim-ok-"+c.typ(), 1)
		run.Count("claim-ok-by-"+claimer, 1)
		if c.Timestamp == 0 {
			run.Count("claim-ok-ts0", 1)
		}
		c.State, c.Closed = htlctypes.Completed, h
		c.Outflows = append(c.Outflows, fmt.Sprintf("claim@%d", h))
		if c.Transfer {
			dn := c.Amount[0].Denom
			amt := bi(c.Amount[0].Amount)
			if c.Dir == htlctypes.Incoming {
				d.doneIn[dn] = new(big.Int).Add(htGet(d.doneIn, dn), amt)
				if w := d.win[dn]; w != nil {
					w.Done = new(big.Int).Add(w.Done, amt)
				}
			} else {
				d.doneOut[dn] = new(big.Int).Add(htGet(d.doneOut, dn), amt)
			}
		}
		if d.mode == "C03" {
			rec := post.Recs[id]
			run.Eval(1)
			if rec == nil || rec.h.State != htlctypes.Completed {
				run.Violation("C03:htlc:claim:state-not-completed", det, "claim of %s succeeded but the contract is %s", id, htRecState(rec))
			}
			d.cmpSheet("C03:htlc:claim:"+c.typ(), exp, supExp, pre, post, c, signer, false, det, "claim of "+c.typ()+" contract")
			run.Class("claim", c.typ(), htCoinCountClass(c.Amount), htTsClass(c.Timestamp), "timing="+timing, "claimer="+claimer, fmt.Sprint("to=self:", c.To == c.Sender))
			run.Sample("claim:"+c.typ()+":"+timing, map[string]any{"height": h, "id": id, "claimer": m.Sender, "to": c.To, "amount": c.Amount.String(), "created": c.Created, "expiry": c.Expiry})
		} else if c.Transfer {
			a, _ := pre.asset(c.Amount[0].Denom)
			phase := "no-window"
			if w := d.win[a.Denom]; w != nil && a.SupplyLimit.TimeLimited {
				phase = fmt.Sprintf("window#%d", htMinInt(w.Resets, 3))
				if c.Dir == htlctypes.Incoming {
					run.Count("time-limited-incoming-claim-ok", 1)
					if w.Resets > 0 {
						run.Count("time-limited-incoming-claim-ok-after-a-reset", 1)
					}
					if w.Armed && w.Done.Cmp(bi(a.SupplyLimit.TimeBasedLimit)) == 0 {
						run.Count("window-filled-exactly", 1)
						phase += "/filled"
					}
				}
			}
			run.Class("claim", c.typ(), htAssetClass(a), phase, "amt="+magClass(bi(c.Amount[0].Amount)))
			run.Sample("claim:"+c.typ(), map[string]any{"height": h, "id": id, "amount": c.Amount.String(), "supply_after": htSupStr(post.Sup[a.Denom])})
		}
	case *banktypes.MsgSend:
		allowed := map[string]bool{}
		d.diffRecords(pre, post, allowed, "non-htlc-tx")
		if tag.Kind == "params" {
			d.onParams(br, tag, pre, post)
			if d.mode == "C03" {
				d.cmpSheet("C03:htlc:params-change", ledger{}, map[string]*big.Int{}, pre, post, nil, signer, false, det, "parameter change")
			}
		} else if d.mode == "C03" {
			exp := ledger{}
			for _, cn := range m.Amount {
				exp.sub(m.FromAddress, cn.Denom, bi(cn.Amount))
				exp.add(m.ToAddress, cn.Denom, bi(cn.Amount))
			}
			d.cmpSheet("C03:htlc:bank-send", exp, map[string]*big.Int{}, pre, post, nil, signer, false, det, "bank send")
		}
	}
	d.checkSums(post, site)
}

func htAssetClass(a htlctypes.AssetParam) string {
	if a.Denom == "" {
		return "asset-removed-from-params"
	}
	s := "limit=" + magClass(bi(a.SupplyLimit.Limit))
	if a.SupplyLimit.TimeLimited {
		s += fmt.Sprintf("/tl=%s", a.SupplyLimit.TimePeriod)
	}
	if a.FixedFee.IsPositive() {
		s += "/fee"
	}
	return s
}

func (d *htDirector) unindex(c *htContract) {
	ids := d.byExpiry[c.Expiry]
	for i, x := range ids {
		if x == c.ID {
			d.byExpiry[c.Expiry] = append(ids[:i:i], ids[i+1:]...)
			break
		}
	}
}

// onParams: a successful parameter update; limit clauses restart for every asset whose parameters changed.
func (d *htDirector) onParams(br *rig.BlockRecord, tag *htTag, pre, post *htSnap) {
	before := map[string]string{}
	for _, a := range pre.Params.AssetParams {
		before[a.Denom] = a.String()
	}
	n := 0
	for _, a := range post.Params.AssetParams {
		if before[a.Denom] == a.String() {
			delete(before, a.Denom)
			continue
		}
		delete(before, a.Denom)
		n++
		d.paramsChanged(a.Denom, post)
	}
	for dn := range before { // removed
		n++
		d.paramsChanged(dn, post)
	}
	d.run.Count("params-change-ok", 1)
	if n > 0 {
		d.run.Count("params-change-ok:"+tag.Note, 1)
		d.run.Class("params", tag.Note)
	}
}

func (d *htDirector) paramsChanged(denom string, post *htSnap) {
	if w := d.win[denom]; w != nil {
		w.Armed = false
	}
	d.limitArmed[denom] = false
}

// ---- C04 relations at an observation point

func (d *htDirector) rel(key, slot string, got, want *big.Int, det map[string]any, f string, a ...any) {
	d.run.Eval(1)
	off := htGet(d.off, key+"|"+slot)
	eff := new(big.Int).Add(want, off)
	if got.Cmp(eff) == 0 {
		return
	}
	dir := "surplus"
	if got.Cmp(eff) < 0 {
		dir = "shortfall"
	}
	det["got"], det["want"], det["slot"], det["last_event"] = got.String(), eff.String(), slot, d.lastInfo
	d.run.Violation(key+":"+dir+":after-"+d.lastEvent, det, f+fmt.Sprintf(" [%s: chain %s, expected %s]", slot, got, eff), a...)
	d.off[key+"|"+slot] = new(big.Int).Sub(got, want) // report a discrepancy once, then follow it
}

func (d *htDirector) checkSums(s *htSnap, site string) {
	if d.mode != "C04" {
		return
	}
	run := d.run
	det := func() map[string]any { return map[string]any{"height": s.Height, "site": site} }
	// sums over the chain's own list and over the model
	chEsc, moEsc := map[string]*big.Int{}, map[string]*big.Int{}
	chIn, chOut, moIn, moOut := map[string]*big.Int{}, map[string]*big.Int{}, map[string]*big.Int{}, map[string]*big.Int{}
	chDone := map[string]*big.Int{}
	nOpen := 0
	for _, r := range s.Recs {
		hh := r.h
		switch hh.State {
		case htlctypes.Open:
			nOpen++
			if !hh.Transfer || hh.Direction == htlctypes.Outgoing {
				htAddCoins(chEsc, hh.Amount, 1)
			}
			if hh.Transfer && hh.Direction == htlctypes.Incoming {
				htAddCoins(chIn, hh.Amount, 1)
			}
			if hh.Transfer && hh.Direction == htlctypes.Outgoing {
				htAddCoins(chOut, hh.Amount, 1)
			}
		case htlctypes.Completed:
			if hh.Transfer && hh.Direction == htlctypes.Incoming {
				htAddCoins(chDone, hh.Amount, 1)
			}
			if hh.Transfer && hh.Direction == htlctypes.Outgoing {
				htAddCoins(chDone, hh.Amount, -1)
			}
		}
	}
	for _, c := range d.model {
		if c.State != htlctypes.Open {
			continue
		}
		if c.escrowed() {
			htAddCoins(moEsc, c.Amount, 1)
		}
		if c.Transfer && c.Dir == htlctypes.Incoming {
			htAddCoins(moIn, c.Amount, 1)
		}
		if c.Transfer && c.Dir == htlctypes.Outgoing {
			htAddCoins(moOut, c.Amount, 1)
		}
	}
	esc := map[string]*big.Int{}
	htAddCoins(esc, s.Bal[d.escrow], 1)
	for _, dn := range htKeys(esc, chEsc, moEsc) {
		d.rel("C04:htlc:escrow-vs-open-contracts", dn, htGet(esc, dn), htGet(chEsc, dn), det(), "escrow balance differs from the sum of open plain and outgoing contracts at height %d (%s)", s.Height, site)
		d.rel("C04:htlc:open-contract-list-vs-model:escrowed", dn, htGet(chEsc, dn), htGet(moEsc, dn), det(), "sum of the open plain and outgoing contracts the chain lists differs from the contracts open by the history of accepted events at height %d (%s)", s.Height, site)
	}
	nontrivial := nOpen > 0
	for dn, sup := range s.Sup {
		inc, out, cur := bi(sup.IncomingSupply.Amount), bi(sup.OutgoingSupply.Amount), bi(sup.CurrentSupply.Amount)
		if inc.Sign() != 0 || out.Sign() != 0 || cur.Sign() != 0 {
			nontrivial = true
		}
		d.rel("C04:htlc:incoming-supply-vs-open-incoming", dn, inc, htGet(chIn, dn), det(), "recorded incoming supply of %s differs from the sum of open incoming transfers at height %d (%s)", dn, s.Height, site)
		d.rel("C04:htlc:open-contract-list-vs-model:incoming", dn, htGet(chIn, dn), htGet(moIn, dn), det(), "open incoming transfers of %s the chain lists differ from those open by the history of accepted events at height %d (%s)", dn, s.Height, site)
		d.rel("C04:htlc:outgoing-supply-vs-open-outgoing", dn, out, htGet(chOut, dn), det(), "recorded outgoing supply of %s differs from the sum of open outgoing transfers at height %d (%s)", dn, s.Height, site)
		d.rel("C04:htlc:open-contract-list-vs-model:outgoing", dn, htGet(chOut, dn), htGet(moOut, dn), det(), "open outgoing transfers of %s the chain lists differ from those open by the history of accepted events at height %d (%s)", dn, s.Height, site)
		g0, known := d.gen0Cur[dn]
		if !known {
			continue // supply record of an asset added in this very block: picked up at the next block begin
		}
		hist := new(big.Int).Add(g0, htGet(d.doneIn, dn))
		hist.Sub(hist, htGet(d.doneOut, dn))
		d.rel("C04:htlc:current-supply-vs-completed-transfers", dn, cur, hist, det(), "recorded current supply of %s differs from genesis + completed incoming - completed outgoing (history of accepted claims) at height %d (%s)", dn, s.Height, site)
		d.rel("C04:htlc:completed-contract-list-vs-model", dn, new(big.Int).Add(g0, htGet(chDone, dn)), hist, det(), "completed transfers of %s the chain lists differ from the history of accepted claims at height %d (%s)", dn, s.Height, site)
		bank := amountOf(s.Supply, dn)
		d.rel("C04:htlc:current-supply-vs-bank-supply", dn, bank, new(big.Int).Add(cur, htGet(d.bankOff, dn)), det(), "bank supply of %s differs from the recorded current supply at height %d (%s)", dn, s.Height, site)
		a, ok := s.asset(dn)
		if !ok {
			continue
		}
		// total limit, while the parameters are unchanged
		used := new(big.Int).Add(cur, inc)
		lim := bi(a.SupplyLimit.Limit)
		if !d.limitArmed[dn] {
			if used.Cmp(lim) <= 0 {
				d.limitArmed[dn] = true
			} else {
				run.Count("limit-clause-suspended-after-params-change", 1)
			}
		} else {
			run.Eval(1)
			if used.Cmp(lim) > 0 {
				dd := det()
				dd["asset"] = a.String()
				dd["supply"] = htSupStr(sup)
				run.Violation("C04:htlc:current-plus-incoming-exceeds-limit:after-"+d.lastEvent, dd, "asset %s: current %s + incoming %s = %s exceeds the limit %s with unchanged parameters at height %d (%s)", dn, cur, inc, used, lim, s.Height, site)
				d.limitArmed[dn] = false
			} else if used.Cmp(lim) == 0 {
				run.Count("boundary-at-limit-exactly", 1)
			}
		}
		// time-based limit per tumbling window
		w := d.win[dn]
		if w == nil || !w.Armed {
			if w != nil {
				run.Count("window-clause-suspended-after-params-change", 1)
			}
			continue
		}
		run.Eval(3)
		tbl := bi(a.SupplyLimit.TimeBasedLimit)
		if a.SupplyLimit.TimeLimited && w.Done.Cmp(tbl) > 0 {
			dd := det()
			dd["asset"] = a.String()
			run.Violation("C04:htlc:completed-in-period-exceeds-time-based-limit:after-"+d.lastEvent, dd, "asset %s: %s completed in the current limit period (elapsed %s of %s) exceeds the time-based limit %s at height %d (%s)", dn, w.Done, w.Elapsed, a.SupplyLimit.TimePeriod, tbl, s.Height, site)
			w.Armed = false
			continue
		}
		wantTL := new(big.Int)
		if a.SupplyLimit.TimeLimited {
			wantTL = w.Done
		}
		if got := bi(sup.TimeLimitedCurrentSupply.Amount); got.Cmp(wantTL) != 0 {
			dd := det()
			dd["supply"] = htSupStr(sup)
			dir := "above"
			if got.Cmp(wantTL) < 0 {
				dir = "below"
			}
			run.Violation("C04:htlc:window-bookkeeping:time-limited-supply-"+dir+"-completed-in-period:after-"+d.lastEvent, dd, "asset %s: recorded time-limited supply %s, completed in the current period %s (elapsed %s of %s, resets %d) at height %d (%s)", dn, got, wantTL, w.Elapsed, a.SupplyLimit.TimePeriod, w.Resets, s.Height, site)
			w.Armed = false
			continue
		}
		if sup.TimeElapsed != w.Elapsed {
			dd := det()
			dd["supply"] = htSupStr(sup)
			run.Violation("C04:htlc:window-bookkeeping:elapsed-time:after-"+d.lastEvent, dd, "asset %s: recorded elapsed time %s, block times give %s (period %s) at height %d (%s)", dn, sup.TimeElapsed, w.Elapsed, a.SupplyLimit.TimePeriod, s.Height, site)
			w.Armed = false
		}
	}
	if nontrivial {
		run.Count("boundary-evaluated:"+site, 1)
		run.Class("boundary", site, fmt.Sprintf("open=%d", htMinInt(nOpen/10, 5)))
	}
}

// ---- block end

func (d *htDirector) blockEnd(br *rig.BlockRecord, oe *htSnap) {
	run := d.run
	d.lastEvent = "block-end"
	d.lastInfo = fmt.Sprintf("block end of height %d", br.Height)
	d.checkSums(oe, "block-end")
	if d.mode != "C03" {
		return
	}
	// model and chain agree on every contract's state
	run.Eval(len(d.model))
	for id, c := range d.model {
		r := oe.Recs[id]
		if r == nil || r.h.State != c.State {
			run.Violation("C03:htlc:state-differs-from-model:"+htStateName(c.State)+"-vs-"+htRecState(r), map[string]any{"id": id, "height": br.Height, "outflows": c.Outflows}, "contract %s is %s on chain, %s by the history of accepted events, at height %d", id, htRecState(r), htStateName(c.State), br.Height)
			if r != nil {
				c.State = r.h.State
			}
		}
	}
	// conservation: what is in escrow is what open contracts put there
	want := map[string]*big.Int{}
	for _, c := range d.model {
		if c.State == htlctypes.Open && c.escrowed() {
			htAddCoins(want, c.Amount, 1)
		}
	}
	esc := map[string]*big.Int{}
	htAddCoins(esc, oe.Bal[d.escrow], 1)
	for _, dn := range htKeys(esc, want) {
		run.Eval(1)
		off := htGet(d.c3off, dn)
		eff := new(big.Int).Add(htGet(want, dn), off)
		if g := htGet(esc, dn); g.Cmp(eff) != 0 {
			dir := "more"
			if g.Cmp(eff) < 0 {
				dir = "less"
			}
			run.Violation("C03:htlc:escrow-holds-"+dir+"-than-open-contracts-locked", map[string]any{"height": br.Height, "denom": dn}, "escrow holds %s %s at the end of height %d, open contracts locked %s", g, dn, br.Height, eff)
			d.c3off[dn] = new(big.Int).Sub(g, htGet(want, dn))
		}
	}
	// expiry queue <-> open contracts
	probs := htlcQueueCheck(d.r, d.r.Ctx())
	run.Eval(1 + len(oe.Recs))
	for _, p := range probs {
		slug := p
		if i := strings.Index(p, ":"); i > 0 {
			slug = p[:i]
		}
		run.Violation("C03:htlc:expiry-queue:"+slug, map[string]any{"height": br.Height, "all": probs}, "expiry queue after height %d: %s", br.Height, p)
	}
}

func (d *htDirector) finish() {
	run := d.run
	if d.stop {
		return
	}
	if d.mode == "C03" {
		// exactly-once over the whole history
		for id, c := range d.model {
			run.Eval(1)
			n := len(c.Outflows)
			switch {
			case c.State == htlctypes.Open && n != 0:
				run.Violation("C03:htlc:open-contract-paid-out", map[string]any{"id": id, "outflows": c.Outflows}, "contract %s is open but paid out %v", id, c.Outflows)
			case c.State != htlctypes.Open && n != 1:
				run.Violation("C03:htlc:closed-contract-outflow-count", map[string]any{"id": id, "outflows": c.Outflows}, "contract %s is %s with %d pay-outs: %v", id, htStateName(c.State), n, c.Outflows)
			case c.State == htlctypes.Open && c.Expiry <= d.r.Height:
				run.Violation("C03:htlc:open-past-expiry", map[string]any{"id": id, "expiry": c.Expiry}, "contract %s is still open at height %d, it expired at %d", id, d.r.Height, c.Expiry)
			}
		}
		for _, k := range []string{
			"create-ok-plain", "create-ok-incoming", "create-ok-outgoing", "create-ok-ts0", "create-ok-ts-nonzero", "create-ok-multi-coin",
			"claim-ok-plain", "claim-ok-incoming", "claim-ok-outgoing", "claim-ok-ts0", "claim-ok-in-block-before-expiry", "claim-ok-in-creating-block",
			"claim-ok-by-to", "claim-ok-by-stranger",
			"refund-plain", "refund-incoming", "refund-outgoing", "refund-ts0", "expiry-bucket>=3",
			"claim-at-expiry-height-rejected", "claim-rejected:right:on-completed", "claim-rejected:right:on-refunded",
			"claim-rejected:secret-bound-to-other-timestamp", "wrong-secret-in-block-before-expiry-rejected",
			"duplicate-create-rejected:open", "duplicate-create-rejected:completed", "duplicate-create-rejected:refunded",
		} {
			run.Require(k, 1)
		}
		wrong := run.Counters["claim-rejected:wrong-random:on-open"] + run.Counters["claim-rejected:wrong-flip:on-open"] + run.Counters["claim-rejected:wrong-other:on-open"]
		run.Count("claim-rejected:wrong-secret:on-open", wrong)
		run.Require("claim-rejected:wrong-secret:on-open", 1)
		return
	}
	for _, k := range []string{
		"boundary-evaluated:block-begin", "boundary-evaluated:block-end", "boundary-evaluated:create", "boundary-evaluated:claim",
		"create-ok-plain", "create-ok-incoming", "create-ok-outgoing", "claim-ok-incoming", "claim-ok-outgoing", "claim-ok-plain",
		"refund-incoming", "refund-outgoing", "refund-plain",
		"window-reset-after-completions", "time-limited-incoming-claim-ok-after-a-reset",
		"incoming-create-reaches-limit-exactly", "incoming-at-limit-boundary-rejected",
	} {
		run.Require(k, 1)
	}
}

func htSupStr(s htlctypes.AssetSupply) string { return s.String() }

// htErrClass reduces a rejection log to its error text without ids, amounts and addresses.
func htErrClass(log string) string {
	log = strings.TrimPrefix(log, "failed to execute message; message index: 0: ")
	if i := strings.Index(log, " stack:"); i > 0 {
		log = log[:i]
	}
	if i := strings.Index(log, "\n"); i > 0 {
		log = log[:i]
	}
	var b strings.Builder
	for _, f := range strings.Fields(log) {
		digits := 0
		for _, ch := range f {
			if ch >= '0' && ch <= '9' {
				digits++
			}
		}
		if digits > 2 || len(f) > 30 {
			b.WriteString("# ")
			continue
		}
		b.WriteString(f + " ")
	}
	out := strings.TrimSpace(b.String())
	if len(out) > 120 {
		out = out[:120]
	}
	return out
}

// spell: one recipient in five is written in the other valid spelling of a bech32 address (all upper case); it names
// the same account, and everything that holds for the account holds for this spelling of it
func (w *htlcWorkload) spell(addr string, tag *htTag) string {
	if w.rng.Intn(5) != 0 {
		return addr
	}
	tag.Note += "/upper-case-recipient"
	return strings.ToUpper(addr)
}

func htCanonAddr(addr string) string {
	a, err := sdk.AccAddressFromBech32(addr)
	if err != nil {
		return addr
	}
	return a.String()
}
