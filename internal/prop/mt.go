package prop

import (
	"bytes"
	"crypto/sha256"
	"encoding/json"
	"fmt"
	"math"
	"math/big"
	"math/rand"
	"sort"
	"strings"
	"time"

	"github.com/cosmos/cosmos-sdk/codec"
	sdk "github.com/cosmos/cosmos-sdk/types"
	"github.com/cosmos/cosmos-sdk/types/query"

	mttypes "mods.irisnet.org/modules/mt/types"

	"verif/internal/ev"
	"verif/internal/rig"
)

func init() {
	Register(&Spec{
		ID: "C15", Level: "exploration",
		Rule: "cases = chains driven by the MT director (issue-class / mint new or existing / edit / transfer incl. to self / burn / transfer-class by owners and strangers, amounts over the whole uint64 range incl. balance+1, 2^64-1 and sums that overflow); after every successful tx the complete MT state (classes, tokens, supplies, raw balance store walk) is compared with an arbitrary-precision reference ledger; non-trivial = successful tx or targeted hostile rejection; distinct = distinct (op, actor role, amount class, outcome); since rounds 11-14: genesis battery (balances and supplies that agree, disagree, or agree only modulo 2^64), the owner addressing the id generated next, recipients in upper case, restart from the chain's own export in every fourth chain; since rounds 15-19: a mint into the class id the generator hands out next; snapshot panics judged (query-panicked); the balances listing walked in pages of two",
		Assume: []string{"a failed tx leaves no trace because BaseApp drops its branch"},
		Cases:  func(t string) int { return tierN(t, 16, 48) },
		Run:    runMT,
	})
}

var maxU64 = new(big.Int).SetUint64(math.MaxUint64)

type mtTok struct {
	Data   string
	Shown  *big.Int // the supply the token record presents (listing / query)
	Supply *big.Int
	Bal    map[string]*big.Int
}
type mtClass struct {
	Owner, Name, Data string
	Toks              map[string]*mtTok
}

type mtTag struct{ Op string }

type mtWorkload struct {
	run      *ev.Run
	r        *rig.Rig
	model    map[string]*mtClass
	everCls  map[string]bool
	everTok  map[string]bool
	quiet    bool
	followUp []mtFollow // after a rolled-back handover: the would-be new owner tries to use the class
}

type mtFollow struct{ Class, Actor string }

func newMTWorkload() *mtWorkload {
	return &mtWorkload{model: map[string]*mtClass{}, everCls: map[string]bool{}, everTok: map[string]bool{}}
}

func (w *mtWorkload) Name() string                                        { return "mt" }
func (w *mtWorkload) Genesis(codec.Codec, map[string]json.RawMessage) {}
func (w *mtWorkload) Attach(run *ev.Run, r *rig.Rig)                  { w.run, w.r = run, r }

func (w *mtWorkload) classes() []string {
	var ids []string
	for id := range w.model {
		ids = append(ids, id)
	}
	sort.Strings(ids)
	return ids
}

func mtToks(c *mtClass) []string {
	var ids []string
	for id := range c.Toks {
		ids = append(ids, id)
	}
	sort.Strings(ids)
	return ids
}

func (w *mtWorkload) find(addr string) *rig.Account {
	for _, a := range w.r.Accounts {
		if a.Addr.String() == addr {
			return a
		}
	}
	return nil
}

func (w *mtWorkload) actor(rightful string) *rig.Account {
	rng := w.run.Rng
	if rng.Intn(4) == 0 {
		return w.r.Acc(rng.Intn(len(w.r.Accounts)))
	}
	if a := w.find(rightful); a != nil {
		return a
	}
	return w.r.Acc(rng.Intn(len(w.r.Accounts)))
}

func (w *mtWorkload) amount(bal, supply *big.Int) (uint64, string) {
	rng := w.run.Rng
	switch rng.Intn(10) {
	case 0:
		return 1, "1"
	case 1:
		return uint64(1 + rng.Intn(1000)), "small"
	case 2:
		return uint64(rng.Int63()), "2^63"
	case 3:
		return math.MaxUint64, "max"
	case 4:
		if bal != nil && bal.Sign() > 0 {
			return bal.Uint64(), "balance"
		}
		return 1, "1"
	case 5:
		if bal != nil && bal.Cmp(maxU64) < 0 {
			return bal.Uint64() + 1, "balance+1"
		}
		return math.MaxUint64, "max"
	case 6:
		if supply != nil {
			room := new(big.Int).Sub(maxU64, supply)
			if room.Sign() > 0 {
				return room.Uint64(), "room"
			}
		}
		return 1, "1"
	case 7:
		if supply != nil {
			room := new(big.Int).Sub(maxU64, supply)
			if room.Cmp(maxU64) < 0 {
				return room.Uint64() + 1, "room+1"
			}
		}
		return math.MaxUint64, "max"
	case 8:
		if bal != nil && bal.Sign() > 0 {
			return randBelow(rng, bal).Uint64(), "part"
		}
		return uint64(1 + rng.Intn(100)), "small"
	default:
		return uint64(rng.Uint32()) + 1, "2^32"
	}
}

func (w *mtWorkload) Next(block int) []rig.Tx {
	rng := w.run.Rng
	r := w.r
	var out []rig.Tx
	for _, f := range w.followUp {
		if a := findAcc(r, f.Actor); a != nil && w.model[f.Class] != nil {
			out = append(out, r.Mk(a, &mtTag{Op: "mint-new"}, &mttypes.MsgMintMT{DenomId: f.Class, Amount: 5, Data: []byte("after-rollback"), Sender: f.Actor, Recipient: f.Actor}),
				r.Mk(a, &mtTag{Op: "transfer-class"}, &mttypes.MsgTransferDenom{Id: f.Class, Sender: f.Actor, Recipient: f.Actor}))
		}
	}
	w.followUp = nil
	// every 15 blocks every holder of one token burns all it holds: the supply of that token reaches exactly zero (and a
	// later mint brings it back)
	if block%15 == 7 {
		for _, cid := range w.classes() {
			done := false
			tids := make([]string, 0, len(w.model[cid].Toks))
			for tid := range w.model[cid].Toks {
				tids = append(tids, tid)
			}
			sort.Strings(tids)
			for _, tid := range tids {
				t := w.model[cid].Toks[tid]
				if t.Supply.Sign() == 0 || len(t.Bal) == 0 || len(t.Bal) > 4 {
					continue
				}
				var burns []rig.Tx
				holders := make([]string, 0, len(t.Bal))
				for h := range t.Bal {
					holders = append(holders, h)
				}
				sort.Strings(holders)
				for _, h := range holders {
					a := findAcc(r, h)
					if a == nil || !t.Bal[h].IsUint64() {
						burns = nil
						break
					}
					burns = append(burns, r.Mk(a, &mtTag{Op: "burn"}, &mttypes.MsgBurnMT{Id: tid, DenomId: cid, Amount: t.Bal[h].Uint64(), Sender: h}))
				}
				if len(burns) > 0 {
					out = append(out, burns...)
					w.run.Count("mt-every-holder-burns-everything", 1)
					done = true
					break
				}
			}
			if done {
				break
			}
		}
	}
	n := 1 + rng.Intn(4)
	for i := 0; i < n; i++ {
		classes := w.classes()
		wts := []int{5, 25, 12, 28, 18, 8, 5}
		if len(classes) == 0 {
			wts = []int{1, 0, 0, 0, 0, 0, 0}
		}
		switch weighted(rng, wts) {
		case 6:
			// one transaction, two messages: a valid handover of the class by its owner, then a message that always fails
			// (burn of an unknown token): the transaction is rolled back as a whole and nothing of the handover may remain
			cid := classes[rng.Intn(len(classes))]
			c := w.model[cid]
			a := findAcc(r, c.Owner)
			b := r.Acc(rng.Intn(len(r.Accounts)))
			if a == nil || a == b {
				continue
			}
			out = append(out, r.Mk(a, &mtTag{Op: "bundle-rolled-back"},
				&mttypes.MsgTransferDenom{Id: cid, Sender: c.Owner, Recipient: b.Addr.String()},
				&mttypes.MsgBurnMT{Id: "0000000000000000000000000000000000000000000000000000000000000000", DenomId: cid, Amount: 1, Sender: c.Owner}))
			w.followUp = append(w.followUp, mtFollow{Class: cid, Actor: b.Addr.String()})
		case 0:
			a := r.Acc(rng.Intn(len(r.Accounts)))
			out = append(out, r.Mk(a, &mtTag{Op: "issue"}, &mttypes.MsgIssueDenom{Name: fmt.Sprintf(" class%d ", rng.Intn(100)), Data: []byte(fmt.Sprintf("d%d", rng.Intn(10))), Sender: a.Addr.String()}))
		case 1:
			cid := classes[rng.Intn(len(classes))]
			c := w.model[cid]
			a := w.actor(c.Owner)
			rcpt := ""
			if rng.Intn(3) > 0 {
				rcpt = r.Acc(rng.Intn(len(r.Accounts))).Addr.String()
			}
			ids := mtToks(c)
			if len(ids) > 0 && rng.Intn(3) > 0 {
				tid := ids[rng.Intn(len(ids))]
				t := c.Toks[tid]
				to := rcpt
				if to == "" {
					to = a.Addr.String()
				}
				amt, _ := w.amount(t.Bal[to], t.Supply)
				if rng.Intn(12) == 0 {
					tid = "0000000000000000000000000000000000000000000000000000000000000000" // unknown id
				}
				out = append(out, r.Mk(a, &mtTag{Op: "mint-existing"}, &mttypes.MsgMintMT{Id: tid, DenomId: cid, Amount: amt, Sender: a.Addr.String(), Recipient: rcpt}))
			} else {
				amt, _ := w.amount(nil, nil)
				out = append(out, r.Mk(a, &mtTag{Op: "mint-new"}, &mttypes.MsgMintMT{DenomId: cid, Amount: amt, Data: []byte("meta"), Sender: a.Addr.String(), Recipient: rcpt}))
			}
		case 2:
			cid := classes[rng.Intn(len(classes))]
			c := w.model[cid]
			ids := mtToks(c)
			if len(ids) == 0 {
				continue
			}
			a := w.actor(c.Owner)
			data := []byte(fmt.Sprintf("m%d", rng.Intn(100)))
			if rng.Intn(4) == 0 {
				data = []byte(mttypes.DoNotModify)
			}
			out = append(out, r.Mk(a, &mtTag{Op: "edit"}, &mttypes.MsgEditMT{Id: ids[rng.Intn(len(ids))], DenomId: cid, Data: data, Sender: a.Addr.String()}))
			if rng.Intn(5) == 0 {
				// the class owner addresses a token that does not exist yet under the id the generator hands out next (ids are
				// sha256("mt-<sequence>"), anybody can compute them): edit it, then mint to it. Whatever the chain makes of
				// that, the id the next new token receives must be fresh.
				seq := r.K.MT.GetMTSequence(r.Ctx()) + uint64(rng.Intn(3))
				future := fmt.Sprintf("%x", sha256.Sum256([]byte(fmt.Sprintf("mt-%d", seq))))
				// ... and somebody mints a new token into the class that does not exist yet under the id the generator hands
				// out to the next class (sha256("mt-denom-<sequence>"))
				futureClass := fmt.Sprintf("%x", sha256.Sum256([]byte(fmt.Sprintf("mt-denom-%d", r.K.MT.GetDenomSequence(r.Ctx())+uint64(rng.Intn(2))))))
				if w.model[futureClass] == nil {
					w.run.Count("future-class-id-minted-into-before-it-is-issued", 1)
					out = append(out, r.Mk(a, &mtTag{Op: "mint-future-class"}, &mttypes.MsgMintMT{DenomId: futureClass, Amount: 2, Sender: a.Addr.String(), Recipient: a.Addr.String()}))
				}
				if own := w.find(c.Owner); own != nil && c.Toks[future] == nil {
					w.run.Count("future-token-id-addressed-before-it-is-generated", 1)
					out = append(out, r.Mk(own, &mtTag{Op: "edit-future-id"}, &mttypes.MsgEditMT{Id: future, DenomId: cid, Data: []byte("squat"), Sender: own.Addr.String()}),
						r.Mk(own, &mtTag{Op: "mint-future-id"}, &mttypes.MsgMintMT{Id: future, DenomId: cid, Amount: 3, Sender: own.Addr.String(), Recipient: own.Addr.String()}))
				}
			}
		case 3, 4:
			cid := classes[rng.Intn(len(classes))]
			c := w.model[cid]
			ids := mtToks(c)
			if len(ids) == 0 {
				continue
			}
			tid := ids[rng.Intn(len(ids))]
			t := c.Toks[tid]
			// prefer a holder
			var holder *rig.Account
			for _, i := range rng.Perm(len(r.Accounts)) {
				if b := t.Bal[r.Acc(i).Addr.String()]; b != nil && b.Sign() > 0 {
					holder = r.Acc(i)
					break
				}
			}
			if holder == nil || rng.Intn(6) == 0 {
				holder = r.Acc(rng.Intn(len(r.Accounts)))
			}
			bal := t.Bal[holder.Addr.String()]
			if bal == nil {
				bal = new(big.Int)
			}
			if rng.Intn(12) == 0 {
				// the id with surrounding whitespace: it names no token (only minting trims its id)
				tid = pick(rng, " "+tid, tid+" ", "\t"+tid+"  ")
			}
			if rng.Intn(3) == 0 {
				amt, _ := w.amount(bal, t.Supply)
				out = append(out, r.Mk(holder, &mtTag{Op: "burn"}, &mttypes.MsgBurnMT{Id: tid, DenomId: cid, Amount: amt, Sender: holder.Addr.String()}))
			} else {
				to := r.Acc(rng.Intn(len(r.Accounts)))
				if rng.Intn(6) == 0 {
					to = holder
				}
				amt, _ := w.amount(bal, t.Supply)
				out = append(out, r.Mk(holder, &mtTag{Op: "transfer"}, &mttypes.MsgTransferMT{Id: tid, DenomId: cid, Amount: amt, Sender: holder.Addr.String(), Recipient: mtSpell(rng, w.run, to.Addr.String())}))
			}
		case 5:
			cid := classes[rng.Intn(len(classes))]
			c := w.model[cid]
			a := w.actor(c.Owner)
			out = append(out, r.Mk(a, &mtTag{Op: "transfer-class"}, &mttypes.MsgTransferDenom{Id: cid, Sender: a.Addr.String(), Recipient: mtSpell(rng, w.run, r.Acc(rng.Intn(len(r.Accounts))).Addr.String())}))
		}
	}
	return out
}

type mtSnap struct {
	Classes map[string]*mtClass // supply & data from the module's getters, balances from the raw store walk
}

func (w *mtWorkload) snapshot(ctx sdk.Context) *mtSnap {
	k := w.r.K.MT
	s := &mtSnap{Classes: map[string]*mtClass{}}
	for _, d := range k.GetDenoms(ctx) {
		c := &mtClass{Owner: d.Owner, Name: d.Name, Data: string(d.Data), Toks: map[string]*mtTok{}}
		for _, m := range k.GetMTs(ctx, d.Id) {
			c.Toks[m.GetID()] = &mtTok{Data: string(m.GetData()), Shown: new(big.Int).SetUint64(m.GetSupply()), Supply: new(big.Int).SetUint64(k.GetMTSupply(ctx, d.Id, m.GetID())), Bal: map[string]*big.Int{}}
		}
		s.Classes[d.Id] = c
	}
	w.r.WalkStore(ctx, "mt", mttypes.PrefixBalance, func(key, v []byte) bool {
		parts := bytes.Split(key, mttypes.Delimiter)
		if len(parts) != 4 {
			return false
		}
		addr, cid, tid := string(parts[1]), string(parts[2]), string(parts[3])
		amt := mttypes.MustUnMarshalAmount(w.r.Cdc, v)
		c := s.Classes[cid]
		if c == nil {
			c = &mtClass{Owner: "<no class record>", Toks: map[string]*mtTok{}}
			s.Classes[cid] = c
		}
		t := c.Toks[tid]
		if t == nil {
			t = &mtTok{Data: "<no token record>", Supply: new(big.Int), Bal: map[string]*big.Int{}}
			c.Toks[tid] = t
		}
		if amt > 0 {
			t.Bal[addr] = new(big.Int).SetUint64(amt)
		}
		return false
	})
	return s
}

// pagedBalances: every eighth block the balances listing of every (class, holder) of the reference model is read once
// in one large page and once in pages of two entries by offset; the pages put together must be the large page, entry by
// entry, and the amounts listed must add up to the holder's balances in the reference.
func (w *mtWorkload) pagedBalances(br *rig.BlockRecord) {
	if br.Height%8 != 0 {
		return
	}
	k, ctx := w.r.K.MT, w.r.Ctx()
	for cid, c := range w.model {
		holders := map[string]bool{}
		for _, t := range c.Toks {
			for a := range t.Bal {
				holders[a] = true
			}
		}
		for _, a := range sortedKeys(holders) {
			full, err := k.Balances(ctx, &mttypes.QueryBalancesRequest{Owner: a, DenomId: cid, Pagination: &query.PageRequest{Limit: 1000}})
			if err != nil || len(full.Balance) < 3 {
				continue
			}
			var paged []mttypes.Balance
			for off := uint64(0); off < uint64(len(full.Balance))+2; off += 2 {
				pg, err := k.Balances(ctx, &mttypes.QueryBalancesRequest{Owner: a, DenomId: cid, Pagination: &query.PageRequest{Offset: off, Limit: 2}})
				if err != nil {
					break
				}
				paged = append(paged, pg.Balance...)
			}
			w.run.Eval(1)
			w.run.Count("balances-listing-walked-in-pages-of-two", 1)
			same := len(paged) == len(full.Balance)
			for i := 0; same && i < len(paged); i++ {
				same = paged[i].MtId == full.Balance[i].MtId && paged[i].Amount == full.Balance[i].Amount
			}
			if !same {
				w.run.Violation("C15:mt:paged-balances-listing-differs-from-the-listing-in-one-page", map[string]any{"height": br.Height, "class": cid, "holder": a, "one_page": fmt.Sprint(full.Balance), "pages_of_two": fmt.Sprint(paged)},
					"balances of %s in class %s at height %d: read in pages of two entries the listing is %v, in one page %v", a, cid, br.Height, paged, full.Balance)
			}
		}
	}
}

func (w *mtWorkload) Observe(br *rig.BlockRecord) {
	judgeSnapPanics(w.run, w.r, "C15:mt", false)
	if !w.quiet {
		defer w.pagedBalances(br)
	}
	if w.quiet {
		// on a shared chain there are no MT snapshots per tx: resynchronise the generator's view from the chain
		w.model = w.snapshot(w.r.Ctx()).Classes
		for _, tx := range br.Txs {
			if tag, ok := tx.Tag.(*mtTag); ok {
				w.run.Count("mt-"+tag.Op+okSuffix(tx), 1)
			}
		}
		return
	}
	for _, tx := range br.Txs {
		tag, _ := tx.Tag.(*mtTag)
		if tag != nil && tag.Op == "bundle-rolled-back" {
			w.run.Eval(1)
			w.run.Count("mt-bundle-rolled-back"+okSuffix(tx), 1)
			if tx.OK() {
				w.run.Violation("C15:mt:transaction-with-a-failing-message-succeeded", map[string]any{"height": br.Height, "msgs": msgBrief(tx.Msgs)}, "a transaction whose second message burns an unknown token succeeded")
			}
			continue // rejected as a whole: the reference does not move; the next successful transaction's comparison covers it
		}
		if tag == nil || len(tx.Msgs) != 1 {
			continue
		}
		w.apply(br, tx, tag)
	}
}

func amtClass(a uint64, bal, supply *big.Int) string {
	v := new(big.Int).SetUint64(a)
	switch {
	case a == math.MaxUint64:
		return "max"
	case bal != nil && v.Cmp(bal) == 0:
		return "=balance"
	case bal != nil && v.Cmp(new(big.Int).Add(bal, bigOne)) == 0:
		return "balance+1"
	case supply != nil && new(big.Int).Add(supply, v).Cmp(maxU64) > 0:
		return "overflowing"
	case a == 1:
		return "1"
	case a < 1<<20:
		return "small"
	case a < 1<<40:
		return "2^32"
	default:
		return "2^63"
	}
}

func (w *mtWorkload) apply(br *rig.BlockRecord, tx *rig.TxRecord, tag *mtTag) {
	run := w.run
	ok := tx.OK()
	det := map[string]any{"msgs": msgBrief(tx.Msgs), "height": br.Height}
	viol := func(key string, f string, a ...any) {
		if !w.quiet {
			run.Violation("C15:mt:"+key, det, f, a...)
		}
	}
	outcome := "rejected"
	if ok {
		outcome = "ok"
	}
	var post *mtSnap
	if ok && tx.Post != nil {
		post, _ = tx.Post.(*mtSnap)
	}
	bal := func(t *mtTok, a string) *big.Int {
		if t.Bal[a] == nil {
			return new(big.Int)
		}
		return t.Bal[a]
	}
	setBal := func(t *mtTok, a string, v *big.Int) {
		if v.Sign() == 0 {
			delete(t.Bal, a)
		} else {
			t.Bal[a] = v
		}
	}
	switch m := tx.Msgs[0].(type) {
	case *mttypes.MsgIssueDenom:
		if ok && post != nil {
			var fresh []string
			for id := range post.Classes {
				if w.model[id] == nil {
					fresh = append(fresh, id)
				}
			}
			run.Eval(1)
			if len(fresh) != 1 {
				viol("issue-class-created-other-than-one", "issue-class created %d classes", len(fresh))
			}
			for _, id := range fresh {
				if w.everCls[id] {
					viol("class-id-reused", "generated class id %s was used before", id)
				}
				w.everCls[id] = true
				w.model[id] = &mtClass{Owner: m.Sender, Name: trimSpace(m.Name), Data: string(m.Data), Toks: map[string]*mtTok{}}
			}
		}
		run.Class("issue", outcome)
	case *mttypes.MsgMintMT:
		c := w.model[m.DenomId]
		if c == nil {
			if ok {
				viol("mint-into-missing-class", "mint into unknown class succeeded")
			}
			return
		}
		role := "stranger"
		if m.Sender == c.Owner {
			role = "owner"
		}
		to := htCanonAddr(m.Recipient)
		if trimSpace(to) == "" {
			to = m.Sender
		}
		amt := new(big.Int).SetUint64(m.Amount)
		if trimSpace(m.Id) == "" {
			if ok {
				if m.Sender != c.Owner {
					viol("mint-by-non-owner", "%s created a token in class %s owned by %s", m.Sender, m.DenomId, c.Owner)
				}
				if post != nil && post.Classes[m.DenomId] != nil {
					var fresh []string
					for id := range post.Classes[m.DenomId].Toks {
						if c.Toks[id] == nil {
							fresh = append(fresh, id)
						}
					}
					run.Eval(1)
					if len(fresh) != 1 {
						viol("mint-new-created-other-than-one", "mint of a new token created %d tokens", len(fresh))
					}
					for _, id := range fresh {
						if w.everTok[id] {
							viol("token-id-reused", "generated token id %s was used before", id)
						}
						w.everTok[id] = true
						c.Toks[id] = &mtTok{Data: string(m.Data), Supply: new(big.Int).Set(amt), Bal: map[string]*big.Int{to: new(big.Int).Set(amt)}}
					}
				}
			} else if m.Sender != c.Owner {
				run.Count("hostile-mint-rejected", 1)
			}
			run.Class("mint-new", role, amtClass(m.Amount, nil, nil), outcome)
		} else {
			t := c.Toks[trimSpace(m.Id)]
			if t == nil {
				if ok {
					viol("mint-unknown-token", "mint of unknown token id %s succeeded", m.Id)
				}
				run.Class("mint-existing", role, "unknown-id", outcome)
				return
			}
			ac := amtClass(m.Amount, bal(t, to), t.Supply)
			if ok {
				if m.Sender != c.Owner {
					viol("mint-by-non-owner", "%s minted token %s in class %s owned by %s", m.Sender, m.Id, m.DenomId, c.Owner)
				}
				t.Supply = new(big.Int).Add(t.Supply, amt)
				setBal(t, to, new(big.Int).Add(bal(t, to), amt))
				if t.Supply.Cmp(maxU64) > 0 {
					viol("supply-wrap-around", "mint of %d accepted although supply would exceed 2^64-1 (reference supply %s)", m.Amount, t.Supply)
				}
			} else if m.Sender != c.Owner {
				run.Count("hostile-mint-rejected", 1)
			} else if ac == "overflowing" {
				run.Count("overflow-mint-rejected", 1)
			}
			run.Class("mint-existing", role, ac, outcome)
		}
	case *mttypes.MsgEditMT:
		c := w.model[m.DenomId]
		if c == nil || c.Toks[m.Id] == nil {
			if ok {
				viol("edit-missing-token", "edit of unknown token succeeded")
			}
			return
		}
		role := "stranger"
		if m.Sender == c.Owner {
			role = "owner"
		}
		if ok {
			if m.Sender != c.Owner {
				viol("edit-by-non-owner", "%s edited token %s of class owned by %s", m.Sender, m.Id, c.Owner)
			}
			if string(m.Data) != mttypes.DoNotModify {
				c.Toks[m.Id].Data = string(m.Data)
			}
		} else if m.Sender != c.Owner {
			run.Count("hostile-edit-rejected", 1)
		}
		run.Class("edit", role, fmt.Sprint("sentinel=", string(m.Data) == mttypes.DoNotModify), outcome)
	case *mttypes.MsgTransferMT:
		c := w.model[m.DenomId]
		if c == nil || c.Toks[m.Id] == nil {
			if ok {
				viol("transfer-missing-token", "transfer of unknown token succeeded")
			}
			return
		}
		t := c.Toks[m.Id]
		amt := new(big.Int).SetUint64(m.Amount)
		have := bal(t, m.Sender)
		ac := amtClass(m.Amount, have, nil)
		if ok {
			if have.Cmp(amt) < 0 {
				viol("transfer-beyond-balance", "%s transferred %d of %s holding only %s", m.Sender, m.Amount, m.Id, have)
			}
			setBal(t, m.Sender, new(big.Int).Sub(have, amt))
			setBal(t, htCanonAddr(m.Recipient), new(big.Int).Add(bal(t, htCanonAddr(m.Recipient)), amt))
		} else if have.Cmp(amt) < 0 {
			run.Count("hostile-transfer-rejected", 1)
		}
		run.Class("transfer", ac, fmt.Sprint("self=", m.Sender == htCanonAddr(m.Recipient)), outcome)
	case *mttypes.MsgBurnMT:
		c := w.model[m.DenomId]
		if c == nil || c.Toks[m.Id] == nil {
			if ok {
				viol("burn-missing-token", "burn of unknown token succeeded")
			}
			return
		}
		t := c.Toks[m.Id]
		amt := new(big.Int).SetUint64(m.Amount)
		have := bal(t, m.Sender)
		ac := amtClass(m.Amount, have, nil)
		if ok {
			if have.Cmp(amt) < 0 {
				viol("burn-beyond-balance", "%s burned %d of %s holding only %s", m.Sender, m.Amount, m.Id, have)
			}
			setBal(t, m.Sender, new(big.Int).Sub(have, amt))
			t.Supply = new(big.Int).Sub(t.Supply, amt)
		} else if have.Cmp(amt) < 0 {
			run.Count("hostile-burn-rejected", 1)
		}
		run.Class("burn", ac, outcome)
	case *mttypes.MsgTransferDenom:
		c := w.model[m.Id]
		if c == nil {
			if ok {
				viol("handover-missing-class", "handover of unknown class succeeded")
			}
			return
		}
		role := "stranger"
		if m.Sender == c.Owner {
			role = "owner"
		}
		if ok {
			if m.Sender != c.Owner {
				viol("class-handover-by-non-owner", "%s handed over class %s owned by %s", m.Sender, m.Id, c.Owner)
			}
			c.Owner = htCanonAddr(m.Recipient)
		} else if m.Sender != c.Owner {
			run.Count("hostile-handover-rejected", 1)
		}
		run.Class("transfer-class", role, outcome)
	}
	run.Count("mt-"+tag.Op+"-"+outcome, 1)
	run.Op("h=%d #%d mt %s ok=%v %s", br.Height, tx.Index, msgBrief(tx.Msgs), ok, logBrief(tx))
	if post != nil && !w.quiet {
		w.compare(br, tx, post)
	}
}

func trimSpace(s string) string {
	for len(s) > 0 && (s[0] == ' ' || s[0] == '\t' || s[0] == '\n') {
		s = s[1:]
	}
	for len(s) > 0 && (s[len(s)-1] == ' ' || s[len(s)-1] == '\t' || s[len(s)-1] == '\n') {
		s = s[:len(s)-1]
	}
	return s
}

func (w *mtWorkload) compare(br *rig.BlockRecord, tx *rig.TxRecord, s *mtSnap) {
	run := w.run
	det := map[string]any{"height": br.Height, "msgs": msgBrief(tx.Msgs)}
	run.Eval(1)
	if len(s.Classes) != len(w.model) {
		run.Violation("C15:mt:class-set-differs", det, "chain has %d classes, reference %d", len(s.Classes), len(w.model))
	}
	for cid, mc := range w.model {
		cc := s.Classes[cid]
		if cc == nil {
			run.Violation("C15:mt:class-missing", det, "class %s missing", cid)
			continue
		}
		run.Eval(2)
		if cc.Owner != mc.Owner {
			run.Violation("C15:mt:class-owner-differs", det, "class %s owner on chain %s expected %s", cid, cc.Owner, mc.Owner)
		}
		if cc.Name != mc.Name || cc.Data != mc.Data {
			run.Violation("C15:mt:class-attributes-changed", det, "class %s name/data on chain %q/%q expected %q/%q", cid, cc.Name, cc.Data, mc.Name, mc.Data)
		}
		if len(cc.Toks) != len(mc.Toks) {
			run.Violation("C15:mt:token-set-differs", det, "class %s has %d tokens on chain, %d expected", cid, len(cc.Toks), len(mc.Toks))
		}
		for tid, mt := range mc.Toks {
			ct := cc.Toks[tid]
			if ct == nil {
				run.Violation("C15:mt:token-missing", det, "token %s missing", tid)
				continue
			}
			run.Eval(3)
			// the property's own relation, on chain values alone
			sum := new(big.Int)
			for _, b := range ct.Bal {
				sum.Add(sum, b)
			}
			if sum.Cmp(ct.Supply) != 0 {
				run.Violation("C15:mt:balances-do-not-add-up-to-supply", det, "token %s: sum of balances %s, recorded supply %s", tid, sum, ct.Supply)
			}
			if ct.Shown != nil && ct.Shown.Cmp(ct.Supply) != 0 {
				run.Violation("C15:mt:token-record-presents-another-supply", det, "token %s: the token record presents supply %s, the supply on record is %s (sum of balances %s)", tid, ct.Shown, ct.Supply, sum)
			}
			if ct.Supply.Cmp(mt.Supply) != 0 {
				run.Violation("C15:mt:supply-differs", det, "token %s supply on chain %s, reference %s", tid, ct.Supply, mt.Supply)
			}
			if ct.Data != mt.Data {
				run.Violation("C15:mt:metadata-differs", det, "token %s data on chain %q, expected %q", tid, ct.Data, mt.Data)
			}
			for a, b := range mt.Bal {
				cb := ct.Bal[a]
				if cb == nil {
					cb = new(big.Int)
				}
				if cb.Cmp(b) != 0 {
					run.Violation("C15:mt:balance-differs", det, "token %s holder %s balance on chain %s, reference %s", tid, a, cb, b)
				}
			}
			for a, b := range ct.Bal {
				if mt.Bal[a] == nil && b.Sign() != 0 {
					run.Violation("C15:mt:balance-differs", det, "token %s holder %s balance on chain %s, reference 0", tid, a, b)
				}
			}
		}
	}
	run.Sample("mt-state", map[string]any{"height": br.Height, "after": msgBrief(tx.Msgs), "classes": len(s.Classes)})
}

func runMT(run *ev.Run, c int) {
	if c%8 == 0 {
		mtGenesisBattery(run, c)
	}
	w := newMTWorkload()
	r := rig.New(rig.Options{Seed: fmt.Sprintf("mt-%d-%d", run.Seed, c), NumAccounts: 5, Balances: sdk.NewCoins(sdk.NewInt64Coin(rig.BondDenom, 1_000_000)), InflationOff: true, SubSecond: c%2 == 1})
	w.Attach(run, r)
	r.Snapshot = func(ctx sdk.Context) any { return w.snapshot(ctx) }
	r.SnapRecover = true
	blocks := tierN(run.Tier, 300, 1500)
	for b := 0; b < blocks; b++ {
		restartFromOwnExport(run, r, c, b, blocks)
		br := r.DeliverBlock(time.Second, w.Next(b))
		if br.FinalErr != nil {
			run.Inconc("FinalizeBlock failed: %v", br.FinalErr)
			return
		}
		w.Observe(br)
	}
	if c%4 == 1 {
		run.Require("restarted-from-own-export", 1)
	}
	for _, n := range []string{"mt-mint-new-ok", "mt-mint-existing-ok", "mt-transfer-ok", "mt-burn-ok", "mt-edit-ok", "mt-transfer-class-ok", "hostile-mint-rejected", "hostile-transfer-rejected", "hostile-burn-rejected", "hostile-edit-rejected", "hostile-handover-rejected", "overflow-mint-rejected"} {
		run.Require(n, 1)
	}
}

// mtGenesisBattery: chains born from genesis files whose balances and recorded supplies agree, disagree, or agree only
// modulo 2^64. A file the application refuses is fine; on every chain that does start, the balances of each multi-token
// have to add up (in exact arithmetic) to its recorded supply, and a burn must lower both by the same amount.
func mtGenesisBattery(run *ev.Run, c int) {
	type holding struct {
		acc int
		amt uint64
	}
	top := uint64(1) << 63
	cases := []struct {
		name   string
		supply uint64
		hold   []holding
	}{
		{"consistent", 1000, []holding{{0, 400}, {1, 600}}},
		{"consistent-at-the-top", math.MaxUint64, []holding{{0, top}, {1, top - 1}}},
		{"sum-wraps-onto-the-supply", 7, []holding{{0, top}, {1, top}, {2, 7}}},
		{"sum-wraps-to-a-small-supply", 4, []holding{{0, math.MaxUint64}, {1, 5}}},
		{"supply-above-the-balances", 1001, []holding{{0, 400}, {1, 600}}},
		{"supply-below-the-balances", 999, []holding{{0, 400}, {1, 600}}},
		{"one-holder-listed-twice", 1000, []holding{{0, 400}, {0, 600}}},
	}
	for ci, gc := range cases {
		opts := rig.Options{Seed: fmt.Sprintf("mtgen-%d-%d-%d", run.Seed, c, ci), NumAccounts: 5, Balances: sdk.NewCoins(sdk.NewInt64Coin(rig.BondDenom, 1_000_000)), InflationOff: true, NoInit: true}
		var b *rig.Rig
		opts.GenesisMutator = func(cdc codec.Codec, gs map[string]json.RawMessage) {
			den := mttypes.Denom{Id: "genesisclass", Name: "born in genesis", Owner: b.Acc(0).Addr.String()}
			g := mttypes.GenesisState{Collections: []mttypes.Collection{{Denom: &den, Mts: []mttypes.MT{{Id: "tok", Supply: gc.supply, Data: []byte("d")}}}}}
			for _, h := range gc.hold {
				g.Owners = append(g.Owners, mttypes.Owner{Address: b.Acc(h.acc).Addr.String(), Denoms: []mttypes.DenomBalance{{DenomId: den.Id, Balances: []mttypes.Balance{{MtId: "tok", Amount: h.amt}}}}})
			}
			gs[mttypes.ModuleName] = cdc.MustMarshalJSON(&g)
		}
		b = rig.New(opts)
		bz, _ := json.Marshal(b.BuildGenesis())
		run.Eval(1)
		if err := b.TryInitChain(bz, 1, b.Opts.GenesisTime); err != nil {
			run.Class("genesis", gc.name, "refused")
			run.Count("mt-genesis-refused:"+gc.name, 1)
			continue
		}
		if br := b.DeliverBlock(time.Second, nil); br.FinalErr != nil {
			run.Class("genesis", gc.name, "first-block-fails")
			continue
		}
		run.Class("genesis", gc.name, "started")
		run.Count("mt-genesis-started:"+gc.name, 1)
		w := newMTWorkload()
		w.Attach(run, b)
		check := func(when string) {
			snap := w.snapshot(b.Ctx())
			for cid, cl := range snap.Classes {
				for tid, t := range cl.Toks {
					sum := new(big.Int)
					for _, v := range t.Bal {
						sum.Add(sum, v)
					}
					run.Eval(1)
					if sum.Cmp(t.Supply) != 0 {
						run.Violation("C15:mt:genesis:balances-do-not-add-up-to-supply:"+gc.name, map[string]any{"genesis": gc.name, "class": cid, "token": tid, "when": when},
							"chain born from the genesis file %q: balances of %s/%s add up to %s, the recorded supply is %s (%s)", gc.name, cid, tid, sum, t.Supply, when)
					}
				}
			}
		}
		check("after the first block")
		// the last listed holder burns what it holds (at most 8): supply and balance fall together, nothing wraps
		h := gc.hold[len(gc.hold)-1]
		amt := h.amt
		if amt > 8 {
			amt = 8
		}
		acct := b.Acc(h.acc)
		b.DeliverBlock(time.Second, []rig.Tx{b.Mk(acct, &mtTag{Op: "burn"}, &mttypes.MsgBurnMT{Id: "tok", DenomId: "genesisclass", Amount: amt, Sender: acct.Addr.String()})})
		check("after a burn")
	}
	run.Require("mt-genesis-started:consistent", 1)
}

// mtSpell: one recipient in eight is written in the other valid spelling of a bech32 address (all upper case)
func mtSpell(rng *rand.Rand, run *ev.Run, addr string) string {
	if rng.Intn(8) != 0 {
		return addr
	}
	run.Count("recipient-spelled-in-upper-case", 1)
	return strings.ToUpper(addr)
}
