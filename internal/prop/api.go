package prop

import (
	"google.golang.org/protobuf/encoding/protowire"
	"bytes"
	"compress/gzip"
	"fmt"
	"io"
	"math"
	"math/big"
	"math/rand"
	"os"
	"path/filepath"
	"reflect"
	"regexp"
	"sort"
	"strings"

	msgv1 "cosmossdk.io/api/cosmos/msg/v1"
	sdk "github.com/cosmos/cosmos-sdk/types"
	gogoproto "github.com/cosmos/gogoproto/proto"
	"google.golang.org/protobuf/proto"
	"google.golang.org/protobuf/reflect/protodesc"
	"google.golang.org/protobuf/reflect/protoreflect"
	"google.golang.org/protobuf/reflect/protoregistry"
	"google.golang.org/protobuf/types/descriptorpb"
	"google.golang.org/protobuf/types/dynamicpb"

	// pulsar family (registers with protoregistry.GlobalFiles)
	_ "mods.irisnet.org/api/irismod/coinswap"
	_ "mods.irisnet.org/api/irismod/coinswap/module/v1"
	_ "mods.irisnet.org/api/irismod/farm"
	_ "mods.irisnet.org/api/irismod/farm/module/v1"
	_ "mods.irisnet.org/api/irismod/htlc"
	_ "mods.irisnet.org/api/irismod/htlc/module/v1"
	_ "mods.irisnet.org/api/irismod/mt"
	_ "mods.irisnet.org/api/irismod/mt/module/v1"
	_ "mods.irisnet.org/api/irismod/nft"
	_ "mods.irisnet.org/api/irismod/nft/module/v1"
	_ "mods.irisnet.org/api/irismod/oracle"
	_ "mods.irisnet.org/api/irismod/oracle/module/v1"
	_ "mods.irisnet.org/api/irismod/random"
	_ "mods.irisnet.org/api/irismod/random/module/v1"
	_ "mods.irisnet.org/api/irismod/record"
	_ "mods.irisnet.org/api/irismod/record/module/v1"
	_ "mods.irisnet.org/api/irismod/service"
	_ "mods.irisnet.org/api/irismod/service/module/v1"
	_ "mods.irisnet.org/api/irismod/token/module/v1"
	_ "mods.irisnet.org/api/irismod/token/v1"
	_ "mods.irisnet.org/api/irismod/token/v1beta1"
	// gogoproto family (registers with the gogoproto registry)
	_ "mods.irisnet.org/modules/coinswap/types"
	_ "mods.irisnet.org/modules/farm/types"
	_ "mods.irisnet.org/modules/htlc/types"
	_ "mods.irisnet.org/modules/mt/types"
	_ "mods.irisnet.org/modules/nft/types"
	_ "mods.irisnet.org/modules/oracle/types"
	_ "mods.irisnet.org/modules/random/types"
	_ "mods.irisnet.org/modules/record/types"
	_ "mods.irisnet.org/modules/service/types"
	_ "mods.irisnet.org/modules/token/types/v1"
	_ "mods.irisnet.org/modules/token/types/v1beta1"

	"verif/internal/ev"
	"verif/internal/rig"
)

func init() {
	Register(&Spec{
		ID: "C20", Level: "exploration",
		Rule: "case 0 enumerates exhaustively: every .proto under /repo/proto/irismod (file, top-level messages/enums/services present in both registries), every irismod file descriptor of the gogoproto registry against the protobuf-go global registry after dropping file-level options and source info (messages, fields, numbers, types, options, services), every Msg service input (interface-registry registration, signer option leads to an address string, GetSigners returns the declared field). Cases >=1 generate values from the descriptors (modes empty/zero/populated/maxima/random, nested, Any, repeated, maps, oneofs) and round-trip them pulsar->gogo->pulsar->gogo comparing bytes; non-trivial = a comparison or round trip that was actually evaluated; distinct = distinct (message type, generation mode, relation); since rounds 13: string lengths around the steps of the length prefix mixed with short neighbours",
		Assume: []string{"app-wiring module config files (*/module/v1/module.proto) exist only in the api/ family by SDK convention and are checked for presence there, not for two-family agreement", "gogoproto nullable=false / customtype fields are always emitted by the gogo family: byte identity pulsar->gogo is asserted on values that populate them, normalisation stability otherwise", "map fields: byte identity with <=1 entry"},
		Cases:  func(t string) int { return tierN(t, 5, 33) },
		Run:    runAPI,
		// thorough: the round-trip cases run in a binary built with -gcflags=all=-d=checkptr (unsafe fast paths of the
		// generated code on bytes from the other family); a checkptr fault is fatal to the child and is the verdict.
		RaceCases: func(t string) []int {
			var cs []int
			if t == "thorough" {
				for i := 1; i < 33; i++ {
					cs = append(cs, i)
				}
			}
			return cs
		},
		DeathKey: func(tail string) (string, bool) {
			if strings.Contains(tail, "checkptr") {
				return "C20:api:checkptr-fault-in-generated-code", true
			}
			return "", false
		},
	})
}

func gunzip(b []byte) []byte {
	zr, err := gzip.NewReader(bytes.NewReader(b))
	if err != nil {
		return nil
	}
	out, _ := io.ReadAll(zr)
	return out
}

// gogoFiles returns the irismod file descriptors registered by the gogoproto-generated code.
func gogoFiles() map[string]*descriptorpb.FileDescriptorProto {
	out := map[string]*descriptorpb.FileDescriptorProto{}
	for name, gz := range gogoproto.AllFileDescriptors() {
		if !strings.HasPrefix(name, "irismod/") {
			continue
		}
		fd := &descriptorpb.FileDescriptorProto{}
		if err := proto.Unmarshal(gunzip(gz), fd); err != nil {
			continue
		}
		out[name] = fd
	}
	return out
}

func pulsarFiles() map[string]*descriptorpb.FileDescriptorProto {
	out := map[string]*descriptorpb.FileDescriptorProto{}
	protoregistry.GlobalFiles.RangeFiles(func(fd protoreflect.FileDescriptor) bool {
		if strings.HasPrefix(fd.Path(), "irismod/") {
			out[fd.Path()] = protodesc.ToFileDescriptorProto(fd)
		}
		return true
	})
	return out
}

// normalise drops file-level code-generator options and source info and re-parses through one resolver
// so that extension options are represented identically on both sides.
func normaliseFD(fd *descriptorpb.FileDescriptorProto) *descriptorpb.FileDescriptorProto {
	c := proto.Clone(fd).(*descriptorpb.FileDescriptorProto)
	c.Options = nil
	c.SourceCodeInfo = nil
	bz, _ := proto.MarshalOptions{Deterministic: true}.Marshal(c)
	out := &descriptorpb.FileDescriptorProto{}
	_ = proto.UnmarshalOptions{Resolver: protoregistry.GlobalTypes}.Unmarshal(bz, out)
	return out
}

func isModuleConfig(path string) bool { return strings.HasSuffix(path, "/module/v1/module.proto") }

func canon(m proto.Message) string {
	bz, _ := proto.MarshalOptions{Deterministic: true}.Marshal(m)
	return string(bz)
}

func runAPI(run *ev.Run, c int) {
	if c == 0 {
		apiDescriptors(run)
		apiProtoTree(run)
		apiSigners(run)
		return
	}
	apiRoundTrips(run, c)
}

func apiDescriptors(run *ev.Run) {
	g, p := gogoFiles(), pulsarFiles()
	names := map[string]bool{}
	for n := range g {
		names[n] = true
	}
	for n := range p {
		names[n] = true
	}
	var sorted []string
	for n := range names {
		sorted = append(sorted, n)
	}
	sort.Strings(sorted)
	both := 0
	for _, n := range sorted {
		gf, pf := g[n], p[n]
		run.Eval(1)
		if isModuleConfig(n) {
			if pf == nil {
				run.Violation("C20:api:module-config-missing-in-api-family", n, "app-wiring config %s is not registered by the api/ family", n)
			}
			run.Class("file", "module-config", n)
			continue
		}
		if gf == nil || pf == nil {
			fam := "gogoproto"
			if pf == nil {
				fam = "api"
			}
			run.Violation("C20:api:file-missing-in-one-family", n, "file %s is not registered by the %s family", n, fam)
			continue
		}
		both++
		ng, np := normaliseFD(gf), normaliseFD(pf)
		run.Class("file", "compared", n)
		if canon(ng) == canon(np) {
			// count what was covered
			run.Count("messages-compared", int64(countMsgs(ng.MessageType)))
			run.Count("services-compared", int64(len(ng.Service)))
			run.Count("enums-compared", int64(len(ng.EnumType)))
			continue
		}
		// drill down for a precise report
		diffs := diffFile(ng, np)
		if len(diffs) == 0 {
			diffs = []string{"file-level difference outside messages/enums/services (package, dependencies, syntax)"}
			if ng.GetPackage() != np.GetPackage() || !reflect.DeepEqual(ng.Dependency, np.Dependency) || ng.GetSyntax() != np.GetSyntax() {
				diffs = []string{fmt.Sprintf("package/deps/syntax: %s %v %s vs %s %v %s", ng.GetPackage(), ng.Dependency, ng.GetSyntax(), np.GetPackage(), np.Dependency, np.GetSyntax())}
			}
		}
		for _, d := range diffs {
			run.Violation("C20:api:descriptor-differs:"+strings.SplitN(d, " ", 2)[0], map[string]any{"file": n, "diff": d}, "%s: %s", n, d)
		}
	}
	run.Count("files-compared", int64(both))
	run.Sample("descriptor-compare", map[string]any{"files_in_gogo": len(g), "files_in_pulsar": len(p), "compared": both})
	if both < 10 {
		run.Inconc("only %d files present in both registries", both)
	}
}

func countMsgs(ms []*descriptorpb.DescriptorProto) int {
	n := len(ms)
	for _, m := range ms {
		n += countMsgs(m.NestedType)
	}
	return n
}

func diffFile(a, b *descriptorpb.FileDescriptorProto) []string {
	var out []string
	am, bm := map[string]*descriptorpb.DescriptorProto{}, map[string]*descriptorpb.DescriptorProto{}
	for _, m := range a.MessageType {
		am[m.GetName()] = m
	}
	for _, m := range b.MessageType {
		bm[m.GetName()] = m
	}
	for n, m := range am {
		o := bm[n]
		if o == nil {
			out = append(out, "message "+n+" only in gogoproto family")
			continue
		}
		if canon(m) != canon(o) {
			out = append(out, diffMsg(n, m, o)...)
		}
	}
	for n := range bm {
		if am[n] == nil {
			out = append(out, "message "+n+" only in api family")
		}
	}
	ae, be := map[string]*descriptorpb.EnumDescriptorProto{}, map[string]*descriptorpb.EnumDescriptorProto{}
	for _, e := range a.EnumType {
		ae[e.GetName()] = e
	}
	for _, e := range b.EnumType {
		be[e.GetName()] = e
	}
	for n, e := range ae {
		if be[n] == nil {
			out = append(out, "enum "+n+" only in gogoproto family")
		} else if canon(e) != canon(be[n]) {
			out = append(out, "enum "+n+" differs")
		}
	}
	for n := range be {
		if ae[n] == nil {
			out = append(out, "enum "+n+" only in api family")
		}
	}
	as, bs := map[string]*descriptorpb.ServiceDescriptorProto{}, map[string]*descriptorpb.ServiceDescriptorProto{}
	for _, s := range a.Service {
		as[s.GetName()] = s
	}
	for _, s := range b.Service {
		bs[s.GetName()] = s
	}
	for n, s := range as {
		if bs[n] == nil {
			out = append(out, "service "+n+" only in gogoproto family")
		} else if canon(s) != canon(bs[n]) {
			out = append(out, "service "+n+" differs (methods, types or options)")
		}
	}
	for n := range bs {
		if as[n] == nil {
			out = append(out, "service "+n+" only in api family")
		}
	}
	sort.Strings(out)
	return out
}

func diffMsg(name string, a, b *descriptorpb.DescriptorProto) []string {
	var out []string
	af, bf := map[int32]*descriptorpb.FieldDescriptorProto{}, map[int32]*descriptorpb.FieldDescriptorProto{}
	for _, f := range a.Field {
		af[f.GetNumber()] = f
	}
	for _, f := range b.Field {
		bf[f.GetNumber()] = f
	}
	for n, f := range af {
		o := bf[n]
		if o == nil {
			out = append(out, fmt.Sprintf("field %s.%s (#%d) only in gogoproto family", name, f.GetName(), n))
		} else if canon(f) != canon(o) {
			out = append(out, fmt.Sprintf("field %s.%s (#%d) differs: gogoproto{name=%s type=%s %s label=%s opts=%v} api{name=%s type=%s %s label=%s opts=%v}", name, f.GetName(), n, f.GetName(), f.GetType(), f.GetTypeName(), f.GetLabel(), f.GetOptions(), o.GetName(), o.GetType(), o.GetTypeName(), o.GetLabel(), o.GetOptions()))
		}
	}
	for n, f := range bf {
		if af[n] == nil {
			out = append(out, fmt.Sprintf("field %s.%s (#%d) only in api family", name, f.GetName(), n))
		}
	}
	if canon(a.GetOptions()) != canon(b.GetOptions()) {
		out = append(out, fmt.Sprintf("message-options %s differ: %v vs %v", name, a.GetOptions(), b.GetOptions()))
	}
	if len(out) == 0 {
		out = append(out, "message "+name+" differs (nested types, oneofs or reserved ranges)")
	}
	return out
}

var (
	rePkg = regexp.MustCompile(`(?m)^package\s+([\w.]+)\s*;`)
	reTop = regexp.MustCompile(`(?m)^(message|enum|service)\s+(\w+)`)
)

// apiProtoTree: every .proto under /repo/proto/irismod is known to both registries with all its top-level definitions.
func apiProtoTree(run *ev.Run) {
	root := "/repo/proto"
	g := gogoFiles()
	n := 0
	filepath.Walk(filepath.Join(root, "irismod"), func(p string, info os.FileInfo, err error) error {
		if err != nil || info.IsDir() || !strings.HasSuffix(p, ".proto") {
			return nil
		}
		rel, _ := filepath.Rel(root, p)
		src, _ := os.ReadFile(p)
		pkg := ""
		if m := rePkg.FindSubmatch(src); m != nil {
			pkg = string(m[1])
		}
		n++
		run.Eval(1)
		pf, perr := protoregistry.GlobalFiles.FindFileByPath(rel)
		if perr != nil {
			run.Violation("C20:api:proto-file-not-in-api-family", rel, "%s is not registered by the api/ family", rel)
		}
		gf := g[rel]
		if gf == nil && !isModuleConfig(rel) {
			run.Violation("C20:api:proto-file-not-in-gogoproto-family", rel, "%s is not registered by the modules' generated code", rel)
		}
		for _, m := range reTop.FindAllSubmatch(src, -1) {
			kind, name := string(m[1]), string(m[2])
			full := protoreflect.FullName(pkg + "." + name)
			run.Eval(1)
			if pf != nil {
				found := false
				switch kind {
				case "message":
					found = pf.Messages().ByName(protoreflect.Name(name)) != nil
				case "enum":
					found = pf.Enums().ByName(protoreflect.Name(name)) != nil
				case "service":
					found = pf.Services().ByName(protoreflect.Name(name)) != nil
				}
				if !found {
					run.Violation("C20:api:definition-missing-in-api-family", string(full), "%s %s of %s is missing from the api/ family", kind, full, rel)
				}
			}
			if gf != nil {
				found := false
				switch kind {
				case "message":
					for _, x := range gf.MessageType {
						found = found || x.GetName() == name
					}
					if found && gogoproto.MessageType(string(full)) == nil {
						run.Violation("C20:api:message-has-no-go-type-in-gogoproto-family", string(full), "message %s has a descriptor but no registered Go type in the modules' code", full)
					}
				case "enum":
					for _, x := range gf.EnumType {
						found = found || x.GetName() == name
					}
				case "service":
					for _, x := range gf.Service {
						found = found || x.GetName() == name
					}
				}
				if !found {
					run.Violation("C20:api:definition-missing-in-gogoproto-family", string(full), "%s %s of %s is missing from the modules' generated code", kind, full, rel)
				}
			}
			run.Class("definition", kind, string(full))
		}
		return nil
	})
	run.Count("proto-files-scanned", int64(n))
	if n < 40 {
		run.Inconc("only %d proto files found under %s/irismod", n, root)
	}
}

const testAddr = "cosmos1qypqxpq9qcrsszg2pvxq6rs0zqg3yyc5lzv7xu"

// apiSigners: every Msg service input is registered and its signer option leads to an address string.
func apiSigners(run *ev.Run) {
	r := rig.New(rig.Options{Seed: "api", NumAccounts: 1, Balances: sdk.NewCoins(sdk.NewInt64Coin(rig.BondDenom, 1000))})
	reg := r.App.InterfaceRegistry()
	addrBytes, _ := sdk.AccAddressFromBech32(testAddr)
	nMsgs := 0
	protoregistry.GlobalFiles.RangeFiles(func(fd protoreflect.FileDescriptor) bool {
		if !strings.HasPrefix(fd.Path(), "irismod/") {
			return true
		}
		for i := 0; i < fd.Services().Len(); i++ {
			svc := fd.Services().Get(i)
			if svc.Name() != "Msg" {
				continue
			}
			for j := 0; j < svc.Methods().Len(); j++ {
				in := svc.Methods().Get(j).Input()
				name := string(in.FullName())
				nMsgs++
				run.Eval(3)
				run.Class("msg", name)
				if _, err := reg.Resolve("/" + name); err != nil {
					run.Violation("C20:api:msg-not-registered-with-interface-registry", name, "transaction message %s is not registered with the application's interface registry: %v", name, err)
				}
				// signer option chain
				path, err := signerPath(in)
				if err != nil {
					run.Violation("C20:api:signer-option-invalid", name, "transaction message %s: %v", name, err)
					continue
				}
				// dynamic check: set the address along the path and ask the signing context
				msg := dynamicpb.NewMessage(in)
				cur := protoreflect.Message(msg)
				for k, f := range path {
					if k == len(path)-1 {
						cur.Set(f, protoreflect.ValueOfString(testAddr))
					} else {
						cur = cur.Mutable(f).Message()
					}
				}
				signers, err := reg.SigningContext().GetSigners(msg)
				if err != nil || len(signers) != 1 || !bytes.Equal(signers[0], addrBytes) {
					run.Violation("C20:api:signers-do-not-match-declared-field", name, "GetSigners(%s with %s=%s) = %x, %v", name, path[len(path)-1].FullName(), testAddr, signers, err)
				}
				run.Sample("msg-signer", map[string]any{"msg": name, "signer_field": string(path[len(path)-1].FullName())})
			}
		}
		return true
	})
	run.Count("msgs-checked", int64(nMsgs))
	if nMsgs < 50 {
		run.Inconc("only %d transaction messages found", nMsgs)
	}
}

func signerPath(md protoreflect.MessageDescriptor) ([]protoreflect.FieldDescriptor, error) {
	opts, ok := md.Options().(*descriptorpb.MessageOptions)
	if !ok || opts == nil || !proto.HasExtension(opts, msgv1.E_Signer) {
		return nil, fmt.Errorf("%s declares no signer option", md.FullName())
	}
	names := proto.GetExtension(opts, msgv1.E_Signer).([]string)
	if len(names) != 1 {
		return nil, fmt.Errorf("%s declares %d signer fields", md.FullName(), len(names))
	}
	f := md.Fields().ByName(protoreflect.Name(names[0]))
	if f == nil {
		return nil, fmt.Errorf("signer option of %s names field %q which does not exist", md.FullName(), names[0])
	}
	switch f.Kind() {
	case protoreflect.StringKind:
		if f.IsList() {
			return nil, fmt.Errorf("signer field %s is repeated", f.FullName())
		}
		return []protoreflect.FieldDescriptor{f}, nil
	case protoreflect.MessageKind:
		rest, err := signerPath(f.Message())
		if err != nil {
			return nil, fmt.Errorf("signer field %s is a message that does not lead to an address: %v", f.FullName(), err)
		}
		return append([]protoreflect.FieldDescriptor{f}, rest...), nil
	default:
		return nil, fmt.Errorf("signer field %s has kind %s, not an address string", f.FullName(), f.Kind())
	}
}

// ---- value generation and cross-family round trips ----

type genMode int

const (
	modeEmpty genMode = iota
	modeZero
	modePopulated
	modeMaxima
	modeRandom
	modeSparse
)

func (m genMode) String() string {
	return [...]string{"empty", "zero", "populated", "maxima", "random", "sparse"}[m]
}

func customType(f protoreflect.FieldDescriptor) string {
	// the gogoproto.customtype extension number is 65003 on FieldOptions
	opts, _ := f.Options().(*descriptorpb.FieldOptions)
	if opts == nil {
		return ""
	}
	var out string
	opts.ProtoReflect().Range(func(fd protoreflect.FieldDescriptor, v protoreflect.Value) bool {
		if fd.Number() == 65003 {
			out = v.String()
			return false
		}
		return true
	})
	if out == "" {
		// unknown-field fallback
		b := opts.ProtoReflect().GetUnknown()
		if i := bytes.Index(b, []byte("math.")); i >= 0 {
			out = string(b[i:])
		}
	}
	return out
}

func hasOpt(f protoreflect.FieldDescriptor, num protoreflect.FieldNumber) (protoreflect.Value, bool) {
	opts, _ := f.Options().(*descriptorpb.FieldOptions)
	if opts == nil {
		return protoreflect.Value{}, false
	}
	var out protoreflect.Value
	found := false
	opts.ProtoReflect().Range(func(fd protoreflect.FieldDescriptor, v protoreflect.Value) bool {
		if fd.Number() == num {
			out, found = v, true
			return false
		}
		return true
	})
	return out, found
}

func digits(rng *rand.Rand, mode genMode, allowNeg, dec bool) string {
	var v *big.Int
	switch mode {
	case modeZero:
		v = new(big.Int)
	case modeMaxima:
		v = new(big.Int).Sub(pow2(255), bigOne)
	default:
		v = randMag(rng, 128)
	}
	if allowNeg && mode == modeRandom && rng.Intn(4) == 0 {
		v.Neg(v)
	}
	return v.String()
}

func randString(rng *rand.Rand, mode genMode) string {
	switch mode {
	case modeZero:
		return ""
	case modeMaxima:
		return strings.Repeat("Z", 300) + "é世界"
	}
	n := 1 + rng.Intn(12)
	if rng.Intn(6) == 0 {
		// lengths around the steps of the length prefix (127/128, 16383/16384) and of real-world fields (a 20-byte and a
		// 32-byte bech32 address, a 64-character hash): mixed with short neighbours, the running size of a message and
		// the size of one field need different numbers of prefix bytes
		n = pick(rng, 45, 59, 64, 64, 127, 128, 129, 200, 200, 16383, 16384)
	}
	b := make([]byte, n)
	for i := range b {
		b[i] = "abcdefghijklmnopqrstuvwxyz0123456789-/"[rng.Intn(38)]
	}
	return string(b)
}

func genScalar(rng *rand.Rand, f protoreflect.FieldDescriptor, mode genMode) protoreflect.Value {
	switch f.Kind() {
	case protoreflect.BoolKind:
		return protoreflect.ValueOfBool(mode != modeZero && (mode != modeRandom || rng.Intn(2) == 0))
	case protoreflect.Int32Kind, protoreflect.Sint32Kind, protoreflect.Sfixed32Kind:
		switch mode {
		case modeZero:
			return protoreflect.ValueOfInt32(0)
		case modeMaxima:
			return protoreflect.ValueOfInt32(pick(rng, int32(math.MaxInt32), int32(math.MinInt32)))
		}
		return protoreflect.ValueOfInt32(int32(rng.Uint32()))
	case protoreflect.Int64Kind, protoreflect.Sint64Kind, protoreflect.Sfixed64Kind:
		switch mode {
		case modeZero:
			return protoreflect.ValueOfInt64(0)
		case modeMaxima:
			return protoreflect.ValueOfInt64(pick(rng, int64(math.MaxInt64), int64(math.MinInt64)))
		}
		return protoreflect.ValueOfInt64(int64(rng.Uint64()))
	case protoreflect.Uint32Kind, protoreflect.Fixed32Kind:
		switch mode {
		case modeZero:
			return protoreflect.ValueOfUint32(0)
		case modeMaxima:
			return protoreflect.ValueOfUint32(math.MaxUint32)
		}
		return protoreflect.ValueOfUint32(rng.Uint32())
	case protoreflect.Uint64Kind, protoreflect.Fixed64Kind:
		switch mode {
		case modeZero:
			return protoreflect.ValueOfUint64(0)
		case modeMaxima:
			return protoreflect.ValueOfUint64(math.MaxUint64)
		}
		return protoreflect.ValueOfUint64(rng.Uint64())
	case protoreflect.FloatKind:
		return protoreflect.ValueOfFloat32(float32(rng.NormFloat64()))
	case protoreflect.DoubleKind:
		return protoreflect.ValueOfFloat64(rng.NormFloat64())
	case protoreflect.StringKind:
		if ct := customType(f); strings.Contains(ct, "math.Int") || strings.Contains(ct, "math.Uint") || strings.Contains(ct, "types.Int") || strings.Contains(ct, "types.Uint") {
			m := mode
			if m == modeZero {
				return protoreflect.ValueOfString("0")
			}
			return protoreflect.ValueOfString(digits(rng, m, strings.Contains(ct, ".Int"), false))
		} else if strings.Contains(ct, "Dec") {
			if mode == modeZero {
				return protoreflect.ValueOfString("0")
			}
			return protoreflect.ValueOfString(digits(rng, mode, true, true))
		}
		return protoreflect.ValueOfString(randString(rng, mode))
	case protoreflect.BytesKind:
		if mode == modeZero {
			return protoreflect.ValueOfBytes(nil)
		}
		n := 1 + rng.Intn(40)
		if mode == modeMaxima {
			n = 1000
		}
		b := make([]byte, n)
		rng.Read(b)
		return protoreflect.ValueOfBytes(b)
	case protoreflect.EnumKind:
		vals := f.Enum().Values()
		switch mode {
		case modeZero:
			return protoreflect.ValueOfEnum(vals.Get(0).Number())
		case modeMaxima:
			return protoreflect.ValueOfEnum(vals.Get(vals.Len() - 1).Number())
		}
		return protoreflect.ValueOfEnum(vals.Get(rng.Intn(vals.Len())).Number())
	}
	panic("unhandled kind " + f.Kind().String())
}

func genMessage(rng *rand.Rand, md protoreflect.MessageDescriptor, mode genMode, depth int) *dynamicpb.Message {
	msg := dynamicpb.NewMessage(md)
	if mode == modeEmpty {
		return msg
	}
	switch md.FullName() {
	case "google.protobuf.Timestamp":
		if mode != modeZero {
			sec := rng.Int63n(253402300799+62135596800) - 62135596800
			if mode == modeMaxima {
				sec = 253402300799
			}
			msg.Set(md.Fields().ByName("seconds"), protoreflect.ValueOfInt64(sec))
			msg.Set(md.Fields().ByName("nanos"), protoreflect.ValueOfInt32(int32(rng.Intn(1_000_000_000))))
		}
		return msg
	case "google.protobuf.Duration":
		if mode != modeZero {
			sec := rng.Int63n(2*9_000_000_000) - 9_000_000_000
			nanos := int32(rng.Intn(1_000_000_000))
			if sec < 0 {
				nanos = -nanos
			}
			msg.Set(md.Fields().ByName("seconds"), protoreflect.ValueOfInt64(sec))
			msg.Set(md.Fields().ByName("nanos"), protoreflect.ValueOfInt32(nanos))
		}
		return msg
	case "google.protobuf.Any":
		if mode != modeZero {
			msg.Set(md.Fields().ByName("type_url"), protoreflect.ValueOfString("/irismod.test."+randString(rng, modeRandom)))
			b := make([]byte, 1+rng.Intn(30))
			rng.Read(b)
			msg.Set(md.Fields().ByName("value"), protoreflect.ValueOfBytes(b))
		}
		return msg
	}
	oneofDone := map[string]bool{}
	for i := 0; i < md.Fields().Len(); i++ {
		f := md.Fields().Get(i)
		if oo := f.ContainingOneof(); oo != nil && !oo.IsSynthetic() {
			if oneofDone[string(oo.Name())] {
				continue
			}
			// choose one member
			pickIdx := rng.Intn(oo.Fields().Len())
			f = oo.Fields().Get(pickIdx)
			oneofDone[string(oo.Name())] = true
		}
		if mode == modeRandom && rng.Intn(4) == 0 && !(f.Kind() == protoreflect.MessageKind) {
			continue // leave some scalar fields at default
		}
		switch {
		case f.IsMap():
			if mode == modeZero {
				continue
			}
			mp := msg.Mutable(f).Map()
			k := genScalar(rng, f.MapKey(), modeRandom)
			var v protoreflect.Value
			if f.MapValue().Kind() == protoreflect.MessageKind {
				if depth <= 0 {
					continue
				}
				v = protoreflect.ValueOfMessage(genMessage(rng, f.MapValue().Message(), mode, depth-1))
			} else {
				v = genScalar(rng, f.MapValue(), mode)
			}
			// one entry per map (the order of several entries is unspecified in protobuf and the modules' family does not sort
			// them, so byte equality is only meaningful for one entry): sometimes a zero value under a non-zero key or a value
			// under the zero key - an entry's key and value are both always written, whatever they are
			if f.MapValue().Kind() != protoreflect.MessageKind {
				switch rng.Intn(4) {
				case 0:
					v = genScalar(rng, f.MapValue(), modeZero)
				case 1:
					k = genScalar(rng, f.MapKey(), modeZero)
				}
			}
			mp.Set(k.MapKey(), v)
		case f.IsList():
			if mode == modeZero {
				continue
			}
			n := 1 + rng.Intn(3)
			l := msg.Mutable(f).List()
			for j := 0; j < n; j++ {
				if f.Kind() == protoreflect.MessageKind {
					if depth <= 0 {
						break
					}
					l.Append(protoreflect.ValueOfMessage(genMessage(rng, f.Message(), mode, depth-1)))
				} else {
					m := mode
					if m == modeZero {
						m = modeRandom
					}
					l.Append(genScalar(rng, f, m))
				}
			}
		case f.Kind() == protoreflect.MessageKind:
			if depth <= 0 {
				// still populate shallowly so non-nullable fields are present
				msg.Set(f, protoreflect.ValueOfMessage(genMessage(rng, f.Message(), modeZero, 0)))
				continue
			}
			msg.Set(f, protoreflect.ValueOfMessage(genMessage(rng, f.Message(), mode, depth-1)))
		default:
			msg.Set(f, genScalar(rng, f, mode))
		}
	}
	return msg
}

type gogoMsg interface {
	gogoproto.Message
	Marshal() ([]byte, error)
	Unmarshal([]byte) error
}

func newGogo(name string) gogoMsg {
	t := gogoproto.MessageType(name)
	if t == nil {
		return nil
	}
	v := reflect.New(t.Elem()).Interface()
	g, _ := v.(gogoMsg)
	return g
}

func apiRoundTrips(run *ev.Run, c int) {
	rng := run.Rng
	// all irismod message descriptors present in both families
	var mds []protoreflect.MessageDescriptor
	protoregistry.GlobalFiles.RangeFiles(func(fd protoreflect.FileDescriptor) bool {
		if !strings.HasPrefix(fd.Path(), "irismod/") || isModuleConfig(fd.Path()) {
			return true
		}
		var walk func(ms protoreflect.MessageDescriptors)
		walk = func(ms protoreflect.MessageDescriptors) {
			for i := 0; i < ms.Len(); i++ {
				m := ms.Get(i)
				if m.IsMapEntry() {
					continue
				}
				mds = append(mds, m)
				walk(m.Messages())
			}
		}
		walk(fd.Messages())
		return true
	})
	sort.Slice(mds, func(i, j int) bool { return mds[i].FullName() < mds[j].FullName() })
	per := tierN(run.Tier, 40, 400)
	tested := 0
	for _, md := range mds {
		name := string(md.FullName())
		if newGogo(name) == nil {
			run.Count("no-gogo-type", 1)
			continue
		}
		pt, err := protoregistry.GlobalTypes.FindMessageByName(md.FullName())
		if err != nil {
			run.Violation("C20:api:no-api-go-type", name, "message %s has no Go type in the api/ family", name)
			continue
		}
		tested++
		for i := 0; i < per; i++ {
			mode := genMode(i % 5)
			if i >= 5 {
				mode = pick(rng, modePopulated, modeRandom, modeRandom, modeMaxima)
			}
			x0 := genMessage(rng, md, mode, 3)
			b0, err := proto.MarshalOptions{Deterministic: true}.Marshal(x0)
			if err != nil {
				continue
			}
			apiOneRoundTrip(run, name, mode, pt, b0)
		}
		// sparse values: a fully populated message cut off after its k-th field (so that every field is once the last thing
		// in the buffer), and the k-th field alone
		fields := md.Fields()
		for k := 0; k < fields.Len(); k++ {
			for _, only := range []bool{false, true} {
				x := genMessage(rng, md, modePopulated, 2)
				for j := 0; j < fields.Len(); j++ {
					fj := fields.Get(j)
					if (only && fj.Number() != fields.Get(k).Number()) || (!only && fj.Number() > fields.Get(k).Number()) {
						x.Clear(fj)
					}
				}
				b0, err := proto.MarshalOptions{Deterministic: true}.Marshal(x)
				if err != nil {
					continue
				}
				run.Count("sparse-values", 1)
				apiOneRoundTrip(run, name, modeSparse, pt, b0)
			}
		}
	}
	run.Count("message-types-round-tripped", int64(tested))
	apiUnknownFields(run, mds)
	if tested < 100 {
		run.Inconc("only %d message types available in both families", tested)
	}
}

// scalarCustomtypeOnMessage reports fields whose proto type is a message but whose gogoproto customtype is a
// scalar-like Go type (math.Int / LegacyDec ...): the modules' family writes a number string where the api/ family
// expects an embedded message. Used to attribute round-trip failures to their root cause.
func taintedField(md protoreflect.MessageDescriptor, seen map[protoreflect.FullName]bool) string {
	if seen[md.FullName()] {
		return ""
	}
	seen[md.FullName()] = true
	for i := 0; i < md.Fields().Len(); i++ {
		f := md.Fields().Get(i)
		if f.Kind() != protoreflect.MessageKind {
			continue
		}
		ct := customType(f)
		if strings.Contains(ct, "math.Int") || strings.Contains(ct, "math.Uint") || strings.Contains(ct, "Dec") {
			return string(f.FullName())
		}
		if f.IsMap() {
			continue
		}
		if t := taintedField(f.Message(), seen); t != "" {
			return t
		}
	}
	return ""
}

func apiOneRoundTrip(run *ev.Run, name string, mode genMode, pt protoreflect.MessageType, b0 []byte) {
	scope := name
	if t := taintedField(pt.Descriptor(), map[protoreflect.FullName]bool{}); t != "" {
		scope = "scalar-customtype-on-message-field:" + t
	}
	det := func(extra map[string]any) map[string]any {
		m := map[string]any{"message": name, "mode": mode.String(), "bytes": fmt.Sprintf("%x", b0)}
		for k, v := range extra {
			m[k] = v
		}
		return m
	}
	run.Eval(1)
	// pulsar bytes -> gogo
	g1 := newGogo(name)
	if err := g1.Unmarshal(b0); err != nil {
		run.Violation("C20:api:gogoproto-family-rejects-api-bytes:"+scope, det(map[string]any{"err": err.Error()}), "%s: bytes produced by the api/ family are rejected by the modules' type: %v", name, err)
		return
	}
	b1, err := g1.Marshal()
	if err != nil {
		run.Violation("C20:api:gogoproto-family-cannot-re-encode:"+scope, det(nil), "%s: %v", name, err)
		return
	}
	// gogo bytes -> pulsar
	p1 := pt.New().Interface()
	if err := proto.Unmarshal(b1, p1); err != nil {
		run.Violation("C20:api:api-family-rejects-gogoproto-bytes:"+scope, det(map[string]any{"gogo_bytes": fmt.Sprintf("%x", b1), "err": err.Error()}), "%s: bytes produced by the modules' type are rejected by the api/ family: %v", name, err)
		return
	}
	b2, _ := proto.MarshalOptions{Deterministic: true}.Marshal(p1)
	rel := "normalised"
	if !bytes.Equal(b2, b1) {
		run.Violation("C20:api:api-family-re-encodes-gogoproto-bytes-differently:"+scope, det(map[string]any{"gogo_bytes": fmt.Sprintf("%x", b1), "api_bytes": fmt.Sprintf("%x", b2)}), "%s: api/ family re-encodes %x as %x", name, b1, b2)
	}
	// equal message: decode gogo bytes with the gogoproto family's own descriptor and with the api descriptor, compare canonically
	if gfd := gogoDescriptor(name); gfd != nil {
		d1 := dynamicpb.NewMessage(gfd)
		if err := proto.Unmarshal(b1, d1); err == nil {
			bd, _ := proto.MarshalOptions{Deterministic: true}.Marshal(d1)
			run.Eval(1)
			if !bytes.Equal(bd, b2) {
				run.Violation("C20:api:families-decode-to-different-messages:"+scope, det(map[string]any{"gogo_bytes": fmt.Sprintf("%x", b1)}), "%s: decoding %x with the two families' descriptors gives different messages", name, b1)
			}
			// field-wise equality of the two decodes
			if diff := reflectDiff(d1.ProtoReflect(), p1.ProtoReflect()); diff != "" {
				run.Violation("C20:api:families-decode-to-different-messages:"+scope, det(map[string]any{"diff": diff}), "%s: %s", name, diff)
			}
		}
	}
	// stability: gogo(b2) re-encodes to b1
	g2 := newGogo(name)
	if err := g2.Unmarshal(b2); err != nil {
		run.Violation("C20:api:gogoproto-family-rejects-api-bytes:"+scope, det(map[string]any{"api_bytes": fmt.Sprintf("%x", b2), "err": err.Error()}), "%s: second pass rejected: %v", name, err)
		return
	}
	b3, _ := g2.Marshal()
	run.Eval(1)
	if !bytes.Equal(b3, b1) {
		run.Violation("C20:api:round-trip-not-stable:"+scope, det(map[string]any{"b1": fmt.Sprintf("%x", b1), "b3": fmt.Sprintf("%x", b3)}), "%s: gogo->api->gogo does not reproduce the bytes", name)
	}
	if bytes.Equal(b1, b0) {
		rel = "identical"
	}
	run.Class("roundtrip", name, mode.String(), rel)
	if rel == "identical" {
		run.Count("roundtrips-byte-identical", 1)
	} else {
		run.Count("roundtrips-normalised-then-stable", 1)
	}
	run.Sample("roundtrip:"+mode.String(), map[string]any{"message": name, "mode": mode.String(), "api_bytes": fmt.Sprintf("%x", trimBytes(b0)), "gogo_bytes": fmt.Sprintf("%x", trimBytes(b1)), "relation": rel})
}

// apiUnknownFields puts a field that no irismod message declares (number 1901, once per wire type: varint, fixed64,
// length-delimited, fixed32) in front of and behind the bytes of a populated value of every message type: both
// families must accept the bytes and agree with what they make of the same bytes without that field.
func apiUnknownFields(run *ev.Run, mds []protoreflect.MessageDescriptor) {
	rng := run.Rng
	unknown := map[string][]byte{
		"varint":           protowire.AppendVarint(protowire.AppendTag(nil, 1901, protowire.VarintType), 300),
		"fixed64":          protowire.AppendFixed64(protowire.AppendTag(nil, 1901, protowire.Fixed64Type), 0x1122334455667788),
		"length-delimited": protowire.AppendBytes(protowire.AppendTag(nil, 1901, protowire.BytesType), []byte{0xde, 0xad, 0xbe, 0xef, 0x01}),
		"fixed32":          protowire.AppendFixed32(protowire.AppendTag(nil, 1901, protowire.Fixed32Type), 0xcafef00d),
	}
	kinds := []string{"fixed32", "fixed64", "length-delimited", "varint"}
	for _, md := range mds {
		name := string(md.FullName())
		pt, err := protoregistry.GlobalTypes.FindMessageByName(md.FullName())
		if newGogo(name) == nil || err != nil || md.Fields().ByNumber(1901) != nil {
			continue
		}
		x0 := genMessage(rng, md, modePopulated, 2)
		b0, err := proto.MarshalOptions{Deterministic: true}.Marshal(x0)
		if err != nil {
			continue
		}
		// what the two families make of the plain bytes
		known := func(b []byte) (string, error) {
			g := newGogo(name)
			if err := g.Unmarshal(b); err != nil {
				return "", fmt.Errorf("modules' family: %w", err)
			}
			bg, err := g.Marshal()
			if err != nil {
				return "", fmt.Errorf("modules' family re-encoding: %w", err)
			}
			p := pt.New().Interface()
			if err := proto.Unmarshal(bg, p); err != nil {
				return "", fmt.Errorf("api family on the modules' bytes: %w", err)
			}
			p.ProtoReflect().SetUnknown(nil)
			q := pt.New().Interface()
			if err := proto.Unmarshal(b, q); err != nil {
				return "", fmt.Errorf("api family: %w", err)
			}
			q.ProtoReflect().SetUnknown(nil)
			bp, _ := proto.MarshalOptions{Deterministic: true}.Marshal(p)
			bq, _ := proto.MarshalOptions{Deterministic: true}.Marshal(q)
			if !bytes.Equal(bp, bq) {
				return "", fmt.Errorf("the families decode the known fields differently (%x vs %x)", trimBytes(bp), trimBytes(bq))
			}
			return string(bq), nil
		}
		want, err := known(b0)
		if err != nil {
			continue // judged by the plain round trips
		}
		for _, k := range kinds {
			for _, where := range []string{"front", "end"} {
				b := append(append([]byte{}, unknown[k]...), b0...)
				if where == "end" {
					b = append(append([]byte{}, b0...), unknown[k]...)
				}
				run.Eval(1)
				run.Count("values-with-an-unknown-field", 1)
				got, err := known(b)
				det := map[string]any{"message": name, "unknown_field": k, "where": where, "bytes": fmt.Sprintf("%x", trimBytes(b))}
				switch {
				case err != nil:
					run.Violation("C20:api:unknown-"+k+"-field-not-skipped:"+where, det, "%s with an unknown %s field at the %s: %v", name, k, where, err)
				case got != want:
					run.Violation("C20:api:unknown-"+k+"-field-changes-the-known-fields:"+where, det, "%s with an unknown %s field at the %s decodes to other known fields than without it", name, k, where)
				}
				run.Class("unknown-field", k, where)
			}
		}
	}
}

func trimBytes(b []byte) []byte {
	if len(b) > 64 {
		return b[:64]
	}
	return b
}

var gogoDescCache map[string]protoreflect.MessageDescriptor

func gogoDescriptor(name string) protoreflect.MessageDescriptor {
	if gogoDescCache == nil {
		gogoDescCache = map[string]protoreflect.MessageDescriptor{}
	}
	if d, ok := gogoDescCache[name]; ok {
		return d
	}
	d, err := gogoproto.HybridResolver.FindDescriptorByName(protoreflect.FullName(name))
	if err != nil {
		gogoDescCache[name] = nil
		return nil
	}
	md, _ := d.(protoreflect.MessageDescriptor)
	gogoDescCache[name] = md
	return md
}

// reflectDiff compares two messages with (possibly) different descriptor identities field by field (by number).
func reflectDiff(a, b protoreflect.Message) string {
	af, bf := a.Descriptor().Fields(), b.Descriptor().Fields()
	if af.Len() != bf.Len() {
		return fmt.Sprintf("%s: %d fields vs %d", a.Descriptor().FullName(), af.Len(), bf.Len())
	}
	for i := 0; i < af.Len(); i++ {
		fa := af.Get(i)
		fb := bf.ByNumber(fa.Number())
		if fb == nil {
			return fmt.Sprintf("field #%d missing in api family", fa.Number())
		}
		if a.Has(fa) != b.Has(fb) {
			return fmt.Sprintf("field %s presence differs", fa.FullName())
		}
		if !a.Has(fa) {
			continue
		}
		va, vb := a.Get(fa), b.Get(fb)
		switch {
		case fa.IsList():
			if va.List().Len() != vb.List().Len() {
				return fmt.Sprintf("field %s list length differs", fa.FullName())
			}
			for j := 0; j < va.List().Len(); j++ {
				if d := valDiff(fa, va.List().Get(j), vb.List().Get(j)); d != "" {
					return d
				}
			}
		case fa.IsMap():
			if va.Map().Len() != vb.Map().Len() {
				return fmt.Sprintf("field %s map size differs", fa.FullName())
			}
		default:
			if d := valDiff(fa, va, vb); d != "" {
				return d
			}
		}
	}
	return ""
}

func valDiff(f protoreflect.FieldDescriptor, a, b protoreflect.Value) string {
	switch f.Kind() {
	case protoreflect.MessageKind, protoreflect.GroupKind:
		return reflectDiff(a.Message(), b.Message())
	case protoreflect.BytesKind:
		if !bytes.Equal(a.Bytes(), b.Bytes()) {
			return fmt.Sprintf("field %s bytes differ", f.FullName())
		}
	default:
		if a.Interface() != b.Interface() {
			return fmt.Sprintf("field %s: %v vs %v", f.FullName(), a.Interface(), b.Interface())
		}
	}
	return ""
}
