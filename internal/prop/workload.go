package prop

import (
	"encoding/json"

	"github.com/cosmos/cosmos-sdk/codec"
	sdk "github.com/cosmos/cosmos-sdk/types"

	"verif/internal/ev"
	"verif/internal/rig"
)

// Workload is a state-aware transaction generator for one module that can be combined with
// others on one chain (used by the all-modules director of C11/C12/C13/C16). A workload only
// generates; monitors live in the property files.
type Workload interface {
	Name() string
	// Genesis may edit the default genesis (e.g. module params) before InitChain.
	Genesis(cdc codec.Codec, gs map[string]json.RawMessage)
	// Attach is called once the rig exists (register harness ops, remember accounts).
	Attach(run *ev.Run, r *rig.Rig)
	// Next returns the txs this workload wants in the next block (may be empty). It reads
	// chain state through r.Ctx() and keepers; it must tolerate that some of its txs fail.
	Next(block int) []rig.Tx
	// Observe sees every delivered block (to learn ids from responses/events).
	Observe(br *rig.BlockRecord)
}

// StdBalances is the genesis balance every user account gets in multi-module chains.
func StdBalances() sdk.Coins {
	c := sdk.NewCoins()
	for _, d := range []string{rig.BondDenom, "tka", "tkb", "tkc", "htltbnb", "htltinc"} {
		c = c.Add(sdk.NewCoin(d, toInt(pow2(150))))
	}
	return c
}
