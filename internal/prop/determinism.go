package prop

import (
	sdk "github.com/cosmos/cosmos-sdk/types"
	"encoding/base64"
	"crypto/sha256"
	"encoding/hex"
	"encoding/json"
	"flag"
	"fmt"
	"os"
	"os/exec"
	"path/filepath"
	"regexp"
	"sort"
	"strconv"
	"strings"
	"time"

	dbm "github.com/cosmos/cosmos-db"

	"verif/internal/ev"
	"verif/internal/rig"
)

func init() {
	Register(&Spec{
		ID: "C11", Level: "fault_enumeration",
		Rule: "a recorded history of the all-modules director (every workload on one chain, journaled as genesis + block headers + tx bytes) is re-executed by replicas in separate processes: later in wall-clock time (and under other time zones and locales), on an on-disk DB with the application closed and reopened at block boundaries (every k-th block quick, every block thorough, once across process exit), with other GOMAXPROCS/GOGC; per block the app hash, the ordered KV digest of every irismod/bank/auth store and every tx result (code, codespace, data, gas; since round 16 also the text of its log, unless it carries the stack trace of a recovered abort) are compared, and the exported genesis (8 repeated exports per replica) per module section. Host-clock straddle cases place the chain's timestamps at now-D+20s for each duration D found next to a host-clock read in /repo (scan) and a fixed list, run the generator immediately and a replica after the threshold has passed. Thorough adds a -race build running block production concurrently with queries/simulations. evaluations = comparisons made; non-trivial = a block or export compared between two executions; distinct = distinct (replica kind, restart point, D, message types present); since rounds 15-19: a farm creation wrong in two ways at once every 7 blocks (which refusal is given must not depend on chance)",
		Assume: []string{"same machine, architecture and Go version for all replicas", "a race report counts only if the racing access itself lies in mods.irisnet.org code (the SDK store layer races under Query||Commit, which a node never runs concurrently)", "differences confined to event order are recorded as observations, not violations"},
		Cases:  func(t string) int { return tierN(t, 5, 17) },
		Run:    runDeterminism,
		// the host-clock probes only mean something if operations that read the oracle exchange rate succeeded on the
		// timestamps written in the probe phase (generator side)
		RequireTotals: aliveTotals(map[string]int64{"probe-phase-priced-ops-ok": 1, "pre-exec-simulated-ok": 100, "pre-exec-checktx-ok": 100}),
		RaceCases: func(t string) []int {
			if t == "thorough" {
				return []int{16}
			}
			return nil
		},
	})
}

// ---- observations of one execution ----

type blockObs struct {
	Height  int64             `json:"h"`
	AppHash string            `json:"app_hash"`
	Stores  map[string]string `json:"stores"`
	Results []string          `json:"results"` // code|codespace|gas|datahash
	Logs    []string          `json:"logs"`
	Events  string            `json:"events"`
	WallBefore int64          `json:"wall_before"`
	WallAfter  int64          `json:"wall_after"`
}

type execObs struct {
	Kind    string                       `json:"kind"`
	Blocks  []blockObs                   `json:"blocks"`
	Exports []map[string]string          `json:"exports"` // per repetition: module -> sha256 of its section
	ExportErr string                     `json:"export_err"`
	Restarts int                         `json:"restarts"`
	Note    string                       `json:"note"`
}

var obsStores = append(append([]string{}, rig.IrismodStores...), "bank", "acc")

func observeBlock(r *rig.Rig, br *rig.BlockRecord, wb, wa int64) blockObs {
	o := blockObs{Height: br.Height, AppHash: hex.EncodeToString(br.AppHash), Stores: map[string]string{}, WallBefore: wb, WallAfter: wa}
	ctx := r.Ctx()
	for _, s := range obsStores {
		o.Stores[s] = r.StoreDigest(ctx, s)
	}
	for _, tx := range br.Txs {
		if tx.Result == nil {
			o.Results = append(o.Results, "none")
			o.Logs = append(o.Logs, "")
			continue
		}
		h := sha256.Sum256(tx.Result.Data)
		o.Results = append(o.Results, fmt.Sprintf("%d|%s|%d|%x", tx.Result.Code, tx.Result.Codespace, tx.Result.GasUsed, h[:8]))
		o.Logs = append(o.Logs, tx.Result.Log)
	}
	eh := sha256.New()
	for _, e := range append(append([]interface{ String() string }{}), nil...) {
		_ = e
	}
	for _, e := range br.BeginEvents {
		eh.Write([]byte(e.String()))
	}
	for _, e := range br.EndEvents {
		eh.Write([]byte(e.String()))
	}
	o.Events = hex.EncodeToString(eh.Sum(nil)[:8])
	if br.FinalErr != nil {
		o.AppHash = "ERR:" + br.FinalErr.Error()
	}
	return o
}

func exportSections(r *rig.Rig) (map[string]string, error) {
	exp, err := r.Export(false)
	if err != nil {
		return nil, err
	}
	var secs map[string]json.RawMessage
	if err := json.Unmarshal(exp.AppState, &secs); err != nil {
		return nil, err
	}
	out := map[string]string{}
	for k, v := range secs {
		h := sha256.Sum256(v)
		out[k] = hex.EncodeToString(h[:8])
	}
	return out, nil
}

func repeatedExports(r *rig.Rig, o *execObs, n int) {
	for i := 0; i < n; i++ {
		s, err := exportSections(r)
		if err != nil {
			o.ExportErr = err.Error()
			return
		}
		o.Exports = append(o.Exports, s)
	}
}

// ---- replica process ----

// ReplicaMain is the entry point of `vcheck __replica ...`.
func ReplicaMain(args []string) {
	fs := flag.NewFlagSet("replica", flag.ExitOnError)
	journal := fs.String("journal", "", "")
	out := fs.String("out", "", "")
	seed := fs.String("seed", "", "")
	mode := fs.String("mode", "later", "later|restart")
	every := fs.Int("every", 1, "restart every k blocks")
	dbdir := fs.String("dbdir", "", "")
	from := fs.Int64("from", 0, "continue after this height (second process of a restart replica)")
	upto := fs.Int64("upto", 0, "stop after this height (first process of a restart replica)")
	notBefore := fs.Int64("not-before", 0, "do not start before this unix-nano wall time")
	fs.Parse(args)
	if *notBefore > 0 {
		if d := time.Until(time.Unix(0, *notBefore)); d > 0 {
			time.Sleep(d)
		}
	}
	j, err := rig.LoadJournal(*journal)
	if err != nil {
		rig.Fatalf("journal: %v", err)
	}
	obs := &execObs{Kind: *mode}
	var db dbm.DB
	open := func() dbm.DB {
		if *dbdir == "" {
			return dbm.NewMemDB()
		}
		d, err := dbm.NewGoLevelDB("app", *dbdir, nil)
		if err != nil {
			rig.Fatalf("db: %v", err)
		}
		return d
	}
	db = open()
	var gen rig.JEntry
	for _, e := range j.Entries {
		if e.Kind == "genesis" {
			gen = e
		}
	}
	ws := allWorkloads()
	opts := allOptions(*seed, ws, db, gen.Time)
	opts.NoInit = true
	r := rig.New(opts)
	dummy := ev.NewRun("C11", "quick", 0, 0)
	for _, w := range ws {
		w.Attach(dummy, r)
	}
	if *from == 0 {
		r.InitChainWith(gen.AppState, gen.InitialHeight, gen.Time)
	} else {
		r.Height = r.App.LastBlockHeight()
		r.LastHash = r.App.LastCommitID().Hash
		for _, e := range j.Entries {
			if e.Kind == "block" && e.Height == r.Height {
				r.Time = e.Time
			}
		}
		if r.Height != *from {
			rig.Fatalf("restart replica: DB is at height %d, expected %d", r.Height, *from)
		}
	}
	n := 0
	for _, e := range j.Entries {
		if e.Kind != "block" || e.Height <= *from {
			continue
		}
		if *upto > 0 && e.Height > *upto {
			break
		}
		txs := make([]rig.Tx, len(e.Txs))
		for i, b := range e.Txs {
			txs[i] = rig.Tx{Bytes: b}
		}
		wb := time.Now().UnixNano()
		br := r.DeliverBlockAt(e.Time, txs)
		wa := time.Now().UnixNano()
		obs.Blocks = append(obs.Blocks, observeBlock(r, br, wb, wa))
		n++
		// restart points: every k-th block, and after every block that carried a parameter update (what a process
		// remembers about the configuration is most likely to differ from the DB right there)
		if *mode == "restart" && *dbdir != "" && (n%*every == 0 || blockUpdatesParams(r, e.Txs)) {
			// a node restart between blocks: everything in memory is lost, the DB is closed and reopened
			r.App.Close()
			db.Close()
			db = open()
			r.Restart(db)
			for _, w := range ws {
				w.Attach(dummy, r)
			}
			obs.Restarts++
		}
	}
	if *upto == 0 {
		repeatedExports(r, obs, 8)
	}
	bz, _ := json.Marshal(obs)
	if err := os.WriteFile(*out, bz, 0o644); err != nil {
		rig.Fatalf("%v", err)
	}
	r.App.Close()
	db.Close()
}

// blockUpdatesParams reports whether one of the transactions carries a MsgUpdateParams, directly or as a routed message.
func blockUpdatesParams(r *rig.Rig, txs [][]byte) bool {
	for _, bz := range txs {
		tx, err := r.TxConfig.TxDecoder()(bz)
		if err != nil {
			continue
		}
		for _, m := range tx.GetMsgs() {
			if strings.HasSuffix(sdk.MsgTypeURL(m), "MsgUpdateParams") {
				return true
			}
		}
		if mt, ok := tx.(sdk.TxWithMemo); ok {
			if i := strings.IndexByte(mt.GetMemo(), ':'); i > 0 {
				if raw, err := base64.StdEncoding.DecodeString(mt.GetMemo()[i+1:]); err == nil && strings.Contains(string(raw), "MsgUpdateParams") {
					return true
				}
			}
		}
	}
	return false
}

func runReplica(env []string, args ...string) (*execObs, error) {
	self, _ := os.Executable()
	outf := ""
	for i, a := range args {
		if a == "--out" {
			outf = args[i+1]
		}
	}
	cmd := exec.Command(self, append([]string{"__replica"}, args...)...)
	cmd.Env = append(os.Environ(), env...)
	bz, err := cmd.CombinedOutput()
	if err != nil {
		return nil, fmt.Errorf("replica failed: %v: %s", err, tailStr(string(bz), 1500))
	}
	ob, err := os.ReadFile(outf)
	if err != nil {
		return nil, err
	}
	var o execObs
	if err := json.Unmarshal(ob, &o); err != nil {
		return nil, err
	}
	return &o, nil
}

func tailStr(s string, n int) string {
	if len(s) > n {
		return s[len(s)-n:]
	}
	return s
}

// ---- comparison ----

func msgTypesOf(j *rig.Journal, r *rig.Rig, height int64, idx int) string {
	for _, e := range j.Entries {
		if e.Kind == "block" && e.Height == height && idx < len(e.Txs) {
			tx, err := r.TxConfig.TxDecoder()(e.Txs[idx])
			if err != nil {
				return "undecodable"
			}
			var ts []string
			for _, m := range tx.GetMsgs() {
				ts = append(ts, strings.TrimPrefix(fmt.Sprintf("%T", m), "*"))
			}
			return strings.Join(ts, ",")
		}
	}
	return "?"
}

func hasStackTrace(log string) bool {
	return strings.Contains(log, "goroutine ") || strings.Contains(log, "recovered:") || strings.Contains(log, "stack:")
}

func compareExec(run *ev.Run, j *rig.Journal, r *rig.Rig, a, b *execObs, what string) {
	det := func(m map[string]any) map[string]any {
		m["replica"] = what
		return m
	}
	byH := map[int64]blockObs{}
	for _, y := range b.Blocks {
		byH[y.Height] = y
	}
	eventDiffs := 0
	for i := 0; i < len(a.Blocks); i++ {
		x := a.Blocks[i]
		y, ok := byH[x.Height]
		if !ok {
			run.Inconc("replica %s did not execute height %d", what, x.Height)
			break
		}
		run.Eval(1)
		diverged := false
		for ti := range x.Results {
			if ti < len(y.Results) && x.Results[ti] != y.Results[ti] {
				mt := msgTypesOf(j, r, x.Height, ti)
				run.Violation("C11:tx-result-differs:"+mt, det(map[string]any{"height": x.Height, "tx": ti, "generator": x.Results[ti], "replica_result": y.Results[ti], "generator_log": x.Logs[ti], "replica_log": y.Logs[ti]}),
					"height %d tx %d (%s): result %s in the generator, %s in replica %s (logs: %q vs %q)", x.Height, ti, mt, x.Results[ti], y.Results[ti], what, trunc(x.Logs[ti], 120), trunc(y.Logs[ti], 120))
				diverged = true
			} else if ti < len(y.Results) && ti < len(x.Logs) && ti < len(y.Logs) && x.Logs[ti] != y.Logs[ti] && !hasStackTrace(x.Logs[ti]) && !hasStackTrace(y.Logs[ti]) {
				// the text of a refusal is part of the transaction's result too (a recovered abort prints a stack trace
				// with addresses of the process: those texts are not compared)
				mt := msgTypesOf(j, r, x.Height, ti)
				run.Violation("C11:tx-log-differs:"+mt, det(map[string]any{"height": x.Height, "tx": ti, "generator_log": x.Logs[ti], "replica_log": y.Logs[ti]}),
					"height %d tx %d (%s): equal result %s but the log reads %q in the generator and %q in replica %s", x.Height, ti, mt, x.Results[ti], trunc(x.Logs[ti], 200), trunc(y.Logs[ti], 200), what)
			} else if ti < len(y.Results) {
				run.Count("tx-logs-compared", 1)
			}
		}
		var stores []string
		for s := range x.Stores {
			stores = append(stores, s)
		}
		sort.Strings(stores)
		for _, s := range stores {
			if x.Stores[s] != y.Stores[s] {
				run.Violation("C11:store-differs:"+s, det(map[string]any{"height": x.Height, "store": s}), "height %d: store %s digest %s in the generator, %s in replica %s", x.Height, s, x.Stores[s], y.Stores[s], what)
				diverged = true
			}
		}
		if x.AppHash != y.AppHash {
			if !diverged {
				run.Violation("C11:app-hash-differs", det(map[string]any{"height": x.Height}), "height %d: app hash %s vs %s in replica %s with equal observed stores and results", x.Height, x.AppHash, y.AppHash, what)
			}
			diverged = true
		}
		if x.Events != y.Events {
			eventDiffs++
		}
		if diverged {
			break // later blocks follow from the first divergence
		}
		run.Class("block", what, fmt.Sprint("txs=", len(x.Results) > 0))
	}
	if eventDiffs > 0 {
		run.Note("replica %s: begin/end-block events differ in %d blocks (order only is not a violation)", what, eventDiffs)
		run.Count("event-order-differences", int64(eventDiffs))
	}
	// exports
	compareExports(run, a, what+":generator-self")
	compareExports(run, b, what)
	if len(a.Exports) > 0 && len(b.Exports) > 0 {
		for mod, h := range a.Exports[0] {
			run.Eval(1)
			if b.Exports[0][mod] != h {
				run.Violation("C11:export-differs:"+mod, det(map[string]any{"module": mod}), "exported genesis section %s differs between the generator and replica %s", mod, what)
			}
		}
		run.Class("export", what)
	}
	if a.ExportErr != "" || b.ExportErr != "" {
		run.Note("export errors: generator %q replica %q", a.ExportErr, b.ExportErr)
	}
}

func compareExports(run *ev.Run, o *execObs, what string) {
	for i := 1; i < len(o.Exports); i++ {
		for mod, h := range o.Exports[0] {
			run.Eval(1)
			if o.Exports[i][mod] != h {
				run.Violation("C11:repeated-export-differs:"+mod, map[string]any{"module": mod, "execution": what, "repetition": i}, "exporting the same state twice in one process gives different %s sections (%s, repetition %d)", mod, what, i)
			}
		}
	}
}

func trunc(s string, n int) string {
	if len(s) > n {
		return s[:n]
	}
	return s
}

// ---- host-clock scan (advisory: only chooses the probe durations) ----

var reDur1 = regexp.MustCompile(`(\d+)\s*\*\s*time\.(Second|Minute|Hour)`)
var reDur2 = regexp.MustCompile(`time\.(Second|Minute|Hour)\s*\*\s*(\d+)`)

func scanHostClockDurations() []time.Duration {
	unit := map[string]time.Duration{"Second": time.Second, "Minute": time.Minute, "Hour": time.Hour}
	seen := map[time.Duration]bool{}
	filepath.Walk("/repo/modules", func(p string, info os.FileInfo, err error) error {
		if err != nil || info.IsDir() || !strings.HasSuffix(p, ".go") || strings.HasSuffix(p, "_test.go") || strings.Contains(p, "/simulation/") || strings.Contains(p, "/client/") || strings.Contains(p, "/migrations/") {
			return nil
		}
		bz, _ := os.ReadFile(p)
		for _, line := range strings.Split(string(bz), "\n") {
			if !strings.Contains(line, "time.Since(") && !strings.Contains(line, "time.Now()") && !strings.Contains(line, "time.Until(") {
				continue
			}
			for _, m := range reDur1.FindAllStringSubmatch(line, -1) {
				n, _ := strconv.Atoi(m[1])
				seen[time.Duration(n)*unit[m[2]]] = true
			}
			for _, m := range reDur2.FindAllStringSubmatch(line, -1) {
				n, _ := strconv.Atoi(m[2])
				seen[time.Duration(n)*unit[m[1]]] = true
			}
		}
		return nil
	})
	var out []time.Duration
	for d := range seen {
		out = append(out, d)
	}
	sort.Slice(out, func(i, j int) bool { return out[i] < out[j] })
	return out
}

func probeDurations(tier string) []time.Duration {
	ds := scanHostClockDurations()
	fixed := []time.Duration{time.Minute, 5 * time.Minute, time.Hour}
	if tier == "thorough" {
		fixed = []time.Duration{time.Second, time.Minute, 5 * time.Minute, 15 * time.Minute, 30 * time.Minute, time.Hour, 24 * time.Hour}
	}
	seen := map[time.Duration]bool{}
	var out []time.Duration
	for _, d := range append(ds, fixed...) {
		if !seen[d] {
			seen[d] = true
			out = append(out, d)
		}
	}
	return out
}

// ---- the cases ----

func runDeterminism(run *ev.Run, c int) {
	tmp, err := os.MkdirTemp(os.Getenv("VERIF_CHILD_TMP"), "c11-")
	if err != nil {
		run.Inconc("tmp dir: %v", err)
		return
	}
	defer os.RemoveAll(tmp)
	nHist := tierN(run.Tier, 1, 8)
	ds := probeDurations(run.Tier)
	switch {
	case c < nHist:
		determinismHistory(run, c, tmp)
	case c-nHist < len(ds):
		determinismStraddle(run, c, tmp, ds[c-nHist])
	case run.Thorough() && c == 16:
		determinismRace(run, c, tmp)
	default:
		// fewer probe durations than reserved cases: nothing to do in this slot
		run.Eval(1)
		run.Class("idle-slot")
		run.Class("idle-slot-2")
	}
}

func determinismHistory(run *ev.Run, c int, tmp string) {
	seed := fmt.Sprintf("det-%d-%d", run.Seed, c)
	jpath := filepath.Join(tmp, "journal.jsonl")
	j := rig.NewJournal(jpath)
	chain := newAllChain(run, seed, j, time.Time{})
	chain.PreExec = true
	r := chain.r
	gen := &execObs{Kind: "generator"}
	blocks := tierN(run.Tier, 140, 320)
	for b := 0; b < blocks; b++ {
		dt := time.Duration(1+run.Rng.Intn(30)) * time.Second
		if run.Rng.Intn(25) == 0 {
			dt = time.Duration(1+run.Rng.Intn(48)) * time.Hour
		}
		wb := time.Now().UnixNano()
		br := chain.Step(dt)
		gen.Blocks = append(gen.Blocks, observeBlock(r, br, wb, time.Now().UnixNano()))
		if br.FinalErr != nil {
			run.Note("block %d aborted in the generator: %v (judged by C13, replicas must agree)", br.Height, br.FinalErr)
		}
	}
	repeatedExports(r, gen, 8)
	j.Close()
	run.Count("history-blocks", int64(blocks))
	last := gen.Blocks[len(gen.Blocks)-1].Height
	// R1: fresh process, later
	// (the later replica also lives in another time zone and locale: nothing of the host's may reach the chain)
	r1, err := runReplica([]string{"TZ=Asia/Tokyo", "LANG=ja_JP.UTF-8", "LC_ALL=ja_JP.UTF-8"}, "--journal", jpath, "--seed", seed, "--mode", "later", "--out", filepath.Join(tmp, "r1.json"))
	if err != nil {
		run.Inconc("replica later: %v", err)
	} else {
		compareExec(run, j, r, gen, r1, "later-process")
		run.Count("replicas-compared", 1)
	}
	// R2: on-disk DB, application closed and reopened at block boundaries, and several times across process exit
	// (a new process has lost every package variable and cache; the DB is all it has)
	every := 1 // a restart after every block (cheap next to the straddle cases, which wait for wall-clock time)
	dbdir := filepath.Join(tmp, "db")
	segments := tierN(run.Tier, 6, 16)
	r2 := &execObs{Kind: "restart"}
	var exits []int64
	from := int64(0)
	failed := false
	for sgm := 1; sgm <= segments && !failed; sgm++ {
		upto := last * int64(sgm) / int64(segments)
		args := []string{"--journal", jpath, "--seed", seed, "--mode", "restart", "--every", fmt.Sprint(every), "--dbdir", dbdir, "--out", filepath.Join(tmp, fmt.Sprintf("r2-%d.json", sgm))}
		if from > 0 {
			args = append(args, "--from", fmt.Sprint(from))
		}
		if sgm < segments {
			args = append(args, "--upto", fmt.Sprint(upto))
		}
		part, err := runReplica([]string{"TZ=America/St_Johns"}, args...)
		if err != nil {
			run.Inconc("replica restart (process %d): %v", sgm, err)
			failed = true
			break
		}
		r2.Blocks = append(r2.Blocks, part.Blocks...)
		r2.Restarts += part.Restarts + 1
		r2.Exports, r2.ExportErr = part.Exports, part.ExportErr
		if sgm < segments {
			exits = append(exits, upto)
		}
		from = upto
	}
	if !failed {
		compareExec(run, j, r, gen, r2, fmt.Sprintf("restart-every-%d-on-disk", every))
		run.Count("restart-points", int64(r2.Restarts))
		run.Count("process-exits", int64(len(exits)))
		run.Count("replicas-compared", 1)
		run.Sample("restart-replica", map[string]any{"restarts": r2.Restarts, "blocks": len(r2.Blocks), "process_exits_after_heights": exits})
	}
	// R3: other scheduler / GC settings
	r3, err := runReplica([]string{"GOMAXPROCS=2", "GOGC=10"}, "--journal", jpath, "--seed", seed, "--mode", "later", "--out", filepath.Join(tmp, "r3.json"))
	if err != nil {
		run.Inconc("replica gomaxprocs: %v", err)
	} else {
		compareExec(run, j, r, gen, r3, "gomaxprocs2-gogc10")
		run.Count("replicas-compared", 1)
	}
	run.Sample("history", map[string]any{"blocks": blocks, "last_height": last, "txs_ok": run.Counters["all-tx-ok"], "txs_rejected": run.Counters["all-tx-rejected"], "final_app_hash": gen.Blocks[len(gen.Blocks)-1].AppHash})
	run.Require("replicas-compared", 3)
}

func determinismStraddle(run *ev.Run, c int, tmp string, D time.Duration) {
	determinismStraddleTry(run, c, tmp, D, 0)
}

// determinismStraddleTry: one generator/replica pair for the duration D. A pair on whose probe timestamps no operation
// priced through the oracle exchange rate succeeded cannot show a host-clock dependence of that path either way: it is
// given up and another history (another chain seed) is tried, twice at most, before the case is called inconclusive.
func determinismStraddleTry(run *ev.Run, c int, tmp string, D time.Duration, attempt int) {
	seed := fmt.Sprintf("straddle-%d-%d", run.Seed, c)
	if attempt > 0 {
		seed += fmt.Sprintf("-retry%d", attempt)
	}
	jpath := filepath.Join(tmp, "journal.jsonl")
	j := rig.NewJournal(jpath)
	t0 := time.Now() // the host clock is read here on purpose: this case places chain time relative to it
	chain := newAllChain(run, seed, j, t0.Add(-D-2*time.Hour))
	chain.PreExec = true
	r := chain.r
	gen := &execObs{Kind: "generator"}
	// prelude: chain time far older than D
	for b := 0; b < 45; b++ {
		wb := time.Now().UnixNano()
		br := chain.Step(time.Second)
		gen.Blocks = append(gen.Blocks, observeBlock(r, br, wb, time.Now().UnixNano()))
	}
	// probe phase: every timestamp written now is younger than D for this process and older than D for the replica
	now1 := time.Now()
	// margin: the generator has this long to run the probe blocks before the first probe timestamp becomes older than D
	const margin = 20 * time.Second
	T := now1.Add(-D + margin)
	if !T.After(r.Time) {
		T = r.Time.Add(time.Second)
	}
	// at least probeMin blocks; if by then nothing that reads the oracle exchange rate has succeeded on the probe
	// timestamps (the rate feed may be between two values, or other workloads' parameter changes may be in the way), the
	// phase goes on until three such operations have succeeded, up to probeMax blocks
	const probeMin, probeMax = 30, 120
	probeStart := len(gen.Blocks)
	pricedOK := func() int64 {
		return run.Counters["priced-bind-ok"] + run.Counters["priced-update-ok"] + run.Counters["priced-call-ok"]
	}
	priced0 := pricedOK()
	for b := 0; b < probeMax; b++ {
		wb := time.Now().UnixNano()
		br := chain.StepAt(T.Add(time.Duration(b) * time.Second))
		gen.Blocks = append(gen.Blocks, observeBlock(r, br, wb, time.Now().UnixNano()))
		if b+1 >= probeMin && pricedOK() >= priced0+3 {
			break
		}
	}
	j.Close()
	run.Count("probe-phase-priced-ops-ok", pricedOK()-priced0)
	run.Count("probe-phase-blocks", int64(len(gen.Blocks)-probeStart))
	if pricedOK() == priced0 {
		// nothing that reads the oracle exchange rate succeeded on the probe timestamps: this execution pair cannot show a
		// host-clock dependence of that path either way
		if attempt < 2 {
			run.Count("straddle-pair-given-up-for-another-history", 1)
			sub := filepath.Join(tmp, fmt.Sprintf("retry%d", attempt+1))
			if err := os.MkdirAll(sub, 0o755); err == nil {
				determinismStraddleTry(run, c, sub, D, attempt+1)
				return
			}
		}
		run.Inconc("straddle D=%s: no operation priced through the oracle exchange rate succeeded during the probe phase (three histories tried)", D)
	}
	lastT := r.Time
	notBefore := lastT.Add(D + 4*time.Second)
	r1, err := runReplica([]string{"TZ=Pacific/Chatham"}, "--journal", jpath, "--seed", seed, "--mode", "later", "--not-before", fmt.Sprint(notBefore.UnixNano()), "--out", filepath.Join(tmp, "r1.json"))
	if err != nil {
		run.Inconc("straddle replica D=%s: %v", D, err)
		return
	}
	// was the straddle achieved? generator: all probe blocks executed while wall - T < D; replica: wall - lastT > D
	achieved := true
	for _, b := range gen.Blocks[probeStart:] {
		if time.Unix(0, b.WallAfter).Sub(T) >= D {
			achieved = false
		}
	}
	firstProbeH := gen.Blocks[probeStart].Height
	found := false
	for _, b := range r1.Blocks {
		if b.Height == firstProbeH {
			found = true
			if time.Unix(0, b.WallBefore).Sub(lastT) <= D {
				achieved = false
			}
		}
	}
	if !found {
		achieved = false
	}
	run.Eval(1)
	if !achieved {
		run.Inconc("straddle of D=%s not achieved (machine too slow or clock jump)", D)
		return
	}
	run.Count("straddles-achieved", 1)
	run.Class("straddle", D.String())
	compareExec(run, j, r, gen, r1, "after-"+D.String())
	run.Sample("straddle", map[string]any{"D": D.String(), "chain_time_of_probe": T.UTC().Format(time.RFC3339), "generator_wall": now1.UTC().Format(time.RFC3339), "replica_not_before": notBefore.UTC().Format(time.RFC3339), "priced_ops_ok_in_probe_phase": pricedOK() - priced0, "priced_binds_ok": run.Counters["priced-bind-ok"], "priced_binds_rejected": run.Counters["priced-bind-rejected"]})
}

func determinismRace(run *ev.Run, c int, tmp string) {
	// implemented in race.go (built into every binary; only meaningful in the -race build)
	raceStress(run, c, tmp)
}
