package prop

import (
	"encoding/hex"
	"encoding/json"
	"fmt"
	"math"
	"math/big"
	"math/rand"
	"sort"
	"strconv"
	"strings"
	"time"

	sdkmath "cosmossdk.io/math"
	"github.com/cosmos/cosmos-sdk/codec"
	sdk "github.com/cosmos/cosmos-sdk/types"
	authtypes "github.com/cosmos/cosmos-sdk/x/auth/types"
	banktypes "github.com/cosmos/cosmos-sdk/x/bank/types"
	gogotypes "github.com/cosmos/gogoproto/types"
	"github.com/ethereum/go-ethereum/common"
	ethtypes "github.com/ethereum/go-ethereum/core/types"

	tokenkeeper "mods.irisnet.org/modules/token/keeper"
	tokentypes "mods.irisnet.org/modules/token/types"
	v1 "mods.irisnet.org/modules/token/types/v1"

	"verif/internal/ev"
	"verif/internal/rig"
)

// Token module: C09 (identity, authority, cap, burn tally, fee split) and C10 (ERC20 and
// fee-token conversions). One generator (tkGen) produces the module's transactions; it is used
// by the C09 director, the C10 directors and the reusable workload. Monitors compare the chain
// at every tx boundary with a reference registry/ledger built from the messages that succeeded.

func init() {
	Register(&Spec{
		ID: "C09", Level: "exploration",
		Rule: "cases = chains driven by the token director (issue / re-issue of taken symbols and min units by others / mint / edit / burn / transfer-owner by owners, previous owners and strangers, one scripted attack with a crafted 23-byte owner address that splices the (owner, symbol) index key; scales 0..18; initial and max supplies from {0,1,small,1e6,1e11 | default,=initial,huge,2^64-1}; fractional burns in min units; max-supply edits to floor/ceil/below/equal of what circulates; tax and mint-fee ratios from {0,1e-18,0.4,0.5,1-1e-18,1,random}; base fee in the native token or in a user token with scale>0; symbol lengths 3..64); a case is non-trivial when the tx succeeded (or was a targeted hostile rejection) and the registry/ledger relations were evaluated on it; distinct = distinct (op kind, actor role, variant, scale class, magnitude class, tax/ratio class, outcome); since rounds 11-14: every fourth chain born with 130 more tokens and the TotalBurn query compared after every block, new owners in upper-case bech32, restart from the chain's own export, the last two cases borrow the ERC20 director for the relation 'no burn message, no tally change'; since rounds 15-19: edits spell the mintable field in every way the standard parser reads (the reference parses the field itself)",
		Assume: []string{
			"circulating amount of a token = bank total supply of its min unit",
			"the cap clause is judged for tokens issued through the module during the run (the native token's genesis balances are harness configuration)",
			"burned amounts = amounts of successful MsgBurnToken (fee burning is accounted under the fee clause)",
			"tx fees are zero in the harness so the ante handler moves no coins",
		},
		Cases: func(t string) int { return tierN(t, 16, 48) },
		Run:   runTokenC09,
	})
	Register(&Spec{
		ID: "C10", Level: "exploration",
		Rule: "three kinds of cases: (P) types.LossLessSwap called as a pure function on amounts up to 2^128, all 19x19 scale pairs and ratios {1, <1, >1, 1e-18, large, random 18-decimal} against exact rational arithmetic; (E) chains with a store-backed harness EVM: MsgDeployERC20 (authority and not), MsgSwapToERC20 / MsgSwapFromERC20 in both directions with receivers {self, other, fresh, blocked module accounts, unsupported key}, amounts {1, part, all, balance+1, huge}, ERC20 switched off/on, injected EVM faults (error, revert, no/short/excess effect by one unit or by a whole 64-bit word - then with amounts that are whole 64-bit words -, wrong holder, lying balanceOf) and the EVM->native hook with synthetic receipts; (F) chains where Keeper.WithSwapRegistry(...).SwapFeeToken runs inside injected txs over 19 tokens of scale 0..18; non-trivial = the conversion succeeded and its complete bank+EVM balance sheet was compared, or it failed and the next observation point was compared with the previous one; distinct = distinct (kind, direction, receiver kind, amount class, scale pair, ratio class, fault kind, outcome); since rounds 13-14: an ownerless genesis-born token bound to a contract, EVM transactions whose target is another contract or none; since rounds 15-19: owners edit and hand over bound tokens (only a deployment changes a contract binding); a hook receipt whose first event carries nothing; first deployments under another ticker than the token's symbol",
		Assume: []string{
			"the harness EVM stands for a real EVM module: state in the multistore (reverted with the tx), creator nonce bumped on contract creation, owner-only mint/burn, burn above balance reverts",
			"on-chain amounts are bounded by what a token can hold (max supply 2^64-1 main units, <= ~2^124 min units at scale 18); 2^128 is reached by the pure-function probe",
			"SwapFeeToken is reached through a message server built on Keeper.WithSwapRegistry inside a harness op (the app wiring has no registry)",
			"EVM->native: the ERC20 burn and the SwapToNative log are produced by the harness playing the contract; the hook under test is keeper.Hooks().PostTxProcessing",
		},
		Cases: func(t string) int { return tierN(t, 16, 64) },
		Run:   runTokenC10,
	})
}

// ---------------------------------------------------------------------------------------------
// snapshot

type tkSnap struct {
	Bal      map[string]sdk.Coins
	Supply   sdk.Coins
	Params   v1.Params
	Tokens   []v1.Token        // token records in store order
	SymKeys  []string          // store key (without prefix) of each record, parallel to Tokens
	MinIdx   map[string]string // min unit -> symbol (index 0x02)
	OwnerIdx map[string]bool   // hex(owner)/symbol (index 0x03)
	CtrIdx   map[string]string // contract (hex, lower) -> symbol (index 0x06)
	Burn     map[string]*big.Int
	EVM      map[string]*tkEVMContract
	Height   int64
}

func tkSnapshot(r *rig.Rig, evm *tkEVM) func(ctx sdk.Context) any {
	return func(ctx sdk.Context) any {
		s := &tkSnap{Bal: r.AllBalances(ctx), Supply: r.Supplies(ctx), Params: r.K.Token.GetParams(ctx),
			MinIdx: map[string]string{}, OwnerIdx: map[string]bool{}, CtrIdx: map[string]string{}, Burn: map[string]*big.Int{}, Height: ctx.BlockHeight()}
		r.WalkStore(ctx, tokentypes.StoreKey, tokentypes.PrefixTokenForSymbol, func(k, v []byte) bool {
			var t v1.Token
			r.Cdc.MustUnmarshal(v, &t)
			s.Tokens = append(s.Tokens, t)
			s.SymKeys = append(s.SymKeys, string(k[1:]))
			return false
		})
		r.WalkStore(ctx, tokentypes.StoreKey, tokentypes.PrefixTokenForMinUint, func(k, v []byte) bool {
			var sv gogotypes.StringValue
			r.Cdc.MustUnmarshal(v, &sv)
			s.MinIdx[string(k[1:])] = sv.Value
			return false
		})
		r.WalkStore(ctx, tokentypes.StoreKey, tokentypes.PrefixTokens, func(k, v []byte) bool {
			var sv gogotypes.StringValue
			r.Cdc.MustUnmarshal(v, &sv)
			rest := k[1:]
			if len(rest) >= len(sv.Value) {
				s.OwnerIdx[hex.EncodeToString(rest[:len(rest)-len(sv.Value)])+"/"+string(rest[len(rest)-len(sv.Value):])] = true
			} else {
				s.OwnerIdx["?/"+sv.Value] = true
			}
			return false
		})
		r.WalkStore(ctx, tokentypes.StoreKey, tokentypes.PrefixTokenForContract, func(k, v []byte) bool {
			var sv gogotypes.StringValue
			r.Cdc.MustUnmarshal(v, &sv)
			s.CtrIdx[strings.ToLower(common.BytesToAddress(k[1:]).Hex())] = sv.Value
			return false
		})
		r.WalkStore(ctx, tokentypes.StoreKey, tokentypes.PrefixBurnTokenAmt, func(k, v []byte) bool {
			var c sdk.Coin
			r.Cdc.MustUnmarshal(v, &c)
			s.Burn[string(k[1:])] = bi(c.Amount)
			return false
		})
		if evm != nil {
			s.EVM = evm.state(ctx)
		}
		return s
	}
}

func (s *tkSnap) bySymbol(sym string) *v1.Token {
	for i := range s.Tokens {
		if s.Tokens[i].Symbol == sym {
			return &s.Tokens[i]
		}
	}
	return nil
}

func (s *tkSnap) byMinUnit(mu string) *v1.Token {
	for i := range s.Tokens {
		if s.Tokens[i].MinUnit == mu {
			return &s.Tokens[i]
		}
	}
	return nil
}

func (s *tkSnap) supplyOf(denom string) *big.Int { return amountOf(s.Supply, denom) }

func (s *tkSnap) balOf(addr, denom string) *big.Int { return amountOf(s.Bal[addr], denom) }

func tkPow10(n uint32) *big.Int { return new(big.Int).Exp(big.NewInt(10), big.NewInt(int64(n)), nil) }

// capOf returns max_supply x 10^scale.
func tkCap(t *v1.Token) *big.Int {
	return new(big.Int).Mul(new(big.Int).SetUint64(t.MaxSupply), tkPow10(t.Scale))
}

// ---------------------------------------------------------------------------------------------
// tags

type tkTag struct {
	Kind   string // issue|mint|edit|burn|transfer|params|send|deploy|to-erc20|from-erc20|hook|swapfee|arm|route-swapfee
	Role   string // owner|prev-owner|stranger|holder|authority|non-authority
	Var    string // variant of the intent (amount / bound / duplicate kind ...)
	Rcpt   string // receiver kind
	Sym    string
	Basic  bool // message fails ValidateBasic (never reaches a handler)
	Fault  string
	Op     *tkOpArgs // harness-op arguments of injected operations
	Routed sdk.Msg   // message routed through the authority path by the carrier tx
}

func (t *tkTag) String() string {
	return fmt.Sprintf("%s/%s/%s/%s/%s", t.Kind, t.Role, t.Var, t.Rcpt, t.Sym)
}

// ---------------------------------------------------------------------------------------------
// generator

type tkGen struct {
	run  *ev.Run
	r    *rig.Rig
	rng  *rand.Rand
	accs []*rig.Account
	evm  *tkEVM // nil when the app runs on the repository mock
	snap func(ctx sdk.Context) any
	s    *tkSnap
	// prev: symbol -> previous owners (learned from successful transfers)
	prev map[string][]string
	// poisoned: accounts that submitted a tx failing ValidateBasic in this block (their later
	// txs in the block would fail on the sequence number)
	poisoned map[string]bool
	serial   int
	prefix   string // name prefix of generated symbols (unique per generator)
	hostile  bool   // director mode: hostile intents and ValidateBasic failures allowed
	deployed int
	// mockEVM: the app runs on the repository's in-memory mock (shared chains): deploy at most one
	// contract (the mock puts every contract on one address) and never burn above an ERC20 balance.
	mockEVM bool
	// splice stanza: the account that plays it, and whether its last step was sent
	spliceBy   string
	spliceSym  string
	spliceDone bool
	// wordAmt: the next conversion asks for a whole number of 64-bit words (set while a contract fault is armed)
	wordAmt bool
}

func newTkGen(run *ev.Run, r *rig.Rig, evm *tkEVM, hostile bool) *tkGen {
	return &tkGen{run: run, r: r, rng: run.Rng, accs: r.Accounts, evm: evm, snap: tkSnapshot(r, evm), prev: map[string][]string{}, poisoned: map[string]bool{}, prefix: "k", hostile: hostile}
}

func (g *tkGen) begin() {
	g.s = g.snap(g.r.Ctx()).(*tkSnap)
	g.poisoned = map[string]bool{}
}

// resync aligns the local sequence numbers with the chain (a tx rejected before the ante
// handler's sequence increment would otherwise wedge the account).
func (g *tkGen) resync() {
	ctx := g.r.Ctx()
	for _, a := range g.accs {
		if seq, err := g.r.App.AccountKeeper.GetSequence(ctx, a.Addr); err == nil {
			a.Seq = seq
		}
	}
}

func (g *tkGen) acc(addr string) *rig.Account {
	for _, a := range g.accs {
		if a.Addr.String() == addr {
			return a
		}
	}
	return nil
}

func (g *tkGen) anyAcc(except ...string) *rig.Account {
	for _, i := range g.rng.Perm(len(g.accs)) {
		a := g.accs[i]
		if g.poisoned[a.Addr.String()] {
			continue
		}
		skip := false
		for _, e := range except {
			if e == a.Addr.String() {
				skip = true
			}
		}
		if !skip {
			return a
		}
	}
	return nil
}

// mk signs msg with a; messages that fail ValidateBasic are only sent in hostile mode and
// poison the account for the rest of the block.
func (g *tkGen) mk(a *rig.Account, tag *tkTag, msg sdk.Msg) (rig.Tx, bool) {
	if a == nil || g.poisoned[a.Addr.String()] {
		return rig.Tx{}, false
	}
	if vb, ok := msg.(sdk.HasValidateBasic); ok {
		if err := vb.ValidateBasic(); err != nil {
			if !g.hostile {
				return rig.Tx{}, false
			}
			tag.Basic = true
			g.poisoned[a.Addr.String()] = true
		}
	}
	return g.r.Mk(a, tag, msg), true
}

func (g *tkGen) fresh(n int) string {
	g.serial++
	s := g.prefix + strconv.FormatInt(int64(g.serial), 36)
	for len(s) < n {
		s += string(rune('a' + g.rng.Intn(26)))
	}
	return s
}

// ownedTokens returns the tokens whose owner is one of the generator's accounts.
func (g *tkGen) ownedTokens() []*v1.Token {
	var out []*v1.Token
	for i := range g.s.Tokens {
		if g.acc(g.s.Tokens[i].Owner) != nil {
			out = append(out, &g.s.Tokens[i])
		}
	}
	return out
}

func (g *tkGen) pickToken(pred func(t *v1.Token) bool) *v1.Token {
	toks := g.ownedTokens()
	for _, i := range g.rng.Perm(len(toks)) {
		if pred == nil || pred(toks[i]) {
			return toks[i]
		}
	}
	return nil
}

// nonOwner picks the actor of a hostile attempt on t: a previous owner if there is one (half of
// the time), otherwise any other account.
func (g *tkGen) nonOwner(t *v1.Token) (*rig.Account, string) {
	if ps := g.prev[t.Symbol]; len(ps) > 0 && g.rng.Intn(2) == 0 {
		p := ps[g.rng.Intn(len(ps))]
		if p != t.Owner {
			if a := g.acc(p); a != nil && !g.poisoned[p] {
				return a, fmt.Sprintf("prev-owner(%d transfers)", len(ps))
			}
		}
	}
	return g.anyAcc(t.Owner), "stranger"
}

var tkBlocked = []string{authtypes.FeeCollectorName, "distribution", "mint", "bonded_tokens_pool", "not_bonded_tokens_pool"}

func (g *tkGen) blockedAddr() sdk.AccAddress {
	return authtypes.NewModuleAddress(tkBlocked[g.rng.Intn(len(tkBlocked))])
}

func (g *tkGen) issue() (rig.Tx, bool) {
	rng := g.rng
	a := g.anyAcc()
	if a == nil {
		return rig.Tx{}, false
	}
	tag := &tkTag{Kind: "issue", Role: "owner"}
	scale := uint32(rng.Intn(19))
	if g.hostile && rng.Intn(25) == 0 {
		scale = 19
		tag.Var = "scale19"
	}
	var initial uint64
	switch rng.Intn(7) {
	case 0:
		initial = 0
	case 1:
		initial = 1
	case 2:
		initial = 2
	case 3:
		initial = uint64(1 + rng.Intn(1000))
	case 4:
		initial = uint64(1_000_000 + rng.Intn(1_000_000))
	case 5:
		initial = tokentypes.MaximumInitSupply
	default:
		initial = uint64(rng.Int63n(int64(tokentypes.MaximumInitSupply)))
	}
	if g.hostile && rng.Intn(30) == 0 {
		initial = tokentypes.MaximumInitSupply + 1
		tag.Var = "initial>limit"
	}
	var max uint64
	mv := ""
	switch rng.Intn(7) {
	case 0:
		max, mv = 0, "default"
	case 1:
		max, mv = initial, "=initial"
	case 2:
		max, mv = initial+1, "initial+1"
	case 3:
		max, mv = initial+uint64(rng.Intn(1000)), "initial+small"
	case 4:
		max, mv = 1_000_000_000_000_000, "1e15"
	case 5:
		max, mv = math.MaxUint64, "2^64-1"
	default:
		if g.hostile && initial > 1 {
			max, mv = initial-1, "<initial"
		} else {
			max, mv = initial*2+1, "2x"
		}
	}
	if tag.Var == "" {
		tag.Var = "max" + mv
	}
	symLen := pick(rng, 3, 3, 4, 5, 6, 8, 12, 16, 32, 64)
	sym := g.fresh(symLen)
	mu := "m" + g.fresh(pick(rng, 3, 5, 9, 20, 63))
	if len(mu) > 64 {
		mu = mu[:64]
	}
	tag.Sym = sym
	msg := &v1.MsgIssueToken{Symbol: sym, Name: "tok " + sym[:3], Scale: scale, MinUnit: mu, InitialSupply: initial, MaxSupply: max, Mintable: rng.Intn(3) > 0, Owner: a.Addr.String()}
	return g.mk(a, tag, msg)
}

// issueShadow issues a token whose symbol is the min unit of an existing token (the two namespaces are separate, so
// this is legal): every later operation naming that min unit must still mean the older token.
func (g *tkGen) issueShadow() (rig.Tx, bool) {
	rng := g.rng
	a := g.anyAcc()
	if a == nil {
		return rig.Tx{}, false
	}
	for _, i := range rng.Perm(len(g.s.Tokens)) {
		t := g.s.Tokens[i]
		if g.s.bySymbol(t.MinUnit) != nil || tokentypes.ValidateSymbol(t.MinUnit) != nil {
			continue
		}
		tag := &tkTag{Kind: "issue", Role: "stranger", Var: "cross-symbol-is-others-minunit", Sym: t.MinUnit}
		msg := &v1.MsgIssueToken{Symbol: t.MinUnit, Name: "shadow", Scale: uint32(rng.Intn(19)), MinUnit: "msh" + g.fresh(5), InitialSupply: uint64(1_000_000 + rng.Intn(1_000_000)), MaxSupply: 0, Mintable: true, Owner: a.Addr.String()}
		return g.mk(a, tag, msg)
	}
	return rig.Tx{}, false
}

// zeroCap walks one token through: issued without supply, without a maximum and not mintable (the stored maximum is
// 0), made mintable by an edit that leaves the maximum alone, handed to another owner. Each call takes the next step.
func (g *tkGen) zeroCap() (rig.Tx, bool) {
	var t *v1.Token
	for i := range g.s.Tokens {
		if strings.HasPrefix(g.s.Tokens[i].Symbol, "zcap") {
			t = &g.s.Tokens[i]
		}
	}
	switch {
	case t == nil:
		a := g.anyAcc()
		if a == nil {
			return rig.Tx{}, false
		}
		sym := "zcap" + g.fresh(4)
		return g.mk(a, &tkTag{Kind: "issue", Role: "owner", Var: "zero-cap", Sym: sym}, &v1.MsgIssueToken{Symbol: sym, Name: "zero cap", Scale: 2, MinUnit: "mz" + g.fresh(5), InitialSupply: 0, MaxSupply: 0, Mintable: false, Owner: a.Addr.String()})
	case !t.Mintable:
		a := g.acc(t.Owner)
		if a == nil {
			return rig.Tx{}, false
		}
		return g.mk(a, &tkTag{Kind: "edit", Role: "owner", Var: "zero-cap-made-mintable", Sym: t.Symbol}, &v1.MsgEditToken{Symbol: t.Symbol, Name: v1.DoNotModify, MaxSupply: 0, Mintable: tokentypes.True, Owner: t.Owner})
	default:
		a := g.acc(t.Owner)
		if a == nil {
			return rig.Tx{}, false
		}
		var dst string
		for _, b := range g.accs {
			if b != a && !g.poisoned[b.Addr.String()] {
				dst = b.Addr.String()
				break
			}
		}
		if dst == "" {
			return rig.Tx{}, false
		}
		return g.mk(a, &tkTag{Kind: "transfer", Role: "owner", Sym: t.Symbol}, &v1.MsgTransferTokenOwner{SrcOwner: t.Owner, DstOwner: dst, Symbol: t.Symbol})
	}
}

// splice walks one attack on the (owner, symbol) index, whose key is the owner's bytes followed by the symbol with nothing
// in between: A issues the token "spl"+S and hands it to B; A issues the token S and hands it to the 23-byte address
// bytes(A)+"spl" (addresses of any length up to 255 are valid); then A, the previous owner, hands "spl"+S to a third
// account. Each call takes the next step.
func (g *tkGen) splice() (rig.Tx, bool) {
	const pfx = "spl"
	var victim, bait *v1.Token
	if g.spliceDone {
		return rig.Tx{}, false
	}
	if g.spliceSym != "" {
		victim = g.s.bySymbol(g.spliceSym)
	}
	if victim == nil {
		a := g.anyAcc()
		if a == nil {
			return rig.Tx{}, false
		}
		sym := pfx + "b" + g.fresh(4)
		g.spliceBy, g.spliceSym = a.Addr.String(), sym
		return g.mk(a, &tkTag{Kind: "issue", Role: "owner", Var: "splice-victim", Sym: sym}, &v1.MsgIssueToken{Symbol: sym, Name: "splice victim", Scale: 6, MinUnit: "ms" + g.fresh(5), InitialSupply: 1000, MaxSupply: 2000, Mintable: true, Owner: a.Addr.String()})
	}
	a := g.acc(g.spliceBy)
	if a == nil || g.spliceDone {
		return rig.Tx{}, false
	}
	other := func(except ...string) string {
		for _, b := range g.accs {
			ok := !g.poisoned[b.Addr.String()]
			for _, e := range except {
				ok = ok && b.Addr.String() != e
			}
			if ok {
				return b.Addr.String()
			}
		}
		return ""
	}
	baitSym := victim.Symbol[len(pfx):]
	bait = g.s.bySymbol(baitSym)
	crafted := sdk.AccAddress(append(append([]byte{}, a.Addr.Bytes()...), pfx...)).String()
	switch {
	case victim.Owner == a.Addr.String():
		dst := other(a.Addr.String())
		if dst == "" {
			return rig.Tx{}, false
		}
		return g.mk(a, &tkTag{Kind: "transfer", Role: "owner", Rcpt: "other", Var: "splice-victim-handed-on", Sym: victim.Symbol}, &v1.MsgTransferTokenOwner{SrcOwner: a.Addr.String(), DstOwner: dst, Symbol: victim.Symbol})
	case bait == nil:
		return g.mk(a, &tkTag{Kind: "issue", Role: "owner", Var: "splice-bait", Sym: baitSym}, &v1.MsgIssueToken{Symbol: baitSym, Name: "splice bait", Scale: 0, MinUnit: "mb" + g.fresh(5), InitialSupply: 1, MaxSupply: 10, Mintable: false, Owner: a.Addr.String()})
	case bait.Owner == a.Addr.String():
		return g.mk(a, &tkTag{Kind: "transfer", Role: "owner", Rcpt: "owner-bytes-plus-symbol-prefix", Var: "splice-bait-handed-to-crafted-address", Sym: baitSym}, &v1.MsgTransferTokenOwner{SrcOwner: a.Addr.String(), DstOwner: crafted, Symbol: baitSym})
	case bait.Owner == crafted:
		dst := other(a.Addr.String(), victim.Owner)
		if dst == "" {
			return rig.Tx{}, false
		}
		g.spliceDone = true
		g.run.Count("previous-owner-hands-over-after-splicing-the-owner-index-key", 1)
		return g.mk(a, &tkTag{Kind: "transfer", Role: "prev-owner", Rcpt: "accomplice", Var: "spliced-owner-index-key", Sym: victim.Symbol}, &v1.MsgTransferTokenOwner{SrcOwner: a.Addr.String(), DstOwner: dst, Symbol: victim.Symbol})
	}
	// the bait went elsewhere meanwhile: start over with a new pair
	g.spliceSym = ""
	return rig.Tx{}, false
}

// issueDup re-issues a taken symbol and/or min unit, by anyone.
func (g *tkGen) issueDup() (rig.Tx, bool) {
	rng := g.rng
	if len(g.s.Tokens) == 0 {
		return rig.Tx{}, false
	}
	t := g.s.Tokens[rng.Intn(len(g.s.Tokens))]
	a := g.anyAcc()
	if a == nil {
		return rig.Tx{}, false
	}
	role := "stranger"
	if a.Addr.String() == t.Owner {
		role = "owner"
	} else {
		for _, p := range g.prev[t.Symbol] {
			if p == a.Addr.String() {
				role = "prev-owner"
			}
		}
	}
	tag := &tkTag{Kind: "issue", Role: role, Sym: t.Symbol}
	sym, mu := g.fresh(pick(rng, 3, 6, 10)), "m"+g.fresh(pick(rng, 3, 7))
	switch rng.Intn(7) {
	case 0, 1:
		tag.Var = "dup-symbol"
		sym = t.Symbol
	case 2, 3:
		tag.Var = "dup-minunit"
		mu = t.MinUnit
	case 4:
		tag.Var = "dup-both"
		sym, mu = t.Symbol, t.MinUnit
	case 5:
		if !g.hostile {
			return rig.Tx{}, false
		}
		tag.Var = "dup-symbol-uppercase"
		sym = strings.ToUpper(t.Symbol)
	default:
		// the two namespaces are separate: a symbol equal to another token's min unit (and vice
		// versa) identifies nothing that exists yet
		if rng.Intn(2) == 0 {
			if g.s.bySymbol(t.MinUnit) != nil || tokentypes.ValidateSymbol(t.MinUnit) != nil {
				return rig.Tx{}, false
			}
			tag.Var = "cross-symbol-is-others-minunit"
			sym = t.MinUnit
		} else {
			if g.s.byMinUnit(t.Symbol) != nil || tokentypes.ValidateMinUnit(t.Symbol) != nil {
				return rig.Tx{}, false
			}
			tag.Var = "cross-minunit-is-others-symbol"
			mu = t.Symbol
		}
	}
	msg := &v1.MsgIssueToken{Symbol: sym, Name: "dup", Scale: uint32(rng.Intn(19)), MinUnit: mu, InitialSupply: uint64(rng.Intn(1000)), MaxSupply: 0, Mintable: true, Owner: a.Addr.String()}
	return g.mk(a, tag, msg)
}

func (g *tkGen) mintReceiver(owner *rig.Account, tag *tkTag) string {
	switch g.rng.Intn(10) {
	case 0, 1, 2, 3:
		tag.Rcpt = "empty"
		return ""
	case 4, 5:
		tag.Rcpt = "other"
		return g.accs[g.rng.Intn(len(g.accs))].Addr.String()
	case 6:
		if !g.hostile {
			tag.Rcpt = "empty"
			return ""
		}
		tag.Rcpt = "blocked"
		return g.blockedAddr().String()
	case 7:
		tag.Rcpt = "token-module"
		return authtypes.NewModuleAddress(tokentypes.ModuleName).String()
	case 8:
		tag.Rcpt = "fresh"
		return sdk.AccAddress([]byte(fmt.Sprintf("tk-fresh-address-%03d", g.rng.Intn(1000)))).String()
	default:
		tag.Rcpt = "self"
		return owner.Addr.String()
	}
}

func (g *tkGen) mint(hostileActor bool) (rig.Tx, bool) {
	rng := g.rng
	t := g.pickToken(func(t *v1.Token) bool { return t.Mintable || rng.Intn(4) == 0 })
	if t == nil {
		return rig.Tx{}, false
	}
	tag := &tkTag{Kind: "mint", Role: "owner", Sym: t.Symbol}
	a := g.acc(t.Owner)
	if hostileActor {
		a, tag.Role = g.nonOwner(t)
	}
	if a == nil {
		return rig.Tx{}, false
	}
	room := new(big.Int).Sub(tkCap(t), g.s.supplyOf(t.MinUnit))
	var amt *big.Int
	switch k := rng.Intn(8); {
	case k == 0:
		tag.Var, amt = "one", big.NewInt(1)
	case k == 1 && room.Sign() > 0:
		tag.Var, amt = "exactly-mintable", new(big.Int).Set(room)
	case k == 2 && room.Sign() >= 0 && (g.hostile || rng.Intn(4) == 0):
		tag.Var, amt = "mintable+1", new(big.Int).Add(room, bigOne)
	case k == 3 && g.hostile:
		tag.Var, amt = "huge", new(big.Int).Add(pow2(128), big.NewInt(int64(rng.Intn(1000))))
	default:
		if room.Sign() > 0 {
			tag.Var, amt = "within", randBelow(rng, room)
			if rng.Intn(2) == 0 { // small, fractional in main units
				amt = randBelow(rng, new(big.Int).Add(tkPow10(t.Scale), tkPow10(t.Scale)))
				if amt.Cmp(room) > 0 {
					amt = new(big.Int).Set(room)
				}
			}
		} else {
			tag.Var, amt = "no-room", big.NewInt(int64(1+rng.Intn(100)))
		}
	}
	if !t.Mintable {
		tag.Var = "non-mintable/" + tag.Var
	}
	rcv := g.mintReceiver(a, tag)
	return g.mk(a, tag, &v1.MsgMintToken{Coin: coin(t.MinUnit, amt), Receiver: rcv, Owner: a.Addr.String()})
}

func (g *tkGen) edit(hostileActor bool) (rig.Tx, bool) {
	rng := g.rng
	t := g.pickToken(nil)
	if t == nil {
		return rig.Tx{}, false
	}
	tag := &tkTag{Kind: "edit", Role: "owner", Sym: t.Symbol}
	a := g.acc(t.Owner)
	if hostileActor {
		a, tag.Role = g.nonOwner(t)
	}
	if a == nil {
		return rig.Tx{}, false
	}
	sup := g.s.supplyOf(t.MinUnit)
	p := tkPow10(t.Scale)
	floor := new(big.Int).Quo(sup, p)
	ceil := ceilDiv(sup, p)
	frac := floor.Cmp(ceil) != 0
	var max uint64
	u := func(b *big.Int) uint64 {
		if b.IsUint64() {
			return b.Uint64()
		}
		return math.MaxUint64
	}
	switch k := rng.Intn(9); {
	case k <= 1 && floor.Sign() > 0:
		max = u(floor)
		if frac {
			tag.Var = "max=floor(circulating)<circulating"
		} else {
			tag.Var = "max=circulating"
		}
	case k == 2 || k == 3:
		max = u(ceil)
		if frac {
			tag.Var = "max=ceil(circulating)"
		} else {
			tag.Var = "max=circulating"
		}
		if max == 0 {
			tag.Var = "max-unchanged"
		}
	case k == 4 && floor.Cmp(bigOne) > 0:
		max, tag.Var = u(new(big.Int).Sub(floor, bigOne)), "max<floor(circulating)"
	case k == 5:
		max, tag.Var = math.MaxUint64, "max=2^64-1"
	case k == 6:
		max, tag.Var = u(new(big.Int).Add(ceil, big.NewInt(int64(1+rng.Intn(1000))))), "max=above"
	default:
		max, tag.Var = 0, "max-unchanged"
	}
	name := v1.DoNotModify
	if rng.Intn(4) == 0 {
		name = fmt.Sprintf("renamed %d", rng.Intn(1000))
		tag.Var += "+name"
	}
	mintable := tokentypes.Nil
	switch rng.Intn(6) {
	case 0:
		mintable = tokentypes.False
		tag.Var += "+mintable=false"
	case 1, 2:
		mintable = tokentypes.True
		tag.Var += "+mintable=true"
	}
	// the field is a string on the wire: every spelling the standard parser reads is a valid way of saying true or false
	if mintable != tokentypes.Nil && rng.Intn(3) == 0 {
		if mintable == tokentypes.False {
			mintable = tokentypes.Bool(pick(rng, "False", "FALSE", "0", "f", "F"))
		} else {
			mintable = tokentypes.Bool(pick(rng, "True", "TRUE", "1", "t", "T"))
		}
		tag.Var += "(other spelling)"
	}
	return g.mk(a, tag, &v1.MsgEditToken{Symbol: t.Symbol, Name: name, MaxSupply: max, Mintable: mintable, Owner: a.Addr.String()})
}

// holdings lists (account, min unit) pairs with a positive balance of a registered token.
func (g *tkGen) holdings(includeNative bool) [][2]string {
	var out [][2]string
	for _, a := range g.accs {
		if g.poisoned[a.Addr.String()] {
			continue
		}
		for _, c := range g.s.Bal[a.Addr.String()] {
			t := g.s.byMinUnit(c.Denom)
			if t == nil || (!includeNative && g.acc(t.Owner) == nil) {
				continue
			}
			out = append(out, [2]string{a.Addr.String(), c.Denom})
		}
	}
	return out
}

func (g *tkGen) burn() (rig.Tx, bool) {
	rng := g.rng
	hs := g.holdings(rng.Intn(8) == 0)
	if len(hs) == 0 {
		return rig.Tx{}, false
	}
	h := hs[rng.Intn(len(hs))]
	a := g.acc(h[0])
	t := g.s.byMinUnit(h[1])
	bal := g.s.balOf(h[0], h[1])
	tag := &tkTag{Kind: "burn", Role: "holder", Sym: t.Symbol}
	if a.Addr.String() == t.Owner {
		tag.Role = "owner"
	}
	native := g.acc(t.Owner) == nil
	var amt *big.Int
	switch k := rng.Intn(8); {
	case k == 0:
		tag.Var, amt = "one", big.NewInt(1)
	case k == 1 && !native:
		tag.Var, amt = "all", new(big.Int).Set(bal)
	case k == 2 && g.hostile:
		tag.Var, amt = "balance+1", new(big.Int).Add(bal, bigOne)
	case k == 3 && t.Scale > 0:
		// less than one main unit
		tag.Var, amt = "sub-unit", randBelow(rng, new(big.Int).Sub(tkPow10(t.Scale), bigOne))
	default:
		lim := bal
		if native {
			lim = big.NewInt(1_000_000)
		}
		tag.Var, amt = "part", randBelow(rng, lim)
		if rng.Intn(2) == 0 { // a few main units plus a fraction
			x := randBelow(rng, new(big.Int).Mul(tkPow10(t.Scale), big.NewInt(3)))
			if x.Cmp(lim) <= 0 {
				amt = x
			}
		}
	}
	if amt.Cmp(bal) > 0 && tag.Var != "balance+1" {
		amt = new(big.Int).Set(bal)
	}
	if new(big.Int).Rem(amt, tkPow10(t.Scale)).Sign() != 0 {
		tag.Var += "/fractional"
	}
	return g.mk(a, tag, &v1.MsgBurnToken{Coin: coin(h[1], amt), Sender: a.Addr.String()})
}

func (g *tkGen) burnHostile() (rig.Tx, bool) {
	a := g.anyAcc()
	if a == nil {
		return rig.Tx{}, false
	}
	tag := &tkTag{Kind: "burn", Role: "stranger"}
	switch g.rng.Intn(2) {
	case 0: // a denom that is no registered token
		tag.Var = "unregistered-denom"
		return g.mk(a, tag, &v1.MsgBurnToken{Coin: sdk.NewInt64Coin("zz"+g.fresh(4), 1), Sender: a.Addr.String()})
	default: // a token the account does not hold
		for i := range g.s.Tokens {
			t := &g.s.Tokens[i]
			if g.acc(t.Owner) != nil && g.s.balOf(a.Addr.String(), t.MinUnit).Sign() == 0 {
				tag.Var, tag.Sym = "not-held", t.Symbol
				return g.mk(a, tag, &v1.MsgBurnToken{Coin: sdk.NewInt64Coin(t.MinUnit, 1), Sender: a.Addr.String()})
			}
		}
	}
	return rig.Tx{}, false
}

func (g *tkGen) transfer(hostileActor bool) (rig.Tx, bool) {
	rng := g.rng
	t := g.pickToken(nil)
	if t == nil {
		return rig.Tx{}, false
	}
	tag := &tkTag{Kind: "transfer", Role: "owner", Sym: t.Symbol}
	a := g.acc(t.Owner)
	if hostileActor {
		a, tag.Role = g.nonOwner(t)
	}
	if a == nil {
		return rig.Tx{}, false
	}
	var dst string
	switch k := rng.Intn(12); {
	case k == 0 && g.hostile:
		tag.Rcpt, dst = "blocked", g.blockedAddr().String()
	case k == 1 && g.hostile && !hostileActor:
		tag.Rcpt, dst = "self", a.Addr.String()
	case hostileActor:
		// a non-owner hands the token to an accomplice (handing it to himself is refused by ValidateBasic)
		b := g.anyAcc(a.Addr.String(), t.Owner)
		if b == nil {
			return rig.Tx{}, false
		}
		tag.Rcpt, dst = "accomplice", b.Addr.String()
	default:
		b := g.anyAcc(a.Addr.String())
		if b == nil {
			return rig.Tx{}, false
		}
		tag.Rcpt, dst = "other", b.Addr.String()
		// hand a token back to one of its previous owners now and then
		if ps := g.prev[t.Symbol]; len(ps) > 0 && rng.Intn(4) == 0 && ps[0] != a.Addr.String() {
			tag.Rcpt, dst = "previous-owner", ps[0]
		}
	}
	tag.Var = fmt.Sprintf("after-%d-transfers", len(g.prev[t.Symbol]))
	if len(g.prev[t.Symbol]) > 2 {
		tag.Var = "after->2-transfers"
	}
	if rng.Intn(8) == 0 {
		// the other valid spelling of the same account (all upper case)
		dst = strings.ToUpper(dst)
		tag.Rcpt += "/upper-case"
		g.run.Count("new-owner-spelled-in-upper-case", 1)
	}
	return g.mk(a, tag, &v1.MsgTransferTokenOwner{SrcOwner: a.Addr.String(), DstOwner: dst, Symbol: t.Symbol})
}

var (
	tkDecTiny   = sdkmath.LegacySmallestDec()
	tkDecAlmost = sdkmath.LegacyOneDec().Sub(sdkmath.LegacySmallestDec())
)

func (g *tkGen) ratio01() (sdkmath.LegacyDec, string) {
	switch g.rng.Intn(8) {
	case 0:
		return sdkmath.LegacyZeroDec(), "0"
	case 1:
		return tkDecTiny, "1e-18"
	case 2:
		return sdkmath.LegacyNewDecWithPrec(4, 1), "0.4"
	case 3:
		return sdkmath.LegacyNewDecWithPrec(5, 1), "0.5"
	case 4:
		return tkDecAlmost, "1-1e-18"
	case 5:
		return sdkmath.LegacyOneDec(), "1"
	case 6:
		return sdkmath.LegacyNewDecWithPrec(1, 1), "0.1"
	default:
		return sdkmath.LegacyNewDecFromBigIntWithPrec(new(big.Int).Rand(g.rng, e18), 18), "random"
	}
}

func tkRatioClass(d sdkmath.LegacyDec) string {
	switch {
	case d.IsZero():
		return "0"
	case d.Equal(sdkmath.LegacyOneDec()):
		return "1"
	case d.Equal(tkDecTiny):
		return "1e-18"
	case d.Equal(tkDecAlmost):
		return "1-1e-18"
	case d.LT(sdkmath.LegacyNewDecWithPrec(5, 1)):
		return "(0,0.5)"
	default:
		return "[0.5,1)"
	}
}

// params changes tax rate, mint fee ratio and the base fee through the authority path.
func (g *tkGen) params() (rig.Tx, bool) {
	rng := g.rng
	a := g.anyAcc()
	if a == nil {
		return rig.Tx{}, false
	}
	p := g.s.Params
	tag := &tkTag{Kind: "params", Role: "authority"}
	var tv, rv string
	p.TokenTaxRate, tv = g.ratio01()
	p.MintTokenFeeRatio, rv = g.ratio01()
	native := v1.GetNativeToken().Symbol
	denom := native
	// now and then the fee is charged in a user token with a scale > 0 that every account can get hold of
	if rng.Intn(5) == 0 {
		if t := g.pickToken(func(t *v1.Token) bool { return t.Scale > 0 && g.s.supplyOf(t.MinUnit).Cmp(tkPow10(t.Scale+3)) > 0 }); t != nil {
			denom = t.Symbol
		}
	}
	amt := pick(rng, int64(0), 1, 7, 81, 60000, 1_000_000)
	if denom != native {
		amt = pick(rng, int64(1), 2, 7, 40)
	}
	p.IssueTokenBaseFee = sdk.NewInt64Coin(denom, amt)
	tag.Var = fmt.Sprintf("tax=%s/ratio=%s/fee=%d%s", tv, rv, amt, map[bool]string{true: "native", false: "user-token"}[denom == native])
	return g.r.InjectRoute(a, tag, &v1.MsgUpdateParams{Authority: g.r.GovAddr.String(), Params: p}), true
}

// paramsFixed sets given tax rate and mint fee ratio (scripted part of the director).
func (g *tkGen) paramsFixed(tax, ratio sdkmath.LegacyDec) (rig.Tx, bool) {
	a := g.anyAcc()
	if a == nil {
		return rig.Tx{}, false
	}
	p := g.s.Params
	p.TokenTaxRate, p.MintTokenFeeRatio = tax, ratio
	p.IssueTokenBaseFee = sdk.NewInt64Coin(v1.GetNativeToken().Symbol, 60000)
	tag := &tkTag{Kind: "params", Role: "authority", Var: fmt.Sprintf("tax=%s/ratio=%s/fee=60000native", tkRatioClass(tax), tkRatioClass(ratio))}
	return g.r.InjectRoute(a, tag, &v1.MsgUpdateParams{Authority: g.r.GovAddr.String(), Params: p}), true
}

// issuePlain / mintPlain are intents built to succeed (scripted part of the director).
func (g *tkGen) issuePlain() (rig.Tx, bool) {
	a := g.anyAcc()
	if a == nil {
		return rig.Tx{}, false
	}
	sym := g.fresh(pick(g.rng, 3, 5, 9))
	tag := &tkTag{Kind: "issue", Role: "owner", Var: "plain", Sym: sym}
	return g.mk(a, tag, &v1.MsgIssueToken{Symbol: sym, Name: "plain", Scale: uint32(g.rng.Intn(19)), MinUnit: "m" + g.fresh(4), InitialSupply: uint64(1 + g.rng.Intn(1000)), MaxSupply: math.MaxUint64, Mintable: true, Owner: a.Addr.String()})
}

func (g *tkGen) mintPlain() (rig.Tx, bool) {
	t := g.pickToken(func(t *v1.Token) bool {
		return t.Mintable && !g.poisoned[t.Owner] && new(big.Int).Sub(tkCap(t), g.s.supplyOf(t.MinUnit)).Cmp(tkPow10(t.Scale)) > 0
	})
	if t == nil {
		return rig.Tx{}, false
	}
	a := g.acc(t.Owner)
	tag := &tkTag{Kind: "mint", Role: "owner", Var: "plain", Rcpt: "empty", Sym: t.Symbol}
	return g.mk(a, tag, &v1.MsgMintToken{Coin: coin(t.MinUnit, randBelow(g.rng, tkPow10(t.Scale))), Owner: a.Addr.String()})
}

// send moves user tokens between accounts so that non-owners hold (and can burn) them.
func (g *tkGen) send() (rig.Tx, bool) {
	// while fees are charged in a user token, its biggest holder hands a tenth of his balance to each other account
	// (otherwise only operations whose fee is zero would ever succeed)
	if ft := g.s.bySymbol(g.s.Params.IssueTokenBaseFee.Denom); ft != nil && ft.MinUnit != v1.GetNativeToken().MinUnit {
		var rich *rig.Account
		for _, a := range g.accs {
			if !g.poisoned[a.Addr.String()] && (rich == nil || g.s.balOf(a.Addr.String(), ft.MinUnit).Cmp(g.s.balOf(rich.Addr.String(), ft.MinUnit)) > 0) {
				rich = a
			}
		}
		if rich != nil {
			share := new(big.Int).Quo(g.s.balOf(rich.Addr.String(), ft.MinUnit), big.NewInt(10))
			var msgs []sdk.Msg
			for _, b := range g.accs {
				if b != rich && share.Sign() > 0 && g.s.balOf(b.Addr.String(), ft.MinUnit).Cmp(share) < 0 {
					msgs = append(msgs, banktypes.NewMsgSend(rich.Addr, b.Addr, sdk.NewCoins(coin(ft.MinUnit, share))))
				}
			}
			if len(msgs) > 0 {
				return g.r.Mk(rich, &tkTag{Kind: "send", Var: "fee-token-distribution"}, msgs...), true
			}
		}
	}
	hs := g.holdings(false)
	if len(hs) == 0 {
		return rig.Tx{}, false
	}
	h := hs[g.rng.Intn(len(hs))]
	a := g.acc(h[0])
	b := g.anyAcc(h[0])
	if b == nil {
		return rig.Tx{}, false
	}
	amt := randFrac(g.rng, g.s.balOf(h[0], h[1]))
	return g.mk(a, &tkTag{Kind: "send"}, banktypes.NewMsgSend(a.Addr, b.Addr, sdk.NewCoins(coin(h[1], amt))))
}

func (g *tkGen) make(kind string) (rig.Tx, bool) {
	switch kind {
	case "issue":
		return g.issue()
	case "issue-dup":
		return g.issueDup()
	case "issue-shadow":
		return g.issueShadow()
	case "zero-cap":
		return g.zeroCap()
	case "splice":
		return g.splice()
	case "mint":
		return g.mint(false)
	case "mint-hostile":
		return g.mint(true)
	case "edit":
		return g.edit(false)
	case "edit-hostile":
		return g.edit(true)
	case "burn":
		return g.burn()
	case "burn-hostile":
		return g.burnHostile()
	case "transfer":
		return g.transfer(false)
	case "transfer-hostile":
		return g.transfer(true)
	case "params":
		return g.params()
	case "issue-plain":
		return g.issuePlain()
	case "mint-plain":
		return g.mintPlain()
	case "params-tax0":
		return g.paramsFixed(sdkmath.LegacyZeroDec(), sdkmath.LegacyOneDec())
	case "params-tax1":
		return g.paramsFixed(sdkmath.LegacyOneDec(), sdkmath.LegacyZeroDec())
	case "send":
		return g.send()
	case "deploy":
		return g.deploy(false)
	case "deploy-hostile":
		return g.deploy(true)
	case "to-erc20":
		return g.toERC20()
	case "from-erc20":
		return g.fromERC20()
	case "erc20-switch":
		return g.erc20Switch()
	}
	return rig.Tx{}, false
}

// ---------------------------------------------------------------------------------------------
// C09 director and monitor

type tkModelToken struct {
	Symbol, MinUnit string
	Scale           uint32
	Initial         uint64
	Owner           string
	Mintable        bool
	Max             uint64
	Name            string
	Prev            []string
	Genesis         bool
	MaxKnown        bool // Max is the stored maximum even if it is 0
}

type tkModel struct {
	bySymbol map[string]*tkModelToken
	byMin    map[string]*tkModelToken
	burned   map[string]*big.Int
}

func newTkModel(s *tkSnap) *tkModel {
	m := &tkModel{bySymbol: map[string]*tkModelToken{}, byMin: map[string]*tkModelToken{}, burned: map[string]*big.Int{}}
	for _, t := range s.Tokens {
		mt := &tkModelToken{Symbol: t.Symbol, MinUnit: t.MinUnit, Scale: t.Scale, Initial: t.InitialSupply, Owner: t.Owner, Mintable: t.Mintable, Max: t.MaxSupply, Name: t.Name, Genesis: true, MaxKnown: true}
		m.bySymbol[t.Symbol] = mt
		m.byMin[t.MinUnit] = mt
	}
	for d, b := range s.Burn {
		m.burned[d] = new(big.Int).Set(b)
	}
	return m
}

type tkC09 struct {
	run   *ev.Run
	r     *rig.Rig
	g     *tkGen
	model *tkModel
	// sharedIdxKeys: raw owner-index keys that two (owner, symbol) pairs have claimed at the same time
	sharedIdxKeys map[string]bool
}

func runTokenC09(run *ev.Run, c int) {
	if n := tierN(run.Tier, 16, 48); c >= n-2 {
		// the last two cases borrow the ERC20 director (the C09 chains have no EVM): of everything it judges only the
		// relations of this property are kept - here, that conversions leave the burn tallies alone
		run.KeyMap = func(key string) (string, bool) { return key, strings.HasPrefix(key, "C09:") }
		run.Class("borrowed-director", "erc20")
		runTokenERC20(run, c)
		return
	}
	rng := run.Rng
	bal := sdk.NewCoins(sdk.NewCoin(rig.BondDenom, toInt(pow2(150))))
	// every fourth case is born with 130 more tokens (all held by the first account): counts beyond a page of a hundred
	opts := rig.Options{Seed: fmt.Sprintf("tk9-%d-%d", run.Seed, c), NumAccounts: 6, Balances: bal, InflationOff: true, SubSecond: c%2 == 1}
	manyBorn := c%4 == 3
	if manyBorn {
		opts.GenesisMutator = tkManyTokensGenesis(130)
	}
	r := rig.New(opts)
	g := newTkGen(run, r, nil, true)
	r.Snapshot = g.snap
	d := &tkC09{run: run, r: r, g: g}
	d.model = newTkModel(g.snap(r.Ctx()).(*tkSnap))
	blocks := tierN(run.Tier, 220, 900)
	// the first blocks follow a script so that every required scenario class occurs by construction
	script := [][]string{
		{"issue", "issue", "issue", "issue"}, {"issue", "issue", "send", "send"}, {"mint", "mint", "burn", "burn"},
		{"issue-dup", "issue-dup", "burn", "edit", "splice"}, {"transfer", "burn", "edit", "splice"}, {"transfer-hostile", "mint-hostile", "edit-hostile", "splice"},
		{"transfer", "mint", "issue-dup", "zero-cap", "splice"}, {"transfer-hostile", "mint-hostile", "edit-hostile", "edit", "zero-cap", "splice"}, {"params", "issue", "mint", "zero-cap", "splice"},
		{"params-tax0"}, {"issue-plain", "mint-plain"}, {"issue-plain", "mint-plain"}, {"params-tax1"}, {"issue-plain", "mint-plain"}, {"issue-plain", "mint-plain"},
	}
	kinds := []string{"issue", "issue-dup", "mint", "mint-hostile", "edit", "edit-hostile", "burn", "burn-hostile", "transfer", "transfer-hostile", "params", "send", "splice"}
	weights := []int{10, 7, 16, 6, 16, 5, 16, 2, 7, 4, 4, 7, 2}
	for b := 0; b < blocks; b++ {
		g.begin()
		var txs []rig.Tx
		var want []string
		if b < len(script) {
			want = script[b]
		} else {
			w := weights
			if len(g.s.Tokens) > 60 { // keep the registry (and the cost of walking it) bounded
				w = append([]int{1, 3}, weights[2:]...)
			}
			for i, n := 0, 1+rng.Intn(5); i < n; i++ {
				want = append(want, kinds[weighted(rng, w)])
			}
		}
		for _, k := range want {
			for try := 0; try < 4; try++ {
				if tx, ok := g.make(k); ok {
					txs = append(txs, tx)
					break
				}
			}
		}
		if restartFromOwnExport(run, r, c, b, blocks) {
			g.resync()
		}
		if manyBorn && (b == 17 || b == 60) {
			// the holder burns a little of every token the chain was born with: more than a hundred burn tallies
			holder := r.Acc(0)
			for _, t := range g.s.Tokens {
				if !strings.HasPrefix(t.Symbol, "gt") || g.s.balOf(holder.Addr.String(), t.MinUnit).Sign() == 0 {
					continue
				}
				if tx, ok := g.mk(holder, &tkTag{Kind: "burn", Role: "holder", Var: "a-little-of-every-genesis-token", Sym: t.Symbol}, &v1.MsgBurnToken{Coin: coin(t.MinUnit, big.NewInt(int64(1+b%7))), Sender: holder.Addr.String()}); ok {
					txs = append(txs, tx)
				}
			}
		}
		br := r.DeliverBlock(time.Duration(1+rng.Intn(20))*time.Second, txs)
		d.observe(br)
		d.burnQuery(br.Height)
		g.resync()
	}
	if manyBorn {
		run.Require("burn-tallies-listed-by-the-query(max)>100", 1)
	}
	for _, k := range []string{
		"issue-ok", "mint-ok", "edit-ok", "burn-ok", "transfer-ok", "params-ok",
		"burn-fractional-ok", "reissue-taken-symbol-rejected", "reissue-taken-minunit-rejected",
		"mint-by-non-owner-rejected", "edit-by-non-owner-rejected", "transfer-by-non-owner-rejected",
		"previous-owner-rejected", "owner-after-2-transfers-ok", "mint-non-mintable-rejected", "mint-above-cap-rejected",
		"edit-max-at-or-above-circulating-ok", "edit-max-below-circulating-attempted", "fee-split-evaluated",
		"fee-at-tax=0", "fee-at-tax=1", "fee-at-mint-ratio=0", "fee-at-mint-ratio=1", "previous-owner-hands-over-after-splicing-the-owner-index-key",
	} {
		run.Require(k, 1)
	}
}

func tkScaleClass(s uint32) string {
	switch {
	case s == 0:
		return "scale0"
	case s < 6:
		return "scale1-5"
	case s < 18:
		return "scale6-17"
	default:
		return "scale18"
	}
}

func (d *tkC09) observe(br *rig.BlockRecord) {
	run := d.run
	if br.FinalErr != nil {
		run.Inconc("FinalizeBlock failed at height %d: %v", br.Height, br.FinalErr)
		return
	}
	for _, tx := range br.Txs {
		tag, _ := tx.Tag.(*tkTag)
		if tag == nil {
			continue
		}
		run.Op("h=%d #%d %s %s ok=%v %s", br.Height, tx.Index, tag, msgBrief(tx.Msgs), tx.OK(), logBrief(tx))
		if !tx.OK() {
			d.rejected(tx, tag)
			continue
		}
		if tx.Pre == nil || tx.Post == nil {
			continue
		}
		d.accepted(br, tx, tag, tx.Pre.(*tkSnap), tx.Post.(*tkSnap))
	}
}

// rejected only counts scenario classes: a rejection is never a violation.
func (d *tkC09) rejected(tx *rig.TxRecord, tag *tkTag) {
	run := d.run
	run.Count(tag.Kind+"-rejected", 1)
	if tag.Basic {
		run.Count("rejected-by-validate-basic", 1)
		run.Count("rejected-by-validate-basic:"+tag.Kind+":"+tag.Var, 1)
		return
	}
	hostileRole := tag.Role == "stranger" || strings.HasPrefix(tag.Role, "prev-owner")
	switch tag.Kind {
	case "issue":
		if tag.Var == "dup-symbol" || tag.Var == "dup-both" {
			run.Count("reissue-taken-symbol-rejected", 1)
			run.Class("reissue", tag.Var, tag.Role, "rejected")
		}
		if tag.Var == "dup-minunit" {
			run.Count("reissue-taken-minunit-rejected", 1)
			run.Class("reissue", tag.Var, tag.Role, "rejected")
		}
	case "mint", "edit", "transfer":
		if hostileRole {
			run.Count(tag.Kind+"-by-non-owner-rejected", 1)
			if strings.HasPrefix(tag.Role, "prev-owner") {
				run.Count("previous-owner-rejected", 1)
			}
			run.Class("authority", tag.Kind, tag.Role, "rejected")
		} else if tag.Kind == "mint" {
			if strings.HasPrefix(tag.Var, "non-mintable") {
				run.Count("mint-non-mintable-rejected", 1)
				run.Class("mint", "non-mintable", "rejected")
			} else if tag.Var == "mintable+1" || tag.Var == "huge" || tag.Var == "no-room" {
				run.Count("mint-above-cap-rejected", 1)
				run.Class("mint", tag.Var, "rejected")
			}
		} else if tag.Kind == "edit" && (strings.HasPrefix(tag.Var, "max<floor") || strings.HasPrefix(tag.Var, "max=floor(circulating)<")) {
			run.Count("edit-max-below-circulating-attempted", 1)
			run.Class("edit", tag.Var, "rejected")
		}
	}
}

func (d *tkC09) roleOf(addr string, tx *rig.TxRecord) string {
	switch addr {
	case tx.Signer.String():
		return "signer"
	case authtypes.NewModuleAddress(tokentypes.ModuleName).String():
		return "module-account"
	case authtypes.NewModuleAddress(authtypes.FeeCollectorName).String():
		return "fee-collector"
	case "supply":
		return "supply"
	}
	return "third-party"
}

func (d *tkC09) accepted(br *rig.BlockRecord, tx *rig.TxRecord, tag *tkTag, pre, post *tkSnap) {
	run := d.run
	if len(tx.Msgs) != 1 {
		return
	}
	run.Count(tag.Kind+"-ok", 1)
	act := balDelta(pre.Bal, post.Bal)
	supAct := coinsDelta(pre.Supply, post.Supply)
	exp := ledger{}
	supExp := map[string]*big.Int{}
	addSup := func(d string, v *big.Int) {
		if cur, ok := supExp[d]; ok {
			cur.Add(cur, v)
		} else {
			supExp[d] = new(big.Int).Set(v)
		}
	}
	detail := map[string]any{"msgs": msgBrief(tx.Msgs), "height": br.Height, "intent": tag.String()}
	feeColl := authtypes.NewModuleAddress(authtypes.FeeCollectorName).String()
	m := d.model
	key := "C09:token:" + tag.Kind

	// fee clause: what the owner is charged = fee-pool gain + burned part, nothing stays in the module account.
	// The gain G and the burned part B are read off the fee collector and the supply; the owner's
	// debit and every other account (incl. the module account) are then dictated.
	fee := func(owner string, mintedDenom string, minted *big.Int, sym string) {
		ft := pre.bySymbol(pre.Params.IssueTokenBaseFee.Denom)
		if ft == nil {
			return
		}
		fd := ft.MinUnit
		G := new(big.Int)
		if x := act[feeColl]; x != nil && x[fd] != nil {
			G.Set(x[fd])
		}
		B := new(big.Int)
		if supAct[fd] != nil {
			B.Neg(supAct[fd])
		}
		if mintedDenom == fd {
			B.Add(B, minted)
		}
		F := new(big.Int).Add(G, B)
		exp.sub(owner, fd, F)
		exp.add(feeColl, fd, G)
		addSup(fd, new(big.Int).Neg(B))
		run.Eval(3)
		run.Count("fee-split-evaluated", 1)
		run.Count("fee-at-tax="+tkRatioClass(pre.Params.TokenTaxRate), 1)
		if tag.Kind == "mint" {
			run.Count("fee-at-mint-ratio="+tkRatioClass(pre.Params.MintTokenFeeRatio), 1)
		}
		det := map[string]any{"msgs": msgBrief(tx.Msgs), "fee_denom": fd, "pool_gain": G.String(), "burned": B.String(), "tax": pre.Params.TokenTaxRate.String()}
		if G.Sign() < 0 || B.Sign() < 0 {
			run.Violation(key+":fee-split:negative-part", det, "%s: fee pool changed by %s and supply of the fee token by %s (burned part %s)", tag.Kind, G, supAct[fd], B)
		}
		// the tax rate is the share of the fee that goes to the fee pool (either rounding accepted)
		lo := new(big.Int).Mul(F, pre.Params.TokenTaxRate.BigInt())
		hi := ceilDiv(lo, e18)
		lo.Quo(lo, e18)
		if G.Cmp(lo) < 0 || G.Cmp(hi) > 0 {
			run.Violation(key+":fee-split:tax-share", det, "%s: fee %s at tax rate %s put %s into the fee pool, expected %s..%s", tag.Kind, F, pre.Params.TokenTaxRate, G, lo, hi)
		}
		// the amount: base fee over the symbol-length factor in whole main units of the fee token (at least 1), for a
		// mint the configured ratio of that (whole main units again), charged in minimum units of the fee token
		wantF := tkFeeMain(sym, bi(pre.Params.IssueTokenBaseFee.Amount))
		if tag.Kind == "mint" {
			wantF.Mul(wantF, pre.Params.MintTokenFeeRatio.BigInt())
			wantF.Quo(wantF, e18)
		}
		wantF.Mul(wantF, tkPow10(ft.Scale))
		run.Eval(1)
		if F.Cmp(wantF) != 0 {
			det["want_fee"], det["fee_token_scale"], det["base_fee"], det["mint_ratio"] = wantF.String(), ft.Scale, pre.Params.IssueTokenBaseFee.String(), pre.Params.MintTokenFeeRatio.String()
			run.Violation(key+":fee-amount", det, "%s of %s: the owner was charged %s %s, the fee formula gives %s (base fee %s, mint ratio %s, fee token scale %d)", tag.Kind, sym, F, fd, wantF, pre.Params.IssueTokenBaseFee, pre.Params.MintTokenFeeRatio, ft.Scale)
		}
		if ft.Scale > 0 {
			run.Count("fee-charged-in-a-token-with-scale>0:"+tag.Kind, 1)
		}
		run.Class("fee", tag.Kind, "tax="+tkRatioClass(pre.Params.TokenTaxRate), "ratio="+tkRatioClass(pre.Params.MintTokenFeeRatio), "fee="+magClass(F), fmt.Sprint("native=", fd == v1.GetNativeToken().MinUnit), "symlen="+tkLenClass(len(tag.Sym)))
		run.Sample("fee:"+tag.Kind, det)
	}

	switch msg := tx.Msgs[0].(type) {
	case *v1.MsgIssueToken:
		run.Eval(2)
		if old := m.bySymbol[msg.Symbol]; old != nil {
			run.Violation("C09:token:symbol-identifies-two-tokens", detail, "issue of symbol %q succeeded although it already identifies the token (min unit %s, owner %s)", msg.Symbol, old.MinUnit, old.Owner)
		}
		if old := m.byMin[msg.MinUnit]; old != nil {
			run.Violation("C09:token:min-unit-identifies-two-tokens", detail, "issue with min unit %q succeeded although it already identifies token %s (owner %s)", msg.MinUnit, old.Symbol, old.Owner)
		}
		minted := new(big.Int).Mul(new(big.Int).SetUint64(msg.InitialSupply), tkPow10(msg.Scale))
		fee(msg.Owner, msg.MinUnit, minted, msg.Symbol)
		exp.add(msg.Owner, msg.MinUnit, minted)
		addSup(msg.MinUnit, minted)
		mt := &tkModelToken{Symbol: msg.Symbol, MinUnit: msg.MinUnit, Scale: msg.Scale, Initial: msg.InitialSupply, Owner: msg.Owner, Mintable: msg.Mintable, Max: msg.MaxSupply, Name: msg.Name}
		if pt := post.bySymbol(msg.Symbol); pt != nil && msg.MaxSupply == 0 {
			mt.Max = pt.MaxSupply // default maximum chosen by the module (0 for a non-mintable token issued without supply)
		}
		mt.MaxKnown = true
		// the first token keeps each identifier in the reference registry
		if m.bySymbol[msg.Symbol] == nil {
			m.bySymbol[msg.Symbol] = mt
		}
		if m.byMin[msg.MinUnit] == nil {
			m.byMin[msg.MinUnit] = mt
		}
		d.checkCap(tx, tag, pre, post, msg.Symbol, detail)
		run.Class("issue", tag.Var, tag.Role, tkScaleClass(msg.Scale), "initial="+magClass(new(big.Int).SetUint64(msg.InitialSupply)), fmt.Sprint("mintable=", msg.Mintable))
		if strings.HasPrefix(tag.Var, "cross-") {
			run.Count("cross-namespace-issue-ok", 1)
		}
	case *v1.MsgMintToken:
		pt := pre.byMinUnit(msg.Coin.Denom)
		mt := m.byMin[msg.Coin.Denom]
		if pt == nil || mt == nil {
			run.Violation(key+":unknown-token", detail, "mint of %s succeeded but no token has this min unit", msg.Coin)
			return
		}
		run.Eval(2)
		if msg.Owner != mt.Owner {
			run.Violation("C09:token:mint-by-non-owner", detail, "mint of %s by %s succeeded; the owner of %s is %s (previous owners %v)", msg.Coin, msg.Owner, mt.Symbol, mt.Owner, mt.Prev)
		}
		if !mt.Mintable || !pt.Mintable {
			run.Violation("C09:token:mint-of-non-mintable", detail, "mint of %s succeeded although token %s is not mintable", msg.Coin, mt.Symbol)
		}
		amt := bi(msg.Coin.Amount)
		rcpt := msg.Receiver
		if rcpt == "" {
			rcpt = msg.Owner
		}
		fee(msg.Owner, msg.Coin.Denom, amt, pt.Symbol)
		exp.add(rcpt, msg.Coin.Denom, amt)
		addSup(msg.Coin.Denom, amt)
		d.checkCap(tx, tag, pre, post, mt.Symbol, detail)
		if len(mt.Prev) >= 2 {
			run.Count("owner-after-2-transfers-ok", 1)
		}
		run.Class("mint", tag.Var, tag.Rcpt, tkScaleClass(mt.Scale), "amt="+magClass(amt), fmt.Sprint("transfers=", tkMinInt(len(mt.Prev), 3)))
	case *v1.MsgEditToken:
		mt := m.bySymbol[msg.Symbol]
		pt := post.bySymbol(msg.Symbol)
		if mt == nil || pt == nil {
			run.Violation(key+":unknown-token", detail, "edit of %s succeeded but no such token", msg.Symbol)
			return
		}
		run.Eval(2)
		if msg.Owner != mt.Owner {
			run.Violation("C09:token:edit-by-non-owner", detail, "edit of %s by %s succeeded; the owner is %s (previous owners %v)", msg.Symbol, msg.Owner, mt.Owner, mt.Prev)
		}
		if msg.MaxSupply > 0 {
			mt.Max = msg.MaxSupply
			circ := post.supplyOf(mt.MinUnit)
			capv := new(big.Int).Mul(new(big.Int).SetUint64(msg.MaxSupply), tkPow10(mt.Scale))
			det := map[string]any{"msgs": msgBrief(tx.Msgs), "scale": mt.Scale, "circulating_min_units": circ.String(), "new_max_main_units": msg.MaxSupply, "new_cap_min_units": capv.String()}
			if capv.Cmp(circ) < 0 {
				run.Count("edit-max-below-circulating-attempted", 1)
				run.Violation("C09:token:edit-leaves-max-below-circulating", det, "edit of %s accepted max supply %d (= %s min units at scale %d) while %s min units circulate", msg.Symbol, msg.MaxSupply, capv, mt.Scale, circ)
			} else {
				run.Count("edit-max-at-or-above-circulating-ok", 1)
			}
			run.Sample("edit-max", det)
		}
		if msg.Name != v1.DoNotModify {
			mt.Name = msg.Name
		}
		if msg.Mintable != tokentypes.Nil {
			mt.Mintable, _ = strconv.ParseBool(string(msg.Mintable)) // (the reference reads the field itself, not through the module's helper)
		}
		if len(mt.Prev) >= 2 {
			run.Count("owner-after-2-transfers-ok", 1)
		}
		run.Class("edit", tag.Var, tkScaleClass(mt.Scale), fmt.Sprint("transfers=", tkMinInt(len(mt.Prev), 3)))
	case *v1.MsgBurnToken:
		amt := bi(msg.Coin.Amount)
		exp.sub(msg.Sender, msg.Coin.Denom, amt)
		addSup(msg.Coin.Denom, new(big.Int).Neg(amt))
		if cur := m.burned[msg.Coin.Denom]; cur != nil {
			cur.Add(cur, amt)
		} else {
			m.burned[msg.Coin.Denom] = new(big.Int).Set(amt)
		}
		if strings.Contains(tag.Var, "fractional") {
			run.Count("burn-fractional-ok", 1)
		}
		sc := uint32(0)
		if mt := m.byMin[msg.Coin.Denom]; mt != nil {
			sc = mt.Scale
			d.checkCap(tx, tag, pre, post, mt.Symbol, detail)
		}
		run.Class("burn", tag.Var, tag.Role, tkScaleClass(sc), "amt="+magClass(amt))
	case *v1.MsgTransferTokenOwner:
		mt := m.bySymbol[msg.Symbol]
		if mt == nil {
			run.Violation(key+":unknown-token", detail, "transfer of %s succeeded but no such token", msg.Symbol)
			return
		}
		run.Eval(1)
		if msg.SrcOwner != mt.Owner {
			run.Violation("C09:token:transfer-owner-by-non-owner", detail, "ownership of %s handed over by %s; the owner is %s (previous owners %v)", msg.Symbol, msg.SrcOwner, mt.Owner, mt.Prev)
		}
		if len(mt.Prev) >= 2 {
			run.Count("owner-after-2-transfers-ok", 1)
		}
		mt.Prev = append(mt.Prev, mt.Owner)
		mt.Owner = htCanonAddr(msg.DstOwner)
		d.g.prev[msg.Symbol] = append([]string{}, mt.Prev...)
		run.Class("transfer", tag.Var, tag.Rcpt)
	case *banktypes.MsgSend:
		if tag.Kind == "params" {
			run.Class("params", tag.Var)
		} else {
			for _, c := range msg.Amount {
				exp.sub(msg.FromAddress, c.Denom, bi(c.Amount))
				exp.add(msg.ToAddress, c.Denom, bi(c.Amount))
			}
		}
	default:
		return
	}
	// complete balance sheet of the tx
	run.Eval(2)
	if df := diffLedger(exp, act); len(df) > 0 {
		detail["diff"] = df
		var addr string
		fmt.Sscanf(df[0], "%s", &addr)
		run.Violation(key+":balance-sheet:"+d.roleOf(addr, tx), detail, "balance changes of a successful %s differ from what the message dictates (fee charged = pool gain + burned, nothing left in the module account): %v", tag.Kind, df)
	}
	if df := diffLedger(map[string]map[string]*big.Int{"supply": supExp}, map[string]map[string]*big.Int{"supply": supAct}); len(df) > 0 {
		detail["supply_diff"] = df
		run.Violation(key+":supply", detail, "total supplies changed other than dictated by a successful %s: %v", tag.Kind, df)
	}
	run.Sample("tx:"+tag.Kind, map[string]any{"height": br.Height, "intent": tag.String(), "msg": msgBrief(tx.Msgs), "delta": fmt.Sprint(act)})
	d.checkRegistry(tx, tag, post)
}

// tkFeeMain is the issue fee of a symbol in whole main units of the fee token: base / round2((ln(len)/ln 3)^4), at least 1.
func tkFeeMain(symbol string, base *big.Int) *big.Int {
	f := math.Pow(math.Log(float64(len(symbol)))/math.Log(3), 4)
	fi, ok := new(big.Int).SetString(strings.Replace(strconv.FormatFloat(f, 'f', 2, 64), ".", "", 1), 10)
	if !ok || fi.Sign() <= 0 {
		return big.NewInt(1)
	}
	q := new(big.Int).Mul(base, big.NewInt(100))
	q.Quo(q, fi)
	if q.Sign() <= 0 {
		return big.NewInt(1)
	}
	return q
}

func tkMinInt(a, b int) int {
	if a < b {
		return a
	}
	return b
}

func tkLenClass(n int) string {
	switch {
	case n <= 3:
		return "3"
	case n <= 5:
		return "4-5"
	case n <= 9:
		return "6-9"
	case n <= 27:
		return "10-27"
	default:
		return "28-64"
	}
}

// checkCap: circulating <= max x 10^scale after an op that changed the token, judged when the
// relation held before the op (so the op is what broke it).
func (d *tkC09) checkCap(tx *rig.TxRecord, tag *tkTag, pre, post *tkSnap, symbol string, detail map[string]any) {
	pt := post.bySymbol(symbol)
	if pt == nil {
		return
	}
	d.run.Eval(1)
	circ := post.supplyOf(pt.MinUnit)
	capv := tkCap(pt)
	if bt := pre.bySymbol(symbol); bt != nil && pre.supplyOf(bt.MinUnit).Cmp(tkCap(bt)) > 0 {
		return // already above the cap before this op
	}
	if circ.Cmp(capv) > 0 {
		d.run.Violation("C09:token:supply-exceeds-cap:"+tag.Kind, detail, "after %s: %s min units of %s circulate, cap is %d x 10^%d = %s", tag.Kind, circ, symbol, pt.MaxSupply, pt.Scale, capv)
	}
}

// checkRegistry compares the whole token store with the reference registry after a successful tx.
func (d *tkC09) checkRegistry(tx *rig.TxRecord, tag *tkTag, post *tkSnap) {
	run := d.run
	m := d.model
	detail := map[string]any{"msgs": msgBrief(tx.Msgs), "intent": tag.String()}
	run.Eval(6)
	seenMin := map[string]string{}
	wantOwnerIdx := map[string]bool{}
	for i := range post.Tokens {
		t := &post.Tokens[i]
		if post.SymKeys[i] != t.Symbol {
			run.Violation("C09:token:symbol-identifies-two-tokens", detail, "record stored under symbol %q describes symbol %q", post.SymKeys[i], t.Symbol)
		}
		if other, dup := seenMin[t.MinUnit]; dup {
			run.Violation("C09:token:min-unit-identifies-two-tokens", detail, "tokens %s and %s both have min unit %s", other, t.Symbol, t.MinUnit)
		}
		seenMin[t.MinUnit] = t.Symbol
		if post.MinIdx[t.MinUnit] != t.Symbol {
			run.Violation("C09:token:min-unit-index", detail, "min unit %s of token %s resolves to %q", t.MinUnit, t.Symbol, post.MinIdx[t.MinUnit])
		}
		if t.Owner != "" {
			if oa, err := sdk.AccAddressFromBech32(t.Owner); err == nil {
				wantOwnerIdx[hex.EncodeToString(oa)+"/"+t.Symbol] = true
			}
		}
		mt := m.bySymbol[t.Symbol]
		if mt == nil {
			run.Violation("C09:token:record-without-history", detail, "token %s (min unit %s, owner %s) exists but was never issued", t.Symbol, t.MinUnit, t.Owner)
			continue
		}
		bad := func(field string, want, got any) {
			k := "C09:token:record-differs-from-history:" + field
			if field == "min-unit" || field == "scale" || field == "initial-supply" {
				k = "C09:token:symbol-identifies-two-tokens:" + field
			}
			run.Violation(k, detail, "token %s: %s is %v, history says %v", t.Symbol, field, got, want)
		}
		if t.MinUnit != mt.MinUnit {
			bad("min-unit", mt.MinUnit, t.MinUnit)
		}
		if t.Scale != mt.Scale {
			bad("scale", mt.Scale, t.Scale)
		}
		if t.InitialSupply != mt.Initial {
			bad("initial-supply", mt.Initial, t.InitialSupply)
		}
		if t.Owner != mt.Owner {
			bad("owner", mt.Owner, t.Owner)
		}
		if t.Mintable != mt.Mintable {
			bad("mintable", mt.Mintable, t.Mintable)
		}
		if (mt.Max != 0 || mt.MaxKnown) && t.MaxSupply != mt.Max {
			bad("max-supply", mt.Max, t.MaxSupply)
		}
		if t.Name != mt.Name {
			bad("name", mt.Name, t.Name)
		}
	}
	if len(post.Tokens) != len(m.bySymbol) {
		run.Violation("C09:token:record-lost", detail, "%d token records, %d tokens were issued", len(post.Tokens), len(m.bySymbol))
	}
	for mu, sym := range post.MinIdx {
		if t := post.bySymbol(sym); t == nil || t.MinUnit != mu {
			run.Violation("C09:token:min-unit-index", detail, "index entry %s -> %s has no matching token", mu, sym)
		}
	}
	// The index key is the owner's bytes followed by the symbol with nothing in between, so two (owner, symbol) pairs
	// whose concatenations coincide share one entry (possible only with owners of different address lengths). The
	// statement says nothing about the listing by owner; such keys are counted and left out of the comparison for good
	// (an entry written for one pair is overwritten or deleted on behalf of the other).
	rawOf := func(k string) string {
		i := strings.IndexByte(k, '/')
		return k[:i] + hex.EncodeToString([]byte(k[i+1:]))
	}
	if d.sharedIdxKeys == nil {
		d.sharedIdxKeys = map[string]bool{}
	}
	users := map[string]int{}
	for k := range wantOwnerIdx {
		users[rawOf(k)]++
	}
	for rk, n := range users {
		if n > 1 && !d.sharedIdxKeys[rk] {
			d.sharedIdxKeys[rk] = true
			run.Count("info-owner-index-key-shared-by-two-(owner,symbol)-pairs(outside the statement)", 1)
		}
	}
	gotOwnerIdx := map[string]bool{}
	for k := range post.OwnerIdx {
		if strings.HasPrefix(k, "?/") || !d.sharedIdxKeys[rawOf(k)] {
			gotOwnerIdx[k] = true
		}
	}
	for k := range wantOwnerIdx {
		if d.sharedIdxKeys[rawOf(k)] {
			delete(wantOwnerIdx, k)
		}
	}
	if df := tkSetDiff(wantOwnerIdx, gotOwnerIdx); len(df) > 0 {
		run.Violation("C09:token:owner-index", detail, "tokens-by-owner index differs from the owners on record: %v", df)
	}
	// burn tally
	for dn, want := range m.burned {
		got := post.Burn[dn]
		if got == nil {
			got = bigZero
		}
		if got.Cmp(want) != 0 {
			run.Violation("C09:token:burn-tally", detail, "total burn of %s is %s, sum of burns is %s", dn, got, want)
		}
	}
	for dn, got := range post.Burn {
		if m.burned[dn] == nil && got.Sign() != 0 {
			run.Violation("C09:token:burn-tally", detail, "total burn of %s is %s, nothing was burned", dn, got)
		}
	}
}

func tkSetDiff(want, got map[string]bool) []string {
	var out []string
	for k := range want {
		if !got[k] {
			out = append(out, "missing "+k)
		}
	}
	for k := range got {
		if !want[k] {
			out = append(out, "stale "+k)
		}
	}
	sort.Strings(out)
	return out
}

// ---------------------------------------------------------------------------------------------
// ERC20 intents (used with the harness EVM by C10 and with the repository mock by the workload)

type tkRegEntry struct {
	From  string `json:"from"`  // min unit paid
	To    string `json:"to"`    // min unit received
	Ratio string `json:"ratio"` // LegacyDec
}

// tkOpArgs are the serialisable arguments of the token harness operations.
type tkOpArgs struct {
	// tk-swapfee
	Reg      []tkRegEntry `json:"reg,omitempty"`
	Sender   string       `json:"sender,omitempty"`
	Receiver string       `json:"receiver,omitempty"`
	Denom    string       `json:"denom,omitempty"`
	Amount   string       `json:"amount,omitempty"`
	// tk-evm-hook
	Contract string `json:"contract,omitempty"`
	From     string `json:"from,omitempty"`
	To       string `json:"to,omitempty"`
	Var      string `json:"var,omitempty"`
	Amount2  string `json:"amount2,omitempty"`
	// tk-evm-arm
	Faults []tkFault `json:"faults,omitempty"`
}

const tkBeacon = "0x00000000000000000000000000000000000bEac0"

func tkHex(a sdk.AccAddress) string { return common.BytesToAddress(a.Bytes()).Hex() }

func tkNormHex(s string) string { return common.HexToAddress(s).Hex() }

func (g *tkGen) erc20Bal(contract string, holder sdk.AccAddress) *big.Int {
	if g.s.EVM != nil {
		if ct := g.s.EVM[tkNormHex(contract)]; ct != nil {
			if b := ct.Bal[tkHex(holder)]; b != nil {
				return b
			}
		}
		return new(big.Int)
	}
	b, err := g.r.K.Token.BalanceOf(g.r.Ctx(), common.HexToAddress(contract), common.BytesToAddress(holder.Bytes()))
	if err != nil || b == nil {
		return new(big.Int)
	}
	return b
}

func (g *tkGen) deploy(hostile bool) (rig.Tx, bool) {
	rng := g.rng
	a := g.anyAcc()
	if a == nil {
		return rig.Tx{}, false
	}
	tag := &tkTag{Kind: "deploy", Role: "authority"}
	var t *v1.Token
	want := !hostile || rng.Intn(2) == 0 // token without a contract
	for _, i := range rng.Perm(len(g.s.Tokens)) {
		if (g.s.Tokens[i].Contract == "") == want {
			t = &g.s.Tokens[i]
			break
		}
	}
	msg := &v1.MsgDeployERC20{Authority: g.r.GovAddr.String()}
	tag.Routed = msg
	if !hostile && g.evm != nil && rng.Intn(6) == 0 && g.s.byMinUnit(tkIBCDenom) == nil {
		// a denom with an ICS20 trace and no token record yet: the deployment creates the record
		msg.Symbol, msg.Name, msg.Scale, msg.MinUnit = "ibcverif", "ibc voucher", 6, tkIBCDenom
		tag.Var = "ics20-denom"
	} else if g.evm != nil && rng.Intn(10) == 0 {
		// denominations with an ICS20 trace deployed under one and the same mixed-case symbol: the first deployment creates
		// the record, every later one names a taken symbol
		g.serial++
		msg.Symbol, msg.Name, msg.Scale, msg.MinUnit = "vWBTC", "ibc voucher, mixed-case symbol", 8, fmt.Sprintf("ibc/VERIFMIXED%d", g.serial)
		tag.Sym = msg.Symbol
		tag.Var = "ics20-denom-under-a-mixed-case-symbol"
		g.run.Count("deploy-for-ics20-denom-under-a-mixed-case-symbol", 1)
	} else if g.evm != nil && t != nil && rng.Intn(8) == 0 {
		// a denom with an ICS20 trace and no token record, deployed under a symbol that already names another token
		g.serial++
		msg.Symbol, msg.Name, msg.Scale, msg.MinUnit = t.Symbol, "ibc voucher under a taken symbol", uint32(rng.Intn(19)), fmt.Sprintf("ibc/VERIFTAKEN%d", g.serial)
		tag.Sym = t.Symbol
		tag.Var = "ics20-denom-under-a-taken-symbol"
		g.run.Count("deploy-for-ics20-denom-under-a-taken-symbol", 1)
	} else {
		if t == nil {
			return rig.Tx{}, false
		}
		msg.Symbol, msg.Name, msg.Scale, msg.MinUnit = t.Symbol, t.Name, t.Scale, t.MinUnit
		tag.Sym = t.Symbol
		tag.Var = "first"
		if t.Contract != "" {
			tag.Var = "already-deployed"
		} else if !hostile && rng.Intn(3) == 0 {
			// the contract of an issued token gets another ticker than the token's own symbol (the message is checked for
			// syntax only): the token is found by its minimum unit, and its record keeps its symbol
			msg.Symbol = "w" + t.Symbol
			if len(msg.Symbol) > 60 {
				msg.Symbol = "wrapped"
			}
			tag.Var = "first-under-another-ticker"
			g.run.Count("deploy-of-an-issued-token-under-another-ticker", 1)
		}
	}
	if !hostile {
		if g.mockEVM && g.deployed >= 1 {
			return rig.Tx{}, false
		}
		g.deployed++
		return g.r.InjectRoute(a, tag, msg), true
	}
	switch rng.Intn(3) {
	case 0: // routed like a proposal but with a user as authority
		tag.Role = "non-authority"
		tag.Var += "/routed"
		msg.Authority = a.Addr.String()
		return g.r.InjectRoute(a, tag, msg), true
	case 1: // plainly signed by a user naming himself authority
		tag.Role = "non-authority"
		tag.Var += "/signed"
		msg.Authority = a.Addr.String()
		return g.mk(a, tag, msg)
	default: // authority, but the token already has a contract (or not: then it is a plain deploy)
		if t == nil || t.Contract == "" {
			return rig.Tx{}, false
		}
		return g.r.InjectRoute(a, tag, msg), true
	}
}

const tkIBCDenom = "ibc/VERIFTRACE"

func (g *tkGen) toERC20() (rig.Tx, bool) {
	rng := g.rng
	// holders of tokens, preferring tokens bound to a contract
	var hs [][2]string
	for _, a := range g.accs {
		if g.poisoned[a.Addr.String()] {
			continue
		}
		for _, c := range g.s.Bal[a.Addr.String()] {
			t := g.s.byMinUnit(c.Denom)
			if t == nil {
				continue
			}
			if t.Contract != "" || (g.hostile && rng.Intn(12) == 0) {
				hs = append(hs, [2]string{a.Addr.String(), c.Denom})
			}
		}
	}
	if len(hs) == 0 {
		return rig.Tx{}, false
	}
	h := hs[rng.Intn(len(hs))]
	a := g.acc(h[0])
	t := g.s.byMinUnit(h[1])
	bal := g.s.balOf(h[0], h[1])
	tag := &tkTag{Kind: "to-erc20", Role: "holder", Sym: t.Symbol}
	if t.Contract == "" {
		tag.Var = "no-contract/"
	}
	var amt *big.Int
	switch k := rng.Intn(8); {
	case g.wordAmt && bal.Cmp(pow2(64)) >= 0 && h[1] != rig.BondDenom:
		tag.Var += "whole-64-bit-words"
		amt = new(big.Int).Mul(pow2(64), big.NewInt(1+int64(rng.Intn(3))))
		if amt.Cmp(bal) > 0 {
			amt = pow2(64)
		}
		g.run.Count("conversion-of-whole-64-bit-words-under-a-faulty-contract", 1)
	case k == 0:
		tag.Var += "one"
		amt = big.NewInt(1)
	case k == 1 && h[1] != rig.BondDenom:
		tag.Var += "all"
		amt = new(big.Int).Set(bal)
	case k == 2 && g.hostile:
		tag.Var += "balance+1"
		amt = new(big.Int).Add(bal, bigOne)
	case k == 3 && g.hostile:
		tag.Var += "huge"
		amt = new(big.Int).Add(pow2(128), big.NewInt(int64(rng.Intn(100))))
	default:
		tag.Var += "part"
		lim := bal
		if h[1] == rig.BondDenom {
			lim = pow2(60)
		}
		amt = randFrac(rng, lim)
	}
	var rcv string
	switch k := rng.Intn(10); {
	case k <= 3:
		tag.Rcpt, rcv = "self", tkHex(a.Addr)
	case k <= 5:
		tag.Rcpt, rcv = "other", tkHex(g.accs[rng.Intn(len(g.accs))].Addr)
	case k == 6:
		tag.Rcpt, rcv = "fresh", common.BigToAddress(new(big.Int).Rand(rng, pow2(160))).Hex()
	case k == 7 && g.hostile:
		tag.Rcpt, rcv = "module-account", tkHex(g.blockedAddr())
	case k == 8 && g.hostile && g.evm != nil:
		tag.Rcpt, rcv = "unsupported-key", tkHex(g.accs[len(g.accs)-1].Addr)
	case k == 9 && g.hostile:
		tag.Rcpt, rcv = "zero-address", common.Address{}.Hex()
	default:
		tag.Rcpt, rcv = "self", tkHex(a.Addr)
	}
	return g.mk(a, tag, &v1.MsgSwapToERC20{Amount: coin(h[1], amt), Sender: a.Addr.String(), Receiver: rcv})
}

func (g *tkGen) fromERC20() (rig.Tx, bool) {
	rng := g.rng
	type hold struct {
		a      *rig.Account
		t      *v1.Token
		b      *big.Int
		shadow bool
	}
	var hs []hold
	for i := range g.s.Tokens {
		t := &g.s.Tokens[i]
		if t.Contract == "" {
			continue
		}
		for _, a := range g.accs {
			if g.poisoned[a.Addr.String()] {
				continue
			}
			if b := g.erc20Bal(t.Contract, a.Addr); b.Sign() > 0 || (g.hostile && rng.Intn(25) == 0) {
				hs = append(hs, hold{a, t, b, false})
				// the holder of a token whose symbol is another token's min unit asks for that other token by its min unit
				if o := g.s.byMinUnit(t.Symbol); o != nil && b.Sign() > 0 {
					hs = append(hs, hold{a, o, b, true})
				}
			}
		}
	}
	if len(hs) == 0 {
		return rig.Tx{}, false
	}
	h := hs[rng.Intn(len(hs))]
	tag := &tkTag{Kind: "from-erc20", Role: "holder", Sym: h.t.Symbol}
	var amt *big.Int
	switch k := rng.Intn(8); {
	case g.wordAmt && h.b.Cmp(pow2(64)) >= 0:
		tag.Var, amt = "whole-64-bit-words", new(big.Int).Mul(pow2(64), big.NewInt(1+int64(rng.Intn(3))))
		if amt.Cmp(h.b) > 0 {
			amt = pow2(64)
		}
		g.run.Count("conversion-of-whole-64-bit-words-under-a-faulty-contract", 1)
	case k == 0:
		tag.Var, amt = "one", big.NewInt(1)
	case k == 1 && h.b.Sign() > 0:
		tag.Var, amt = "all", new(big.Int).Set(h.b)
	case k == 2 && g.hostile:
		tag.Var, amt = "balance+1", new(big.Int).Add(h.b, bigOne)
	default:
		tag.Var, amt = "part", randFrac(rng, h.b)
	}
	if h.b.Sign() == 0 {
		tag.Var = "no-erc20-balance"
	}
	if h.shadow {
		tag.Var += "/holds-the-token-whose-symbol-is-this-min-unit"
		g.run.Count("from-erc20-asked-by-shadowed-min-unit", 1)
	}
	var rcv string
	switch k := rng.Intn(10); {
	case k <= 3:
		tag.Rcpt, rcv = "self", h.a.Addr.String()
	case k <= 5:
		tag.Rcpt, rcv = "other", g.accs[rng.Intn(len(g.accs))].Addr.String()
	case k == 6:
		tag.Rcpt, rcv = "fresh", sdk.AccAddress([]byte(fmt.Sprintf("tk-fresh-address-%03d", rng.Intn(1000)))).String()
	case k == 7 && g.hostile:
		tag.Rcpt, rcv = "blocked", g.blockedAddr().String()
	case k == 8:
		tag.Rcpt, rcv = "token-module", authtypes.NewModuleAddress(tokentypes.ModuleName).String()
	case k == 9:
		tag.Rcpt, rcv = "32-byte-address", sdk.AccAddress([]byte(fmt.Sprintf("tk-long-account-address-%08d", rng.Intn(1000)))).String()
	default:
		tag.Rcpt, rcv = "self", h.a.Addr.String()
	}
	return g.mk(h.a, tag, &v1.MsgSwapFromERC20{WantedAmount: coin(h.t.MinUnit, amt), Sender: h.a.Addr.String(), Receiver: rcv})
}

// erc20Switch sets the beacon and switches ERC20 conversion off/on through the authority path.
func (g *tkGen) erc20Switch() (rig.Tx, bool) {
	a := g.anyAcc()
	if a == nil {
		return rig.Tx{}, false
	}
	p := g.s.Params
	tag := &tkTag{Kind: "params", Role: "authority"}
	if p.Beacon == "" {
		p.Beacon = tkBeacon
		p.EnableErc20 = true
		tag.Var = "beacon-set"
	} else if p.EnableErc20 && g.hostile && g.rng.Intn(3) == 0 {
		p.EnableErc20 = false
		tag.Var = "erc20-off"
	} else {
		p.EnableErc20 = true
		tag.Var = "erc20-on"
	}
	return g.r.InjectRoute(a, tag, &v1.MsgUpdateParams{Authority: g.r.GovAddr.String(), Params: p}), true
}

// ---------------------------------------------------------------------------------------------
// C10

func runTokenC10(run *ev.Run, c int) {
	// case kinds: quick 2 P + 7 E + 7 F; thorough 16 P + 24 E + 24 F
	nP := tierN(run.Tier, 2, 16)
	nE := tierN(run.Tier, 7, 24)
	switch {
	case c < nP:
		tkPureProbe(run, c, tierN(run.Tier, 100_000, 10_000_000)/nP)
	case c < nP+nE:
		runTokenERC20(run, c)
	default:
		runTokenSwapFee(run, c)
	}
}

// ---- (a) LossLessSwap as a pure function

type tkSwapVec struct {
	in          *big.Int
	ratio       sdkmath.LegacyDec
	sIn, sOut   uint32
	ratioClass  string
	amountClass string
}

func tkRatioOf(rng *rand.Rand) (sdkmath.LegacyDec, string) {
	switch rng.Intn(12) {
	case 0, 1, 2:
		return sdkmath.LegacyOneDec(), "1"
	case 3:
		return sdkmath.LegacyNewDecFromBigIntWithPrec(randBelow(rng, new(big.Int).Sub(e18, bigOne)), 18), "<1"
	case 4:
		return pick(rng, sdkmath.LegacyNewDecWithPrec(5, 1), sdkmath.LegacyNewDecWithPrec(1, 1), sdkmath.LegacyNewDecWithPrec(333333333333333333, 18), tkDecAlmost), "<1"
	case 5:
		return pick(rng, sdkmath.LegacyNewDecWithPrec(15, 1), sdkmath.LegacyNewDecWithPrec(25, 1), sdkmath.LegacyNewDec(2), sdkmath.LegacyNewDec(3), sdkmath.LegacyOneDec().Add(tkDecTiny)), ">1"
	case 6, 7:
		// 1 < r < 10 with 18 decimals
		v := new(big.Int).Add(e18, randBelow(rng, new(big.Int).Mul(e18, big.NewInt(9))))
		return sdkmath.LegacyNewDecFromBigIntWithPrec(v, 18), ">1"
	case 8:
		return tkDecTiny, "1e-18"
	case 9:
		return sdkmath.LegacyNewDecFromBigIntWithPrec(randBelow(rng, big.NewInt(1_000_000)), 18), "~1e-12"
	default:
		// large: 1e3 .. 1e15 with a fraction
		v := new(big.Int).Mul(randBelow(rng, new(big.Int).Exp(big.NewInt(10), big.NewInt(int64(3+rng.Intn(13))), nil)), e18)
		v.Add(v, new(big.Int).Rand(rng, e18))
		return sdkmath.LegacyNewDecFromBigIntWithPrec(v, 18), "large"
	}
}

func tkAmountOf(rng *rand.Rand, sIn, sOut uint32, ratio sdkmath.LegacyDec) (*big.Int, string) {
	switch rng.Intn(6) {
	case 0:
		return big.NewInt(int64(1 + rng.Intn(20))), "tiny"
	case 1, 2:
		// around a multiple of the scale step: k*10^|d| + {-1,0,1}
		d := int64(sIn) - int64(sOut)
		if d < 0 {
			d = -d
		}
		v := new(big.Int).Mul(randMag(rng, 100), tkPow10(uint32(d)))
		v.Add(v, big.NewInt(int64(rng.Intn(3)-1)))
		if v.Sign() <= 0 {
			v.SetInt64(1)
		}
		return v, "scale-step"
	case 3:
		// an amount whose product with the ratio is just below / above an integer
		r := ratio.BigInt()
		if r.Sign() > 0 {
			k := randMag(rng, 100)
			v := new(big.Int).Mul(k, e18)
			v.Quo(v, r)
			v.Add(v, big.NewInt(int64(rng.Intn(3)-1)))
			if v.Sign() > 0 {
				return v, "ratio-step"
			}
		}
		return big.NewInt(7), "tiny"
	default:
		return randMag(rng, 128), "magnitude"
	}
}

func tkPureProbe(run *ev.Run, c, n int) {
	rng := run.Rng
	one := sdkmath.LegacyOneDec()
	// fixed vectors first: the repository's own test vectors and the witnessed lead T2
	fixed := []tkSwapVec{
		{in: big.NewInt(1), ratio: sdkmath.LegacyNewDecWithPrec(25, 1), sIn: 6, sOut: 6},
		{in: big.NewInt(7), ratio: sdkmath.LegacyNewDecWithPrec(15, 1), sIn: 6, sOut: 6},
		{in: new(big.Int).Add(e18, bigOne), ratio: one, sIn: 18, sOut: 6},
		{in: new(big.Int).Add(e18, bigOne), ratio: one, sIn: 18, sOut: 18},
		{in: new(big.Int).Add(e18, bigOne), ratio: sdkmath.LegacyNewDecWithPrec(5, 1), sIn: 18, sOut: 6},
		{in: big.NewInt(1000001), ratio: one, sIn: 6, sOut: 18},
		{in: big.NewInt(1000000), ratio: sdkmath.LegacyNewDecWithPrec(5, 1), sIn: 6, sOut: 18},
		{in: new(big.Int).Add(e18, bigOne), ratio: tkDecAlmost, sIn: 18, sOut: 0},
		{in: big.NewInt(1), ratio: sdkmath.LegacyNewDecWithPrec(15, 2), sIn: 0, sOut: 1},
		{in: big.NewInt(1), ratio: sdkmath.LegacyNewDecWithPrec(15005, 1), sIn: 3, sOut: 0},
	}
	pair := c * 37 // different cases start at different pairs; every case still walks all 361
	pairsSeen := map[int]bool{}
	for i := 0; i < n; i++ {
		var v tkSwapVec
		if i < len(fixed) {
			v = fixed[i]
			v.ratioClass, v.amountClass = "fixed", "fixed"
		} else {
			p := (pair + i) % 361
			v.sIn, v.sOut = uint32(p/19), uint32(p%19)
			v.ratio, v.ratioClass = tkRatioOf(rng)
			v.in, v.amountClass = tkAmountOf(rng, v.sIn, v.sOut, v.ratio)
			pairsSeen[p] = true
		}
		tkCheckLossLess(run, v)
	}
	run.Count("scale-pairs-covered", int64(len(pairsSeen)))
	run.Require("scale-pairs-covered", 361)
	for _, k := range []string{"pure-ratio-1", "pure-ratio-<1", "pure-ratio->1", "pure-ratio-1e-18", "pure-ratio-large", "pure-dust-left", "pure-amount-2^128"} {
		run.Require(k, 1)
	}
}

func tkCheckLossLess(run *ev.Run, v tkSwapVec) {
	var burned, minted *big.Int
	func() {
		defer func() {
			if rec := recover(); rec != nil {
				run.Count("pure-overflow-panic", 1)
			}
		}()
		b, m := tokentypes.LossLessSwap(toInt(v.in), v.ratio, v.sIn, v.sOut)
		burned, minted = b.BigInt(), m.BigInt()
	}()
	if burned == nil {
		return
	}
	run.Eval(3)
	run.Count("pure-ratio-"+v.ratioClass, 1)
	det := map[string]any{"input": v.in.String(), "ratio": v.ratio.String(), "scale_in": v.sIn, "scale_out": v.sOut, "burned": burned.String(), "minted": minted.String()}
	// never burns more than offered (and nothing negative)
	// (a negative burn is judged by the worth relation below: it is worth less than nothing)
	if burned.Cmp(v.in) > 0 || minted.Sign() < 0 {
		run.Violation("C10:token:LossLessSwap:burned-exceeds-offered", det, "LossLessSwap(%s, %s, %d, %d) burns %s and mints %s", v.in, v.ratio, v.sIn, v.sOut, burned, minted)
	}
	// minted x 10^in <= burned x ratio x 10^out, exactly (ratio = r / 10^18)
	lhs := new(big.Int).Mul(minted, tkPow10(v.sIn))
	lhs.Mul(lhs, e18)
	rhs := new(big.Int).Mul(burned, v.ratio.BigInt())
	rhs.Mul(rhs, tkPow10(v.sOut))
	isOne := v.ratio.Equal(sdkmath.LegacyOneDec())
	if lhs.Cmp(rhs) > 0 {
		k := "ratio<=1"
		if v.ratio.GT(sdkmath.LegacyOneDec()) {
			k = "ratio>1"
		}
		worth := new(big.Rat).SetFrac(rhs, new(big.Int).Mul(tkPow10(v.sIn), e18))
		run.Violation("C10:token:LossLessSwap:minted-exceeds-worth:"+k, det, "LossLessSwap(%s, ratio %s, scale %d -> %d) burns %s and mints %s, but %s burned is worth only %s", v.in, v.ratio, v.sIn, v.sOut, burned, minted, burned, worth.FloatString(20))
	}
	outcome := "converted-all"
	if burned.Cmp(v.in) < 0 {
		outcome = "dust-left"
		run.Count("pure-dust-left", 1)
	}
	if isOne {
		run.Eval(1)
		if new(big.Int).Mul(burned, tkPow10(v.sOut)).Cmp(new(big.Int).Mul(minted, tkPow10(v.sIn))) != 0 {
			run.Violation("C10:token:LossLessSwap:ratio1-inexact", det, "at ratio 1 LossLessSwap(%s, scale %d -> %d) burns %s and mints %s: burned x 10^%d != minted x 10^%d", v.in, v.sIn, v.sOut, burned, minted, v.sOut, v.sIn)
		}
	}
	if v.in.BitLen() > 120 {
		run.Count("pure-amount-2^128", 1)
	}
	run.Class("pure", v.sIn, v.sOut, "ratio="+v.ratioClass)
	run.Class("pure-amount", "ratio="+v.ratioClass, v.amountClass, "amt="+magClass(v.in), outcome)
	run.Sample("pure:"+v.ratioClass+":"+outcome, det)
}

// ---- (b)+(d) ERC20 conversions on a chain with the harness EVM

type tkC10 struct {
	run *ev.Run
	r   *rig.Rig
	g   *tkGen
	evm *tkEVM
}

// tkStateDiff lists what differs between two observation points (bank, EVM, token records, params).
func tkStateDiff(a, b *tkSnap) []string {
	var out []string
	out = append(out, diffLedger(map[string]map[string]*big.Int{}, balDelta(a.Bal, b.Bal))...)
	for d, v := range coinsDelta(a.Supply, b.Supply) {
		out = append(out, fmt.Sprintf("supply %s: changed by %s", d, v))
	}
	if a.EVM != nil || b.EVM != nil {
		for k, v := range tkEVMDelta(a.EVM, b.EVM) {
			out = append(out, fmt.Sprintf("erc20 %s: changed by %s", k, v))
		}
		if len(a.EVM) != len(b.EVM) {
			out = append(out, fmt.Sprintf("erc20 contracts: %d -> %d", len(a.EVM), len(b.EVM)))
		}
	}
	if len(a.Tokens) != len(b.Tokens) {
		out = append(out, fmt.Sprintf("token records: %d -> %d", len(a.Tokens), len(b.Tokens)))
	} else {
		for i := range a.Tokens {
			if a.Tokens[i] != b.Tokens[i] {
				out = append(out, fmt.Sprintf("token record %s changed", a.Tokens[i].Symbol))
			}
		}
	}
	if !a.Params.Equal(b.Params) {
		out = append(out, "params changed")
	}
	sort.Strings(out)
	return out
}

func runTokenERC20(run *ev.Run, c int) {
	rng := run.Rng
	evm := newTkEVM()
	bal := sdk.NewCoins(sdk.NewCoin(rig.BondDenom, toInt(pow2(150))), sdk.NewCoin(tkIBCDenom, toInt(pow2(100))))
	// odd cases: the genesis already holds a token bound to an ERC20 contract, its address written in lower case (genesis
	// validation accepts any hex spelling); the harness EVM adopts a contract at that address in the first block
	const gbContract = "0xabcdef0123456789abcdef0123456789abcdef01"
	const gbContract2 = "0xabcdef0123456789abcdef0123456789abcdef02"
	genesisBorn := c%2 == 1
	var mut func(cdc codec.Codec, gs map[string]json.RawMessage)
	if genesisBorn {
		mut = func(cdc codec.Codec, gs map[string]json.RawMessage) {
			var ag authtypes.GenesisState
			cdc.MustUnmarshalJSON(gs[authtypes.ModuleName], &ag)
			accs, err := authtypes.UnpackAccounts(ag.Accounts)
			if err != nil || len(accs) == 0 {
				return
			}
			sort.Slice(accs, func(i, j int) bool { return accs[i].GetAccountNumber() < accs[j].GetAccountNumber() })
			owner := accs[0].GetAddress().String()
			var st v1.GenesisState
			cdc.MustUnmarshalJSON(gs[tokentypes.ModuleName], &st)
			st.Tokens = append(st.Tokens, v1.Token{Symbol: "gborn", Name: "genesis born", Scale: 6, MinUnit: "ugborn", InitialSupply: 1000000, MaxSupply: 1000000000, Mintable: true, Owner: owner, Contract: gbContract})
			// ... and a token nobody owns (genesis validation accepts an empty owner), bound to a contract as well
			st.Tokens = append(st.Tokens, v1.Token{Symbol: "gnobody", Name: "genesis born, ownerless", Scale: 3, MinUnit: "ugnobody", InitialSupply: 500000, MaxSupply: 1000000000, Mintable: false, Owner: "", Contract: gbContract2})
			gs[tokentypes.ModuleName] = cdc.MustMarshalJSON(&st)
			var bg banktypes.GenesisState
			cdc.MustUnmarshalJSON(gs[banktypes.ModuleName], &bg)
			coins := sdk.NewCoins(sdk.NewCoin("ugborn", sdkmath.NewInt(1000000).MulRaw(1000000)), sdk.NewCoin("ugnobody", sdkmath.NewInt(500000).MulRaw(1000)))
			for i := range bg.Balances {
				if bg.Balances[i].Address == owner {
					bg.Balances[i].Coins = bg.Balances[i].Coins.Add(coins...)
				}
			}
			bg.Supply = bg.Supply.Add(coins...)
			gs[banktypes.ModuleName] = cdc.MustMarshalJSON(&bg)
		}
	}
	r := rig.New(rig.Options{Seed: fmt.Sprintf("tk10e-%d-%d", run.Seed, c), NumAccounts: 6, Balances: bal, InflationOff: true, EVM: evm, ExtraStoreKeys: evm.storeKeys(), SubSecond: c%2 == 1, GenesisMutator: mut})
	evm.ak = r.App.AccountKeeper
	evm.unsupported[tkHex(r.Accounts[len(r.Accounts)-1].Addr)] = true
	g := newTkGen(run, r, evm, true)
	r.Snapshot = g.snap
	d := &tkC10{run: run, r: r, g: g, evm: evm}
	d.installOps()
	if genesisBorn {
		r.Ops["tk-evm-adopt"] = func(ctx sdk.Context, raw json.RawMessage) error {
			bz, _ := json.Marshal(tkContractMeta{Name: "genesis born", Symbol: "gborn", Scale: 6, Owner: common.BytesToAddress(authtypes.NewModuleAddress(tokentypes.ModuleName)).Hex()})
			ctx.KVStore(evm.key).Set(tkKeyMeta(common.HexToAddress(gbContract)), bz)
			bz2, _ := json.Marshal(tkContractMeta{Name: "genesis born, ownerless", Symbol: "gnobody", Scale: 3, Owner: common.BytesToAddress(authtypes.NewModuleAddress(tokentypes.ModuleName)).Hex()})
			ctx.KVStore(evm.key).Set(tkKeyMeta(common.HexToAddress(gbContract2)), bz2)
			return nil
		}
		if br := r.DeliverBlock(time.Second, []rig.Tx{r.InjectOp(r.Acc(1), &tkTag{Kind: "setup"}, "tk-evm-adopt", map[string]string{})}); br.FinalErr != nil || len(br.Txs) != 1 || !br.Txs[0].OK() {
			run.Inconc("the harness EVM could not adopt the genesis-born contract")
			return
		}
		g.resync()
		run.Count("genesis-born-erc20-binding", 1)
	}
	blocks := tierN(run.Tier, 160, 600)
	script := [][]string{
		{"erc20-switch", "issue", "issue", "issue"}, {"issue", "issue-shadow", "issue-shadow", "send", "send"}, {"deploy", "deploy", "send"}, {"deploy", "to-erc20", "to-erc20"},
		{"to-erc20", "to-erc20", "from-erc20"}, {"deploy-hostile", "from-erc20", "hook"},
	}
	// (edits and hand-overs by the owner too: a token that is bound to a contract stays bound through them)
	kinds := []string{"to-erc20", "from-erc20", "hook", "deploy", "deploy-hostile", "erc20-switch", "issue", "send", "mint", "burn", "issue-shadow", "edit", "transfer"}
	weights := []int{30, 28, 12, 4, 4, 4, 2, 5, 3, 2, 1, 5, 2}
	for b := 0; b < blocks; b++ {
		g.begin()
		var txs []rig.Tx
		var want []string
		if b < len(script) {
			want = script[b]
		} else {
			for i, n := 0, 1+rng.Intn(5); i < n; i++ {
				want = append(want, kinds[weighted(rng, weights)])
			}
		}
		for _, k := range want {
			// now and then the next EVM calls misbehave (the arming carrier is built first: it comes first in the block)
			var arm *rig.Tx
			if (k == "to-erc20" || k == "from-erc20" || k == "deploy") && b >= len(script) && rng.Intn(5) == 0 {
				if atx, ok := d.armIntent(k); ok {
					arm = &atx
					txs = append(txs, atx)
				}
			}
			built := false
			for try := 0; try < 4 && !built; try++ {
				var tx rig.Tx
				var ok bool
				if k == "hook" {
					tx, ok = d.hookIntent()
				} else {
					tx, ok = g.make(k)
				}
				if ok {
					txs = append(txs, tx)
					built = true
				}
			}
			_ = arm
			g.wordAmt = false
		}
		firedBefore := tkCopyCounts(evm.fired)
		br := r.DeliverBlock(time.Duration(1+rng.Intn(20))*time.Second, txs)
		for k, v := range evm.fired {
			if n := v - firedBefore[k]; n > 0 {
				run.Count("evm-fault-fired", int64(n))
				run.Count("evm-fault-fired:"+k, int64(n))
			}
		}
		evm.arm(nil) // faults never outlive their block
		d.observe(br)
		g.resync()
	}
	for _, k := range []string{"deploy-ok", "to-erc20-ok", "from-erc20-ok", "to-erc20-rejected", "from-erc20-rejected", "deploy-by-non-authority-rejected",
		"failed-conversion-state-compared", "evm-fault-fired", "hook-ok", "hook-rejected"} {
		run.Require(k, 1)
	}
}

func tkCopyCounts(m map[string]int) map[string]int {
	out := map[string]int{}
	for k, v := range m {
		out[k] = v
	}
	return out
}

func (d *tkC10) installOps() {
	r, evm := d.r, d.evm
	r.Ops["tk-evm-arm"] = func(ctx sdk.Context, raw json.RawMessage) error {
		var a tkOpArgs
		if err := json.Unmarshal(raw, &a); err != nil {
			return err
		}
		evm.arm(a.Faults)
		return nil
	}
	// tk-evm-hook plays a user's EVM transaction calling swapToNative on a token contract and
	// then runs the module's PostTxProcessing hook on the receipt, as the EVM module does; an
	// error of the hook fails the transaction (and reverts the ERC20 burn with it).
	r.Ops["tk-evm-hook"] = func(ctx sdk.Context, raw json.RawMessage) error {
		var a tkOpArgs
		if err := json.Unmarshal(raw, &a); err != nil {
			return err
		}
		contract, from := common.HexToAddress(a.Contract), common.HexToAddress(a.From)
		amt, _ := new(big.Int).SetString(a.Amount, 10)
		var logs []*ethtypes.Log
		switch a.Var {
		case "unknown-contract":
			lg, err := tkSwapToNativeLog(contract, from, a.To, amt)
			if err != nil {
				return err
			}
			logs = append(logs, lg)
		default:
			lg, err := evm.swapToNative(ctx, contract, from, a.To, amt)
			if err != nil {
				return err
			}
			logs = append(logs, lg)
			if a.Var == "two-logs" {
				amt2, _ := new(big.Int).SetString(a.Amount2, 10)
				lg2, err := evm.swapToNative(ctx, contract, from, a.To, amt2)
				if err != nil {
					return err
				}
				logs = append(logs, lg2)
			}
			if a.Var == "foreign-log" {
				logs = append([]*ethtypes.Log{{Address: contract, Topics: []common.Hash{lg.Topics[0], {}}, Data: lg.Data}}, logs...)
			}
		}
		// the transaction's target: the token contract itself, or - one time in four - another contract that calls it (a
		// wallet, router or forwarder; the log still carries the token contract's address), or none (a contract creation
		// whose constructor makes the call)
		to := &contract
		switch new(big.Int).Mod(amt, big.NewInt(8)).Int64() {
		case 1:
			fwd := common.HexToAddress("0x00000000000000000000000000000000f02a2de2")
			to = &fwd
		case 5:
			to = nil
		}
		msg := ethtypes.NewMessage(from, to, 0, big.NewInt(0), 100000, big.NewInt(0), big.NewInt(0), big.NewInt(0), nil, ethtypes.AccessList{}, false)
		return r.K.Token.Hooks().PostTxProcessing(ctx, msg, &ethtypes.Receipt{Logs: logs})
	}
}

func (d *tkC10) armIntent(kind string) (rig.Tx, bool) {
	rng := d.run.Rng
	a := d.g.anyAcc()
	if a == nil {
		return rig.Tx{}, false
	}
	var f tkFault
	switch kind {
	case "to-erc20":
		f = pick(rng, tkFault{"mint", 0, "err"}, tkFault{"mint", 0, "revert"}, tkFault{"mint", 0, "noop"}, tkFault{"mint", 0, "short"}, tkFault{"mint", 0, "over"}, tkFault{"mint", 0, "short64"}, tkFault{"mint", 0, "over64"}, tkFault{"mint", 0, "noop"},
			tkFault{"mint", 0, "wrongholder"}, tkFault{"balanceOf", 0, "lie"}, tkFault{"balanceOf", 1, "lie"}, tkFault{"balanceOf", 0, "err"}, tkFault{"balanceOf", 1, "revert"})
	case "from-erc20":
		f = pick(rng, tkFault{"burn", 0, "err"}, tkFault{"burn", 0, "revert"}, tkFault{"burn", 0, "noop"}, tkFault{"burn", 0, "short"}, tkFault{"burn", 0, "over"}, tkFault{"burn", 0, "short64"}, tkFault{"burn", 0, "over64"}, tkFault{"burn", 0, "noop"},
			tkFault{"burn", 0, "wrongholder"}, tkFault{"balanceOf", 0, "lie"}, tkFault{"balanceOf", 1, "lie"}, tkFault{"balanceOf", 1, "err"})
	default:
		f = pick(rng, tkFault{"create", 0, "err"}, tkFault{"create", 0, "revert"})
	}
	tag := &tkTag{Kind: "arm", Fault: f.Method + ":" + f.Kind}
	// a call without effect, or one that is off by a 64-bit word, meets an amount that is a whole number of 64-bit words
	d.g.wordAmt = f.Kind == "noop" || f.Kind == "short64" || f.Kind == "over64"
	return d.r.InjectOp(a, tag, "tk-evm-arm", tkOpArgs{Faults: []tkFault{f}}), true
}

// hookIntent: a holder of ERC20 calls swapToNative.
func (d *tkC10) hookIntent() (rig.Tx, bool) {
	g := d.g
	rng := g.rng
	type hold struct {
		a *rig.Account
		t *v1.Token
		b *big.Int
	}
	var hs []hold
	for i := range g.s.Tokens {
		t := &g.s.Tokens[i]
		if t.Contract == "" {
			continue
		}
		for _, a := range g.accs {
			if b := g.erc20Bal(t.Contract, a.Addr); b.Sign() > 0 && !g.poisoned[a.Addr.String()] {
				hs = append(hs, hold{a, t, b})
			}
		}
	}
	if len(hs) == 0 {
		return rig.Tx{}, false
	}
	h := hs[rng.Intn(len(hs))]
	tag := &tkTag{Kind: "hook", Role: "holder", Sym: h.t.Symbol, Var: "plain"}
	args := &tkOpArgs{Contract: tkNormHex(h.t.Contract), From: tkHex(h.a.Addr), Var: "plain"}
	amt := randFrac(rng, h.b)
	switch k := rng.Intn(12); {
	case k == 0:
		amt = new(big.Int).Set(h.b)
		tag.Var = "all"
	case k == 1:
		amt = new(big.Int).Add(h.b, bigOne)
		tag.Var = "balance+1"
	case k == 2:
		amt = new(big.Int)
		tag.Var = "zero-amount"
	case k == 3:
		args.Var, tag.Var = "unknown-contract", "unknown-contract"
		args.Contract = common.BigToAddress(new(big.Int).Rand(rng, pow2(160))).Hex()
	case k == 4 && h.b.Cmp(big.NewInt(3)) > 0:
		args.Var, tag.Var = "two-logs", "two-logs"
		amt = randFrac(rng, new(big.Int).Quo(h.b, big.NewInt(2)))
		args.Amount2 = randFrac(rng, new(big.Int).Quo(h.b, big.NewInt(2))).String()
		if rng.Intn(3) == 0 {
			// the first of the two events carries nothing (a share that rounded to zero), the second a positive amount
			amt = new(big.Int)
			d.run.Count("hook-receipt-with-an-empty-event-before-a-positive-one", 1)
		}
	case k == 5:
		args.Var, tag.Var = "foreign-log", "foreign-log"
	}
	switch k := rng.Intn(11); {
	case k <= 3:
		tag.Rcpt, args.To = "self", h.a.Addr.String()
	case k <= 5:
		tag.Rcpt, args.To = "other", g.accs[rng.Intn(len(g.accs))].Addr.String()
	case k == 6:
		tag.Rcpt, args.To = "fresh", sdk.AccAddress([]byte(fmt.Sprintf("tk-fresh-address-%03d", rng.Intn(1000)))).String()
	case k == 7:
		tag.Rcpt, args.To = "blocked", g.blockedAddr().String()
	case k == 8:
		tag.Rcpt, args.To = "not-an-address", "iaa1notanaddress"
	case k == 9: // a 32-byte account address (derived, interchain and group-policy accounts have that length)
		tag.Rcpt, args.To = "32-byte-address", sdk.AccAddress([]byte(fmt.Sprintf("tk-long-account-address-%08d", rng.Intn(1000)))).String()
	default:
		tag.Rcpt, args.To = "self", h.a.Addr.String()
	}
	args.Amount = amt.String()
	tag.Op = args
	return d.r.InjectOp(h.a, tag, "tk-evm-hook", args), true
}

func (d *tkC10) observe(br *rig.BlockRecord) {
	run := d.run
	if br.FinalErr != nil {
		run.Inconc("FinalizeBlock failed at height %d: %v", br.Height, br.FinalErr)
		return
	}
	var prev *tkSnap
	if br.PostBegin != nil {
		prev = br.PostBegin.(*tkSnap)
	}
	var failed []*tkTag
	compare := func(next *tkSnap, where string) {
		if prev == nil || next == nil {
			return
		}
		run.Eval(1)
		conv := false
		kinds := ""
		for _, t := range failed {
			if t.Kind == "to-erc20" || t.Kind == "from-erc20" || t.Kind == "hook" || t.Kind == "swapfee" || t.Kind == "deploy" {
				conv = true
			}
			kinds = t.Kind
		}
		if conv {
			run.Count("failed-conversion-state-compared", 1)
		}
		if df := tkStateDiff(prev, next); len(df) > 0 {
			k := "C10:token:state-changed-outside-successful-tx"
			if len(failed) > 0 {
				k = "C10:token:failed-conversion-changed-state:" + kinds
			}
			run.Violation(k, map[string]any{"diff": df, "where": where, "height": br.Height}, "state differs between two observation points with no successful tx in between (%d failed: %v) at height %d: %v", len(failed), failed, br.Height, df)
		}
	}
	for _, tx := range br.Txs {
		tag, _ := tx.Tag.(*tkTag)
		if tag == nil {
			tag = &tkTag{Kind: "other"}
		}
		run.Op("h=%d #%d %s %s ok=%v %s", br.Height, tx.Index, tag, msgBrief(tx.Msgs), tx.OK(), logBrief(tx))
		if tx.Pre != nil {
			compare(tx.Pre.(*tkSnap), fmt.Sprintf("before tx %d", tx.Index))
			prev = tx.Pre.(*tkSnap)
			failed = nil
		}
		if !tx.OK() || tx.Post == nil {
			failed = append(failed, tag)
			d.rejected(tx, tag)
			continue
		}
		if tx.Pre != nil {
			d.accepted(br, tx, tag, tx.Pre.(*tkSnap), tx.Post.(*tkSnap))
			if tag.Kind != "deploy" && tag.Kind != "setup" {
				// only a deployment binds a token to a contract; nothing else changes or drops a binding
				pre, post := tx.Pre.(*tkSnap), tx.Post.(*tkSnap)
				for i := range pre.Tokens {
					pt := &pre.Tokens[i]
					if pt.Contract == "" {
						continue
					}
					run.Eval(1)
					if nt := post.byMinUnit(pt.MinUnit); nt == nil || !strings.EqualFold(nt.Contract, pt.Contract) {
						got := "<token gone>"
						if nt != nil {
							got = nt.Contract
						}
						run.Violation("C10:token:contract-binding-changed-by-"+tag.Kind, map[string]any{"height": br.Height, "msgs": msgBrief(tx.Msgs)}, "token %s was bound to contract %s before a %s, afterwards its record names %q", pt.Symbol, pt.Contract, tag.Kind, got)
					}
				}
			}
			if run.Property == "C09" {
				d.burnTallyUntouched(br, tx, tag, tx.Pre.(*tkSnap), tx.Post.(*tkSnap))
			}
		}
		prev = tx.Post.(*tkSnap)
		failed = nil
	}
	if br.PreEnd != nil {
		compare(br.PreEnd.(*tkSnap), "before end block")
	}
}

// burnTallyUntouched (C09 borrowing this director): "burned amounts are tallied exactly" - a transaction that carries no
// burn message (a conversion to or from ERC20, a deployment, a hook call) leaves every burn tally as it was; one that
// does moves the tally of that denomination by exactly the burned amount.
func (d *tkC10) burnTallyUntouched(br *rig.BlockRecord, tx *rig.TxRecord, tag *tkTag, pre, post *tkSnap) {
	want := map[string]*big.Int{}
	for dn, v := range pre.Burn {
		want[dn] = new(big.Int).Set(v)
	}
	for _, m := range tx.Msgs {
		if b, ok := m.(*v1.MsgBurnToken); ok {
			if want[b.Coin.Denom] == nil {
				want[b.Coin.Denom] = new(big.Int)
			}
			want[b.Coin.Denom].Add(want[b.Coin.Denom], bi(b.Coin.Amount))
		}
	}
	d.run.Eval(1)
	for dn, w := range want {
		g := post.Burn[dn]
		if g == nil {
			g = bigZero
		}
		if g.Cmp(w) != 0 {
			d.run.Violation("C09:token:burn-tally:moved-by-a-transaction-that-burned-something-else", map[string]any{"height": br.Height, "msgs": msgBrief(tx.Msgs), "intent": tag.String()},
				"burn tally of %s is %s after %s, %s before plus the burn messages of the transaction", dn, g, tag.Kind, w)
		}
	}
	for dn, g := range post.Burn {
		if want[dn] == nil && g.Sign() != 0 {
			d.run.Violation("C09:token:burn-tally:moved-by-a-transaction-that-burned-something-else", map[string]any{"height": br.Height, "msgs": msgBrief(tx.Msgs), "intent": tag.String()},
				"burn tally of %s appeared (%s) after %s although nothing of it was burned", dn, g, tag.Kind)
		}
	}
	d.run.Count("conversion-transactions-with-the-burn-tally-compared", 1)
}

func (d *tkC10) rejected(tx *rig.TxRecord, tag *tkTag) {
	run := d.run
	run.Count(tag.Kind+"-rejected", 1)
	if tag.Basic {
		run.Count("rejected-by-validate-basic", 1)
		return
	}
	if tag.Kind == "deploy" && tag.Role == "non-authority" {
		run.Count("deploy-by-non-authority-rejected", 1)
	}
	switch tag.Kind {
	case "to-erc20", "from-erc20", "hook", "deploy", "swapfee":
		run.Class(tag.Kind, tag.Var, "rcpt="+tag.Rcpt, "rejected")
	}
}

func (d *tkC10) accepted(br *rig.BlockRecord, tx *rig.TxRecord, tag *tkTag, pre, post *tkSnap) {
	run := d.run
	run.Count(tag.Kind+"-ok", 1)
	act := balDelta(pre.Bal, post.Bal)
	supAct := coinsDelta(pre.Supply, post.Supply)
	evmAct := tkEVMDelta(pre.EVM, post.EVM)
	exp := ledger{}
	supExp := map[string]*big.Int{}
	evmExp := map[string]*big.Int{}
	detail := map[string]any{"msgs": msgBrief(tx.Msgs), "height": br.Height, "intent": tag.String()}
	key := "C10:token:" + tag.Kind
	addEVM := func(k string, v *big.Int) {
		if cur := evmExp[k]; cur != nil {
			cur.Add(cur, v)
		} else {
			evmExp[k] = new(big.Int).Set(v)
		}
		if evmExp[k].Sign() == 0 {
			delete(evmExp, k)
		}
	}
	addSup := func(dn string, v *big.Int) {
		if cur := supExp[dn]; cur != nil {
			cur.Add(cur, v)
		} else {
			supExp[dn] = new(big.Int).Set(v)
		}
	}
	neg := func(v *big.Int) *big.Int { return new(big.Int).Neg(v) }
	conv := false
	var denom, contract string
	switch tag.Kind {
	case "to-erc20":
		msg := tx.Msgs[0].(*v1.MsgSwapToERC20)
		pt := pre.byMinUnit(msg.Amount.Denom)
		if pt == nil || pt.Contract == "" {
			run.Violation(key+":no-bound-contract", detail, "conversion of %s succeeded but the token is bound to no contract", msg.Amount)
			return
		}
		amt := bi(msg.Amount.Amount)
		denom, contract = msg.Amount.Denom, tkNormHex(pt.Contract)
		exp.sub(msg.Sender, denom, amt)
		addSup(denom, neg(amt))
		addEVM(contract+"/"+tkNormHex(msg.Receiver), amt)
		addEVM(contract+"/supply", amt)
		conv = true
		run.Class("to-erc20", tag.Var, "rcpt="+tag.Rcpt, tkScaleClass(pt.Scale), "amt="+magClass(amt), "ok")
	case "from-erc20":
		msg := tx.Msgs[0].(*v1.MsgSwapFromERC20)
		pt := pre.byMinUnit(msg.WantedAmount.Denom)
		if pt == nil || pt.Contract == "" {
			run.Violation(key+":no-bound-contract", detail, "conversion of %s succeeded but the token is bound to no contract", msg.WantedAmount)
			return
		}
		amt := bi(msg.WantedAmount.Amount)
		denom, contract = msg.WantedAmount.Denom, tkNormHex(pt.Contract)
		sender, _ := sdk.AccAddressFromBech32(msg.Sender)
		exp.add(msg.Receiver, denom, amt)
		addSup(denom, amt)
		addEVM(contract+"/"+tkHex(sender), neg(amt))
		addEVM(contract+"/supply", neg(amt))
		conv = true
		run.Class("from-erc20", tag.Var, "rcpt="+tag.Rcpt, tkScaleClass(pt.Scale), "amt="+magClass(amt), "ok")
	case "hook":
		a := tag.Op
		if a.Var != "unknown-contract" {
			var pt *v1.Token
			for i := range pre.Tokens {
				if pre.Tokens[i].Contract != "" && tkNormHex(pre.Tokens[i].Contract) == a.Contract {
					pt = &pre.Tokens[i]
				}
			}
			if pt == nil {
				run.Violation(key+":no-bound-token", detail, "hook minted for contract %s which is bound to no token", a.Contract)
				return
			}
			amt, _ := new(big.Int).SetString(a.Amount, 10)
			if a.Var == "two-logs" {
				a2, _ := new(big.Int).SetString(a.Amount2, 10)
				amt.Add(amt, a2)
			}
			denom, contract = pt.MinUnit, a.Contract
			exp.add(a.To, denom, amt)
			addSup(denom, amt)
			addEVM(contract+"/"+a.From, neg(amt))
			addEVM(contract+"/supply", neg(amt))
			conv = true
			run.Class("hook", tag.Var, "rcpt="+tag.Rcpt, "amt="+magClass(amt), "ok")
		} else {
			run.Class("hook", tag.Var, "ignored")
		}
	case "deploy":
		run.Eval(3)
		if tag.Role == "non-authority" {
			run.Violation("C10:token:deploy-without-authority", detail, "MsgDeployERC20 naming a non-authority account succeeded")
		}
		msg := d.deployMsgOf(tx, tag)
		if msg != nil {
			pt := post.byMinUnit(msg.MinUnit)
			bt := pre.byMinUnit(msg.MinUnit)
			switch {
			case pt == nil || pt.Contract == "":
				run.Violation(key+":no-contract-bound", detail, "deployment for %s succeeded but the token has no contract", msg.MinUnit)
			case bt != nil && bt.Contract != "":
				run.Violation(key+":rebound", detail, "deployment for %s succeeded although it was bound to %s (now %s)", msg.MinUnit, bt.Contract, pt.Contract)
			default:
				c := tkNormHex(pt.Contract)
				if pre.EVM[c] != nil || post.EVM[c] == nil {
					run.Violation(key+":contract-not-fresh", detail, "contract %s bound to %s existed before=%v exists after=%v", c, msg.MinUnit, pre.EVM[c] != nil, post.EVM[c] != nil)
				}
				for i := range post.Tokens {
					if o := &post.Tokens[i]; o.MinUnit != pt.MinUnit && o.Contract != "" && tkNormHex(o.Contract) == c {
						run.Violation(key+":contract-bound-twice", detail, "contract %s is bound to %s and %s", c, o.Symbol, pt.Symbol)
					}
				}
			}
			// a deployment concerns one token: every other token record stays what it was
			for i := range pre.Tokens {
				o := &pre.Tokens[i]
				if o.MinUnit == msg.MinUnit {
					continue
				}
				run.Eval(1)
				if po := post.bySymbol(o.Symbol); po == nil || po.String() != o.String() {
					got := "no record"
					if po != nil {
						got = po.String()
					}
					run.Violation(key+":another-token-record-changed", detail, "deployment for %s changed the record of token %s (min unit %s): now %s", msg.MinUnit, o.Symbol, o.MinUnit, got)
				}
			}
			run.Class("deploy", tag.Var, "ok")
		}
	default:
		// other successful txs (issue, mint, send, params, arm) are not conversions
		return
	}
	run.Eval(4)
	if df := diffLedger(exp, act); len(df) > 0 {
		detail["diff"] = df
		run.Violation(key+":native-side", detail, "bank balances after a successful %s differ from the stated amount moving between the stated parties: %v", tag.Kind, df)
	}
	if df := diffLedger(map[string]map[string]*big.Int{"supply": supExp}, map[string]map[string]*big.Int{"supply": supAct}); len(df) > 0 {
		detail["supply_diff"] = df
		run.Violation(key+":native-supply", detail, "native supplies after a successful %s changed other than by the stated amount: %v", tag.Kind, df)
	}
	if df := tkDiffFlat(evmExp, evmAct); len(df) > 0 {
		detail["erc20_diff"] = df
		run.Violation(key+":erc20-side", detail, "ERC20 balances after a successful %s differ from the stated amount credited/debited to the stated holder: %v", tag.Kind, df)
	}
	if conv {
		// native supply + ERC20 supply of the token unchanged
		run.Eval(1)
		before := new(big.Int).Add(pre.supplyOf(denom), tkEVMSupply(pre, contract))
		after := new(big.Int).Add(post.supplyOf(denom), tkEVMSupply(post, contract))
		if before.Cmp(after) != 0 {
			run.Violation(key+":native-plus-erc20-supply", detail, "native + ERC20 supply of %s was %s, is %s after a successful %s", denom, before, after, tag.Kind)
		}
		run.Sample("conversion:"+tag.Kind, map[string]any{"height": br.Height, "intent": tag.String(), "msg": msgBrief(tx.Msgs), "op": tag.Op, "native_delta": fmt.Sprint(act), "erc20_delta": fmt.Sprint(evmAct)})
	}
}

func tkEVMSupply(s *tkSnap, contract string) *big.Int {
	if ct := s.EVM[contract]; ct != nil {
		return ct.Supply
	}
	return new(big.Int)
}

// deployMsgOf recovers the routed or signed MsgDeployERC20 of a deploy tx.
func (d *tkC10) deployMsgOf(tx *rig.TxRecord, tag *tkTag) *v1.MsgDeployERC20 {
	if m, ok := tx.Msgs[0].(*v1.MsgDeployERC20); ok {
		return m
	}
	m, _ := tag.Routed.(*v1.MsgDeployERC20)
	return m
}

// ---- (c) fee-token swaps through a keeper with a swap registry

func tkDec(s string) sdkmath.LegacyDec { return sdkmath.LegacyMustNewDecFromStr(s) }

func (d *tkC10) installSwapFeeOp() {
	r := d.r
	r.Ops["tk-swapfee"] = func(ctx sdk.Context, raw json.RawMessage) error {
		var a tkOpArgs
		if err := json.Unmarshal(raw, &a); err != nil {
			return err
		}
		reg := v1.SwapRegistry{}
		for _, e := range a.Reg {
			reg[e.From] = v1.SwapParams{MinUnit: e.To, Ratio: tkDec(e.Ratio)}
		}
		amt, ok := sdkmath.NewIntFromString(a.Amount)
		if !ok {
			return fmt.Errorf("bad amount")
		}
		msg := &v1.MsgSwapFeeToken{FeePaid: sdk.NewCoin(a.Denom, amt), Sender: a.Sender, Receiver: a.Receiver}
		if err := msg.ValidateBasic(); err != nil {
			return err
		}
		srv := tokenkeeper.NewMsgServerImpl(r.K.Token.WithSwapRegistry(reg))
		_, err := srv.SwapFeeToken(ctx, msg)
		if err == nil && a.Var == "then-fail" {
			return fmt.Errorf("harness: the transaction is rolled back after its fee swap")
		}
		return err
	}
}

type tkFeeTok struct {
	sym, mu string
	scale   uint32
	owner   *rig.Account
}

func runTokenSwapFee(run *ev.Run, c int) {
	rng := run.Rng
	bal := sdk.NewCoins(sdk.NewCoin(rig.BondDenom, toInt(pow2(150))))
	r := rig.New(rig.Options{Seed: fmt.Sprintf("tk10f-%d-%d", run.Seed, c), NumAccounts: 6, Balances: bal, InflationOff: true, SubSecond: c%2 == 1})
	g := newTkGen(run, r, nil, true)
	r.Snapshot = g.snap
	d := &tkC10{run: run, r: r, g: g}
	d.installSwapFeeOp()
	deliver := func(txs []rig.Tx) {
		br := r.DeliverBlock(time.Duration(1+rng.Intn(20))*time.Second, txs)
		d.observeFee(br)
		g.resync()
	}
	// 19 tokens, one per scale, each held by several accounts in large amounts
	var toks []tkFeeTok
	var txs []rig.Tx
	for s := uint32(0); s <= 18; s++ {
		o := r.Accounts[int(s)%len(r.Accounts)]
		t := tkFeeTok{sym: fmt.Sprintf("f%02dx%s", s, g.fresh(3)), mu: fmt.Sprintf("mf%02d%s", s, g.fresh(3)), scale: s, owner: o}
		toks = append(toks, t)
	}
	// before anything is issued for real: one transaction issues the tokens of scales 2 and 11 under their later minimum
	// units but with the scales swapped, swaps one for the other - and is rolled back (its harness operation fails after
	// the swap). Nothing of it may be left when the same minimum units are issued for real below
	{
		a, b, o := toks[2], toks[11], r.Accounts[0]
		reg := []tkRegEntry{{From: a.mu, To: b.mu, Ratio: "1"}}
		args := tkOpArgs{Reg: reg, Denom: a.mu, Amount: "1000000000000000", Sender: o.Addr.String(), Receiver: o.Addr.String(), Var: "then-fail"}
		deliver([]rig.Tx{r.InjectOpAfter(o, &tkTag{Kind: "rolled-back-prologue"}, "tk-swapfee", args,
			&v1.MsgIssueToken{Symbol: "rbk" + g.fresh(3), Name: "rolled back", Scale: b.scale, MinUnit: a.mu, InitialSupply: 1000000, MaxSupply: math.MaxUint64, Mintable: true, Owner: o.Addr.String()},
			&v1.MsgIssueToken{Symbol: "rbk" + g.fresh(3), Name: "rolled back", Scale: a.scale, MinUnit: b.mu, InitialSupply: 1000000, MaxSupply: math.MaxUint64, Mintable: true, Owner: o.Addr.String()})})
		if n := len(g.snap(r.Ctx()).(*tkSnap).Tokens); n > 1 {
			run.Inconc("the rolled-back prologue of the fee-swap chain left %d token records", n)
			return
		}
		run.Count("swapfee-prologue-rolled-back", 1)
	}
	for _, t := range toks {
		o, s := t.owner, t.scale
		txs = append(txs, r.Mk(o, &tkTag{Kind: "issue", Role: "owner", Sym: t.sym}, &v1.MsgIssueToken{Symbol: t.sym, Name: "fee token", Scale: s, MinUnit: t.mu, InitialSupply: tokentypes.MaximumInitSupply, MaxSupply: math.MaxUint64, Mintable: true, Owner: o.Addr.String()}))
		if len(txs) == 7 {
			deliver(txs)
			txs = nil
		}
	}
	deliver(txs)
	txs = nil
	for _, t := range toks {
		for k := 1; k <= 2; k++ {
			to := r.Accounts[(int(t.scale)+k)%len(r.Accounts)]
			amt := new(big.Int).Mul(randMag(rng, 60), tkPow10(t.scale))
			txs = append(txs, r.Mk(t.owner, &tkTag{Kind: "mint", Role: "owner", Sym: t.sym}, &v1.MsgMintToken{Coin: coin(t.mu, amt), Receiver: to.Addr.String(), Owner: t.owner.Addr.String()}))
		}
		if len(txs) >= 10 {
			deliver(txs)
			txs = nil
		}
	}
	deliver(txs)
	// in every second case a few target min units are also the *symbol* of an unrelated token with another scale
	shadow := c%2 == 1
	if shadow {
		txs = nil
		for _, i := range []int{0, 3, 6, 12, 18} {
			t := toks[i]
			sc := uint32(18)
			if t.scale >= 9 {
				sc = 0
			}
			o := r.Accounts[(i+3)%len(r.Accounts)]
			txs = append(txs, r.Mk(o, &tkTag{Kind: "issue", Role: "stranger", Var: "cross-symbol-is-others-minunit", Sym: t.mu}, &v1.MsgIssueToken{Symbol: t.mu, Name: "shadow", Scale: sc, MinUnit: "msh" + g.fresh(4), InitialSupply: 5, MaxSupply: 0, Mintable: false, Owner: o.Addr.String()}))
		}
		deliver(txs)
	}
	blocks := tierN(run.Tier, 140, 550)
	for b := 0; b < blocks; b++ {
		g.begin()
		txs = nil
		for i, n := 0, 2+rng.Intn(5); i < n; i++ {
			if tx, ok := d.swapFeeIntent(toks); ok {
				txs = append(txs, tx)
			}
		}
		deliver(txs)
	}
	for _, k := range []string{"swapfee-ok", "swapfee-rejected", "swapfee-ratio1-ok", "swapfee-dust-left", "swapfee-blocked-receiver-rejected", "failed-conversion-state-compared", "swapfee-scale-pairs"} {
		run.Require(k, 1)
	}
}

func (d *tkC10) swapFeeIntent(toks []tkFeeTok) (rig.Tx, bool) {
	g := d.g
	rng := g.rng
	i := rng.Intn(len(toks))
	j := rng.Intn(len(toks) - 1)
	if j >= i {
		j++
	}
	from, to := toks[i], toks[j]
	// sender: a holder of the paid token
	var sender *rig.Account
	for _, k := range rng.Perm(len(g.accs)) {
		if a := g.accs[k]; !g.poisoned[a.Addr.String()] && g.s.balOf(a.Addr.String(), from.mu).Sign() > 0 {
			sender = a
			break
		}
	}
	if sender == nil {
		return rig.Tx{}, false
	}
	bal := g.s.balOf(sender.Addr.String(), from.mu)
	ratio, rc := tkRatioOf(rng)
	tag := &tkTag{Kind: "swapfee", Role: "holder", Sym: from.sym, Var: "ratio=" + rc}
	amt, ac := tkAmountOf(rng, from.scale, to.scale, ratio)
	switch k := rng.Intn(10); {
	case k == 0:
		amt, ac = new(big.Int).Set(bal), "all"
	case k == 1:
		amt, ac = new(big.Int).Add(bal, bigOne), "balance+1"
	case amt.Cmp(bal) > 0:
		amt, ac = randFrac(rng, bal), "part"
	}
	tag.Var += "/" + ac
	args := &tkOpArgs{Sender: sender.Addr.String(), Denom: from.mu, Amount: amt.String(), Reg: []tkRegEntry{{From: from.mu, To: to.mu, Ratio: ratio.String()}}}
	// an unrelated entry
	if rng.Intn(2) == 0 {
		args.Reg = append(args.Reg, tkRegEntry{From: to.mu, To: from.mu, Ratio: "1.000000000000000000"})
	}
	switch k := rng.Intn(12); {
	case k <= 3:
		tag.Rcpt = "empty"
	case k <= 5:
		tag.Rcpt, args.Receiver = "self", sender.Addr.String()
	case k <= 8:
		tag.Rcpt, args.Receiver = "other", g.accs[rng.Intn(len(g.accs))].Addr.String()
	case k == 9:
		tag.Rcpt, args.Receiver = "blocked", g.blockedAddr().String()
	case k == 10:
		tag.Rcpt, args.Receiver = "fresh", sdk.AccAddress([]byte(fmt.Sprintf("tk-fresh-address-%03d", rng.Intn(1000)))).String()
	default:
		tag.Rcpt, args.Receiver = "token-module", authtypes.NewModuleAddress(tokentypes.ModuleName).String()
	}
	switch rng.Intn(25) {
	case 0: // paid token not in the registry
		args.Reg = []tkRegEntry{{From: to.mu, To: from.mu, Ratio: ratio.String()}}
		tag.Var = "unregistered"
	case 1: // target is no token
		args.Reg[0].To = "mnotoken"
		tag.Var = "target-unknown"
	case 2: // the real message through the app's router: the app has no registry
		tag.Var = "through-router"
		tag.Kind = "swapfee"
		return g.mk(sender, tag, &v1.MsgSwapFeeToken{FeePaid: coin(from.mu, amt), Sender: sender.Addr.String(), Receiver: args.Receiver})
	}
	tag.Op = args
	return d.r.InjectOp(sender, tag, "tk-swapfee", args), true
}

func (d *tkC10) observeFee(br *rig.BlockRecord) {
	run := d.run
	if br.FinalErr != nil {
		run.Inconc("FinalizeBlock failed at height %d: %v", br.Height, br.FinalErr)
		return
	}
	var prev *tkSnap
	if br.PostBegin != nil {
		prev = br.PostBegin.(*tkSnap)
	}
	var failed []*tkTag
	compare := func(next *tkSnap) {
		if prev == nil || next == nil {
			return
		}
		run.Eval(1)
		kind := ""
		for _, t := range failed {
			if t.Kind == "swapfee" {
				kind = t.Kind
				run.Count("failed-conversion-state-compared", 1)
			}
		}
		if df := tkStateDiff(prev, next); len(df) > 0 {
			k := "C10:token:state-changed-outside-successful-tx"
			if kind != "" {
				k = "C10:token:failed-conversion-changed-state:" + kind
			}
			run.Violation(k, map[string]any{"diff": df, "height": br.Height}, "state differs between two observation points with no successful tx in between (failed: %v) at height %d: %v", failed, br.Height, df)
		}
	}
	for _, tx := range br.Txs {
		tag, _ := tx.Tag.(*tkTag)
		if tag == nil {
			tag = &tkTag{Kind: "other"}
		}
		run.Op("h=%d #%d %s %s ok=%v %s", br.Height, tx.Index, tag, tkOpBrief(tag), tx.OK(), logBrief(tx))
		if tx.Pre != nil {
			compare(tx.Pre.(*tkSnap))
			prev = tx.Pre.(*tkSnap)
			failed = nil
		}
		if !tx.OK() || tx.Post == nil {
			failed = append(failed, tag)
			run.Count(tag.Kind+"-rejected", 1)
			if tag.Kind == "swapfee" {
				if tag.Rcpt == "blocked" {
					run.Count("swapfee-blocked-receiver-rejected", 1)
				}
				run.Class("swapfee", tag.Var, "rcpt="+tag.Rcpt, "rejected")
			}
			continue
		}
		if tx.Pre != nil && tag.Kind == "swapfee" {
			d.acceptedFee(br, tx, tag, tx.Pre.(*tkSnap), tx.Post.(*tkSnap))
		}
		prev = tx.Post.(*tkSnap)
		failed = nil
	}
	if br.PreEnd != nil {
		compare(br.PreEnd.(*tkSnap))
	}
}

func tkOpBrief(tag *tkTag) string {
	if tag.Op == nil {
		return ""
	}
	bz, _ := json.Marshal(tag.Op)
	return string(bz)
}

func (d *tkC10) acceptedFee(br *rig.BlockRecord, tx *rig.TxRecord, tag *tkTag, pre, post *tkSnap) {
	run := d.run
	a := tag.Op
	detail := map[string]any{"op": a, "height": br.Height, "intent": tag.String()}
	if a == nil {
		run.Violation("C10:token:swap-fee:accepted-without-registry", detail, "MsgSwapFeeToken succeeded through the app's router although no fee token is registered")
		return
	}
	run.Count("swapfee-ok", 1)
	var entry *tkRegEntry
	for i := range a.Reg {
		if a.Reg[i].From == a.Denom {
			entry = &a.Reg[i]
		}
	}
	if entry == nil {
		run.Violation("C10:token:swap-fee:unregistered-accepted", detail, "fee swap of %s%s succeeded although the registry has no entry for it", a.Amount, a.Denom)
		return
	}
	tin, tout := pre.byMinUnit(entry.From), pre.byMinUnit(entry.To)
	if tin == nil || tout == nil {
		run.Violation("C10:token:swap-fee:unknown-token", detail, "fee swap %s -> %s succeeded but one of them is no token", entry.From, entry.To)
		return
	}
	ratio := tkDec(entry.Ratio)
	offered, _ := new(big.Int).SetString(a.Amount, 10)
	act := balDelta(pre.Bal, post.Bal)
	supAct := coinsDelta(pre.Supply, post.Supply)
	burned, minted := new(big.Int), new(big.Int)
	if v := supAct[entry.From]; v != nil {
		burned.Neg(v)
	}
	if v := supAct[entry.To]; v != nil {
		minted.Set(v)
	}
	rcpt := a.Receiver
	if rcpt == "" {
		rcpt = a.Sender
	}
	exp := ledger{}
	exp.sub(a.Sender, entry.From, burned)
	exp.add(rcpt, entry.To, minted)
	detail["burned"], detail["minted"], detail["scale_in"], detail["scale_out"], detail["ratio"] = burned.String(), minted.String(), tin.Scale, tout.Scale, entry.Ratio
	run.Eval(5)
	// the offered amount minus what was burned stays with the sender; nobody else is touched
	if df := diffLedger(exp, act); len(df) > 0 {
		detail["diff"] = df
		run.Violation("C10:token:swap-fee:balance-sheet", detail, "balances after a fee swap differ from sender -burned / receiver +minted (dust stays with the sender, nothing left in the module account): %v", df)
	}
	for dn, v := range supAct {
		if dn != entry.From && dn != entry.To {
			run.Violation("C10:token:swap-fee:supply", detail, "fee swap changed the supply of %s by %s", dn, v)
		}
	}
	if burned.Cmp(offered) > 0 || burned.Sign() < 0 || minted.Sign() < 0 {
		run.Violation("C10:token:swap-fee:burned-exceeds-offered", detail, "fee swap offered %s%s, burned %s, minted %s", offered, entry.From, burned, minted)
	}
	lhs := new(big.Int).Mul(minted, tkPow10(tin.Scale))
	lhs.Mul(lhs, e18)
	rhs := new(big.Int).Mul(burned, ratio.BigInt())
	rhs.Mul(rhs, tkPow10(tout.Scale))
	one := sdkmath.LegacyOneDec()
	shadowed := false
	if st := pre.bySymbol(entry.To); st != nil && st.MinUnit != entry.To && st.Scale != tout.Scale {
		shadowed = true
		run.Count("swapfee-target-shadowed-ok", 1)
	}
	if lhs.Cmp(rhs) > 0 {
		cause := "ratio<=1"
		if ratio.GT(one) {
			cause = "ratio>1"
		}
		if shadowed {
			cause = "target-min-unit-is-also-a-symbol"
			detail["shadow_symbol_scale"] = pre.bySymbol(entry.To).Scale
		}
		worth := new(big.Rat).SetFrac(rhs, new(big.Int).Mul(tkPow10(tin.Scale), e18))
		run.Violation("C10:token:swap-fee:minted-exceeds-worth:"+cause, detail, "fee swap at ratio %s (scale %d -> %d): burned %s%s, minted %s%s, but the burned amount is worth only %s", ratio, tin.Scale, tout.Scale, burned, entry.From, minted, entry.To, worth.FloatString(20))
	}
	outcome := "converted-all"
	if burned.Cmp(offered) < 0 {
		outcome = "dust-left"
		run.Count("swapfee-dust-left", 1)
	}
	if ratio.Equal(one) && !shadowed {
		run.Eval(1)
		run.Count("swapfee-ratio1-ok", 1)
		if new(big.Int).Mul(burned, tkPow10(tout.Scale)).Cmp(new(big.Int).Mul(minted, tkPow10(tin.Scale))) != 0 {
			run.Violation("C10:token:swap-fee:ratio1-inexact", detail, "fee swap at ratio 1 (scale %d -> %d): burned %s, minted %s", tin.Scale, tout.Scale, burned, minted)
		}
	}
	run.Count("swapfee-scale-pairs", 1)
	run.Class("swapfee", tin.Scale, tout.Scale)
	run.Class("swapfee-case", tag.Var, "rcpt="+tag.Rcpt, outcome, fmt.Sprint("shadowed=", shadowed))
	run.Sample("swapfee:"+outcome, detail)
}

// ---------------------------------------------------------------------------------------------
// reusable workload

// tokenWorkload generates a mild mix of token txs on a shared chain: issue / mint / edit / burn /
// transfer-owner / send and, unless NoERC20 is set, one ERC20 deployment plus conversions in both
// directions against whatever EVM the chain is wired with (the repository's in-memory mock).
type tokenWorkload struct {
	NoERC20 bool
	run     *ev.Run
	r       *rig.Rig
	g       *tkGen
}

func newTokenWorkload() *tokenWorkload { return &tokenWorkload{} }

func (w *tokenWorkload) Name() string { return "token" }

// Genesis sets the beacon address so that MsgDeployERC20 is possible.
func (w *tokenWorkload) Genesis(cdc codec.Codec, gs map[string]json.RawMessage) {
	var st v1.GenesisState
	if raw, ok := gs[tokentypes.ModuleName]; ok {
		if err := cdc.UnmarshalJSON(raw, &st); err != nil {
			return
		}
		st.Params.Beacon = tkBeacon
		gs[tokentypes.ModuleName] = cdc.MustMarshalJSON(&st)
	}
}

func (w *tokenWorkload) Attach(run *ev.Run, r *rig.Rig) {
	w.run, w.r = run, r
	w.g = newTkGen(run, r, nil, false)
	w.g.mockEVM = true
}

func (w *tokenWorkload) Next(block int) []rig.Tx {
	g := w.g
	g.begin()
	kinds := []string{"issue", "mint", "edit", "burn", "transfer", "send", "deploy", "to-erc20", "from-erc20", "issue-dup", "mint-hostile", "issue-shadow"}
	weights := []int{4, 6, 4, 6, 2, 4, 2, 4, 4, 1, 1, 2}
	if len(g.ownedTokens()) >= 12 {
		weights[0], weights[11] = 0, 0
	}
	if len(g.ownedTokens()) == 0 {
		weights = []int{1, 0, 0, 0, 0, 0, 0, 0, 0, 0, 0, 0}
	}
	if w.NoERC20 {
		weights[6], weights[7], weights[8] = 0, 0, 0
	}
	var txs []rig.Tx
	for i, n := 0, g.rng.Intn(4); i < n; i++ {
		if tx, ok := g.make(kinds[weighted(g.rng, weights)]); ok {
			txs = append(txs, tx)
		}
	}
	return txs
}

func (w *tokenWorkload) Observe(br *rig.BlockRecord) {
	for _, tx := range br.Txs {
		tag, _ := tx.Tag.(*tkTag)
		if tag == nil || !tx.OK() || len(tx.Msgs) != 1 {
			continue
		}
		if m, ok := tx.Msgs[0].(*v1.MsgTransferTokenOwner); ok {
			w.g.prev[m.Symbol] = append(w.g.prev[m.Symbol], m.SrcOwner)
		}
	}
	w.g.resync()
}

var _ Workload = (*tokenWorkload)(nil)

// tkManyTokensGenesis adds n tokens gt000.. (min units gm000.., scales 0..3, 1000 main units each, mintable up to 10^6) held
// by the first genesis account.
func tkManyTokensGenesis(n int) func(cdc codec.Codec, gs map[string]json.RawMessage) {
	return func(cdc codec.Codec, gs map[string]json.RawMessage) {
		var ag authtypes.GenesisState
		cdc.MustUnmarshalJSON(gs[authtypes.ModuleName], &ag)
		accs, err := authtypes.UnpackAccounts(ag.Accounts)
		if err != nil || len(accs) == 0 {
			panic(fmt.Sprintf("token workload: cannot read genesis accounts: %v", err))
		}
		var bg banktypes.GenesisState
		cdc.MustUnmarshalJSON(gs[banktypes.ModuleName], &bg)
		var tg v1.GenesisState
		cdc.MustUnmarshalJSON(gs[tokentypes.ModuleName], &tg)
		holder := accs[0].GetAddress().String() // genesis accounts are listed in the rig's account order
		// their owner is an account nobody has a key for (the director's owner intents keep working on the tokens issued by
		// messages); the coins are with the first account, and any holder may burn
		owner := sdk.AccAddress([]byte("tk-genesis-token-owner")).String()
		add := sdk.NewCoins()
		for i := 0; i < n; i++ {
			scale := uint32(i % 4)
			tg.Tokens = append(tg.Tokens, v1.Token{Symbol: fmt.Sprintf("gt%03d", i), Name: fmt.Sprintf("genesis token %d", i), Scale: scale, MinUnit: fmt.Sprintf("gm%03d", i), InitialSupply: 1000, MaxSupply: 1_000_000, Mintable: i%5 != 0, Owner: owner})
			add = add.Add(sdk.NewCoin(fmt.Sprintf("gm%03d", i), toInt(new(big.Int).Mul(big.NewInt(1000), tkPow10(scale)))))
		}
		for i := range bg.Balances {
			if bg.Balances[i].Address == holder {
				bg.Balances[i].Coins = bg.Balances[i].Coins.Add(add...)
			}
		}
		bg.Supply = bg.Supply.Add(add...)
		gs[banktypes.ModuleName] = cdc.MustMarshalJSON(&bg)
		gs[tokentypes.ModuleName] = cdc.MustMarshalJSON(&tg)
	}
}

// burnQuery: what the module's TotalBurn query reports is the tally users see; it must list every burned denomination with
// the sum of its burns (the per-transaction monitor reads the records themselves).
func (d *tkC09) burnQuery(h int64) {
	run := d.run
	resp, err := d.r.K.Token.TotalBurn(d.r.Ctx(), &v1.QueryTotalBurnRequest{})
	if err != nil {
		run.Violation("C09:token:burn-tally:query-fails", map[string]any{"height": h}, "TotalBurn query fails at height %d: %v", h, err)
		return
	}
	run.Eval(1)
	got := map[string]*big.Int{}
	for _, c := range resp.BurnedCoins {
		if prev, dup := got[c.Denom]; dup {
			prev.Add(prev, bi(c.Amount))
		} else {
			got[c.Denom] = bi(c.Amount)
		}
	}
	if n := int64(len(got)); n > run.Counters["burn-tallies-listed-by-the-query(max)"] {
		run.Counters["burn-tallies-listed-by-the-query(max)"] = n
		if n > 100 {
			run.Counters["burn-tallies-listed-by-the-query(max)>100"] = 1
		}
	}
	for dn, want := range d.model.burned {
		if want.Sign() == 0 {
			continue
		}
		g := got[dn]
		if g == nil {
			g = bigZero
		}
		if g.Cmp(want) != 0 {
			run.Violation("C09:token:burn-tally:query", map[string]any{"height": h, "denom": dn, "listed": len(got), "burned_denoms": len(d.model.burned)}, "TotalBurn query at height %d reports %s of %s burned, the sum of its burns is %s (%d denominations listed, %d have burns)", h, g, dn, want, len(got), len(d.model.burned))
			return
		}
	}
}
