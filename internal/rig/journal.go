package rig

import (
	"bufio"
	"crypto/sha256"
	"encoding/hex"
	"encoding/json"
	"os"
	"time"
)

// Journal is the recorded history of one chain: genesis, then for every block its header and
// tx bytes (written before execution) and the outcome (written after). It is what C11's
// replicas replay and what witnesses are made of.
type Journal struct {
	Entries []JEntry
	f       *os.File
	w       *bufio.Writer
}

type JEntry struct {
	Kind          string    `json:"kind"` // genesis | block | done
	Height        int64     `json:"height,omitempty"`
	Time          time.Time `json:"time,omitempty"`
	InitialHeight int64     `json:"initial_height,omitempty"`
	AppState      []byte    `json:"app_state,omitempty"`
	Txs           [][]byte  `json:"txs,omitempty"`
	AppHash       string    `json:"app_hash,omitempty"`
	Results       []JResult `json:"results,omitempty"`
	Err           string    `json:"err,omitempty"`
}

type JResult struct {
	Code      uint32 `json:"code"`
	Codespace string `json:"codespace,omitempty"`
	GasUsed   int64  `json:"gas_used"`
	DataHash  string `json:"data_hash,omitempty"`
	Log       string `json:"log,omitempty"`
}

// NewJournal creates a journal; path "" keeps it in memory only.
func NewJournal(path string) *Journal {
	j := &Journal{}
	if path != "" {
		f, err := os.Create(path)
		if err != nil {
			panic(err)
		}
		j.f = f
		j.w = bufio.NewWriter(f)
	}
	return j
}

func (j *Journal) add(e JEntry) {
	j.Entries = append(j.Entries, e)
	if j.w != nil {
		bz, _ := json.Marshal(e)
		j.w.Write(bz)
		j.w.WriteByte('\n')
		j.w.Flush()
	}
}

func (j *Journal) Genesis(appState []byte, ih int64, t time.Time) {
	j.add(JEntry{Kind: "genesis", AppState: appState, InitialHeight: ih, Time: t})
}

func (j *Journal) Block(h int64, t time.Time, txs [][]byte) {
	j.add(JEntry{Kind: "block", Height: h, Time: t, Txs: txs})
}

func (j *Journal) BlockDone(br *BlockRecord) {
	e := JEntry{Kind: "done", Height: br.Height, AppHash: hex.EncodeToString(br.AppHash)}
	if br.FinalErr != nil {
		e.Err = br.FinalErr.Error()
	}
	for _, t := range br.Txs {
		if t.Result == nil {
			e.Results = append(e.Results, JResult{Code: 999999})
			continue
		}
		h := sha256.Sum256(t.Result.Data)
		e.Results = append(e.Results, JResult{Code: t.Result.Code, Codespace: t.Result.Codespace, GasUsed: t.Result.GasUsed, DataHash: hex.EncodeToString(h[:8]), Log: trunc(t.Result.Log, 200)})
	}
	j.add(e)
}

func (j *Journal) Close() {
	if j.w != nil {
		j.w.Flush()
		j.f.Close()
	}
}

func trunc(s string, n int) string {
	if len(s) > n {
		return s[:n]
	}
	return s
}

// LoadJournal reads a journal file.
func LoadJournal(path string) (*Journal, error) {
	f, err := os.Open(path)
	if err != nil {
		return nil, err
	}
	defer f.Close()
	j := &Journal{}
	sc := bufio.NewScanner(f)
	sc.Buffer(make([]byte, 1<<20), 1<<30)
	for sc.Scan() {
		var e JEntry
		if err := json.Unmarshal(sc.Bytes(), &e); err != nil {
			return nil, err
		}
		j.Entries = append(j.Entries, e)
	}
	return j, sc.Err()
}
