// Package rig drives the real irismod application (simapp.NewSimApp wired by the
// repository's own e2e.AppConfig) through real ABCI calls and gives monitors
// observation points at tx and block boundaries. Nothing here models irismod; it only
// builds, signs, delivers and observes.
package rig

import (
	"math/big"
	"context"
	"sync"
	"crypto/sha256"
	"encoding/binary"
	"encoding/base64"
	"encoding/json"
	"fmt"
	"os"
	"runtime/debug"
	"strings"
	"time"

	"cosmossdk.io/log"
	sdkmath "cosmossdk.io/math"
	storetypes "cosmossdk.io/store/types"
	abci "github.com/cometbft/cometbft/abci/types"
	cmtproto "github.com/cometbft/cometbft/proto/tendermint/types"
	dbm "github.com/cosmos/cosmos-db"
	"github.com/cosmos/cosmos-sdk/baseapp"
	"github.com/cosmos/cosmos-sdk/client"
	"github.com/cosmos/cosmos-sdk/codec"
	codectypes "github.com/cosmos/cosmos-sdk/codec/types"
	cryptocodec "github.com/cosmos/cosmos-sdk/crypto/codec"
	"github.com/cosmos/cosmos-sdk/crypto/keys/ed25519"
	"github.com/cosmos/cosmos-sdk/crypto/keys/secp256k1"
	cryptotypes "github.com/cosmos/cosmos-sdk/crypto/types"
	simtestutil "github.com/cosmos/cosmos-sdk/testutil/sims"
	sdk "github.com/cosmos/cosmos-sdk/types"
	"github.com/cosmos/cosmos-sdk/types/tx/signing"
	authsign "github.com/cosmos/cosmos-sdk/x/auth/signing"
	authtypes "github.com/cosmos/cosmos-sdk/x/auth/types"
	banktypes "github.com/cosmos/cosmos-sdk/x/bank/types"
	govtypes "github.com/cosmos/cosmos-sdk/x/gov/types"
	minttypes "github.com/cosmos/cosmos-sdk/x/mint/types"
	stakingtypes "github.com/cosmos/cosmos-sdk/x/staking/types"

	"mods.irisnet.org/e2e"
	coinswapkeeper "mods.irisnet.org/modules/coinswap/keeper"
	farmkeeper "mods.irisnet.org/modules/farm/keeper"
	htlckeeper "mods.irisnet.org/modules/htlc/keeper"
	htlctypes "mods.irisnet.org/modules/htlc/types"
	mtkeeper "mods.irisnet.org/modules/mt/keeper"
	nftkeeper "mods.irisnet.org/modules/nft/keeper"
	oraclekeeper "mods.irisnet.org/modules/oracle/keeper"
	randomkeeper "mods.irisnet.org/modules/random/keeper"
	recordkeeper "mods.irisnet.org/modules/record/keeper"
	servicekeeper "mods.irisnet.org/modules/service/keeper"
	tokenkeeper "mods.irisnet.org/modules/token/keeper"
	tokentypes "mods.irisnet.org/modules/token/types"
	"mods.irisnet.org/simapp"
)

const (
	ChainID   = "verif-1"
	BondDenom = "stake"
	// memo prefixes understood by the post handler (see Inject*)
	memoRoute = "verif-route:"
	memoOp    = "verif-op:"
)

// Keepers holds value copies of the ten irismod keepers of the running app.
type Keepers struct {
	Coinswap coinswapkeeper.Keeper
	Farm     farmkeeper.Keeper
	HTLC     htlckeeper.Keeper
	MT       mtkeeper.Keeper
	NFT      nftkeeper.Keeper
	Oracle   oraclekeeper.Keeper
	Random   randomkeeper.Keeper
	Record   recordkeeper.Keeper
	Service  servicekeeper.Keeper
	Token    tokenkeeper.Keeper
}

// Account is a deterministic user key.
type Account struct {
	Name   string
	Priv   cryptotypes.PrivKey
	Addr   sdk.AccAddress
	AccNum uint64
	Seq    uint64
}

func (a *Account) String() string { return a.Addr.String() }

// Options configures a rig.
type Options struct {
	Seed        string // key derivation namespace
	NumAccounts int
	// Balances given to every user account at genesis.
	Balances sdk.Coins
	// GenesisMutator may edit the default genesis (module name -> raw JSON) before InitChain.
	GenesisMutator func(cdc codec.Codec, gs map[string]json.RawMessage)
	// DB to use; nil = MemDB.
	DB dbm.DB
	// EVM / ICS20 implementations for the token module; nil = repository mocks.
	EVM   tokentypes.EVMKeeper
	ICS20 tokentypes.ICS20Keeper
	// ExtraStoreKeys are mounted in addition to the app's (harness-owned state).
	ExtraStoreKeys []*storetypes.KVStoreKey
	// AppOpts extra app options.
	AppOpts map[string]interface{}
	// GenesisTime; zero = 2026-01-01T00:00:00Z.
	GenesisTime time.Time
	// NoInit: build the app but do not InitChain (used for restarts / imports).
	NoInit bool
	// SubSecond: block times carry a (height-determined) sub-second part, as real consensus timestamps do.
	SubSecond bool
	// InitialHeight of the chain (default 1): lets a short chain cross the byte-width boundaries of height-keyed queues.
	InitialHeight int64
	// InflationOff sets mint inflation to 0 so supplies of the bond denom only move by module action.
	InflationOff bool
}

// TxRecord is what monitors get per delivered tx, in order, after the block.
type TxRecord struct {
	Index  int
	Bytes  []byte
	Msgs   []sdk.Msg
	Memo   string
	Signer sdk.AccAddress
	Pre    any // snapshot after ante, before messages
	Post   any // snapshot after messages (nil when the tx failed: its branch was dropped)
	Result *abci.ExecTxResult
	// Responses are the decoded Msg responses (nil on failure).
	Responses []codectypes.Any
	Tag       any // free slot for the director (intent description)
}

func (t *TxRecord) OK() bool { return t.Result != nil && t.Result.Code == 0 }

// BlockRecord is what monitors get per block.
type BlockRecord struct {
	Height     int64
	Time       time.Time
	Txs        []*TxRecord
	PreBegin   any // snapshot before BeginBlock
	PostBegin  any // after BeginBlock
	PreEnd     any // before EndBlock
	PostEnd    any // after EndBlock
	BeginPanic *PanicInfo
	EndPanic   *PanicInfo
	Finalize   *abci.ResponseFinalizeBlock
	FinalErr   error
	AppHash    []byte
	PrevHash   []byte // app hash after the previous block (= header.AppHash of this block)
	BeginEvents []abci.Event
	EndEvents   []abci.Event
}

// PrevAppHash is the app hash the block header carries (state after the previous block).
func (b *BlockRecord) PrevAppHash() []byte { return b.PrevHash }

// PanicInfo describes a recovered panic in block processing.
type PanicInfo struct {
	Value  string
	Stack  string
	Module string // first mods.irisnet.org/modules/<m> frame, "" if none
}

// Rig is one running application plus driver state.
type Rig struct {
	Opts     Options
	App      *simapp.SimApp
	K        Keepers
	Cdc      codec.Codec
	TxConfig client.TxConfig
	Accounts []*Account
	ValPriv  cryptotypes.PrivKey
	ValAddr  sdk.ValAddress
	Height   int64
	Time     time.Time
	GovAddr  sdk.AccAddress
	LastHash []byte

	// Snapshot, if set, is called at every observation point.
	Snapshot func(ctx sdk.Context) any
	// SnapPanics: panics raised by Snapshot (by the module's query code under it), oldest first.
	SnapPanics []string
	// SnapRecover: set by observers that cope with a missing (nil) snapshot.
	SnapRecover bool
	// Ops are harness operations callable through InjectOp.
	Ops map[string]func(ctx sdk.Context, args json.RawMessage) error

	// Poison: see Mk.
	Poison func() bool
	// CommitMu excludes concurrent readers (race-stress query storm) during Commit only, as a node's ABCI connections do.
	CommitMu sync.RWMutex

	genesisPending bool // a restart from an export has run InitChain; its state is committed with the next block
	cur        *BlockRecord
	txIdx      int
	pendingTag []any
	Journal    *Journal
	GenesisDoc []byte
}

func deriveKey(seed string, i int) cryptotypes.PrivKey {
	return secp256k1.GenPrivKeyFromSecret([]byte(fmt.Sprintf("verif/%s/%d", seed, i)))
}

// NewApp constructs the application unsealed, installs the wrappers and loads the latest version.
func (r *Rig) newApp(db dbm.DB) {
	opts := r.Opts
	evm := opts.EVM
	if evm == nil {
		evm = tokenkeeper.ProvideMockEVM()
	}
	ics := opts.ICS20
	if ics == nil {
		ics = tokenkeeper.ProvideMockICS20()
	}
	ao := simtestutil.AppOptionsMap{}
	for k, v := range opts.AppOpts {
		ao[k] = v
	}
	dep := simapp.DepinjectOptions{
		Config:    e2e.AppConfig,
		Providers: []interface{}{evm, ics},
		Consumers: []interface{}{
			&r.K.Coinswap, &r.K.Farm, &r.K.HTLC, &r.K.MT, &r.K.NFT,
			&r.K.Oracle, &r.K.Random, &r.K.Record, &r.K.Service, &r.K.Token,
		},
	}
	app := simapp.NewSimApp(log.NewNopLogger(), db, nil, false, dep, ao, baseapp.SetChainID(ChainID))
	r.App = app
	r.Cdc = app.AppCodec()
	r.TxConfig = app.TxConfig()

	// per-tx observation: ante wrapper (after the real ante chain) and post handler
	inner := app.AnteHandler()
	app.SetAnteHandler(func(ctx sdk.Context, tx sdk.Tx, simulate bool) (sdk.Context, error) {
		nctx, err := inner(ctx, tx, simulate)
		if err != nil {
			return nctx, err
		}
		if r.cur != nil && ctx.ExecMode() == sdk.ExecModeFinalize {
			r.onPreTx(nctx, tx)
		}
		return nctx, nil
	})
	app.SetPostHandler(func(ctx sdk.Context, tx sdk.Tx, simulate, success bool) (sdk.Context, error) {
		// SDK 0.50 calls the post handler for failed txs too (their branch is dropped afterwards)
		if !success {
			if r.cur != nil && ctx.ExecMode() == sdk.ExecModeFinalize {
				if rec := r.locate(ctx); rec != nil {
					r.txIdx++
				}
			}
			return ctx, nil
		}
		if err := r.runInjection(ctx, tx); err != nil {
			if r.cur != nil && ctx.ExecMode() == sdk.ExecModeFinalize {
				if rec := r.locate(ctx); rec != nil {
					r.txIdx++
				}
			}
			return ctx, err
		}
		if r.cur != nil && ctx.ExecMode() == sdk.ExecModeFinalize {
			r.onPostTx(ctx, tx)
		}
		return ctx, nil
	})
	// block observation: wrap (not replace) the application's own blockers
	app.SetBeginBlocker(func(ctx sdk.Context) (bb sdk.BeginBlock, err error) {
		if r.cur != nil && r.Snapshot != nil {
			r.cur.PreBegin = r.safeSnapshot(ctx)
		}
		defer func() {
			if rec := recover(); rec != nil {
				pi := panicInfo(rec)
				if r.cur != nil {
					r.cur.BeginPanic = pi
				}
				err = fmt.Errorf("begin block panic: %s", pi.Value)
			}
		}()
		bb, err = app.App.BeginBlocker(ctx)
		if r.cur != nil {
			r.cur.BeginEvents = append(r.cur.BeginEvents, bb.Events...)
			if r.Snapshot != nil {
				r.cur.PostBegin = r.safeSnapshot(ctx)
			}
		}
		return bb, err
	})
	app.SetEndBlocker(func(ctx sdk.Context) (eb sdk.EndBlock, err error) {
		if r.cur != nil && r.Snapshot != nil {
			r.cur.PreEnd = r.safeSnapshot(ctx)
		}
		defer func() {
			if rec := recover(); rec != nil {
				pi := panicInfo(rec)
				if r.cur != nil {
					r.cur.EndPanic = pi
				}
				err = fmt.Errorf("end block panic: %s", pi.Value)
			}
		}()
		eb, err = app.App.EndBlocker(ctx)
		if r.cur != nil {
			r.cur.EndEvents = append(r.cur.EndEvents, eb.Events...)
			if r.Snapshot != nil {
				r.cur.PostEnd = r.safeSnapshot(ctx)
			}
		}
		return eb, err
	})
	if len(opts.ExtraStoreKeys) > 0 {
		for _, k := range opts.ExtraStoreKeys {
			app.MountStores(k)
		}
	}
	if err := app.LoadLatestVersion(); err != nil {
		panic(err)
	}
}

func panicInfo(rec any) *PanicInfo {
	st := string(debug.Stack())
	pi := &PanicInfo{Value: fmt.Sprint(rec), Stack: st}
	for _, line := range strings.Split(st, "\n") {
		if i := strings.Index(line, "mods.irisnet.org/modules/"); i >= 0 {
			rest := line[i+len("mods.irisnet.org/modules/"):]
			if j := strings.IndexAny(rest, "/."); j > 0 {
				pi.Module = rest[:j]
				break
			}
		}
	}
	return pi
}

// New builds an application, a genesis with one bonded validator and N funded accounts, and runs InitChain.
func New(opts Options) *Rig {
	if opts.NumAccounts == 0 {
		opts.NumAccounts = 8
	}
	if opts.GenesisTime.IsZero() {
		opts.GenesisTime = time.Date(2026, 1, 1, 0, 0, 0, 0, time.UTC)
	}
	r := &Rig{Opts: opts, Ops: map[string]func(sdk.Context, json.RawMessage) error{}}
	db := opts.DB
	if db == nil {
		db = dbm.NewMemDB()
	}
	r.newApp(db)
	r.GovAddr = authtypes.NewModuleAddress(govtypes.ModuleName)
	for i := 0; i < opts.NumAccounts; i++ {
		p := deriveKey(opts.Seed, i)
		r.Accounts = append(r.Accounts, &Account{Name: fmt.Sprintf("u%d", i), Priv: p, Addr: sdk.AccAddress(p.PubKey().Address())})
	}
	r.ValPriv = ed25519.GenPrivKeyFromSecret([]byte("verif/val/" + opts.Seed))
	r.Time = opts.GenesisTime
	if opts.NoInit {
		return r
	}
	r.InitDefault()
	return r
}

// InitDefault builds the default genesis (validator, accounts, mutator), runs InitChain and commits the first block.
func (r *Rig) InitDefault() {
	opts := r.Opts
	gs := r.buildGenesis()
	stateBytes, err := json.Marshal(gs)
	if err != nil {
		panic(err)
	}
	ih := opts.InitialHeight
	if ih < 1 {
		ih = 1
	}
	r.InitChainWith(stateBytes, ih, opts.GenesisTime)
	// InitChain state only becomes the committed state with the first block
	if br := r.DeliverBlock(time.Second, nil); br.FinalErr != nil {
		panic(fmt.Errorf("first block: %w", br.FinalErr))
	}
}

func (r *Rig) buildGenesis() map[string]json.RawMessage {
	app := r.App
	cdc := r.Cdc
	gs := map[string]json.RawMessage(app.DefaultGenesis())
	var genAccs []authtypes.GenesisAccount
	var balances []banktypes.Balance
	total := sdk.NewCoins()
	for i, a := range r.Accounts {
		genAccs = append(genAccs, authtypes.NewBaseAccount(a.Addr, a.Priv.PubKey(), uint64(i), 0))
		a.AccNum = uint64(i)
		balances = append(balances, banktypes.Balance{Address: a.Addr.String(), Coins: r.Opts.Balances})
		total = total.Add(r.Opts.Balances...)
	}
	ap := authtypes.DefaultParams()
	ap.MaxMemoCharacters = 1 << 20
	ap.TxSizeCostPerByte = 0
	gs[authtypes.ModuleName] = cdc.MustMarshalJSON(authtypes.NewGenesisState(ap, genAccs))

	pk := r.ValPriv.PubKey()
	pkAny, err := codectypes.NewAnyWithValue(pk)
	if err != nil {
		panic(err)
	}
	r.ValAddr = sdk.ValAddress(pk.Address())
	bond := sdk.DefaultPowerReduction
	val := stakingtypes.Validator{
		OperatorAddress: r.ValAddr.String(), ConsensusPubkey: pkAny, Status: stakingtypes.Bonded,
		Tokens: bond, DelegatorShares: sdkmath.LegacyOneDec(),
		UnbondingTime: time.Unix(0, 0).UTC(),
		Commission:    stakingtypes.NewCommission(sdkmath.LegacyZeroDec(), sdkmath.LegacyZeroDec(), sdkmath.LegacyZeroDec()),
		MinSelfDelegation: sdkmath.ZeroInt(),
	}
	del := stakingtypes.NewDelegation(r.Accounts[0].Addr.String(), r.ValAddr.String(), sdkmath.LegacyOneDec())
	sp := stakingtypes.DefaultParams()
	sp.BondDenom = BondDenom
	gs[stakingtypes.ModuleName] = cdc.MustMarshalJSON(stakingtypes.NewGenesisState(sp, []stakingtypes.Validator{val}, []stakingtypes.Delegation{del}))
	total = total.Add(sdk.NewCoin(BondDenom, bond))
	balances = append(balances, banktypes.Balance{
		Address: authtypes.NewModuleAddress(stakingtypes.BondedPoolName).String(),
		Coins:   sdk.NewCoins(sdk.NewCoin(BondDenom, bond)),
	})
	gs[banktypes.ModuleName] = cdc.MustMarshalJSON(banktypes.NewGenesisState(banktypes.DefaultGenesisState().Params, balances, total, nil, nil))
	if r.Opts.InflationOff {
		mg := minttypes.DefaultGenesisState()
		mg.Minter.Inflation = sdkmath.LegacyZeroDec()
		mg.Params.InflationMax = sdkmath.LegacyZeroDec()
		mg.Params.InflationMin = sdkmath.LegacyZeroDec()
		mg.Params.InflationRateChange = sdkmath.LegacyZeroDec()
		gs[minttypes.ModuleName] = cdc.MustMarshalJSON(mg)
	}
	// the htlc module's default genesis stamps "previous block time" with the host clock (it is what a freshly generated
	// genesis file would carry); a fixed instant keeps two runs of one case identical from the first app hash on
	if raw, ok := gs[htlctypes.ModuleName]; ok {
		var hg htlctypes.GenesisState
		if err := cdc.UnmarshalJSON(raw, &hg); err == nil {
			hg.PreviousBlockTime = time.Unix(0, 0).UTC()
			gs[htlctypes.ModuleName] = cdc.MustMarshalJSON(&hg)
		}
	}
	if r.Opts.GenesisMutator != nil {
		r.Opts.GenesisMutator(cdc, gs)
	}
	return gs
}

// InitChainWith runs InitChain with the given app state and commits nothing yet (first block does).
func (r *Rig) InitChainWith(appState []byte, initialHeight int64, t time.Time) {
	r.GenesisDoc = appState
	cp := simtestutil.DefaultConsensusParams
	cp.Block.MaxGas = -1
	_, err := r.App.InitChain(&abci.RequestInitChain{
		ChainId:         ChainID,
		Time:            t,
		ConsensusParams: cp,
		Validators:      []abci.ValidatorUpdate{},
		AppStateBytes:   appState,
		InitialHeight:   initialHeight,
	})
	if err != nil {
		panic(fmt.Errorf("InitChain: %w", err))
	}
	r.Height = initialHeight - 1
	r.Time = t
	if r.Journal != nil {
		r.Journal.Genesis(appState, initialHeight, t)
	}
}

// TryInitChain is InitChainWith that reports error/panic instead of panicking.
func (r *Rig) TryInitChain(appState []byte, initialHeight int64, t time.Time) (err error) {
	defer func() {
		if rec := recover(); rec != nil {
			err = fmt.Errorf("panic: %v\n%s", rec, shortStack())
		}
	}()
	cp := simtestutil.DefaultConsensusParams
	cp.Block.MaxGas = -1
	_, e := r.App.InitChain(&abci.RequestInitChain{
		ChainId: ChainID, Time: t, ConsensusParams: cp, Validators: []abci.ValidatorUpdate{},
		AppStateBytes: appState, InitialHeight: initialHeight,
	})
	if e != nil {
		return e
	}
	r.GenesisDoc = appState
	r.Height = initialHeight - 1
	r.Time = t
	return nil
}

func shortStack() string {
	st := string(debug.Stack())
	var keep []string
	for _, l := range strings.Split(st, "\n") {
		if strings.Contains(l, "mods.irisnet.org") {
			keep = append(keep, strings.TrimSpace(l))
		}
		if len(keep) > 12 {
			break
		}
	}
	return strings.Join(keep, "\n")
}

// Acc returns account i.
func (r *Rig) Acc(i int) *Account { return r.Accounts[i%len(r.Accounts)] }

// BuildTx signs msgs with the given account (SIGN_MODE_DIRECT) and bumps its local sequence.
func (r *Rig) BuildTx(a *Account, memo string, msgs ...sdk.Msg) []byte {
	bz, err := r.signTx(a, a.Seq, memo, msgs...)
	if err != nil {
		panic(err)
	}
	a.Seq++
	return bz
}

func (r *Rig) signTx(a *Account, seq uint64, memo string, msgs ...sdk.Msg) ([]byte, error) {
	txb := r.TxConfig.NewTxBuilder()
	if err := txb.SetMsgs(msgs...); err != nil {
		return nil, err
	}
	txb.SetMemo(memo)
	txb.SetGasLimit(500_000_000)
	txb.SetFeeAmount(sdk.NewCoins())
	mode := signing.SignMode_SIGN_MODE_DIRECT
	sig := signing.SignatureV2{PubKey: a.Priv.PubKey(), Data: &signing.SingleSignatureData{SignMode: mode}, Sequence: seq}
	if err := txb.SetSignatures(sig); err != nil {
		return nil, err
	}
	sd := authsign.SignerData{ChainID: ChainID, AccountNumber: a.AccNum, Sequence: seq, PubKey: a.Priv.PubKey(), Address: a.Addr.String()}
	bytesToSign, err := authsign.GetSignBytesAdapter(context.Background(), r.TxConfig.SignModeHandler(), mode, sd, txb.GetTx())
	if err != nil {
		return nil, err
	}
	sbz, err := a.Priv.Sign(bytesToSign)
	if err != nil {
		return nil, err
	}
	sig.Data = &signing.SingleSignatureData{SignMode: mode, Signature: sbz}
	if err := txb.SetSignatures(sig); err != nil {
		return nil, err
	}
	return r.TxConfig.TxEncoder()(txb.GetTx())
}

// MkMulti builds a tx signed by several accounts (in the order given, which must be the order in which the messages
// first name their signers); every signer's local sequence advances.
func (r *Rig) MkMulti(as []*Account, tag any, msgs ...sdk.Msg) Tx {
	txb := r.TxConfig.NewTxBuilder()
	if err := txb.SetMsgs(msgs...); err != nil {
		panic(err)
	}
	txb.SetGasLimit(500_000_000)
	txb.SetFeeAmount(sdk.NewCoins())
	mode := signing.SignMode_SIGN_MODE_DIRECT
	sigs := make([]signing.SignatureV2, len(as))
	for i, a := range as {
		sigs[i] = signing.SignatureV2{PubKey: a.Priv.PubKey(), Data: &signing.SingleSignatureData{SignMode: mode}, Sequence: a.Seq}
	}
	if err := txb.SetSignatures(sigs...); err != nil {
		panic(err)
	}
	for i, a := range as {
		sd := authsign.SignerData{ChainID: ChainID, AccountNumber: a.AccNum, Sequence: a.Seq, PubKey: a.Priv.PubKey(), Address: a.Addr.String()}
		bz, err := authsign.GetSignBytesAdapter(context.Background(), r.TxConfig.SignModeHandler(), mode, sd, txb.GetTx())
		if err != nil {
			panic(err)
		}
		sbz, err := a.Priv.Sign(bz)
		if err != nil {
			panic(err)
		}
		sigs[i].Data = &signing.SingleSignatureData{SignMode: mode, Signature: sbz}
	}
	if err := txb.SetSignatures(sigs...); err != nil {
		panic(err)
	}
	out, err := r.TxConfig.TxEncoder()(txb.GetTx())
	if err != nil {
		panic(err)
	}
	for _, a := range as {
		a.Seq++
	}
	return Tx{Bytes: out, Tag: tag}
}

// Tx is a pending transaction with a director tag.
type Tx struct {
	Bytes []byte
	Tag   any
}

// PoisonedTag replaces the tag of a transaction to which the rig appended a message that cannot succeed.
type PoisonedTag struct{ Inner any }

// Mk builds a signed tx with a tag. If r.Poison is set and returns true for a single-message transaction, a second
// message that always fails (a self-transfer of more coins than exist) is appended: the first message runs to the end
// on the transaction's branch and the whole transaction is then rolled back; the tag is wrapped in PoisonedTag so that
// the workload that built it treats it as not its own.
func (r *Rig) Mk(a *Account, tag any, msgs ...sdk.Msg) Tx {
	if r.Poison != nil && len(msgs) == 1 && r.Poison() {
		huge := sdkmath.NewIntFromBigInt(new(big.Int).Lsh(big.NewInt(1), 250))
		msgs = append(msgs, banktypes.NewMsgSend(a.Addr, a.Addr, sdk.NewCoins(sdk.NewCoin(BondDenom, huge))))
		tag = &PoisonedTag{Inner: tag}
	}
	return Tx{Bytes: r.BuildTx(a, "", msgs...), Tag: tag}
}

// MkMemo builds a signed tx with memo and tag.
func (r *Rig) MkMemo(a *Account, memo string, tag any, msgs ...sdk.Msg) Tx {
	return Tx{Bytes: r.BuildTx(a, memo, msgs...), Tag: tag}
}

// carrier returns a harmless message for injection carrier txs (a 1-unit self transfer would
// perturb nothing but still needs funds; a bank MsgSend of 1 stake to self is used).
func (r *Rig) carrier(a *Account) sdk.Msg {
	return banktypes.NewMsgSend(a.Addr, a.Addr, sdk.NewCoins(sdk.NewInt64Coin(BondDenom, 1)))
}

// InjectRoute builds a carrier tx whose post handler routes msgs through the MsgServiceRouter
// exactly as x/gov does for a passed proposal (no signature check; handler on the tx branch).
func (r *Rig) InjectRoute(a *Account, tag any, msgs ...sdk.Msg) Tx {
	anys := make([]*codectypes.Any, len(msgs))
	for i, m := range msgs {
		an, err := codectypes.NewAnyWithValue(m)
		if err != nil {
			panic(err)
		}
		anys[i] = an
	}
	body := &routeBody{Msgs: anys}
	bz, err := json.Marshal(body.toJSON(r.Cdc))
	if err != nil {
		panic(err)
	}
	return r.MkMemo(a, memoRoute+base64.StdEncoding.EncodeToString(bz), tag, r.carrier(a))
}

// InjectOp builds a carrier tx whose post handler runs the named harness operation with args.
func (r *Rig) InjectOp(a *Account, tag any, op string, args any) Tx {
	abz, err := json.Marshal(args)
	if err != nil {
		panic(err)
	}
	bz, _ := json.Marshal(opBody{Op: op, Args: abz})
	return r.MkMemo(a, memoOp+base64.StdEncoding.EncodeToString(bz), tag, r.carrier(a))
}

// InjectOpAfter builds a tx that carries msgs and whose post handler, once they all succeeded, runs the named harness
// operation: if the operation returns an error the whole transaction, messages included, is rolled back.
func (r *Rig) InjectOpAfter(a *Account, tag any, op string, args any, msgs ...sdk.Msg) Tx {
	abz, err := json.Marshal(args)
	if err != nil {
		panic(err)
	}
	bz, _ := json.Marshal(opBody{Op: op, Args: abz})
	return r.MkMemo(a, memoOp+base64.StdEncoding.EncodeToString(bz), tag, msgs...)
}

type routeBody struct{ Msgs []*codectypes.Any }
type routeJSON struct {
	Msgs []anyJSON `json:"msgs"`
}
type anyJSON struct {
	TypeURL string `json:"t"`
	Value   []byte `json:"v"`
}
type opBody struct {
	Op   string          `json:"op"`
	Args json.RawMessage `json:"args"`
}

func (b *routeBody) toJSON(_ codec.Codec) routeJSON {
	var out routeJSON
	for _, a := range b.Msgs {
		out.Msgs = append(out.Msgs, anyJSON{a.TypeUrl, a.Value})
	}
	return out
}

func (r *Rig) runInjection(ctx sdk.Context, tx sdk.Tx) error {
	mt, ok := tx.(sdk.TxWithMemo)
	if !ok {
		return nil
	}
	memo := mt.GetMemo()
	switch {
	case strings.HasPrefix(memo, memoRoute):
		raw, err := base64.StdEncoding.DecodeString(memo[len(memoRoute):])
		if err != nil {
			return err
		}
		var rj routeJSON
		if err := json.Unmarshal(raw, &rj); err != nil {
			return err
		}
		for _, a := range rj.Msgs {
			var msg sdk.Msg
			an := &codectypes.Any{TypeUrl: a.TypeURL, Value: a.Value}
			if err := r.Cdc.InterfaceRegistry().UnpackAny(an, &msg); err != nil {
				return err
			}
			if vb, ok := msg.(sdk.HasValidateBasic); ok {
				if err := vb.ValidateBasic(); err != nil {
					return err
				}
			}
			h := r.App.MsgServiceRouter().Handler(msg)
			if h == nil {
				return fmt.Errorf("no handler for %s", a.TypeURL)
			}
			if _, err := h(ctx, msg); err != nil {
				return err
			}
		}
	case strings.HasPrefix(memo, memoOp):
		raw, err := base64.StdEncoding.DecodeString(memo[len(memoOp):])
		if err != nil {
			return err
		}
		var ob opBody
		if err := json.Unmarshal(raw, &ob); err != nil {
			return err
		}
		f := r.Ops[ob.Op]
		if f == nil {
			return fmt.Errorf("unknown harness op %q", ob.Op)
		}
		return f(ctx, ob.Args)
	}
	return nil
}

// locate finds the record of the tx being executed: BaseApp runs txs in order, so it is the
// first record at or after the cursor whose bytes equal ctx.TxBytes().
func (r *Rig) locate(ctx sdk.Context) *TxRecord {
	bz := ctx.TxBytes()
	for i := r.txIdx; i < len(r.cur.Txs); i++ {
		if string(r.cur.Txs[i].Bytes) == string(bz) {
			r.txIdx = i
			return r.cur.Txs[i]
		}
	}
	return nil
}

// safeSnapshot takes the observer's snapshot; a panic inside the module's own query code is kept (SnapPanics) instead
// of unwinding into the transaction being observed, where it would turn an accepted transaction into a refused one.
// Running out of gas is not such a panic and is passed on.
func (r *Rig) safeSnapshot(ctx sdk.Context) (snap any) {
	if !r.SnapRecover {
		return r.Snapshot(ctx)
	}
	defer func() {
		if v := recover(); v != nil {
			if _, oog := v.(storetypes.ErrorOutOfGas); oog {
				panic(v)
			}
			r.SnapPanics = append(r.SnapPanics, fmt.Sprintf("height %d: %v", ctx.BlockHeight(), v))
			snap = nil
		}
	}()
	return r.Snapshot(ctx)
}

func (r *Rig) onPreTx(ctx sdk.Context, tx sdk.Tx) {
	rec := r.locate(ctx)
	if rec != nil && r.Snapshot != nil {
		rec.Pre = r.safeSnapshot(ctx)
	}
}

func (r *Rig) onPostTx(ctx sdk.Context, tx sdk.Tx) {
	rec := r.locate(ctx)
	if rec != nil && r.Snapshot != nil {
		rec.Post = r.safeSnapshot(ctx)
	}
	if rec != nil {
		r.txIdx++
	}
}

// DeliverBlock runs one block (height+1, time+dt) with the given txs and commits.
// It never panics on handler/blocker panics: those are recorded in the BlockRecord.
func (r *Rig) DeliverBlock(dt time.Duration, txs []Tx) *BlockRecord {
	if dt <= 0 {
		dt = time.Second
	}
	t := r.Time.Add(dt)
	if r.Opts.SubSecond {
		h := uint64(r.Height + 1)
		if h%5 != 0 { // every fifth block keeps a whole-second time
			j := time.Duration((h*2654435761)%1000)*time.Millisecond + time.Duration(h%7)*111*time.Microsecond + time.Duration(h%3)
			if tj := t.Truncate(time.Second).Add(j); tj.After(r.Time) {
				t = tj
			}
		} else if ts := t.Truncate(time.Second); ts.After(r.Time) {
			t = ts
		}
	}
	return r.DeliverBlockAt(t, txs)
}

// DeliverBlockAt runs block height+1 at the given block time (used by replicas replaying a journal).
func (r *Rig) DeliverBlockAt(t time.Time, txs []Tx) *BlockRecord {
	h := r.Height + 1
	br := &BlockRecord{Height: h, Time: t, PrevHash: append([]byte{}, r.LastHash...)}
	raw := make([][]byte, len(txs))
	for i, tx := range txs {
		raw[i] = tx.Bytes
		rec := &TxRecord{Index: i, Bytes: tx.Bytes, Tag: tx.Tag}
		if dtx, err := r.TxConfig.TxDecoder()(tx.Bytes); err == nil {
			rec.Msgs = dtx.GetMsgs()
			if m, ok := dtx.(sdk.TxWithMemo); ok {
				rec.Memo = m.GetMemo()
			}
			if s, ok := dtx.(authsign.SigVerifiableTx); ok {
				if ss, err := s.GetSigners(); err == nil && len(ss) > 0 {
					rec.Signer = ss[0]
				}
			}
		}
		br.Txs = append(br.Txs, rec)
	}
	if r.Journal != nil {
		r.Journal.Block(h, t, raw)
	}
	r.cur = br
	r.txIdx = 0
	// BaseApp processes txs sequentially; track the index by wrapping each tx's completion:
	// the ante wrapper fires once per tx in order, so advance the index when the next
	// ante call arrives. We do it by delivering and letting hooks use a counter advanced below.
	res, err := r.finalize(h, t, raw)
	br.Finalize = res
	br.FinalErr = err
	if err == nil && res != nil {
		for i, tr := range res.TxResults {
			if i < len(br.Txs) {
				br.Txs[i].Result = tr
				if tr.Code == 0 {
					var md sdk.TxMsgData
					if e := md.Unmarshal(tr.Data); e == nil {
						for _, a := range md.MsgResponses {
							br.Txs[i].Responses = append(br.Txs[i].Responses, *a)
						}
					}
				}
			}
		}
		br.AppHash = res.AppHash
		r.LastHash = res.AppHash
	}
	r.cur = nil
	if err == nil {
		r.CommitMu.Lock()
		_, cerr := r.App.Commit()
		r.CommitMu.Unlock()
		if cerr != nil {
			br.FinalErr = cerr
		} else {
			r.Height = h
			r.Time = t
			r.genesisPending = false
		}
	}
	if r.Journal != nil {
		r.Journal.BlockDone(br)
	}
	if AbortHook != nil && (br.BeginPanic != nil || br.EndPanic != nil || br.FinalErr != nil) {
		AbortHook(br)
	}
	r.SyncSeqs()
	return br
}

// AbortHook, if set, is told about every block whose begin/end block processing aborted (or whose FinalizeBlock
// failed), on whichever rig of this process - a check that borrows other checks' directors uses it to judge aborts
// that those directors merely report as "cannot continue".
var AbortHook func(br *BlockRecord)

// SyncSeqs re-reads the sequence numbers of the rig accounts from committed state, so that a tx
// rejected by the ante handler (whose sequence was therefore not consumed) does not desynchronise the signer.
func (r *Rig) SyncSeqs() {
	ctx := r.Ctx()
	for _, a := range r.Accounts {
		if acc := r.App.AccountKeeper.GetAccount(ctx, a.Addr); acc != nil {
			a.Seq = acc.GetSequence()
			a.AccNum = acc.GetAccountNumber()
		}
	}
}

func (r *Rig) finalize(h int64, t time.Time, raw [][]byte) (res *abci.ResponseFinalizeBlock, err error) {
	defer func() {
		if rec := recover(); rec != nil {
			err = fmt.Errorf("FinalizeBlock panic: %v\n%s", rec, shortStack())
		}
	}()
	return r.App.FinalizeBlock(&abci.RequestFinalizeBlock{
		Height: h, Time: t, Txs: raw,
		ProposerAddress: r.ValPriv.PubKey().Address(),
	})
}

// Ctx returns a read context on the latest committed state (height/time of the last block).
func (r *Rig) Ctx() sdk.Context {
	return r.baseCtx(cmtproto.Header{ChainID: ChainID, Height: r.Height, Time: r.Time})
}

// baseCtx: a context on the committed state - or, between a restart from an export and the first block of the new
// application, on the state InitChain has written (it is committed only with that first block).
func (r *Rig) baseCtx(h cmtproto.Header) sdk.Context {
	var ctx sdk.Context
	if r.genesisPending {
		ctx = r.App.NewContextLegacy(false, h)
	} else {
		ctx = r.App.NewUncachedContext(false, h)
	}
	return ctx.WithGasMeter(storetypes.NewInfiniteGasMeter()).WithBlockGasMeter(storetypes.NewInfiniteGasMeter())
}

// WhatIf runs fn on a dropped branch of the committed state at height+1, time+dt.
func (r *Rig) WhatIf(dt time.Duration, fn func(ctx sdk.Context)) {
	base := r.baseCtx(cmtproto.Header{ChainID: ChainID, Height: r.Height + 1, Time: r.Time.Add(dt)})
	cctx, _ := base.CacheContext()
	fn(cctx)
}

// Route executes a message through the MsgServiceRouter on ctx (used on what-if branches),
// converting panics into an error flagged Panicked.
type RouteResult struct {
	Resp     *sdk.Result
	Err      error
	Panicked bool
	PanicVal string
	Stack    string
}

func (r *Rig) Route(ctx sdk.Context, msg sdk.Msg) (rr RouteResult) {
	defer func() {
		if rec := recover(); rec != nil {
			rr.Panicked = true
			rr.PanicVal = fmt.Sprint(rec)
			rr.Stack = shortStack()
			rr.Err = fmt.Errorf("panic: %v", rec)
		}
	}()
	if vb, ok := msg.(sdk.HasValidateBasic); ok {
		if err := vb.ValidateBasic(); err != nil {
			return RouteResult{Err: err}
		}
	}
	h := r.App.MsgServiceRouter().Handler(msg)
	if h == nil {
		return RouteResult{Err: fmt.Errorf("no handler")}
	}
	cctx, write := ctx.CacheContext()
	res, err := h(cctx, msg)
	if err == nil {
		write()
	}
	return RouteResult{Resp: res, Err: err}
}

// StoreKey returns the KV store key of a module.
func (r *Rig) StoreKey(name string) storetypes.StoreKey { return r.App.UnsafeFindStoreKey(name) }

// AllBalances returns address -> coins for every account with a balance.
func (r *Rig) AllBalances(ctx sdk.Context) map[string]sdk.Coins {
	out := map[string]sdk.Coins{}
	r.App.BankKeeper.IterateAllBalances(ctx, func(addr sdk.AccAddress, c sdk.Coin) bool {
		k := addr.String()
		out[k] = out[k].Add(c)
		return false
	})
	return out
}

// Supplies returns denom -> total supply.
func (r *Rig) Supplies(ctx sdk.Context) sdk.Coins {
	out := sdk.NewCoins()
	r.App.BankKeeper.IterateTotalSupply(ctx, func(c sdk.Coin) bool {
		out = out.Add(c)
		return false
	})
	return out
}

// ModuleAddr returns a module account address.
func ModuleAddr(name string) sdk.AccAddress { return authtypes.NewModuleAddress(name) }

// Restart closes nothing (DB stays open) but rebuilds the application on the same DB,
// exactly as a node process restart between blocks does.
func (r *Rig) Restart(db dbm.DB) {
	r.K = Keepers{}
	r.newApp(db)
}

// RestartFromExport exports the chain as it is and replaces, in place, the application behind this rig by a fresh one
// (new database) started from that export at the next height - what an operator does who restarts a chain from its own
// exported genesis. Everything that holds the *Rig keeps working on the new application. If the export fails or the new
// application refuses it, the old application stays and the error is returned.
func (r *Rig) RestartFromExport() error {
	exp, err := r.Export(false)
	if err != nil {
		return fmt.Errorf("export: %w", err)
	}
	oldApp, oldK, oldCdc, oldTx := r.App, r.K, r.Cdc, r.TxConfig
	oldH, oldT, oldDoc := r.Height, r.Time, r.GenesisDoc
	r.K = Keepers{}
	r.newApp(dbm.NewMemDB())
	if err := r.TryInitChain(exp.AppState, exp.Height, oldT); err != nil {
		r.App, r.K, r.Cdc, r.TxConfig = oldApp, oldK, oldCdc, oldTx
		r.Height, r.Time, r.GenesisDoc = oldH, oldT, oldDoc
		return fmt.Errorf("import: %w", err)
	}
	r.genesisPending = true
	r.SyncSeqs()
	return nil
}

// Export runs the application's own export.
func (r *Rig) Export(forZeroHeight bool) (exp exported, err error) {
	defer func() {
		if rec := recover(); rec != nil {
			err = fmt.Errorf("export panic: %v\n%s", rec, shortStack())
		}
	}()
	e, err := r.App.ExportAppStateAndValidators(forZeroHeight, nil, nil)
	if err != nil {
		return exported{}, err
	}
	return exported{AppState: e.AppState, Height: e.Height}, nil
}

type exported struct {
	AppState json.RawMessage
	Height   int64
}

// Exported is the public alias.
type Exported = exported

// Fatalf prints and exits 3 (harness failure, never a verdict).
func Fatalf(f string, a ...any) {
	fmt.Fprintf(os.Stderr, "HARNESS-ERROR: "+f+"\n", a...)
	os.Exit(3)
}

var _ = cryptocodec.FromCmtPubKeyInterface

// WalkStore iterates the raw KV pairs of a module store under prefix in key order.
func (r *Rig) WalkStore(ctx sdk.Context, store string, prefix []byte, fn func(k, v []byte) bool) {
	key := r.App.UnsafeFindStoreKey(store)
	if key == nil {
		panic("no store " + store)
	}
	it := storetypes.KVStorePrefixIterator(ctx.KVStore(key), prefix)
	defer it.Close()
	for ; it.Valid(); it.Next() {
		if fn(it.Key(), it.Value()) {
			return
		}
	}
}

// StoreDigest is a hex sha256 over the ordered KV pairs of a module store.
func (r *Rig) StoreDigest(ctx sdk.Context, store string) string {
	h := sha256.New()
	n := 0
	r.WalkStore(ctx, store, nil, func(k, v []byte) bool {
		var l [8]byte
		binary.BigEndian.PutUint32(l[:4], uint32(len(k)))
		binary.BigEndian.PutUint32(l[4:], uint32(len(v)))
		h.Write(l[:])
		h.Write(k)
		h.Write(v)
		n++
		return false
	})
	return fmt.Sprintf("%x/%d", h.Sum(nil)[:12], n)
}

// StoreNames lists the mounted KV store names of the ten irismod modules.
var IrismodStores = []string{"coinswap", "farm", "htlc", "mt", "nft", "oracle", "random", "record", "service", "token"}

// BuildGenesis returns the default genesis of this rig (validator, funded accounts, mutator applied).
func (r *Rig) BuildGenesis() map[string]json.RawMessage { return r.buildGenesis() }

// BuildTxRaw signs msgs with a's key whatever signers the messages require (used for forged-signer txs);
// the local sequence is not advanced.
func (r *Rig) BuildTxRaw(a *Account, memo string, msgs ...sdk.Msg) []byte {
	bz, err := r.signTx(a, a.Seq, memo, msgs...)
	if err != nil {
		panic(err)
	}
	return bz
}
