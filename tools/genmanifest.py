#!/usr/bin/env python3
# Regenerates /verif/MANIFEST.json from the table below (kept in one place so the manifest stays valid and current).
import json
props=[json.loads(l) for l in open('/verif/properties.jsonl')]
T={
 "C01":("exploration","runtime monitoring: per-tx pool probe (big.Int share-value and constant-product oracles) on directed hostile workloads (incl. rolled-back authority updates of the fee) + pure-function probe of the price formulas"),
 "C02":("exploration","runtime monitoring: complete bank balance-sheet probe before/after every tx against an expected-delta reference model"),
 "C03":("exploration","runtime monitoring: per-tx and begin-block HTLC probe against a contract state machine with independently computed ids/hash locks, per-contract escrow ledger, expiry-queue walk; hostile claims/duplicates; every refusal of the preimage of an open contract is judged; contracts and cross-chain transfers born in genesis; recipients in either bech32 spelling"),
 "C04":("exploration","runtime monitoring: escrow and asset-supply counters against sums over open contracts (chain list and model), tumbling-window model of the time-based limit, at every tx and block boundary; assets deactivated and taken off the parameter list while transfers of them are in flight"),
 "C05":("exploration","runtime monitoring: per-tx/per-block farm sums plus a what-if full-withdrawal probe on a dropped branch after every block (every farmer alone, all in random order, partial amounts); real withdrawal epilogue"),
 "C06":("exploration","runtime monitoring: exact rational (big.Rat) MasterChef reference model driven by the same history, budget identity, refund-exactly-once ledger, twin histories differing only in harvest frequency"),
 "C07":("exploration","runtime monitoring: deposit/request escrow and earned-fee tallies against a request/earnings ledger at every tx and around the service end-block; full balance sheet per tx"),
 "C08":("exploration","runtime monitoring: request/context/batch schedule model, harness callback module recording every callback, raw queue walks after every block, hostile responders and strangers"),
 "C09":("exploration","runtime monitoring: per-tx token registry/ledger probe (records, indexes, burn tally, bank supply, full balance sheet incl. module account) against a reference registry; hostile non-owners and re-issues, crafted owner addresses that splice the (owner, symbol) index key; chains born with 130 more tokens and the TotalBurn query compared with the sum of burns after every block"),
 "C10":("exploration","runtime monitoring: pure-function probe of LossLessSwap in exact integers over all 361 scale pairs; per-tx bank + harness-EVM ledger probes around ERC20 conversions with injected EVM faults (errors, reverts, no effect, off by one, off by a 64-bit word, wrong holder, lying balanceOf), fee-token swaps via a registry-configured keeper, EVM->native hook"),
 "C11":("fault_enumeration","runtime monitoring by differential replicas: a journaled all-modules history re-executed in separate processes (later wall-clock, on-disk DB with application close/reopen at block boundaries (every k-th block and after every block carrying a parameter update) incl. across process exit, other GOMAXPROCS/GOGC), byte comparison of app hashes, per-store KV digests, tx results (log texts included) and repeated genesis exports; host-clock straddle probes; -race build with concurrent query/simulate/checktx storm in the thorough tier"),
 "C12":("exploration","runtime monitoring by differential applications: checkpoints of the all-modules history are exported and re-imported into fresh applications (full as-is, per-module isolated, the random section alone, zero-height after the modules' preparation steps); acceptance, export fixpoint per module section and byte comparison of a fixed list of gRPC queries routed on both applications at equal height/time; behavioural differential: a battery of ordinary messages derived from the exported state is carried out on dropped branches of the source and of the imported state and every outcome and every query afterwards is compared; raw walks of the restored time queues and secondary indexes"),
 "C13":("exploration","runtime monitoring: the application's begin/end blockers run inside recover() wrappers on the all-modules chain (all workloads incl. parameter changes, bursts of 100+ items due at one height, time steps from 1 s to days, initial heights placed before the carry boundaries of the height-keyed queues); raw walks of the four time-queue families against the object stores after every block, and of the farm queue after every transaction (pools destroyed in the block they fall due); four more cases per tier run the dedicated service / htlc / farm / random directors (scripted kills, restarts, coincident expiries) and keep their queue-and-due-height relations only"),
 "C14":("exploration","runtime monitoring: per-tx NFT state probe (all classes, tokens, owners, supplies, owner listings via the module's queries) against a reference ownership map, hostile actors"),
 "C15":("exploration","runtime monitoring: per-tx MT state probe incl. raw balance-store walk against an arbitrary-precision reference ledger, boundary/overflow amounts; genesis battery (balances and supplies that agree, disagree, or agree only modulo 2^64)"),
 "C20":("exploration","runtime monitoring of the two generated code families in one process: exhaustive registry/descriptor walk (gogoproto registry vs protobuf-go registry, every .proto under proto/irismod, every Msg signer via the application's signing context) + descriptor-driven cross-family byte round trips; thorough tier under the checkptr sanitizer"),
 "C16":("exploration","runtime monitoring: reflection-generated boundary parameter sets judged by the module's own Validate(), applied through the authority handler on dropped branches of a prepared all-modules chain, differential battery of every message type incl. a pool-opening liquidity addition (stored params vs candidate) and begin/end blockers under recover(); genesis path on fresh applications; real txs for the authority clause incl. one real governance proposal and the authority's own update rolled back by the next message"),
 "C17":("exploration","runtime monitoring: per-tx/per-end-block feed probe (value list, state index, request context) against a reference that appends one exact-rational aggregate per completed batch, hostile providers and strangers"),
 "C18":("exploration","runtime monitoring: per-block due-height model over the raw result keys (write-once), pending queue and oracle-request records; value format/PRNG re-derivation from observed chain data; pure PRNG probe; chains started just below the 2^8/2^16/2^24/2^32 height boundaries"),
 "C19":("exploration","runtime monitoring: response-id uniqueness monitor (records born in genesis count as creations), read-back of every id through the application's query service (per block, periodic, final), look-ups of simulated ids before their creation, and block-to-block raw store diff (append-only)"),
}
NA={}
FIXES=["625d429 0183829 (C16 farm/token params validation)","3207d3e ff58504 (C12 farm queue on import, token genesis validation)","65bfa74 (C12 crisis genesis order)","45bb3a0 (C09 EditToken)","1a3d839 007a7e9 (C10 LossLessSwap, swap target)","9199708 (C04 HTLC to escrow)","da70e52 (C12 HTLC timestamp 0 genesis)","3e7d2da (C12 oracle import history)","1df21f2 (C05 farm debt rounding)","59c32e3 (C06 farm AdjustPool)","8b62807 d0b1358 d156cb8 (C07 service fees)","834e3f7 92557ec (C08 service schedule)","5aec873 (C11 MT export order)","b770505 (C11 oracle host clock)","82dca39 (C02 double-hop swap settlement)","4b78834 (C17 oracle Max of all-negative responses)","c092f06 (C17 oracle Avg overflow)","83c45a0 (C16 coinswap pool creation fee denom)","3ba0ba4 (C03 htlc blocked recipient spelling)","99c804a (C06 farm AdjustPool list order)","5d088f0 (C12 nft transfer uri length)","85f5dba (C12 coinswap blocked recipient spelling)","e31c76b (C11 token mint refusal text printed memory addresses)"]
checks=[]
for p in props:
    i=p['id']
    if i in T:
        lvl,tech=T[i]
        checks.append({
          "property_id":i,
          "quick_cmd":"./check %s --tier quick"%i,
          "thorough_cmd":"./check %s --tier thorough"%i,
          "evidence_file":"/verif/evidence/%s.json"%i,
          "replay_cmd_template":"./check %s --replay {path}"%i,
          "engine":"vcheck",
          "level_claimed":{"category":lvl,"text":"Held on the executions explored: the real module code runs inside the real application under a directed hostile workload while a reference-model monitor checks the property's relations at every tx/block boundary; no claim beyond the cases, magnitudes and interleavings listed in the evidence file.","design_ref":"DESIGN.md §4 "+i},
          "level_note":"Trusted: the harness rig (ABCI driving, snapshots via bank/keeper iterators and raw store walks), the reference model in /verif/internal/prop, Cosmos SDK v0.50.10 below the modules. Sampling, not exhaustive.",
          "technique":tech})
na=[]
for p in props:
    i=p['id']
    if i in T: continue
    na.append({"property_id":i,"reason":NA.get(i,"check not built yet in this round (planned: DESIGN.md §4 %s); not claimed until its monitor exists and is silent on the unchanged tree"%i)})
m={"version":1,
 "setup_cmd":"./setup.sh",
 "hooks":{"guard":"verif","enable":"no source hooks: every observation point comes from public BaseApp/keeper APIs at application construction time; checks build /repo's working tree through go.mod replace directives","baseline_off_cmd":"/verif/baseline_off.sh","source_commits":[],"add_only":True},
 "engines":[{"name":"vcheck","path":"/verif/cmd/vcheck","serves_properties":sorted(T),"kind_free_text":"Go harness: real SimApp driven through ABCI with per-tx/per-block probes, reference-model monitors, child process per case"}],
 "checks":checks,
 "not_applicable":na,
 "notes":"See DESIGN.md. Fix commits in /repo: "+"; ".join(FIXES)+"."}
json.dump(m,open('/verif/MANIFEST.json','w'),indent=1)
print("claimed",sorted(T))
