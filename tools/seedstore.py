#!/usr/bin/env python3
# tools/seedstore.py <id> <property> <worktree> <needs> <caught-json>
import sys,os,shutil,json,subprocess,glob
sid,prop,wt,needs,caught=sys.argv[1:6]
d='/verif/seeded/%s'%sid
os.makedirs(d,exist_ok=True)
shutil.copy(wt+'/seed/patch.diff',d+'/patch.diff')
for f in glob.glob(wt+'/seed/*'):
    if f.endswith('patch.diff'): continue
    shutil.copy(f,d+'/'+os.path.basename(f)+('.txt' if f.endswith('_test.go') else ''))
base=subprocess.check_output(['git','-C',wt,'log','--format=%h','-1']).decode().strip()
meta={"id":sid,"breaks_property":prop,"base_commit":base,"needs_to_manifest":needs,
 "confirmed":{"how":"tools/seedconfirm.sh in the agent's scratch worktree: module tests pass with the change (demo excluded); demo fails with the change; demo passes after `git apply -R seed/patch.diff`","result":"confirmed"},
 "demo":"see README.md (the *_test.go.txt file is the demonstration; copy it to the path named there, without the .txt suffix)",
 "detection":json.loads(caught)}
json.dump(meta,open(d+'/meta.json','w'),indent=1)
print("stored",d)
