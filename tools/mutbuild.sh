#!/bin/bash
# tools/mutbuild.sh <scratch-repo-dir> : build bin/vcheck-mut against a scratch copy of /repo (for sensitivity tests)
set -e
cd "$(dirname "$0")/.."
export GOFLAGS=-mod=mod GOPROXY=off GOSUMDB=off GOTOOLCHAIN=local
d="${1:?scratch repo dir}"
sed "s#=> /repo/#=> $d/#" go.mod > go.mut.mod && cp go.sum go.mut.sum
go build -modfile=go.mut.mod -o bin/vcheck-mut ./cmd/vcheck
rm -f go.mut.mod go.mut.sum
