#!/usr/bin/env python3
# Regenerates the catch matrix in DESIGN.md §7.1 from seeded/*/meta.json
import json,glob,re
rows=[]
for f in sorted(glob.glob('/verif/seeded/*/meta.json')):
    m=json.load(open(f))
    d=m['detection']
    keys=", ".join("`%s`"%k for k in d.get('keys',[])[:3])
    rows.append("| %s | %s | %s | %s | %s |"%(m['id'],m['breaks_property'],m['needs_to_manifest'].replace('|','/'),d.get('caught_by','').replace('|','/'),keys))
table="<!-- SEED-MATRIX-BEGIN -->\n| seeded change (/verif/seeded/…) | property | needs, in order to manifest | caught by | first keys |\n|---|---|---|---|---|\n"+"\n".join(rows)+"\n<!-- SEED-MATRIX-END -->"
p='/verif/DESIGN.md'
s=open(p).read()
if 'SEED_MATRIX_PLACEHOLDER' in s:
    s=s.replace('SEED_MATRIX_PLACEHOLDER',table)
else:
    s=re.sub(r'<!-- SEED-MATRIX-BEGIN -->.*<!-- SEED-MATRIX-END -->',lambda _:table,s,flags=re.S)
open(p,'w').write(s)
print(len(rows),"rows")
