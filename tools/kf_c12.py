#!/usr/bin/env python3
# Rebuilds the C12 entries of known_findings.json from the table below (other properties' entries are kept).
import json
kf=json.load(open('/verif/known_findings.json'))
kf['findings']=[f for f in kf['findings'] if f['property']!='C12']
def add(key,module,site,what,wit=None):
    kf['findings'].append({"property":"C12","key":key,"module":module,"call_site":site,"what_fails":what,"witness":wit or {}})
svc_site="modules/service/genesis.go ExportGenesis (request contexts exported as stored) vs types.ValidateGenesis (requires State=PAUSED and BatchState=BATCHCOMPLETED); in-flight requests and their escrowed fees are not exported at all"
for st,how in [("running","a feed, a repeated call or an oracle-seeded random request is running at the export height"),("completed","a request context was killed and its last batch has not expired yet at the export height"),("batch_running","a request context was paused while its current batch is still awaiting responses at the export height (which offending context the validation names first depends on map iteration order)")]:
    for mode,mod in [("as-is-full","service"),("as-is-isolated","service"),("as-is-isolated","oracle"),("as-is-isolated","random")]:
        cls = "panic: invalid request context state, id:#, state:%s"%st if st!="batch_running" else "panic: invalid request context batch state, id:#, batchstate:batch_running"
        add("C12:import-rejected:%s:%s:%s"%(mode,mod,cls),"service",svc_site,
            "as-is export (without the zero-height preparation step) of a chain holding a %s service request context is rejected on import%s; only the PrepForZeroHeightGenesis path re-imports"%(st.upper(),"" if mod=="service" else " (the isolated import of %s carries the service section it depends on)"%mod),
            {"how":how,"error":"invalid request context state, ID:<ctx>, State:%s"%st.upper()})
htlc_site="modules/htlc/genesis.go InitGenesis checks (ValidateLiveAsset, GetSupplyLimit, supply <= limit) are stricter than MsgUpdateParams, which accepts any structurally valid asset list whatever supplies and open transfers exist"
for cls,what,how in [
 ("panic: #asset: asset not found","an asset removed by a parameter update while its supply record (or an open transfer) still exists makes the exported genesis fail import","MsgUpdateParams drops an asset from AssetParams after transfers of it were created"),
 ("panic: #asset: asset is currently inactive","an asset deactivated by a parameter update while a transfer of it is still open makes the exported genesis fail import","MsgUpdateParams sets Active=false with an open HTLT of that asset"),
 ("panic: asset's current supply #coin is over the supply limit #","an asset whose limit was lowered below its current supply by a parameter update makes the exported genesis fail import","MsgUpdateParams lowers SupplyLimit.Limit below the recorded current supply"),
 ("panic: asset's incoming supply #coin is over the supply limit #","an asset whose limit was lowered below the amount of its open incoming transfers by a parameter update makes the exported genesis fail import","MsgUpdateParams lowers SupplyLimit.Limit below the recorded incoming supply"),
 ("panic: asset's incoming supply + current supply #coin is over the supply limit #","an asset whose limit was lowered below current + incoming supply by a parameter update makes the exported genesis fail import","MsgUpdateParams lowers SupplyLimit.Limit below current + incoming supply"),
]:
    for mode in ["as-is-full:htlc","as-is-isolated:htlc","zero-height:htlc"]:
        add("C12:import-rejected:%s:%s"%(mode,cls),"htlc",htlc_site,what+" (%s)"%mode.split(':')[0],{"how":how})
for mode in ["as-is-full","as-is-isolated","zero-height"]:
    add("C12:not-a-fixpoint:%s:record"%mode,"record","modules/record/genesis.go InitGenesis -> keeper.AddRecord re-derives every id from a restarted counter; ExportGenesis lists records in id order",
        "record ids are not part of the exported genesis: import re-derives them from a counter restarted at 0 in hash order, so ids (and the order of the re-exported list) change (%s)"%mode,{"example":"43 records exported at height 26; after import entry #0 of the re-export is a different record"})
    add("C12:query-differs:%s:record:record-by-id"%mode,"record","modules/record/genesis.go InitGenesis -> keeper.AddRecord",
        "a record created before the export can no longer be read under its id after import: ids are re-derived on import (%s)"%mode,{"query":"/irismod.record.Query/Record"})
for label in ["pools","pool","farmer-stake-and-pending-rewards"]:
    add("C12:query-differs:zero-height:farm:%s"%label,"farm","modules/farm has no PrepForZeroHeightGenesis: pools keep absolute start/end/last-reward heights while the re-imported chain restarts at height 1",
        "after a zero-height export/import farm pools keep the old chain's absolute heights: pools that had ended are reported as running again (and pending rewards are computed against the wrong height) (%s query)"%label,
        {"example":"pool farm-2 start 12 end 21 exported at height 26: expired=true before, expired=false after import at height 1"})
json.dump(kf,open('/verif/known_findings.json','w'),indent=1)
print(len([f for f in kf['findings'] if f['property']=='C12']),"C12 findings")
