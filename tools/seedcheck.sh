#!/bin/bash
# tools/seedcheck.sh <worktree> <Cxx> [more Cxx...] : build the harness against a scratch worktree holding a seeded change
# and run the quick checks of the given properties; prints the verdict lines.
cd "$(dirname "$0")/.."
wt="$1"; shift
tools/mutbuild.sh "$wt" || exit 3
mkdir -p /tmp/seedcheck-out && cp known_findings.json /tmp/seedcheck-out/
for p in "$@"; do
  out=$(VERIF_DIR=/tmp/seedcheck-out ./bin/vcheck-mut $p --tier ${TIER:-quick} 2>&1); rc=$?
  echo "== $p rc=$rc: $(echo "$out" | tail -1)"
  echo "$out" | grep -A1 "^VIOLATION" | grep -v "^VIOLATION\|^--" | cut -c1-260 | sort | uniq -c | sort -rn | head -6
done
