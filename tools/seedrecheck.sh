#!/bin/bash
# tools/seedrecheck.sh <stored seed id> <Cxx>... : apply a stored seeded change to a scratch worktree of /repo (removed
# afterwards) and run the given checks against it - used when a check was strengthened after the seed was stored
cd "$(dirname "$0")/.."
id="$1"; shift
wt=/tmp/recheck-$$
git -C /repo worktree add --detach "$wt" HEAD >/dev/null 2>&1 || exit 3
if ! git -C "$wt" apply "/verif/seeded/$id/patch.diff"; then echo "patch does not apply"; git -C /repo worktree remove --force "$wt"; exit 3; fi
tools/seedcheck.sh "$wt" "$@"
git -C /repo worktree remove --force "$wt"; git -C /repo worktree prune
