#!/bin/bash
# tools/seedconfirm.sh <worktree> <module> <demo go-test -run pattern> [pkg=./keeper/]
# confirms in the scratch worktree: module tests pass with the change (demo excluded), demo fails with it, passes without it.
wt="$1"; mod="$2"; pat="$3"; pkg="${4:-./keeper/}"
export GOFLAGS=-mod=mod GOPROXY=off GOSUMDB=off GOTOOLCHAIN=local
cd "$wt/modules/$mod" || exit 3
hold=/tmp/_demo_hold_$(basename "$wt")_$$
demo=$(cd "$wt" && git status --short | grep '^??' | grep '_test.go' | awk '{print $2}' | grep -v '^seed/' | head -1)
echo "demo file: $demo"
mv "$wt/$demo" $hold
t1=$(go test -vet=off -count=1 ./... 2>&1 | grep -v "no test files" | grep -c "^FAIL\|^---"); echo "existing tests with change: failures=$t1"
mv $hold "$wt/$demo"
go test -vet=off -count=1 $pkg -run "$pat" > $hold.d1 2>&1; r1=$?; echo "demo with change: rc=$r1 ($(grep -c -- '--- FAIL' $hold.d1) failing)"
(cd "$wt" && git apply -R seed/patch.diff) || { echo "cannot revert patch"; exit 3; }
go test -vet=off -count=1 $pkg -run "$pat" > $hold.d2 2>&1; r2=$?; echo "demo without change: rc=$r2"
(cd "$wt" && git apply seed/patch.diff)
if [ $t1 -eq 0 ] && [ $r1 -ne 0 ] && [ $r2 -eq 0 ]; then echo "CONFIRMED"; else echo "NOT CONFIRMED"; tail -n 5 $hold.d1; tail -n 5 $hold.d2; fi

rm -f $hold $hold.d1 $hold.d2
