#!/bin/bash
# tools/seedrun.sh <worktree> <tag> <Cxx>... : like seedcheck.sh, with a binary, modfile and output directory of its own
# (bin/vcheck-mut-<tag>), so that several seeded changes can be judged in parallel
cd "$(dirname "$0")/.."
export GOFLAGS=-mod=mod GOPROXY=off GOSUMDB=off GOTOOLCHAIN=local
wt="$1"; tag="$2"; shift 2
sed "s#=> /repo/#=> $wt/#" go.mod > go.mut-$tag.mod && cp go.sum go.mut-$tag.sum
go build -modfile=go.mut-$tag.mod -o bin/vcheck-mut-$tag ./cmd/vcheck; rc=$?
rm -f go.mut-$tag.mod go.mut-$tag.sum
[ $rc -eq 0 ] || { echo "BUILD FAILED"; exit 3; }
mkdir -p /tmp/seedcheck-out-$tag && cp known_findings.json /tmp/seedcheck-out-$tag/
for p in "$@"; do
  out=$(VERIF_DIR=/tmp/seedcheck-out-$tag ./bin/vcheck-mut-$tag $p --tier ${TIER:-quick} 2>&1); rc=$?
  echo "== $p rc=$rc: $(echo "$out" | tail -1)"
  echo "$out" | grep -A1 "^VIOLATION" | grep -v "^VIOLATION\|^--" | cut -c1-260 | sort | uniq -c | sort -rn | head -6
  echo "$out" | grep "^INCONCLUSIVE" | head -3
done
rm -f bin/vcheck-mut-$tag; rm -rf /tmp/seedcheck-out-$tag
