#!/bin/bash
# tools/sweep.sh <tier> <seed>... : run every claimed check and print one line each (exit 1 if any is not silent)
cd "$(dirname "$0")/.."
tier="${1:-quick}"; shift
seeds="${*:-1}"
bad=0
for s in $seeds; do
  for p in $(python3 -c "import json;print(' '.join(c['property_id'] for c in json.load(open('MANIFEST.json'))['checks']))"); do
    out=$(VERIF_SEED=$s ./check $p --tier $tier 2>&1); rc=$?
    echo "seed=$s rc=$rc $(echo "$out" | tail -1)"
    if [ $rc -ne 0 ]; then bad=1; echo "$out" | grep -E "^(VIOLATION|INCONCLUSIVE)" | head -5; fi
  done
done
exit $bad
