#!/bin/bash
# Build the framework offline from files on disk (warms the Go build cache too).
set -e
cd "$(dirname "$0")"
export GOFLAGS=-mod=mod GOPROXY=off GOSUMDB=off GOTOOLCHAIN=local CGO_ENABLED=1
mkdir -p bin evidence replays
go build -o bin/vcheck ./cmd/vcheck
echo "setup ok"
